#!/bin/bash
# MANIFEST.setup_cmd: build the orchestrator and warm the race-instrumented
# build cache (offline; everything comes from the module cache and /repo).
set -u
cd /verif/harness || exit 1
export GOFLAGS=-mod=mod GOPROXY=off GOSUMDB=off GOTOOLCHAIN=local
mkdir -p /verif/harness/bin /verif/.work /verif/evidence/replays
go build -o /verif/harness/bin/vcheck ./cmd/vcheck || exit 1
T=/verif/.work/setup.$$
mkdir -p "$T"
( cd /repo && go build -race -tags verif -o "$T/" ./server ./agent ./utils/tcpbridge/tcp-bridge-frontend ./utils/tcpbridge/tcp-bridge-backend ) || echo "warning: repo binaries did not build"
go build -race -tags verif -o "$T/vworker" ./cmd/vworker || echo "warning: vworker did not build"
( cd /repo/app && go build -race -tags verif -o "$T/appbin" . ) || echo "warning: app did not build"
rm -rf "$T"
echo setup done
