package props

import (
	"bufio"
	"crypto/sha1"
	"encoding/base64"
	"fmt"
	"io"
	"net"
	"net/http"
	"net/http/cookiejar"
	"net/url"
	"sort"
	"strings"
	"sync"
	"time"

	"golang.org/x/net/publicsuffix"

	"verif/internal/core"
	"verif/internal/fakes"
	"verif/internal/rawhttp"
)

// c10E1 is the end-to-end sample of C10: the real agent binary with session
// tracking AND the websocket shim enabled (the wiring in agent.go), driven
// through the fake proxy. Histories mix plain requests and shim open
// requests under path-scoped cookies; the model is one cookiejar per issued
// session. Judged: the client only ever receives the session cookie, the
// backend (plain requests and websocket handshakes) sees exactly the jar's
// cookies for the request URL plus the client's own, never the session cookie.
func c10E1(r *core.Run) {
	agentBin, err := r.BuildRepoBinary("./agent", "agent")
	if err != nil {
		r.Broken("C10 end-to-end sample: " + err.Error())
		return
	}
	md, err := fakes.NewMetadata()
	if err != nil {
		r.Broken(err.Error())
		return
	}
	defer md.Close()
	const sidName = "SIDE1"
	const host = "c10e1.example"
	var mu sync.Mutex
	seen := map[string][]string{} // tok -> Cookie header values the backend saw (plain or handshake)
	script := map[string][]string{}
	backend, err := rawhttp.NewServer(func(req *rawhttp.Message, reqErr error, conn net.Conn, br *bufio.Reader) bool {
		if reqErr != nil {
			return false
		}
		tok := ""
		if v := req.Get("X-Tok"); len(v) > 0 {
			tok = v[0]
		}
		mu.Lock()
		seen[tok] = append([]string{}, req.Get("Cookie")...)
		if len(req.Get("Cookie")) == 0 {
			seen[tok] = []string{""}
		}
		set := script[tok]
		mu.Unlock()
		if rawhttp.HasToken(req.Get("Upgrade"), "websocket") {
			key := ""
			if v := req.Get("Sec-WebSocket-Key"); len(v) > 0 {
				key = v[0]
			}
			h := sha1.Sum([]byte(key + "258EAFA5-E914-47DA-95CA-C5AB0DC85B11"))
			var w rawhttp.Builder
			// (sticky-session style: the backend sets a cookie on the handshake response as well)
			w.Line("HTTP/1.1 101 Switching Protocols").Field("Upgrade", "websocket").Field("Connection", "Upgrade").
				Field("Set-Cookie", "backendws=ws-"+tok+"; Path=/").
				Field("Sec-WebSocket-Accept", base64.StdEncoding.EncodeToString(h[:])).End()
			conn.Write(w.Bytes())
			conn.SetDeadline(time.Now().Add(20 * time.Second))
			io.Copy(io.Discard, br)
			return false
		}
		var w rawhttp.Builder
		w.Line("HTTP/1.1 200 OK")
		for _, sc := range set {
			w.Field("Set-Cookie", sc)
		}
		w.Field("Content-Length", "2").End()
		w.WriteString("ok")
		_, err := conn.Write(w.Bytes())
		return err == nil
	})
	if err != nil {
		r.Broken(err.Error())
		return
	}
	defer backend.Close()
	px, err := fakes.NewProxy()
	if err != nil {
		r.Broken(err.Error())
		return
	}
	defer px.Close()
	px.ListWait = 50 * time.Millisecond
	agent, err := startAgent(r, agentBin, "agent-c10e1", md, px.URL(), backend.Addr(), "b10e1",
		"--session-cookie-name="+sidName, "--disable-ssl-for-test=true", "--shim-path=shim", "--shim-websockets=true")
	if err != nil {
		r.Broken(err.Error())
		return
	}
	defer agent.Kill()

	rng := r.Rand("c10e1")
	nHist := r.Pick(6, 60)
	steps := 0
	for h := 0; h < nHist; h++ {
		jar, _ := cookiejar.New(&cookiejar.Options{PublicSuffixList: publicsuffix.List})
		sid := "" // session cookie value issued by the agent
		paths := []string{"/", "/app/login", "/app/x", "/app/ws", "/other", "/app/deep/y"}
		for st := 0; st < 8; st++ {
			tok := fmt.Sprintf("s%dh%dst%d", r.Seed, h, st)
			path := paths[rng.Intn(len(paths))]
			shim := sid != "" && st >= 2 && rng.Intn(3) == 0
			if st == 0 {
				path, shim = "/app/login", false
			}
			// one step per history is a direct websocket handshake by the client (not the shim's open call)
			directUpgrade := !shim && sid != "" && st == 5
			own := ""
			if rng.Intn(3) == 0 {
				own = "theme=dark-" + tok
			}
			// what the backend will set (plain requests only)
			var set []string
			if !shim && !directUpgrade {
				switch rng.Intn(4) {
				case 0:
					set = []string{"auth=a-" + tok + "; Path=/app", "root=r-" + tok + "; Path=/"}
				case 1:
					set = []string{"deep=d-" + tok + "; Path=/app/deep; Max-Age=3600"}
				case 2:
					set = []string{"auth=gone; Path=/app; Max-Age=0"}
				}
				if st == 0 {
					set = []string{"auth=a-" + tok + "; Path=/app", "root=r-" + tok + "; Path=/"}
				}
			}
			mu.Lock()
			script[tok] = set
			mu.Unlock()
			u := &url.URL{Scheme: "https", Host: host, Path: path}
			var want []string
			if own != "" {
				want = append(want, own)
			}
			for _, c := range jar.Cookies(u) {
				want = append(want, c.Name+"="+c.Value)
			}
			var cookieHdr []string
			if sid != "" {
				cookieHdr = append(cookieHdr, sidName+"="+sid)
			}
			if own != "" {
				cookieHdr = append(cookieHdr, own)
			}
			// the client's cookies travel in one Cookie field or (as HTTP/2 front ends and some clients do) in several
			method := "POST"
			layout := "one-field"
			writeCookies := func(w *rawhttp.Builder) {
				switch {
				case len(cookieHdr) == 2 && st%3 == 1:
					layout = "two-fields-session-first"
					w.Field("Cookie", cookieHdr[0]).Field("Cookie", cookieHdr[1])
				case len(cookieHdr) == 2 && st%3 == 2:
					layout = "two-fields-session-last"
					w.Field("Cookie", cookieHdr[1]).Field("cookie", cookieHdr[0])
				case len(cookieHdr) > 0:
					w.Field("Cookie", strings.Join(cookieHdr, "; "))
				}
			}
			var w rawhttp.Builder
			if shim {
				body := "ws://ignored.example" + path + "?tok=" + tok
				w.Line("POST /shim/open HTTP/1.1").Field("Host", host).Field("X-Tok", tok)
				writeCookies(&w)
				w.Field("Content-Length", fmt.Sprint(len(body))).End()
				w.WriteString(body)
			} else {
				method = []string{"GET", "GET", "OPTIONS", "POST", "DELETE", "PUT", "PROPFIND"}[(h+st)%7]
				if directUpgrade {
					method = "GET"
				}
				w.Line(method+" "+path+" HTTP/1.1").Field("Host", host).Field("X-Tok", tok)
				if directUpgrade {
					w.Field("Connection", "Upgrade").Field("Upgrade", "websocket").Field("Sec-WebSocket-Version", "13").Field("Sec-WebSocket-Key", "dGhlIHNhbXBsZSBub25jZQ==")
				}
				writeCookies(&w)
				if method == "POST" || method == "PUT" {
					w.Field("Content-Length", "0")
				}
				w.End()
			}
			px.Enqueue(tok, w.Bytes(), "")
			up, ok := px.Wait(tok, 20*time.Second)
			steps++
			kind := "plain"
			if shim {
				kind = "shim-open"
			}
			if directUpgrade {
				kind = "direct-upgrade"
			}
			r.Case(fmt.Sprintf("e1|%s %s|path=%s|own=%v|sets=%d|has-session=%v|cookies=%s", kind, method, path, own != "", len(set), sid != "", layout))
			if !ok || up.Resp == nil {
				r.Inconclusive(fmt.Sprintf("C10 end-to-end step %s: no response uploaded", tok))
				break
			}
			// client side: only the session cookie may be set, and only when none was presented
			var issued string
			for _, sc := range up.Resp.Get("Set-Cookie") {
				name := strings.SplitN(strings.SplitN(sc, ";", 2)[0], "=", 2)
				if strings.TrimSpace(name[0]) != sidName {
					r.Violate("C10:e1:backend-cookie-leaked-to-client:"+kind, fmt.Sprintf("step %s (%s %s): client received Set-Cookie %q", tok, kind, path, sc), nil, nil)
					continue
				}
				if len(name) == 2 {
					issued = strings.TrimSpace(name[1])
				}
			}
			if sid != "" && issued != "" {
				r.Violate("C10:e1:session-cookie-issued-to-bearer:"+kind, fmt.Sprintf("step %s (%s %s): the client presented its session cookie but was issued a new one", tok, kind, path), nil, nil)
			}
			if sid == "" {
				if issued == "" {
					r.Violate("C10:e1:session-cookie-not-issued:"+kind, fmt.Sprintf("step %s: the client presented no session cookie and was not issued one", tok), nil, nil)
					break
				}
				sid = issued
			}
			// backend side
			mu.Lock()
			got, reached := seen[tok]
			mu.Unlock()
			if !reached {
				r.Inconclusive(fmt.Sprintf("C10 end-to-end step %s (%s) did not reach the backend (status %d)", tok, kind, up.Resp.Status))
			} else {
				var gotPairs []string
				for _, hv := range got {
					for _, p := range strings.Split(hv, ";") {
						if p = strings.TrimSpace(p); p != "" {
							gotPairs = append(gotPairs, p)
						}
					}
				}
				for _, p := range gotPairs {
					if strings.HasPrefix(p, sidName+"=") {
						r.Violate("C10:e1:session-cookie-reached-backend:"+kind, fmt.Sprintf("step %s (%s %s): the backend saw the agent's session cookie %q", tok, kind, path, p), nil, nil)
					}
				}
				a, b := append([]string{}, gotPairs...), append([]string{}, want...)
				sort.Strings(a)
				sort.Strings(b)
				if strings.Join(a, "\x00") != strings.Join(b, "\x00") {
					r.Violate("C10:e1:backend-cookies-differ-from-jar:"+kind, fmt.Sprintf("step %s (%s %s): backend saw cookies %q, the session's jar plus the client's own cookies give %q", tok, kind, path, a, b), nil, nil)
				}
			}
			// model update from what the backend set
			if len(set) > 0 {
				hdr := http.Header{}
				for _, sc := range set {
					hdr.Add("Set-Cookie", sc)
				}
				jar.SetCookies(u, (&http.Response{Header: hdr}).Cookies())
			}
			if shim && up.Resp.Status == 200 {
				// close the shim session again
				var id string
				if i := strings.Index(string(up.Resp.Body), `"id":"`); i >= 0 {
					rest := string(up.Resp.Body)[i+6:]
					id = rest[:strings.IndexByte(rest, '"')]
				}
				cb := fmt.Sprintf(`{"id":%q}`, id)
				var cw rawhttp.Builder
				cw.Line("POST /shim/close HTTP/1.1").Field("Host", host).Field("Cookie", sidName+"="+sid).Field("Content-Length", fmt.Sprint(len(cb))).End()
				cw.WriteString(cb)
				px.Enqueue(tok+"-close", cw.Bytes(), "")
				px.Wait(tok+"-close", 10*time.Second)
			}
		}
	}
	r.Add("e1_steps_through_agent_binary", steps)
	judgeProcs(r, true, agent)
}
