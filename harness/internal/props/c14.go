package props

import (
	"bufio"
	"bytes"
	"compress/gzip"
	"encoding/json"
	"fmt"
	"html"
	"net"
	"path/filepath"
	"strconv"
	"strings"
	"sync"
	"time"

	"verif/internal/core"
	"verif/internal/fakes"
	"verif/internal/rawhttp"
)

// c14Spec mirrors worker.c14Spec (the orchestrator must not import the worker
// package: it links the code under test).
type c14Spec struct {
	Seed   int64 `json:"seed"`
	Shard  int   `json:"shard"`
	Shards int   `json:"shards"`
	Banner int   `json:"banner"`
	Shim   int   `json:"shim"`
	Only   int   `json:"only"`
}

type c14Line struct {
	I       *int            `json:"i"`
	Kind    string          `json:"k"`
	Class   string          `json:"c"`
	Outcome string          `json:"o"`
	Flags   []string        `json:"f"`
	Sig     string          `json:"sig"`
	Msg     string          `json:"msg"`
	Case    json.RawMessage `json:"case"`
	Detail  json.RawMessage `json:"detail"`
	Done    *int            `json:"done"`
	Fatal   string          `json:"fatal"`
}

const c14NilCases = 5

// C14 — banner and shim-script injection touch HTML documents only.
func C14(r *core.Run) {
	r.SetRule("E2 differential: the same scripted handler (status, repeated header fields, body in a chosen Write segmentation, optional explicit WriteHeader/Flush/103) served directly and through banner.Proxy(…, metricHandler=nil); two thirds of the banner cases lie on the boundary of D = GET ∧ Accept∋text/html ∧ 200 ∧ ¬attachment ∧ HTML type (a D point with 0, 1 or 2 dimensions flipped × every Sec-Fetch-Mode/Dest/Referer combination), one third walks the product method×Accept×status×Content-Type×Content-Disposition; websockets.ShimBody applied to responses whose body is a scripted reader (layout of <head> × read segmentation × content type enumerated). class = (component, method, Accept class, framed?, status, content-type class, disposition) resp. (content type, <head> layout, read segmentation, Content-Length present)")
	r.Assume("paths Go's ServeMux redirects by itself are not generated; inputs whose classification the statement leaves open (Accept/Content-Type/disposition in other letter case, text/html only in a second Accept line or with q=0, mixed Content-Type values, Referer host in other case) are only held to 'original response or well-formed frame'; a <head> that is not complete within the first read of the backend body may or may not get the script; 'marked uncacheable' is read as Cache-Control no-cache or no-store (Pragma/Expires are counted, not required); a stale backend Content-Length on the frame page is counted, not judged (the agent's response writer never forwards it); E1 sample through the agent binary: see e1_sample")
	bin := r.MustBuild(r.BuildWorker())

	nBanner, nShim := r.Pick(3600, 170000), r.Pick(1600, 80000)
	shards := r.Pick(8, 14)
	only := -1
	if r.OnlyCase >= 0 {
		only, shards = r.OnlyCase, 1
	}
	timeout := time.Duration(r.Pick(180, 1500)) * time.Second

	type shardOut struct {
		out  []byte
		log  string
		err  error
		took time.Duration
	}
	outs := make([]shardOut, shards)
	var wg sync.WaitGroup
	for s := 0; s < shards; s++ {
		wg.Add(1)
		go func(s int) {
			defer wg.Done()
			time.Sleep(time.Duration(s) * 3 * time.Millisecond) // distinct log names
			spec, _ := json.Marshal(c14Spec{Seed: r.Seed, Shard: s, Shards: shards, Banner: nBanner, Shim: nShim, Only: only})
			t0 := time.Now()
			o, lp, err := r.RunWorker(bin, "c14", spec, timeout)
			outs[s] = shardOut{o, lp, err, time.Since(t0)}
		}(s)
	}
	wg.Wait()

	seen := map[int]bool{}
	outcomes := map[string]int{}
	flags := map[string]int{}
	kinds := map[string]int{}
	for s, so := range outs {
		done := false
		sc := bufio.NewScanner(bytes.NewReader(so.out))
		sc.Buffer(make([]byte, 1<<20), 1<<26)
		for sc.Scan() {
			var ln c14Line
			if err := json.Unmarshal(sc.Bytes(), &ln); err != nil {
				r.Broken(fmt.Sprintf("shard %d: unparsable worker line %q: %v", s, core.Trunc(sc.Text(), 200), err))
				continue
			}
			if ln.Fatal != "" {
				r.Broken(fmt.Sprintf("shard %d: %s", s, ln.Fatal))
				continue
			}
			if ln.Done != nil {
				done = true
				continue
			}
			if ln.I == nil {
				continue
			}
			if seen[*ln.I] {
				r.Broken(fmt.Sprintf("case %d reported twice", *ln.I))
				continue
			}
			seen[*ln.I] = true
			if ln.Sig == "HARNESS" {
				r.Broken(fmt.Sprintf("case %d: %s", *ln.I, ln.Msg))
				continue
			}
			r.Case(ln.Class)
			kinds[ln.Kind]++
			outcomes[ln.Outcome]++
			for _, f := range ln.Flags {
				flags[f]++
			}
			var cs, det interface{}
			if len(ln.Case) > 0 {
				json.Unmarshal(ln.Case, &cs)
			}
			if len(ln.Detail) > 0 {
				json.Unmarshal(ln.Detail, &det)
			}
			if ln.Sig != "" {
				r.Violate(ln.Sig, fmt.Sprintf("case %d (replay: VERIF_ONLY_CASE=%d): %s", *ln.I, *ln.I, ln.Msg), cs, det)
			} else if cs != nil && (ln.Outcome == "frame" || ln.Outcome == "shim:inserted" || ln.Outcome == "framed-original-body" || ln.Outcome == "identical") {
				r.Sample(map[string]interface{}{"case": cs, "outcome": ln.Outcome, "flags": ln.Flags})
			}
		}
		// crash monitor: a process-fatal report is attributed to the last announced case
		crashed := false
		for _, ex := range core.CrashMarkers(so.log) {
			crashed = true
			last := core.LastStarted(so.log, 1)
			where := "banner"
			if len(last) > 0 && (strings.HasPrefix(last[0], "s") || strings.HasPrefix(last[0], "n")) {
				where = "shim"
			}
			r.Violate("C14:panic:"+where+":"+core.CrashSignature(ex), fmt.Sprintf("worker shard %d died while running case %v: %s", s, last, ex), map[string]interface{}{"last_started": last}, nil)
		}
		if !done && !crashed {
			r.Broken(fmt.Sprintf("worker shard %d did not finish (err=%v, last started %v, %d B of output)", s, so.err, core.LastStarted(so.log, 2), len(so.out)))
		} else if so.err != nil && !crashed {
			r.Broken(fmt.Sprintf("worker shard %d: %v", s, so.err))
		}
		r.Max("slowest_shard_ms", int(so.took/time.Millisecond))
	}
	want := nBanner + nShim + c14NilCases
	if only >= 0 {
		want = 1
	}
	if len(seen) != want && r.Violations() == 0 {
		r.Broken(fmt.Sprintf("%d of %d cases reported", len(seen), want))
	}

	r.Set("cases_by_component", kinds)
	r.Set("outcomes", outcomes)
	r.Set("observation_flags", flags)
	r.Set("frames_served", outcomes["frame"]+outcomes["open:frame"])
	r.Set("identical_passthroughs", outcomes["identical"]+outcomes["open:identical"]+outcomes["shim:identical-nonhtml"])
	r.Set("framed_requests_given_original_body", outcomes["framed-original-body"]+outcomes["open:original-body"])
	r.Set("shim_insertions", outcomes["shim:inserted"])
	r.Set("shim_not_inserted_on_html", outcomes["shim:not-inserted"])
	r.Set("worker_shards", shards)
	if only < 0 {
		c14E1Sample(r)
	}

	r.JudgeRaces(core.ParseRaceLogs(filepath.Join(r.WorkDir, "race-")))
	min := r.Pick(5000, 240000)
	if only >= 0 {
		min = 1
	}
	r.Finish(min)
}

// ------------------------------------------------------------ E1 sample

// c14E1Case is one request sent through the real agent binary (started with
// --inject-banner --shim-websockets --shim-path) by way of the fake proxy.
type c14E1Case struct {
	N       int
	Method  string
	Target  string
	URLKind string
	Accept  string
	Framing string // none | dest-iframe | referer-same
	Status  int
	CT      string
	CD      string
	Interim bool
	Head    string // early | beyond | none
	Body    []byte `json:"-"`
	D       bool
	Framed  bool
	HTML    bool // Content-Type contains "html": the shim script may be spliced in
	Gzip    bool // non-HTML body served gzip-compressed (Content-Encoding: gzip) to a client that accepts gzip
}

const c14E1Host = "c14.example"
const c14E1Banner = `<b id="c14-banner">proxied {{.X}} &amp; "quoted"</b>`

func c14E1Cases(r *core.Run, n int) []*c14E1Case {
	rng := r.Rand("c14-e1")
	var out []*c14E1Case
	for i := 0; i < n; i++ {
		c := &c14E1Case{N: i}
		// the first 24 cases enumerate the corner points, the rest is random
		c.Method = []string{"GET", "GET", "GET", "POST"}[rng.Intn(4)]
		c.Accept = []string{"text/html", "text/html,application/xhtml+xml;q=0.9,*/*;q=0.8", "application/json", ""}[rng.Intn(4)]
		c.Framing = []string{"none", "none", "dest-iframe", "referer-same"}[rng.Intn(4)]
		c.Status = []int{200, 200, 200, 404, 500, 201}[rng.Intn(6)]
		c.CT = []string{"text/html; charset=utf-8", "text/html; charset=utf-8", "application/xhtml+xml", "text/plain", "application/json", ""}[rng.Intn(6)]
		c.CD = []string{"", "", "inline", "attachment; filename=x"}[rng.Intn(4)]
		c.URLKind = []string{"plain", "query", "query", "quote", "entity"}[rng.Intn(5)]
		c.Interim = rng.Intn(10) == 0
		c.Head = []string{"early", "early", "beyond", "none"}[rng.Intn(4)]
		if i < 24 {
			c.Method, c.Accept, c.Status, c.CT, c.CD, c.Framing = "GET", "text/html", 200, "text/html; charset=utf-8", "", "none"
			c.Interim = false
			switch i % 12 {
			case 1:
				c.Method = "POST"
			case 2:
				c.Accept = "application/json"
			case 3:
				c.Status = 404
			case 4:
				c.CT = "text/plain"
			case 5:
				c.CD = "attachment; filename=x"
			case 6:
				c.Framing = "dest-iframe"
			case 7:
				c.Framing = "referer-same"
			case 8:
				c.URLKind = "quote"
			case 9:
				c.URLKind = "entity"
			case 10:
				c.Interim, c.Status = true, 404
			case 11:
				c.Interim = true
			}
		}
		path := fmt.Sprintf("/e1/%d/page.html", i)
		c.Target = path
		switch c.URLKind {
		case "query":
			c.Target += fmt.Sprintf("?x=%d&y=two", rng.Intn(100))
		case "quote":
			c.Target += fmt.Sprintf(`?q="x%d"&r=<b>`, rng.Intn(100))
		case "entity":
			c.Target += fmt.Sprintf("?a=%d&amp;b=2&lt;c", rng.Intn(100))
		}
		pad := func(k int) string {
			b := make([]byte, k)
			for j := range b {
				b[j] = "abcdefghij klmnop\n"[rng.Intn(18)]
			}
			return string(b)
		}
		switch c.Head {
		case "early":
			c.Body = []byte("<!doctype html><html><head><title>" + pad(20) + "</title></head><body>" + pad(200+rng.Intn(3000)) + "<head></body></html>")
		case "beyond":
			c.Body = []byte("<!doctype html><html><!--" + pad(1100+rng.Intn(500)) + "--><head><title>t</title></head><body>" + pad(300) + "</body></html>")
		default:
			c.Body = []byte(pad(1 + rng.Intn(2500)))
		}
		c.HTML = strings.Contains(strings.ToLower(c.CT), "html")
		if !c.HTML && (i%5 == 2 || i == 4 || i == 16) {
			// a compressed non-HTML resource: must pass through byte-identical, still compressed
			var zb bytes.Buffer
			zw := gzip.NewWriter(&zb)
			zw.Write(c.Body)
			zw.Close()
			c.Body = zb.Bytes()
			c.Gzip = true
		}
		c.D = c.Method == "GET" && strings.Contains(c.Accept, "text/html") && c.Status == 200 && !strings.Contains(c.CD, "attachment") && c.HTML
		c.Framed = c.Framing != "none"
		out = append(out, c)
	}
	return out
}

func (c *c14E1Case) raw() []byte {
	var w rawhttp.Builder
	ae := "identity"
	if c.Gzip {
		ae = "gzip"
	}
	w.Line(c.Method+" "+c.Target+" HTTP/1.1").Field("Host", c14E1Host).Field("Accept-Encoding", ae)
	if c.Accept != "" {
		w.Field("Accept", c.Accept)
	}
	switch c.Framing {
	case "dest-iframe":
		w.Field("Sec-Fetch-Dest", "iframe")
	case "referer-same":
		w.Field("Referer", "http://"+c14E1Host+fmt.Sprintf("/e1/%d/page.html", c.N))
	}
	if c.Method == "POST" {
		w.Field("Content-Length", "3").End()
		w.WriteString("abc")
	} else {
		w.End()
	}
	return w.Bytes()
}

func (c *c14E1Case) fields() []rawhttp.Field {
	fs := []rawhttp.Field{{Name: "Set-Cookie", Value: fmt.Sprintf("a=%d; Path=/", c.N)}, {Name: "Set-Cookie", Value: "b=2; Path=/x"}, {Name: "X-Case", Value: strconv.Itoa(c.N)}}
	if c.CT != "" {
		fs = append(fs, rawhttp.Field{Name: "Content-Type", Value: c.CT})
	}
	if c.CD != "" {
		fs = append(fs, rawhttp.Field{Name: "Content-Disposition", Value: c.CD})
	}
	if c.Gzip {
		fs = append(fs, rawhttp.Field{Name: "Content-Encoding", Value: "gzip"})
	}
	return fs
}

func (c *c14E1Case) class() string {
	return fmt.Sprintf("e1|%s|acc:%q|framed:%s|%d|ct:%q|cd:%q|url:%s|head:%s|1xx:%v|gzip:%v", c.Method, c.Accept, c.Framing, c.Status, c.CT, c.CD, c.URLKind, c.Head, c.Interim, c.Gzip)
}

// c14IframeSrcs: entity-decoded src attribute of every iframe start tag,
// tokenised like an HTML parser (quoted values end at the matching quote).
func c14IframeSrcs(doc string) []string {
	var out []string
	low := strings.ToLower(doc)
	sp := func(b byte) bool { return b == ' ' || b == '\t' || b == '\n' || b == '\r' || b == '\f' }
	pos := 0
	for {
		i := strings.Index(low[pos:], "<iframe")
		if i < 0 {
			return out
		}
		p := pos + i + len("<iframe")
		pos = p
		if p >= len(doc) || !(sp(doc[p]) || doc[p] == '>' || doc[p] == '/') {
			continue
		}
		got := false
		for p < len(doc) {
			for p < len(doc) && (sp(doc[p]) || doc[p] == '/') {
				p++
			}
			if p >= len(doc) || doc[p] == '>' {
				break
			}
			ns := p
			for p < len(doc) && !sp(doc[p]) && doc[p] != '=' && doc[p] != '>' && doc[p] != '/' {
				p++
			}
			if p == ns {
				p++
				continue
			}
			name := low[ns:p]
			for p < len(doc) && sp(doc[p]) {
				p++
			}
			val := ""
			if p < len(doc) && doc[p] == '=' {
				p++
				for p < len(doc) && sp(doc[p]) {
					p++
				}
				if p < len(doc) && (doc[p] == '"' || doc[p] == '\'') {
					q := doc[p]
					p++
					vs := p
					for p < len(doc) && doc[p] != q {
						p++
					}
					val = doc[vs:p]
					if p < len(doc) {
						p++
					}
				} else {
					vs := p
					for p < len(doc) && !sp(doc[p]) && doc[p] != '>' {
						p++
					}
					val = doc[vs:p]
				}
			}
			if name == "src" && !got {
				got = true
				out = append(out, html.UnescapeString(val))
			}
		}
		pos = p
	}
}

// c14Unshim returns (body without the script block, inserted?, problem).
func c14Unshim(orig, out []byte) (inserted bool, problem string) {
	const start, end = "<!--START_WEBSOCKET_SHIM-->", "<!--END_WEBSOCKET_SHIM-->"
	if bytes.Equal(orig, out) {
		return false, ""
	}
	if bytes.Count(out, []byte(start)) > 1 {
		return true, "inserted-twice"
	}
	s, e := bytes.Index(out, []byte(start)), bytes.Index(out, []byte(end))
	if s < 0 || e < s {
		return false, "body-corrupted"
	}
	p := s
	if !bytes.HasSuffix(out[:p], []byte("<head>")) && p > 0 && out[p-1] == '\n' {
		p--
	}
	q := e + len(end)
	ok := false
	for _, qq := range []int{q, q + 1} {
		if qq <= len(out) && (qq == q || out[q] == '\n') && bytes.Equal(append(append([]byte{}, out[:p]...), out[qq:]...), orig) {
			ok = true
		}
	}
	if !ok {
		return true, "body-corrupted"
	}
	if !bytes.HasSuffix(out[:p], []byte("<head>")) || bytes.Index(orig, []byte("<head>")) != p-6 {
		return true, "not-after-first-head"
	}
	return true, ""
}

// c14E1Sample sends ~100 requests through the agent binary with both
// injections switched on and applies the same oracle to what the agent
// uploads to the (fake) proxy.
func c14E1Sample(r *core.Run) {
	n := r.Pick(100, 300)
	agentBin, err := r.BuildRepoBinary("./agent", "agent")
	if err != nil {
		r.Broken("E1 sample: " + err.Error())
		return
	}
	md, err := fakes.NewMetadata()
	if err != nil {
		r.Broken("E1 sample: " + err.Error())
		return
	}
	defer md.Close()
	px, err := fakes.NewProxy()
	if err != nil {
		r.Broken("E1 sample: " + err.Error())
		return
	}
	defer px.Close()
	px.ListWait = 50 * time.Millisecond
	cases := c14E1Cases(r, n)
	backend, err := rawhttp.NewServer(func(req *rawhttp.Message, reqErr error, conn net.Conn, br *bufio.Reader) bool {
		if reqErr != nil {
			return false
		}
		parts := strings.Split(req.Target, "/")
		var c *c14E1Case
		if len(parts) > 2 && parts[1] == "e1" {
			if k, err := strconv.Atoi(parts[2]); err == nil && k >= 0 && k < len(cases) {
				c = cases[k]
			}
		}
		var w rawhttp.Builder
		if c == nil {
			w.Line("HTTP/1.1 200 OK").Field("Content-Length", "2").End()
			w.WriteString("ok")
			conn.Write(w.Bytes())
			return true
		}
		if c.Interim {
			w.Line("HTTP/1.1 103 Early Hints").Field("Link", "</early.css>; rel=preload").End()
		}
		w.Line(fmt.Sprintf("HTTP/1.1 %d Scripted", c.Status)).Fields(c.fields()).Field("Content-Length", strconv.Itoa(len(c.Body))).End()
		w.Write(c.Body)
		_, err := conn.Write(w.Bytes())
		return err == nil
	})
	if err != nil {
		r.Broken("E1 sample: " + err.Error())
		return
	}
	defer backend.Close()
	agent, err := startAgent(r, agentBin, "agent-c14", md, px.URL(), backend.Addr(), "b1",
		"--inject-banner="+c14E1Banner, "--banner-height=33px", "--favicon-url=/fav.png", "--shim-websockets", "--shim-path=shim")
	if err != nil {
		r.Broken("E1 sample: " + err.Error())
		return
	}
	defer agent.Kill()

	outcomes := map[string]int{}
	sem := make(chan struct{}, 8)
	var wg sync.WaitGroup
	var mu sync.Mutex
	for _, c := range cases {
		wg.Add(1)
		sem <- struct{}{}
		go func(c *c14E1Case) {
			defer wg.Done()
			defer func() { <-sem }()
			id := fmt.Sprintf("c14e1-%d-%d", r.Seed, c.N)
			px.Enqueue(id, c.raw(), "user@example.com")
			up, ok := px.Wait(id, 60*time.Second)
			if !ok || up == nil || up.Resp == nil {
				r.Inconclusive(fmt.Sprintf("E1 case %d: no complete upload from the agent within 60s", c.N))
				return
			}
			o := c14E1Judge(r, c, up.Resp)
			mu.Lock()
			outcomes[o]++
			mu.Unlock()
		}(c)
	}
	wg.Wait()
	r.Set("e1_sample", map[string]interface{}{"requests": n, "outcomes": outcomes,
		"agent_flags": "--inject-banner=<html> --banner-height=33px --favicon-url=/fav.png --shim-websockets --shim-path=shim (fake proxy, fake metadata, scripted raw-TCP backend)"})
	judgeProcs(r, true, agent)
}

func c14E1Judge(r *core.Run, c *c14E1Case, got *rawhttp.Message) string {
	r.Case(c.class())
	pre := "C14:e1:banner:"
	if c.Interim {
		pre = "C14:e1:banner:interim-1xx:"
	}
	detail := map[string]interface{}{"raw_request": string(c.raw()), "backend_status": c.Status, "backend_fields": c.fields(), "backend_body_len": len(c.Body),
		"client_status": got.Status, "client_fields": got.Fields, "client_body_len": len(got.Body), "client_body_head": core.Trunc(string(got.Body), 600)}
	viol := func(sig, msg string) string {
		r.Violate(sig, fmt.Sprintf("E1 case %d: %s | %s %s Accept=%q framing=%s -> backend %d Content-Type=%q Content-Disposition=%q interim103=%v", c.N, msg, c.Method, c.Target, c.Accept, c.Framing, c.Status, c.CT, c.CD, c.Interim), c, detail)
		return "violation"
	}
	// headers the backend sent must arrive unchanged (Content-Length is transport framing here)
	hdrSame := func() string {
		want, have := fieldMap(c.fields()), fieldMap(got.Fields)
		for k, v := range want {
			if strings.Join(have[k], "\x00") != strings.Join(v, "\x00") {
				return fmt.Sprintf("field %q: %q became %q", k, v, have[k])
			}
		}
		for _, k := range []string{"cache-control", "pragma", "expires", "x-frame-options"} {
			if v, ok := have[k]; ok {
				return fmt.Sprintf("field %q: %q added", k, v)
			}
		}
		return ""
	}
	inserted, shimProblem := c14Unshim(c.Body, got.Body)
	frameOK, frameProblem := func() (bool, string) {
		if got.Status != 200 {
			return false, "frame-status"
		}
		found := false
		for _, src := range c14IframeSrcs(string(got.Body)) {
			if src == c.Target {
				found = true
			}
		}
		if !found {
			if len(c14IframeSrcs(string(got.Body))) > 0 && (c.URLKind == "quote" || c.URLKind == "entity") {
				return false, "frame-url-unescaped:" + c.URLKind
			}
			return false, "frame-missing-url"
		}
		cc := strings.ToLower(strings.Join(got.Get("Cache-Control"), ","))
		if !strings.Contains(cc, "no-store") && !strings.Contains(cc, "no-cache") {
			return false, "frame-cacheable"
		}
		x := got.Get("X-Frame-Options")
		if len(x) != 1 || !strings.EqualFold(x[0], "sameorigin") {
			return false, "frame-not-sameorigin"
		}
		return true, ""
	}()
	switch {
	case !c.D && !c.HTML:
		if got.Status != c.Status {
			return viol(pre+"non-html-altered:status", fmt.Sprintf("status %d became %d", c.Status, got.Status))
		}
		if d := hdrSame(); d != "" {
			return viol(pre+"non-html-altered:headers", d)
		}
		if !bytes.Equal(got.Body, c.Body) {
			return viol("C14:e1:non-html-altered:body", fmt.Sprintf("body %d B became %d B", len(c.Body), len(got.Body)))
		}
		return "identical"
	case !c.D || c.Framed:
		// an HTML document that must not be framed: only the script splice is allowed
		if !c.D {
			if got.Status != c.Status {
				return viol(pre+"non-html-altered:status", fmt.Sprintf("status %d became %d", c.Status, got.Status))
			}
			if d := hdrSame(); d != "" {
				return viol(pre+"non-html-altered:headers", d)
			}
		}
		if shimProblem != "" {
			sig := "C14:e1:shim:" + shimProblem
			if frameOK || strings.Contains(string(got.Body), "inverting-proxy-frame") || !bytes.Contains(got.Body, []byte("_WEBSOCKET_SHIM")) {
				sig = pre + "non-html-altered:body"
				if c.Framed && c.D {
					sig = pre + "framed-body-altered"
				}
			}
			return viol(sig, fmt.Sprintf("body %d B became %d B and is not the original with one script block after the first <head>", len(c.Body), len(got.Body)))
		}
		if inserted {
			return "original+script"
		}
		return "original"
	default: // D and not framed
		if frameOK {
			return "frame"
		}
		if shimProblem == "" {
			return viol(pre+"frame-not-served", "frameable HTML reply to an unframed request came back without the frame")
		}
		return viol(pre+frameProblem, fmt.Sprintf("frame page is not well formed: iframe src values %q, requested URL %q", c14IframeSrcs(string(got.Body)), c.Target))
	}
}
