package props

import "verif/internal/core"

// C14 — stub, replaced by the real check.
func C14(r *core.Run) {
	r.Broken("check not implemented yet")
	r.Finish(1)
}
