package props

import (
	"encoding/json"
	"fmt"
	"regexp"
	"sort"
	"strings"
	"time"

	"verif/internal/core"
)

type c19Backend struct {
	ID       string   `json:"id"`
	Agent    string   `json:"agent"`
	EndUser  string   `json:"end_user"`
	Prefixes []string `json:"prefixes"`
}

type c19Exchange struct {
	Tok          string `json:"tok"`
	Backend      string `json:"backend"`
	User         string `json:"user"`
	Path         string `json:"path"`
	URL          string `json:"url,omitempty"`
	Chain        string `json:"chain,omitempty"` // URL-reuse history this exchange belongs to: "<shape>#<step>"
	Method       string `json:"method"`
	ReqSize      int    `json:"req_size"`
	RespSize     int    `json:"resp_size"`
	Status       int    `json:"status"`
	CacheControl bool   `json:"cache_control"`
	Answer       bool   `json:"answer"`
	Forge        bool   `json:"forge,omitempty"`
}

type c19Viol struct {
	Sig string `json:"sig"`
	Msg string `json:"msg"`
}

type c19Call struct {
	Ep     string `json:"ep"`
	Status int    `json:"status"`
	Ms     int64  `json:"ms"`
	Hung   bool   `json:"hung"`
}

var c19Sizes = []int{1024, 999999, 1000000, 1000001, 1999999, 2000000, 2000001, 3500000}

func c19SizeCls(n int) string {
	switch {
	case n == 0:
		return "none"
	case n < 999999:
		return "<1M"
	case n <= 1000001:
		return fmt.Sprintf("1M%+d", n-1000000)
	case n < 1999999:
		return "1M..2M"
	case n <= 2000001:
		return fmt.Sprintf("2M%+d", n-2000000)
	case n < 2999999:
		return "2M..3M"
	case n <= 3000001:
		return fmt.Sprintf("3M%+d", n-3000000)
	case n < 10999999:
		return "3M..11M"
	case n <= 11000001:
		return fmt.Sprintf("11M%+d", n-11000000)
	}
	return ">11M"
}

func (e *c19Exchange) class() string {
	if e.Chain != "" {
		return fmt.Sprintf("url-reuse|%s|%s|%d|cache-control:%v", e.Chain, e.Method, e.Status, e.CacheControl)
	}
	return fmt.Sprintf("exchange|%s|req:%s|resp:%s|%d|answered:%v|cache-control:%v|forgery-attempted:%v", e.Method, c19SizeCls(e.ReqSize), c19SizeCls(e.RespSize), e.Status, e.Answer, e.CacheControl, e.Forge)
}

// c19Intruder is registered like any backend; its (authenticated) agent tries to fetch and to answer other backends' requests.
var c19Intruder = c19Backend{ID: "bkX", Agent: "agentX@sa.example.com", EndUser: "nobody@example.com", Prefixes: []string{"/intruder/"}}

var c19Backends = []c19Backend{
	{ID: "bk0", Agent: "agent0@sa.example.com", EndUser: "u0@example.com", Prefixes: []string{"/s0/"}},
	{ID: "bk1", Agent: "agent1@sa.example.com", EndUser: "allUsers", Prefixes: []string{"/s1/"}},
	{ID: "bk2", Agent: "agent2@sa.example.com", EndUser: "u2@example.com", Prefixes: []string{"/s2/"}},
}

func c19Generate(r *core.Run) []c19Exchange {
	rng := r.Rand("c19")
	var exs []c19Exchange
	statuses := []int{200, 200, 201, 404, 500}
	add := func(method string, req, resp int, answer bool) {
		b := c19Backends[rng.Intn(len(c19Backends))]
		user := b.EndUser
		if user == "allUsers" {
			user = fmt.Sprintf("visitor%d@example.com", rng.Intn(5))
		}
		exs = append(exs, c19Exchange{Tok: fmt.Sprintf("s%dx%d", r.Seed, len(exs)), Backend: b.ID, User: user, Path: b.Prefixes[0], Method: method,
			ReqSize: req, RespSize: resp, Status: statuses[rng.Intn(len(statuses))], CacheControl: rng.Intn(2) == 0, Answer: answer})
	}
	// never answered: 504 after the designed 30 s wait (run in parallel with everything else)
	add("GET", 0, 1024, false)
	add("POST", 1000001, 1024, false)
	if !r.Quick() {
		// more than 11 overflow parts (names ...part10, part11 sort before ...part2): legal, App Engine takes 32 MB.
		// Started first; the quick tier and the 25 MB size cover this at the store level only.
		add("POST", 11000001, 12345678, true)
		add("PUT", 12345678, 11000001, true)
	}
	// every request size x every response size
	for _, rq := range c19Sizes {
		for _, rs := range c19Sizes {
			if r.Quick() && (rq == 3500000 || rs == 3500000) && !(rq+rs == 3501024 || rq+rs == 5500001 || rq+rs == 4500000) {
				continue // quick: the 3.5 MB payloads only against 1 KiB, 1 000 000 and 2 000 001
			}
			add([]string{"POST", "PUT"}[rng.Intn(2)], rq, rs, true)
		}
	}
	// plain GETs (cacheable when 200 without Cache-Control; unique URLs)
	for _, rs := range c19Sizes {
		add("GET", 0, rs, true)
		exs[len(exs)-1].Status = 200
		exs[len(exs)-1].CacheControl = len(exs)%2 == 0
	}
	// for every third answered request another backend's agent first tries to fetch it and to post a forged response
	for i := range exs {
		exs[i].Forge = exs[i].Answer && (i%3 == 0 || (exs[i].ReqSize > 0 && exs[i].ReqSize < 5000 && i%2 == 0))
	}
	if !r.Quick() {
		for len(exs) < 2400 {
			rq, rs := 200+rng.Intn(60000), 200+rng.Intn(60000)
			if rng.Intn(100) < 15 {
				rq = c19Sizes[rng.Intn(len(c19Sizes))] + rng.Intn(3) - 1
			}
			if rng.Intn(100) < 15 {
				rs = c19Sizes[rng.Intn(len(c19Sizes))] + rng.Intn(3) - 1
			}
			m := []string{"POST", "PUT", "GET", "DELETE"}[rng.Intn(4)]
			if m == "GET" && rng.Intn(2) == 0 {
				rq = 0
			}
			add(m, rq, rs, true)
			exs[len(exs)-1].Forge = rng.Intn(3) == 0
		}
	}
	return exs
}

// c19Chains generates the URL-reuse histories: sequences of requests by one
// or two users to one URL, run in order. Each chain has a URL of its own.
func c19Chains(r *core.Run) [][]c19Exchange {
	rng := r.Rand("c19-chains")
	type step struct {
		method string
		status int
		cc     bool
		other  bool // issued by the second user
	}
	shapes := map[string][]step{
		"POST>GET":             {{"POST", 200, false, false}, {"GET", 200, false, false}},
		"PUT>GET":              {{"PUT", 200, false, false}, {"GET", 200, true, false}},
		"DELETE>GET":           {{"DELETE", 200, false, false}, {"GET", 200, false, false}},
		"GET>GET":              {{"GET", 200, false, false}, {"GET", 200, false, false}},
		"GET>GET>POST>GET":     {{"GET", 200, false, false}, {"GET", 201, false, false}, {"POST", 200, false, false}, {"GET", 200, false, false}},
		"GET>otherGET":         {{"GET", 200, false, false}, {"GET", 200, false, true}},
		"POST>otherGET>GET":    {{"POST", 200, false, false}, {"GET", 200, false, true}, {"GET", 200, false, false}},
		"GETcc>GET":            {{"GET", 200, true, false}, {"GET", 200, false, false}},
		"GET404>GET":           {{"GET", 404, false, false}, {"GET", 200, false, false}},
		"POSTcc>GET":           {{"POST", 200, true, false}, {"GET", 200, false, false}},
		"POST500>GET":          {{"POST", 500, false, false}, {"GET", 200, false, false}},
		"GET>POST>GET>PUT>GET": {{"GET", 200, false, false}, {"POST", 200, false, false}, {"GET", 200, false, false}, {"PUT", 200, false, false}, {"GET", 200, false, false}},
	}
	var names []string
	for n := range shapes {
		names = append(names, n)
	}
	sort.Strings(names)
	var chains [][]c19Exchange
	mk := func(name string, steps []step) {
		ci := len(chains)
		b := c19Backends[1] // registered for allUsers: both users are routed to it
		url := fmt.Sprintf("%sreuse/s%dc%d?v=%d", b.Prefixes[0], r.Seed, ci, rng.Intn(1000))
		var ch []c19Exchange
		for i, st := range steps {
			user := fmt.Sprintf("reuser%d@example.com", ci)
			if st.other {
				user = fmt.Sprintf("other%d@example.com", ci)
			}
			size := 0
			if st.method != "GET" {
				size = 600 + rng.Intn(2000)
			}
			ch = append(ch, c19Exchange{Tok: fmt.Sprintf("s%dc%dx%d", r.Seed, ci, i), Backend: b.ID, User: user, Path: b.Prefixes[0], URL: url, Chain: fmt.Sprintf("%s#%d", name, i),
				Method: st.method, ReqSize: size, RespSize: 400 + rng.Intn(3000), Status: st.status, CacheControl: st.cc, Answer: true})
		}
		chains = append(chains, ch)
	}
	for _, n := range names {
		mk(n, shapes[n])
	}
	if !r.Quick() {
		methods := []string{"GET", "GET", "GET", "POST", "PUT", "DELETE"}
		for k := 0; k < 150; k++ {
			var steps []step
			name := "random"
			for i, n := 0, 3+rng.Intn(5); i < n; i++ {
				st := step{methods[rng.Intn(len(methods))], []int{200, 200, 200, 404, 500}[rng.Intn(5)], rng.Intn(4) == 0, rng.Intn(4) == 0}
				steps = append(steps, st)
			}
			mk(name, steps)
		}
	}
	return chains
}

var c19IDRe = regexp.MustCompile(`"[^"]*"`)

// c19FaultName strips instance names from a fired-rule description:
// `datastore_v3.Put:req:"bk"|` -> `datastore_v3.Put:req:`.
func c19FaultName(f string) string {
	return strings.TrimRight(c19IDRe.ReplaceAllString(f, ""), "|:")
}

// c19HangSig names a hanging call by endpoint and by which injected
// failures preceded it.
func c19HangSig(ep string, fired []string) string {
	name := map[string]string{"post": "response-post", "fetch": "request-fetch", "pending": "pending-list", "client": "client-request"}[ep]
	if name == "" {
		name = ep
	}
	var fs []string
	puts := 0
	for _, f := range fired {
		fs = append(fs, c19FaultName(f))
		if strings.HasPrefix(f, "datastore_v3.Put:") && !strings.Contains(f, "Tracker") {
			puts++
		}
	}
	if ep == "post" && puts >= 2 {
		return "C19:response-post-hangs:both-writes-fail"
	}
	if len(fired) == 1 && fired[0] == "datastore_v3.Put:" {
		return "C19:" + name + "-hangs:datastore-write-outage" // every Put of the call failed
	}
	if len(fired) == 1 && fired[0] == "datastore_v3.Get:" {
		return "C19:" + name + "-hangs:datastore-reads-keep-failing"
	}
	sort.Strings(fs)
	return "C19:" + name + "-hangs:" + strings.Join(fs, "+")
}

type c19PlanRec struct {
	Plan     string            `json:"plan"`
	Endpoint string            `json:"endpoint"`
	Rules    []json.RawMessage `json:"rules"`
	ReqSize  int               `json:"req_size"`
	RespSize int               `json:"resp_size"`
	Calls    []c19Call         `json:"calls"`
	Viol     []c19Viol         `json:"viol"`
	Fired    []string          `json:"fired"`
	Hung     []string          `json:"hung"`
	Listed   bool              `json:"listed"`
	Broken   string            `json:"broken"`
	Blocked  []string          `json:"blocked_goroutines"`
	Solo     *struct {
		Hung    []string  `json:"hung"`
		Calls   []c19Call `json:"calls"`
		Error   string    `json:"error"`
		Blocked []string  `json:"blocked_goroutines"`
	} `json:"solo"`
}

// C19 — the App Engine proxy relays each request and its response intact.
func C19(r *core.Run) {
	r.Level = "fault_enumeration"
	r.SetRule("(a) concurrent client handlers + agent pollers (list/fetch/post) in one world with unique tokens: every request size x response size over {1 KiB, 999 999, 1 000 000, 1 000 001, 1 999 999, 2 000 000, 2 000 001, 3.5 MB} (sizes of the serialised messages, hit exactly), POST/PUT/GET, statuses, cacheable and not, requests never answered (504), for a third of the requests the authenticated agent of another registered backend first tries to fetch them and to post a forged response under their IDs (must be rejected, request stays pending, client gets the rightful answer), one exchange with > 11 overflow parts (11 000 001 / 12 345 678 bytes; thorough up to 25 MB); (a2) URL-reuse histories: sequences POST>GET, PUT>GET, DELETE>GET, GET>GET, other-user GETs, uncacheable variants (thorough: 150 random ones) on one URL each, run in order; (a3) re-registration: a backend ID registered again (admin API / store) for another agent account after the old account polled or served an exchange - the old account must be refused on list, fetch and respond and the client must receive the current agent's response; (b) store-level write/read-back of requests and responses at the size boundaries on the persistent store, the caching store and the caching store with memcache failing; (c) fault plans: one exchange per plan in a world of its own, failing the n-th call of each (service, method, entity kind) seen at each endpoint (including the reads of the overflow parts of multi-part payloads at the fetch and client endpoints), datastore write outages (every Put fails) while payloads with 5-11 overflow parts are stored by the client and response-post handlers, a client request nobody answers while every datastore read of its wait for the response fails (504 at 30 s, never a hang), a history (in a process of its own) of a pending-list call whose datastore writes fail followed by further pending-list calls and an admin add and delete that must all return, and every pair of them for the response post; a response post that is refused is sent again once (as agents do), and a post acknowledged with 200 - first or second - must leave the request no longer pending; class = (phase, method, request size class, response size class, status, answered, cache-control) for exchanges, (stack, kind, size class) for blobs, (endpoint, failed operations, payload class) for fault plans")
	r.Assume("T = 45 s progress bound per handler call (designed waits are 30 s; fault-free calls take < 3 s); a call exceeding it is re-run alone in a fresh process before it is reported; under an injected fault the client may receive a proxy-generated 404/500/504 instead of the response; a client must receive the response posted under its own request ID, except that a GET may be answered with a byte-identical replay of a cacheable response (200, no Cache-Control) delivered earlier to the same user for a GET of the same URL (the documented GET cache); datastore transactions are not isolated by the fake")
	bin := r.MustBuild(e3Build(r))
	exs := c19Generate(r)
	blobs := append([]int{0, 1, 2999999, 3000000, 3000001, 11000001}, c19Sizes...)
	chains := c19Chains(r)
	if !r.Quick() {
		rng := r.Rand("c19-blobs")
		for k := 1; k <= 5; k++ {
			for d := -3; d <= 3; d++ {
				blobs = append(blobs, k*1000000+d)
			}
		}
		for i := 0; i < 20; i++ {
			blobs = append(blobs, rng.Intn(4200000))
		}
		blobs = append(blobs, 10999999, 11000000, 12000001, 12345678, 25000000)
	}
	tmpl := func(tok string, rq, rs int) c19Exchange {
		return c19Exchange{Tok: tok, Backend: "bkF", User: "uf@example.com", Path: "/f/", Method: "POST", ReqSize: rq, RespSize: rs, Status: 200, Answer: true}
	}
	faults := map[string]interface{}{"templates": []c19Exchange{tmpl("fs", 1024, 1024), tmpl("fb", 1000001, 1000001), tmpl("fp", 2000001, 2000001)},
		"endpoints": [][]string{nil, {"post"}, {"none"}}, "parts_only": [][]string{nil, nil, {"fetch", "client"}}, "nth": []int{1}, "workers": 16}
	if !r.Quick() {
		faults = map[string]interface{}{"templates": []c19Exchange{tmpl("fs", 1024, 1024), tmpl("fb", 2000001, 2000001), tmpl("fm", 1000000, 999999), tmpl("fx", 3500000, 1024)},
			"nth": []int{1, 2}, "timeouts": true, "workers": 16}
	}
	// datastore write outages (every Put of the handler invocation fails) while a payload with >= 5 overflow parts is stored
	type planSpec struct {
		ID       string                   `json:"id"`
		Endpoint string                   `json:"endpoint"`
		Rules    []map[string]interface{} `json:"rules"`
		Tmpl     c19Exchange              `json:"tmpl"`
		Scenario string                   `json:"scenario,omitempty"`
	}
	var explicit []planSpec
	outage := func(id, ep string, rq, rs int) {
		explicit = append(explicit, planSpec{ID: id, Endpoint: ep, Tmpl: tmpl("out"+id, rq, rs),
			Rules: []map[string]interface{}{{"tag": ep + ":", "service": "datastore_v3", "method": "Put", "nth": 0}}})
	}
	outage("o1", "client", 6000000, 1024)
	outage("o2", "post", 1024, 6000000)
	if !r.Quick() {
		outage("o3", "client", 12000000, 1024)
		outage("o4", "post", 1024, 12000000)
		outage("o5", "client", 5000000, 1024)
		outage("o6", "post", 2000001, 8500000)
	}
	// a pending-list call whose datastore writes all fail, then more pending-list calls and an admin add and delete
	explicit = append(explicit, planSpec{ID: "h1", Endpoint: "pending", Scenario: "poll-history", Tmpl: tmpl("hist", 0, 0),
		Rules: []map[string]interface{}{{"tag": "p1:", "service": "datastore_v3", "method": "Put", "nth": 0}}})
	// nobody answers the request, and from the second datastore read of the client handler on (i.e. while it waits
	// for the response) every read fails: 504 after the designed 30 s, never a hang
	{
		t := tmpl("waitfail", 1024, 1024)
		t.Answer = false
		explicit = append(explicit, planSpec{ID: "w1", Endpoint: "client", Tmpl: t,
			Rules: []map[string]interface{}{{"tag": "client:", "service": "datastore_v3", "method": "Get", "after": 1, "nth": 0}}})
	}
	faults["explicit"] = explicit
	// a backend ID registered again for another agent account while the old account keeps calling
	type reregSpec struct {
		ID       string `json:"id"`
		Via      string `json:"via"`
		OldUses  string `json:"old_uses"`
		NewFirst bool   `json:"new_first"`
	}
	var rereg []reregSpec
	for i, via := range []string{"api", "store"} {
		for j, uses := range []string{"poll", "exchange"} {
			for k, nf := range []bool{false, true} {
				rereg = append(rereg, reregSpec{ID: fmt.Sprintf("s%dv%d%d%d", r.Seed, i, j, k), Via: via, OldUses: uses, NewFirst: nf})
			}
		}
	}
	const T = 45000
	spec := map[string]interface{}{"mode": "c19", "t_ms": T, "conc": r.Pick(8, 16), "backends": c19Backends, "intruder": c19Intruder, "exchanges": exs, "chains": chains, "blobs": blobs, "faults": faults, "rereg": rereg}
	// Megabyte payloads under the race detector are dominated by shadow-memory page faults; fewer GC cycles and,
	// in the quick tier, fewer threads contending in the kernel keep the wall time steady on a busy machine.
	env := []string{"GOGC=400"}
	if r.Quick() {
		env = append(env, "GOMAXPROCS=8")
	}
	res := e3Run(r, bin, "c19", spec, time.Duration(r.Pick(300, 1200))*time.Second, env...)

	byTok := map[string]*c19Exchange{}
	for i := range exs {
		byTok[exs[i].Tok] = &exs[i]
	}
	nChainSteps := 0
	for ci := range chains {
		for i := range chains[ci] {
			byTok[chains[ci][i].Tok] = &chains[ci][i]
			nChainSteps++
		}
	}
	var plans []*c19PlanRec
	var hangRerun []c19Exchange
	nEx, nBlob, exact, maxMs, maxClientMs, replays, forgeries, nRereg := 0, 0, 0, int64(0), int64(0), 0, 0, 0
	got504 := 0
	for _, ln := range res.Lines {
		var probe struct {
			Ex         *string             `json:"ex"`
			Blob       *int                `json:"blob"`
			Plan       *string             `json:"plan"`
			Poller     *string             `json:"poller"`
			Discovered *int                `json:"discovered"`
			Stats      map[string]int      `json:"exchange_stats"`
			Phase      *string             `json:"phase"`
			Rereg      *string             `json:"rereg"`
			PhaseMs    int                 `json:"phase_ms"`
			Sigs       map[string][]string `json:"sigs"`
		}
		if err := json.Unmarshal(ln, &probe); err != nil {
			r.Broken("unreadable C19 result line: " + core.Trunc(string(ln), 200))
			continue
		}
		switch {
		case probe.Ex != nil:
			var rec struct {
				Ex        string    `json:"ex"`
				Calls     []c19Call `json:"calls"`
				Viol      []c19Viol `json:"viol"`
				SizeExact bool      `json:"req_size_exact"`
				Inconcl   string    `json:"inconclusive"`
				ReplayOf  string    `json:"replay_of"`
				Forge     *struct {
					Fetch, Post int
					Still       bool `json:"still_pending"`
				} `json:"forge"`
				Serial  int `json:"req_serial_len"`
				Fetched int `json:"fetched_len"`
			}
			json.Unmarshal(ln, &rec)
			ex := byTok[rec.Ex]
			if ex == nil {
				r.Broken("C19: result for unknown exchange " + rec.Ex)
				continue
			}
			nEx++
			r.Case(ex.class())
			if rec.SizeExact {
				exact++
			}
			if rec.ReplayOf != "" {
				replays++
			}
			if rec.Forge != nil {
				forgeries++
			}
			if ex.Chain != "" && strings.HasSuffix(ex.Chain, "#1") {
				r.Sample(map[string]interface{}{"url_reuse_step": ex, "observed": json.RawMessage(ln)})
			}
			if rec.Inconcl != "" {
				r.Inconclusive("exchange " + rec.Ex + ": " + rec.Inconcl)
			}
			for _, c := range rec.Calls {
				if c.Ep == "client" {
					if c.Status == 504 {
						got504++
					}
					if c.Ms > maxClientMs {
						maxClientMs = c.Ms // includes waiting for the harness' agent: part of the designed wait
					}
				} else if c.Ms > maxMs {
					maxMs = c.Ms
				}
			}
			hang := false
			for _, v := range rec.Viol {
				if strings.Contains(v.Sig, "hangs") {
					hang = true
					continue
				}
				r.Violate("C19:"+v.Sig, v.Msg, ex, json.RawMessage(ln))
			}
			if hang && len(hangRerun) < 3 {
				hangRerun = append(hangRerun, *ex)
			}
			if nEx%400 == 3 || (!ex.Answer && ex.ReqSize > 0) {
				r.Sample(map[string]interface{}{"exchange": ex, "observed": json.RawMessage(ln)})
			}
		case probe.Blob != nil:
			var rec struct {
				Blob      int    `json:"blob"`
				Stack     string `json:"stack"`
				Kind      string `json:"kind"`
				Err       string `json:"err"`
				GotLen    int    `json:"got_len"`
				FirstDiff int    `json:"first_diff"`
				MetaWrong string `json:"meta_wrong"`
				Panic     string `json:"panic"`
			}
			json.Unmarshal(ln, &rec)
			nBlob++
			r.Case(fmt.Sprintf("blob|%s|%s|%s", rec.Stack, rec.Kind, c19SizeCls(rec.Blob)))
			cs := map[string]interface{}{"size": rec.Blob, "store": rec.Stack, "kind": rec.Kind}
			switch {
			case rec.Panic != "":
				r.Violate(fmt.Sprintf("C19:store-call-panics:%s:%s", rec.Kind, c19SizeCls(rec.Blob)), fmt.Sprintf("writing/reading back a %s of %d bytes on the %s store panicked: %s", rec.Kind, rec.Blob, rec.Stack, core.Trunc(rec.Panic, 300)), cs, json.RawMessage(ln))
			case rec.Err != "":
				r.Violate(fmt.Sprintf("C19:stored-%s-unreadable:%s", rec.Kind, c19SizeCls(rec.Blob)), fmt.Sprintf("%s of %d bytes written to the %s store could not be written/read back: %s", rec.Kind, rec.Blob, rec.Stack, rec.Err), cs, json.RawMessage(ln))
			case rec.FirstDiff != -1:
				r.Violate(fmt.Sprintf("C19:stored-%s-differs:%s", rec.Kind, c19SizeCls(rec.Blob)), fmt.Sprintf("%s of %d bytes read back from the %s store as %d bytes, first difference at offset %d", rec.Kind, rec.Blob, rec.Stack, rec.GotLen, rec.FirstDiff), cs, json.RawMessage(ln))
			case rec.MetaWrong != "":
				r.Violate("C19:stored-request-metadata-differs", rec.MetaWrong, cs, json.RawMessage(ln))
			}
		case probe.Plan != nil:
			var rec c19PlanRec
			if err := json.Unmarshal(ln, &rec); err != nil {
				r.Broken("unreadable C19 plan record: " + err.Error())
				continue
			}
			plans = append(plans, &rec)
		case probe.Poller != nil:
			var rec struct {
				Viol []c19Viol `json:"viol"`
			}
			json.Unmarshal(ln, &rec)
			for _, v := range rec.Viol {
				r.Violate("C19:"+v.Sig, v.Msg, map[string]string{"poller_of": *probe.Poller}, nil)
			}
		case probe.Discovered != nil:
			r.Set(fmt.Sprintf("api_calls_seen_template_%d", *probe.Discovered), probe.Sigs)
		case probe.Rereg != nil:
			var rec struct {
				Rereg    string    `json:"rereg"`
				Via      string    `json:"via"`
				OldUses  string    `json:"old_uses"`
				NewFirst bool      `json:"new_first"`
				Viol     []c19Viol `json:"viol"`
				Broken   string    `json:"broken"`
			}
			json.Unmarshal(ln, &rec)
			if rec.Broken != "" {
				r.Broken("C19 re-registration scenario: " + rec.Broken)
				continue
			}
			nRereg++
			r.Case(fmt.Sprintf("re-registration|second-registration-via:%s|old-account-did:%s|new-agent-polls-first:%v", rec.Via, rec.OldUses, rec.NewFirst))
			for _, v := range rec.Viol {
				r.Violate("C19:"+v.Sig, v.Msg, map[string]string{"scenario": "backend registered for account A; A works; registered again for account B (" + rec.Via + "); client request; A then B try to serve it"}, json.RawMessage(ln))
			}
		case probe.Phase != nil:
			r.Set("phase_done_after_ms_"+*probe.Phase, probe.PhaseMs)
		case probe.Stats != nil:
			r.Set("exchange_stats", probe.Stats)
		}
	}

	// fault plans: safety violations, and hangs confirmed by a solo re-run
	confirmed := map[string]bool{}
	hangSig := func(p *c19PlanRec) string {
		ep := p.Hung[0]
		for _, h := range p.Hung {
			if h != "client" {
				ep = h
			}
		}
		return c19HangSig(ep, p.Fired)
	}
	for _, p := range plans {
		if len(p.Hung) > 0 && p.Solo != nil && len(p.Solo.Hung) > 0 {
			confirmed[hangSig(p)] = true
		}
	}
	nPlans, nHung, samples := 0, 0, 0
	for _, p := range plans {
		if p.Broken != "" {
			r.Broken("C19 fault plan " + p.Plan + ": " + p.Broken)
			continue
		}
		nPlans++
		var fs []string
		for _, f := range p.Fired {
			fs = append(fs, c19FaultName(f))
		}
		r.Case(fmt.Sprintf("fault|%s|%s|req:%s|resp:%s|rules:%d", p.Endpoint, strings.Join(fs, "+"), c19SizeCls(p.ReqSize), c19SizeCls(p.RespSize), len(p.Rules)))
		cs := map[string]interface{}{"plan": p.Plan, "failing_calls_at": p.Endpoint, "rules": p.Rules, "request_size": p.ReqSize, "response_size": p.RespSize}
		for _, c := range p.Calls {
			if c.Ms > maxMs && !c.Hung && c.Ep != "client" && c.Ep != "pending" {
				maxMs = c.Ms
			}
		}
		for _, v := range p.Viol {
			r.Violate("C19:"+v.Sig, fmt.Sprintf("under fault plan %v: %s", p.Fired, v.Msg), cs, p)
		}
		if len(p.Hung) > 0 {
			nHung++
			sig := hangSig(p)
			msg := fmt.Sprintf("with the injected failures %v the %s handler did not return within %d s (calls: %+v)", p.Fired, strings.Join(p.Hung, "+"), T/1000, p.Calls)
			switch {
			case p.Solo != nil && len(p.Solo.Hung) > 0:
				r.Violate(sig, msg+"; confirmed by a solo re-run in a fresh process", cs, p)
			case confirmed[sig]:
				r.Violate(sig, msg+"; same signature confirmed by the solo re-run of another plan", cs, p)
			default:
				r.Inconclusive(fmt.Sprintf("plan %s: %s hung but the solo re-run did not confirm it (%+v)", p.Plan, strings.Join(p.Hung, "+"), p.Solo))
			}
		}
		if samples < 3 && len(p.Rules) == 2 && p.Endpoint == "post" && len(p.Fired) == 2 {
			samples++
			r.Sample(map[string]interface{}{"fault_plan": cs, "fired": p.Fired, "calls": p.Calls})
		}
	}

	// a hang outside the fault plans: re-run those exchanges alone before reporting
	if len(hangRerun) > 0 {
		for i := range hangRerun {
			one := hangRerun[i]
			spec2 := map[string]interface{}{"mode": "c19", "t_ms": T, "conc": 1, "backends": c19Backends, "exchanges": []c19Exchange{one}}
			res2 := e3Run(r, bin, fmt.Sprintf("c19-solo%d", i), spec2, 150*time.Second)
			again := false
			for _, ln := range res2.Lines {
				var rec struct {
					Viol []c19Viol `json:"viol"`
				}
				json.Unmarshal(ln, &rec)
				for _, v := range rec.Viol {
					if strings.Contains(v.Sig, "hangs") {
						again = true
						r.Violate("C19:"+v.Sig, v.Msg+" (no fault injected; reproduced when the exchange was re-run alone)", one, json.RawMessage(ln))
					}
				}
			}
			if !again {
				r.Inconclusive(fmt.Sprintf("exchange %s: a handler exceeded the bound in the concurrent run but not when re-run alone", one.Tok))
			}
		}
	}

	if res.SawEnd && nEx != len(exs)+nChainSteps {
		r.Broken(fmt.Sprintf("C19: %d of %d exchanges reported", nEx, len(exs)+nChainSteps))
	}
	if res.SawEnd && nPlans < r.Pick(40, 150) {
		r.Broken(fmt.Sprintf("C19: only %d fault plans were executed", nPlans))
	}
	r.Set("exchanges", nEx)
	r.Set("forgery_attempts_by_another_backends_agent", forgeries)
	r.Set("reregistration_scenarios", nRereg)
	r.Set("url_reuse_histories", len(chains))
	r.Set("url_reuse_requests", nChainSteps)
	r.Set("url_reuse_requests_served_a_legitimate_replay", replays)
	r.Set("exchanges_request_size_hit_exactly", exact)
	r.Set("blob_round_trips", nBlob)
	r.Set("fault_plans", nPlans)
	r.Set("fault_plans_with_hanging_call", nHung)
	r.Set("clients_answered_504", got504)
	r.Set("slowest_fetch_or_post_call_ms", int(maxMs))
	r.Set("slowest_client_call_ms", int(maxClientMs))
	r.Set("progress_bound_ms", T)
	e3Finish(r, res, r.Pick(150, 2600))
}
