package props

import "verif/internal/core"

// C19 — stub, replaced by the real check.
func C19(r *core.Run) {
	r.Broken("check not implemented yet")
	r.Finish(1)
}
