package props

import "verif/internal/core"

// All maps property IDs to their checks.
var All = map[string]func(*core.Run){
	"C01": C01, "C02": C02, "C03": C03, "C04": C04, "C05": C05,
	"C06": C06, "C07": C07, "C08": C08, "C09": C09, "C10": C10,
	"C11": C11, "C12": C12, "C13": C13, "C14": C14, "C15": C15,
	"C16": C16, "C17": C17, "C18": C18, "C19": C19, "C20": C20,
}
