package props

import "verif/internal/core"

// All maps property IDs to their checks.
var All = map[string]func(*core.Run){
	"C01": C01,
	"C02": C02,
	"C03": C03,
}
