package props

import (
	"bufio"
	"bytes"
	"encoding/json"
	"fmt"
	"path/filepath"
	"sort"
	"strings"
	"sync"
	"time"

	"verif/internal/core"
)

// c10Case mirrors worker.C10Case: the orchestrator enumerates the shape of
// every case and derives a sub-seed; the worker expands the sub-seed into the
// concrete history (request sequence, Set-Cookie lists, client Cookie
// headers / goroutine scripts), executes it and evaluates the oracles.
type c10Case struct {
	ID         string `json:"id"`
	Kind       string `json:"kind"` // seq | evict | conc
	Seed       int64  `json:"seed"`
	Sessions   int    `json:"sessions"`
	Hosts      int    `json:"hosts"`
	Steps      int    `json:"steps"`
	CacheLimit int    `json:"cache_limit"`
	CookieName string `json:"cookie_name"`
	LifetimeS  int    `json:"lifetime_s"`
	DisableSSL bool   `json:"disable_ssl"`
	Interim    bool   `json:"interim"`
	Goroutines int    `json:"goroutines"`
	Forced     bool   `json:"forced"`
	Evict      bool   `json:"evict"`
	Sample     bool   `json:"sample"`
}

type c10Viol struct {
	Sig    string      `json:"sig"`
	Msg    string      `json:"msg"`
	Step   int         `json:"step"`
	Detail interface{} `json:"detail,omitempty"`
}

type c10Result struct {
	ID         string      `json:"id"`
	Kind       string      `json:"kind"`
	Class      string      `json:"class"`
	Requests   int         `json:"requests"`
	CookiesSet int         `json:"cookies_set"`
	Deletes    int         `json:"cookie_deletes"`
	JarCookies int         `json:"jar_cookies"`
	Issued     int         `json:"session_cookies"`
	AttrKinds  []string    `json:"attr_kinds"`
	Follows    int         `json:"followups_at_head"`
	FollowsNew int         `json:"followups_fresh_cookie"`
	Violations []c10Viol   `json:"violations"`
	Problems   []string    `json:"problems"`
	Trace      interface{} `json:"trace"`

	PorcOps        int    `json:"porc_ops"`
	PorcPartitions int    `json:"porc_partitions"`
	PorcVerdict    string `json:"porc_verdict"`
	Overlaps       int    `json:"overlapping_rw"`
	MaxInFlight    int    `json:"max_in_flight"`
	BarrierMet     int    `json:"barrier_met"`
	BarrierTimeout int    `json:"barrier_timeouts"`
	ForcedTrials   int    `json:"forced_trials"`
	BurstTrials    int    `json:"burst_trials"`
	OrderSig       string `json:"order_sig"`
	QuiescentRegs  int    `json:"quiescent_registers"`
	DurationMs     int64  `json:"duration_ms"`

	HookHits map[string]int64 `json:"hook_hits"` // only on the "__summary__" line
}

// C10 — session tracking hides backend cookies and never mixes sessions.
func C10(r *core.Run) {
	r.SetRule("sessions.Cache.SessionHandler driven in-process (race-built worker, -tags verif) over a scripted backend, requests from http.ReadRequest on bare goroutines; " +
		"sequential histories against one model net/http/cookiejar per session ID (exact oracle on client-visible Set-Cookie and backend-visible Cookie multisets), eviction histories (cache limit 3-5, more sessions); " +
		"a third of their requests are followed up at the client-visible moment: when the final WriteHeader reaches the writer under the session handler (the handler goroutine stays inside that call), the same session's next request is served on another goroutine and must meet, at the backend, the jar including the cookies of the response head the client has just seen; " +
		"concurrent rounds (8-16 goroutines, session-tagged cookie values, porcupine register per (session, cookie name), quiescent comparison, barrier-forced overlapping first uses of one new session ID via the verifhook points sessions.jar.lookup / sessions.jar.store). " +
		"class = kind | #sessions | #hosts | cache limit | SSL override | Domain classes, deletion forms and client Cookie layouts the history exercised (sequential) or goroutines | sessions | limit | forced/free/evicting (concurrent)")
	r.Assume("jar semantics are whatever net/http/cookiejar (public suffix list) does for https://<Host><path>; the model parses the backend's Set-Cookie values with net/http's own parser and serialises jar cookies the way http.Client does")
	r.Assume("an empty-valued session cookie is never generated; a session ID the agent did not issue is only required to be isolated (never another session's cookies), not remembered, in the sequential histories")
	r.Assume("eviction: only the cacheLimit-1 most recently used sessions are required to be restored (the cookie-less pseudo session may hold one slot)")
	r.Assume("time enters only through the session cookie's Expires (+-2 min) and cookie lifetimes >= 3600 s or <= 0")
	bin := r.MustBuild(r.BuildWorker())

	// ---- case list: pure function of seed and tier
	rng := r.Rand("c10")
	names := []string{"SID", "proxy-session", "__Host-agent", "x.y_z"}
	lifetimes := []int{600, 3600, 43200, 2592000}
	nSeq := r.Pick(200, 10000)
	nConc := r.Pick(30, 2000)
	seqSteps, seqSpread := r.Pick(24, 30), r.Pick(13, 31)  // requests per history: quick 24-36, thorough 30-60
	concSteps, concSpread := r.Pick(10, 20), r.Pick(9, 21) // requests per goroutine: quick 10-18, thorough 20-40
	var seq, conc []c10Case
	for i := 0; i < nSeq; i++ {
		c := c10Case{
			ID: fmt.Sprintf("s%d-seq-%d", r.Seed, i), Kind: "seq", Seed: rng.Int63(),
			Sessions: 2 + i%5, Hosts: 1 + (i/5)%3, Steps: seqSteps + rng.Intn(seqSpread),
			CacheLimit: 1000, DisableSSL: (i/15)%2 == 1,
			CookieName: names[(i/30)%len(names)], LifetimeS: lifetimes[(i/7)%len(lifetimes)],
		}
		switch {
		case i%8 == 7: // eviction history: cache limit 3-5, more sessions than that
			c.Kind = "evict"
			c.ID = fmt.Sprintf("s%d-evict-%d", r.Seed, i)
			c.CacheLimit = 3 + (i/8)%3
			c.Sessions = c.CacheLimit + 1 + (i/24)%4
			c.Hosts = 1
			c.Steps += 12
		}
		// every third history: some responses are preceded by an interim 103, relayed the way
		// httputil.ReverseProxy relays it (Link header set, WriteHeader(103), header map cleared)
		c.Interim = i%3 == 1
		c.Sample = i < 2 || i == 7
		seq = append(seq, c)
	}
	for i := 0; i < nConc; i++ {
		c := c10Case{
			ID: fmt.Sprintf("s%d-conc-%d", r.Seed, i), Kind: "conc", Seed: rng.Int63(),
			Goroutines: 8 + (i*3)%9, Sessions: 2 + i%4, Steps: concSteps + rng.Intn(concSpread),
			CacheLimit: 1000, DisableSSL: i%3 == 0, Forced: i%2 == 0,
			CookieName: names[(i/4)%len(names)], LifetimeS: lifetimes[i%len(lifetimes)],
		}
		if i%5 == 4 { // concurrent eviction: safety only
			c.Evict = true
			c.CacheLimit = 3 + (i/5)%3
			c.Sessions = c.CacheLimit + 2
		}
		conc = append(conc, c)
	}
	// histories served by a real net/http server through a real httputil.ReverseProxy to a real
	// backend (plain, streamed, websocket handshakes answered 101 or declined)
	nServed := r.Pick(24, 600)
	for i := 0; i < nServed; i++ {
		seq = append(seq, c10Case{
			ID: fmt.Sprintf("s%d-served-%d", r.Seed, i), Kind: "served", Seed: rng.Int63(),
			Sessions: 1 + i%3, Steps: 10 + rng.Intn(9), DisableSSL: i%2 == 1,
			CookieName: names[(i/2)%len(names)], LifetimeS: lifetimes[i%len(lifetimes)], Sample: i == 0,
		})
	}
	all := append(append([]c10Case{}, seq...), conc...)
	if r.OnlyCase >= 0 && r.OnlyCase < len(all) {
		one := all[r.OnlyCase]
		seq, conc = nil, nil
		if one.Kind == "conc" {
			conc = []c10Case{one}
		} else {
			seq = []c10Case{one}
		}
		all = []c10Case{one}
	}
	byID := map[string]c10Case{}
	for _, c := range all {
		byID[c.ID] = c
	}

	// ---- run: sequential histories 4 at a time per process; concurrent rounds one at a time per
	// process (the hook handler is process-global)
	var mu sync.Mutex
	var results []c10Result
	hookHits := map[string]int64{}
	var wg sync.WaitGroup
	shard := func(cases []c10Case, shards, parallel int) {
		if len(cases) < shards*2 {
			shards = 1
		}
		for s := 0; s < shards; s++ {
			var part []c10Case
			for i := s; i < len(cases); i += shards {
				part = append(part, cases[i])
			}
			if len(part) == 0 {
				continue
			}
			wg.Add(1)
			go func(part []c10Case) {
				defer wg.Done()
				spec, _ := json.Marshal(map[string]interface{}{"parallel": parallel, "cases": part})
				stdout, logPath, err := r.RunWorker(bin, "c10", spec, time.Duration(r.Pick(5, 15))*time.Minute)
				sc := bufio.NewScanner(bytes.NewReader(stdout))
				sc.Buffer(make([]byte, 1<<20), 1<<28)
				mu.Lock()
				for sc.Scan() {
					var res c10Result
					if json.Unmarshal(sc.Bytes(), &res) != nil || res.ID == "" {
						continue
					}
					if res.ID == "__summary__" {
						for k, v := range res.HookHits {
							hookHits[k] += v
						}
						continue
					}
					results = append(results, res)
				}
				mu.Unlock()
				if err != nil {
					markers := core.CrashMarkers(logPath)
					for _, ex := range markers {
						r.Violate(core.CrashSignature(ex), "worker (= agent code in-process) crashed while running cases "+fmt.Sprint(core.LastStarted(logPath, 4))+": "+core.Trunc(ex, 1500), nil, ex)
					}
					if len(markers) == 0 {
						r.Broken(fmt.Sprintf("c10 worker failed: %v", err))
					}
				}
			}(part)
		}
	}
	shard(seq, r.Pick(4, 6), 4)
	shard(conc, r.Pick(6, 12), 1)
	wg.Wait()

	// ---- verdicts and evidence
	sort.Slice(results, func(i, j int) bool { return results[i].ID < results[j].ID })
	seen := map[string]bool{}
	orderSigs := map[string]bool{}
	kinds := map[string]int{}
	samples := map[string]int{}
	for _, res := range results {
		c, ok := byID[res.ID]
		if !ok || seen[res.ID] {
			continue
		}
		seen[res.ID] = true
		r.Case(res.Class)
		r.Add("requests", res.Requests)
		r.Add("backend_set_cookies_parsed", res.CookiesSet)
		r.Add("cookie_deletions", res.Deletes)
		r.Add("jar_cookies_compared_at_backend", res.JarCookies)
		r.Add("session_cookies_attribute_checked", res.Issued)
		r.Add("followups_sent_when_the_response_head_was_published", res.Follows)
		r.Add("followups_expecting_a_cookie_set_by_that_very_response_head", res.FollowsNew)
		for _, k := range res.AttrKinds {
			kinds[k]++
		}
		for _, p := range res.Problems {
			r.Inconclusive(res.ID + ": " + p)
		}
		for _, v := range res.Violations {
			detail := map[string]interface{}{"step": v.Step, "detail": v.Detail}
			if res.Trace != nil {
				detail["history_up_to_failure"] = res.Trace
			}
			r.Violate("C10:"+v.Sig, fmt.Sprintf("%s: %s", res.ID, v.Msg), c, detail)
		}
		switch c.Kind {
		case "conc":
			r.Add("concurrent_rounds", 1)
			r.Add("porcupine_operations_checked", res.PorcOps)
			r.Add("porcupine_partitions", res.PorcPartitions)
			r.Add("reads_overlapping_a_write_of_the_same_cookie", res.Overlaps)
			r.Add("quiescent_registers_compared", res.QuiescentRegs)
			r.Add("forced_first_use_trials", res.ForcedTrials)
			r.Add("forced_first_use_bursts", res.BurstTrials)
			r.Add("forced_barrier_meetings", res.BarrierMet)
			r.Add("forced_barrier_timeouts", res.BarrierTimeout)
			r.Max("max_in_flight", res.MaxInFlight)
			orderSigs[res.OrderSig] = true
			switch res.PorcVerdict {
			case "unknown":
				r.Inconclusive(res.ID + ": porcupine did not decide within 60s")
			case "ok":
				r.Add("rounds_linearizable", 1)
			}
		case "evict":
			r.Add("eviction_histories", 1)
		case "served":
			r.Add("histories_served_by_a_real_server_and_reverse_proxy", 1)
		default:
			r.Add("sequential_histories", 1)
		}
		if samples[c.Kind] < 2 && len(res.Violations) == 0 && (c.Kind == "conc" || res.Trace != nil) {
			samples[c.Kind]++
			s := map[string]interface{}{"case": c, "class": res.Class, "requests": res.Requests, "cookies_set": res.CookiesSet, "ms": res.DurationMs}
			if c.Kind == "conc" {
				s["porcupine"] = map[string]interface{}{"verdict": res.PorcVerdict, "operations": res.PorcOps, "partitions": res.PorcPartitions, "reads_overlapping_writes": res.Overlaps}
				s["max_in_flight"] = res.MaxInFlight
				s["barrier_met"] = res.BarrierMet
			} else {
				s["first_steps"] = res.Trace
			}
			r.Sample(s)
		}
	}
	for _, c := range all {
		if !seen[c.ID] {
			r.Inconclusive("no result for case " + c.ID + " (worker died?)")
		}
	}
	r.Set("interleaving_signatures", len(orderSigs))
	r.Set("hook_hits", hookHits)
	kindList := []string{}
	for k, n := range kinds {
		kindList = append(kindList, fmt.Sprintf("%s=%d", k, n))
	}
	sort.Strings(kindList)
	r.Set("input_kinds_histories", strings.Join(kindList, " "))
	if len(conc) > 0 && r.OnlyCase < 0 && hookHits["sessions.jar.lookup"] == 0 {
		r.Broken("hook point sessions.jar.lookup was never hit: worker not built with -tags verif?")
	}
	c10E1(r)
	r.JudgeRaces(core.ParseRaceLogs(filepath.Join(r.WorkDir, "race-")))
	min := (nSeq + nConc) * 9 / 10
	if r.OnlyCase >= 0 {
		min = 1
	}
	r.Finish(min)
}
