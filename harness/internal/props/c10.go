package props

import "verif/internal/core"

// C10 — stub, replaced by the real check.
func C10(r *core.Run) {
	r.Broken("check not implemented yet")
	r.Finish(1)
}
