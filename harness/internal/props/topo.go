// Package props holds the orchestrator side of every check.
package props

import (
	"bufio"
	"crypto/sha1"
	"encoding/base64"
	"fmt"
	"hash/fnv"
	"io"
	"math/rand"
	"net"
	"os"
	"path/filepath"
	"regexp"
	"strconv"
	"strings"
	"sync"
	"time"

	"verif/internal/core"
	"verif/internal/fakes"
	"verif/internal/rawhttp"
)

var listenRe = regexp.MustCompile(`Listening on \[::\]:(\d+)`)

// startServer starts the stand-alone proxy binary on a free port.
func startServer(r *core.Run, bin, name string, env ...string) (*core.Proc, string, error) {
	env = append(env, "VERIF_HOOK_STATS="+filepath.Join(r.WorkDir, "hooks-"+name))
	p, err := r.StartProc(name, bin, []string{"--port=0"}, env...)
	if err != nil {
		return nil, "", err
	}
	port, err := p.WaitLog(listenRe, 20*time.Second)
	if err != nil {
		p.Kill()
		return nil, "", err
	}
	return p, "127.0.0.1:" + port, nil
}

// startAgent starts the agent binary against proxyURL and backend host.
func startAgent(r *core.Run, bin, name string, md *fakes.Metadata, proxyURL, backendHost, backendID string, extra ...string) (*core.Proc, error) {
	args := []string{"--proxy=" + proxyURL, "--host=" + backendHost, "--backend=" + backendID, "--disable-gce-vm-header=true"}
	args = append(args, extra...)
	return r.StartProc(name, bin, args, md.AgentEnv(r.WorkDir)...)
}

// tokHash is a stable hash of a token.
func tokHash(tok string) uint64 {
	h := fnv.New64a()
	h.Write([]byte(tok))
	return h.Sum64()
}

// tokBytes returns n pseudo-random bytes determined by (token, salt).
func tokBytes(tok, salt string, n int) []byte {
	rng := rand.New(rand.NewSource(int64(tokHash(tok + "#" + salt))))
	b := make([]byte, n)
	rng.Read(b)
	return b
}

var tokStatuses = []int{200, 201, 202, 203, 206, 400, 403, 404, 409, 418, 500, 503}

// tokResponse is the scripted response for a token: a pure function of the
// token the backend saw in the request path "/t/<token>/r<size>/d<ms>[/...]".
type tokResponse struct {
	Status  int
	Fields  []rawhttp.Field
	Body    []byte
	Trailer []rawhttp.Field
}

func tokResponseFor(tok string, size int) tokResponse {
	h := tokHash(tok)
	if strings.HasSuffix(tok, "H") {
		// an HTML page without a <head> element (so that nothing may be inserted into it), unique per token
		body := tokBytes(tok, "resp", size)
		for k := range body {
			body[k] = "abcdefghij klmnop<>/"[int(body[k])%20]
		}
		copy(body, "<!doctype html><html><body>")
		return tokResponse{
			Status: 200,
			Fields: []rawhttp.Field{
				{"Content-Type", "text/html; charset=utf-8"},
				{"X-Tok", tok},
				{"X-Tok-Hash", strconv.FormatUint(h, 16)},
				{"Set-Cookie", "a=" + tok + "; Path=/"},
				{"Set-Cookie", "b=" + tok + "-2; Path=/x"},
				{"Cache-Control", "no-store"},
			},
			Body:    body,
			Trailer: []rawhttp.Field{{"X-Tok-Trailer", tok}},
		}
	}
	return tokResponse{
		Status: tokStatuses[h%uint64(len(tokStatuses))],
		Fields: []rawhttp.Field{
			{"Content-Type", "application/octet-stream"},
			{"X-Tok", tok},
			{"X-Tok-Hash", strconv.FormatUint(h, 16)},
			{"Set-Cookie", "a=" + tok + "; Path=/"},
			{"Set-Cookie", "b=" + tok + "-2; Path=/x"},
			{"Cache-Control", "no-store"},
		},
		Body:    tokBytes(tok, "resp", size),
		Trailer: []rawhttp.Field{{"X-Tok-Trailer", tok}},
	}
}

// parseTokPath splits "/t/<token>/r<size>/d<ms>...".
func parseTokPath(target string) (tok string, size, delayMs int, ok bool) {
	p := target
	if i := strings.IndexByte(p, '?'); i >= 0 {
		p = p[:i]
	}
	parts := strings.Split(p, "/")
	if len(parts) < 5 || parts[1] != "t" {
		return "", 0, 0, false
	}
	tok = parts[2]
	size, e1 := strconv.Atoi(strings.TrimPrefix(parts[3], "r"))
	delayMs, e2 := strconv.Atoi(strings.TrimPrefix(parts[4], "d"))
	return tok, size, delayMs, e1 == nil && e2 == nil
}

// backendSeen is what the token backend recorded for one arrival.
type backendSeen struct {
	Tok      string
	Method   string
	Target   string
	HdrTok   []string
	BodySHA  string
	BodyLen  int
	At       time.Time
	Seq      int
	Req      *rawhttp.Message
	InFlight int
}

// tokBackend is the scripted raw-TCP backend answering tokResponseFor.
type tokBackend struct {
	Srv      *rawhttp.Server
	mu       sync.Mutex
	seen     []backendSeen
	inflight int
	maxIn    int
	// Optional override: return true if it wrote the response itself.
	Override func(req *rawhttp.Message, conn net.Conn, br *bufio.Reader) (handled, keep bool)
	KeepReq  bool
}

func newTokBackend() (*tokBackend, error) { return newTokBackendOn("127.0.0.1:0") }

// newTokBackendOn starts the token backend on a given address (a backend that comes up late).
func newTokBackendOn(addr string) (*tokBackend, error) {
	b := &tokBackend{}
	s, err := rawhttp.NewServerOn(addr, b.handle)
	if err != nil {
		return nil, err
	}
	b.Srv = s
	return b, nil
}

func (b *tokBackend) handle(req *rawhttp.Message, reqErr error, conn net.Conn, br *bufio.Reader) bool {
	if reqErr != nil {
		return false
	}
	tok, size, delay, ok := parseTokPath(req.Target)
	b.mu.Lock()
	b.inflight++
	if b.inflight > b.maxIn {
		b.maxIn = b.inflight
	}
	s := backendSeen{Tok: tok, Method: req.Method, Target: req.Target, HdrTok: req.Get("X-Tok"), BodySHA: req.BodySHA(),
		BodyLen: len(req.Body), At: time.Now(), Seq: len(b.seen), InFlight: b.inflight}
	if b.KeepReq {
		s.Req = req
	}
	b.seen = append(b.seen, s)
	b.mu.Unlock()
	defer func() { b.mu.Lock(); b.inflight--; b.mu.Unlock() }()
	if b.Override != nil {
		if handled, keep := b.Override(req, conn, br); handled {
			return keep
		}
	}
	if !ok {
		var w rawhttp.Builder
		w.Line("HTTP/1.1 200 OK").Field("Content-Length", "2").End()
		w.WriteString("ok")
		conn.Write(w.Bytes())
		return true
	}
	if delay > 0 {
		time.Sleep(time.Duration(delay) * time.Millisecond)
	}
	tr := tokResponseFor(tok, size)
	var w rawhttp.Builder
	w.Line(fmt.Sprintf("HTTP/1.1 %d X", tr.Status))
	w.Fields(tr.Fields)
	w.Field("Trailer", "X-Tok-Trailer")
	w.Field("Transfer-Encoding", "chunked").End()
	paced := strings.Contains(req.Target, "/paced") // body sent in pieces with pauses: stays in flight for a while
	if req.Method != "HEAD" {
		body := tr.Body
		// several chunks so the response is streamed
		for len(body) > 0 {
			n := len(body)
			if n > 16<<10 {
				n = 16 << 10
			}
			if paced && n > 2048 {
				n = 2048
			}
			w.Chunk(body[:n])
			body = body[n:]
			if paced {
				if _, err := conn.Write(w.Bytes()); err != nil {
					return false
				}
				w.Reset()
				time.Sleep(8 * time.Millisecond)
			}
		}
		w.LastChunk(tr.Trailer)
	}
	_, err := conn.Write(w.Bytes())
	return err == nil
}

func (b *tokBackend) Seen() []backendSeen {
	b.mu.Lock()
	defer b.mu.Unlock()
	return append([]backendSeen(nil), b.seen...)
}

func (b *tokBackend) MaxInFlight() int { b.mu.Lock(); defer b.mu.Unlock(); return b.maxIn }

// tokRequest builds the raw request for a token. A field named ":paced" in
// extra (not sent) asks the backend to dribble the response body.
func tokRequest(method, tok string, respSize, delayMs int, host string, body []byte, extra []rawhttp.Field) []byte {
	var w rawhttp.Builder
	leaf := "x"
	var keep []rawhttp.Field
	for _, f := range extra {
		if f.Name == ":paced" {
			leaf = "paced"
		} else {
			keep = append(keep, f)
		}
	}
	extra = keep
	w.Line(fmt.Sprintf("%s /t/%s/r%d/d%d/%s HTTP/1.1", method, tok, respSize, delayMs, leaf))
	w.Field("Host", host)
	w.Field("X-Tok", tok)
	w.Field("Accept-Encoding", "identity")
	w.Fields(extra)
	if body != nil {
		w.Field("Content-Length", strconv.Itoa(len(body)))
	}
	w.End()
	w.Write(body)
	return w.Bytes()
}

// checkTokResponse compares a client-observed response with the scripted one
// and returns the list of token sites that disagree.
func checkTokResponse(m *rawhttp.Message, method, tok string, size int) []string {
	want := tokResponseFor(tok, size)
	var bad []string
	if m.Status != want.Status {
		bad = append(bad, fmt.Sprintf("status %d want %d", m.Status, want.Status))
	}
	if v := m.Get("X-Tok"); len(v) != 1 || v[0] != tok {
		bad = append(bad, fmt.Sprintf("X-Tok %q want %q", v, tok))
	}
	sc := m.Get("Set-Cookie")
	if len(sc) != 2 || sc[0] != "a="+tok+"; Path=/" || sc[1] != "b="+tok+"-2; Path=/x" {
		bad = append(bad, fmt.Sprintf("Set-Cookie %q", sc))
	}
	if method != "HEAD" {
		if rawhttp.SHA(m.Body) != rawhttp.SHA(want.Body) {
			bad = append(bad, fmt.Sprintf("body len %d sha %s want len %d sha %s", len(m.Body), rawhttp.SHA(m.Body), len(want.Body), rawhttp.SHA(want.Body)))
		}
		if v := m.GetTrailer("X-Tok-Trailer"); len(v) != 1 || v[0] != tok {
			bad = append(bad, fmt.Sprintf("trailer %q want %q", v, tok))
		}
	}
	return bad
}

// killAll kills the given processes.
func killAll(ps ...*core.Proc) {
	for _, p := range ps {
		if p != nil {
			p.Kill()
		}
	}
}

// judgeProcs scans process logs for crash markers and race reports.
func judgeProcs(r *core.Run, expectAlive bool, ps ...*core.Proc) {
	for _, p := range ps {
		if p == nil {
			continue
		}
		for _, ex := range core.CrashMarkers(p.LogPath) {
			r.Violate(core.CrashSignature(ex), p.Name+" crashed: "+ex, nil, nil)
		}
		if expectAlive && !p.Alive() {
			if len(core.CrashMarkers(p.LogPath)) == 0 {
				r.Violate("exit:"+strings.TrimRight(p.Name, "0123456789"), p.Name+" exited unexpectedly: "+core.Trunc(tail(p.Log(), 1500), 1500), nil, nil)
			}
		}
	}
}

func tail(s string, n int) string {
	if len(s) > n {
		return s[len(s)-n:]
	}
	return s
}

// hookHits reads the hit counters a hooked process dumped (VERIF_HOOK_STATS).
func hookHits(r *core.Run, name string) map[string]int {
	out := map[string]int{}
	b, err := os.ReadFile(filepath.Join(r.WorkDir, "hooks-"+name))
	if err != nil {
		return out
	}
	for _, ln := range strings.Split(string(b), "\n") {
		var k string
		var v int
		if n, _ := fmt.Sscanf(ln, "%s %d", &k, &v); n == 2 {
			out[k] = v
		}
	}
	return out
}

// wsEcho is a minimal websocket server side for scripted raw backends: it
// answers the handshake and echoes every text/binary message as a text
// message "echo:<last path segment>:<payload>" until the peer closes (the
// path segment identifies the connection, so cross-wired sessions show).
func wsEcho(req *rawhttp.Message, conn net.Conn, br *bufio.Reader) {
	key := ""
	if v := req.Get("Sec-WebSocket-Key"); len(v) > 0 {
		key = v[0]
	}
	h := sha1.Sum([]byte(key + "258EAFA5-E914-47DA-95CA-C5AB0DC85B11"))
	var w rawhttp.Builder
	w.Line("HTTP/1.1 101 Switching Protocols").Field("Upgrade", "websocket").Field("Connection", "Upgrade").
		Field("Sec-WebSocket-Accept", base64.StdEncoding.EncodeToString(h[:])).End()
	if _, err := conn.Write(w.Bytes()); err != nil {
		return
	}
	conn.SetDeadline(time.Now().Add(10 * time.Minute))
	if strings.Contains(req.Target, "/close-now/") {
		// the backend ends this session itself with a normal closure (1000), after one greeting
		conn.Write([]byte{0x81, 5, 'h', 'e', 'l', 'l', 'o'})
		code := 1000
		if strings.Contains(req.Target, "/going-away/") {
			code = 1001
		}
		conn.Write([]byte{0x88, 2, byte(code >> 8), byte(code)})
		time.Sleep(50 * time.Millisecond)
		return
	}
	if strings.Contains(req.Target, "/job-then-close/") {
		// a job: three results, then a normal closure - the results are the client's to collect afterwards
		t := req.Target[strings.LastIndexByte(req.Target, '/')+1:]
		for k := 0; k < 3; k++ {
			m := fmt.Sprintf("%s-r%d", t, k)
			conn.Write(append([]byte{0x81, byte(len(m))}, m...))
		}
		conn.Write([]byte{0x88, 2, 0x03, 0xe8})
		time.Sleep(50 * time.Millisecond)
		return
	}
	if strings.Contains(req.Target, "/stall-then-") {
		// the backend stops reading (so the peer's writes back up), then ends the session: with a close frame (1001) or a reset
		time.Sleep(1500 * time.Millisecond)
		if strings.Contains(req.Target, "/stall-then-reset/") {
			if tc, ok := conn.(*net.TCPConn); ok {
				tc.SetLinger(0)
			}
			return
		}
		// (the peer's websocket library answers a close frame with one of its own and waits up to a second for
		// its blocked writer to let go before it reports the closure; stay connected, unread, for longer than that)
		conn.Write([]byte{0x88, 2, 0x03, 0xe9})
		time.Sleep(2500 * time.Millisecond)
		return
	}
	tag := req.Target
	if i := strings.IndexByte(tag, '?'); i >= 0 {
		tag = tag[:i]
	}
	tag = tag[strings.LastIndexByte(tag, '/')+1:]
	send := func(op byte, p []byte) error {
		hdr := []byte{0x80 | op}
		switch {
		case len(p) < 126:
			hdr = append(hdr, byte(len(p)))
		case len(p) < 65536:
			hdr = append(hdr, 126, byte(len(p)>>8), byte(len(p)))
		default:
			hdr = append(hdr, 127, 0, 0, 0, 0, byte(len(p)>>24), byte(len(p)>>16), byte(len(p)>>8), byte(len(p)))
		}
		_, err := conn.Write(append(hdr, p...))
		return err
	}
	for {
		var h2 [2]byte
		if _, err := io.ReadFull(br, h2[:]); err != nil {
			return
		}
		op := h2[0] & 0x0f
		n := int(h2[1] & 0x7f)
		if n == 126 {
			var e [2]byte
			io.ReadFull(br, e[:])
			n = int(e[0])<<8 | int(e[1])
		} else if n == 127 {
			var e [8]byte
			io.ReadFull(br, e[:])
			n = int(e[4])<<24 | int(e[5])<<16 | int(e[6])<<8 | int(e[7])
		}
		var mask [4]byte
		if h2[1]&0x80 != 0 {
			io.ReadFull(br, mask[:])
		}
		p := make([]byte, n)
		if _, err := io.ReadFull(br, p); err != nil {
			return
		}
		if h2[1]&0x80 != 0 {
			for i := range p {
				p[i] ^= mask[i%4]
			}
		}
		switch op {
		case 1, 2:
			if send(1, append([]byte("echo:"+tag+":"), p...)) != nil {
				return
			}
		case 8:
			send(8, p)
			return
		case 9:
			send(10, p)
		}
	}
}
