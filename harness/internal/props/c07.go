package props

import (
	"bufio"
	"bytes"
	"encoding/json"
	"fmt"
	"io"
	"net"
	"net/http"
	"os"
	"path/filepath"
	"strings"
	"sync"
	"sync/atomic"
	"syscall"
	"time"

	"golang.org/x/net/http2"
	"golang.org/x/net/http2/h2c"

	"verif/internal/core"
	"verif/internal/fakes"
	"verif/internal/rawhttp"
)

// c07Faults is the catalogue: name -> injection point.
var c07Faults = []struct{ Point, Kind string }{
	{"list", "500"}, {"list", "404"}, {"list", "garbage-json"}, {"list", "non-string-json"}, {"list", "oversized"}, {"list", "reset"}, {"list", "null-ids"}, {"list", "blank-body"}, {"list", "empty-body"}, {"list", "bom-json"}, {"list", "html-200"},
	{"fetch", "reset-before-headers-x3"}, {"fetch", "close-before-headers-x3"}, {"fetch", "reset-x2-then-ok"},
	{"fetch", "404"}, {"fetch", "500x3"}, {"fetch", "500x2-then-ok"}, {"fetch", "not-http"}, {"fetch", "no-start-time"}, {"fetch", "truncated-body"}, {"fetch", "reset-mid-body"},
	{"backend", "refused"},
	{"backend", "garbage-status"}, {"backend", "huge-headers"}, {"backend", "close-before-headers"}, {"backend", "rst"},
	{"backend", "short-content-length"}, {"backend", "rst-mid-chunk"}, {"backend", "bad-chunk-size"}, {"backend", "one-byte-then-trailers"}, {"backend", "lying-content-encoding"}, {"backend", "malformed-set-cookie"}, {"backend", "latin1-html-head-at-chunk-end"},
	{"backend-h2", "abort-before-headers"}, {"backend-h2", "abort-mid-body"}, {"backend-h2", "huge-headers"}, {"backend-h2", "slow-then-abort"},
	{"upload", "500x3"}, {"upload", "404"}, {"upload", "reset-at-0"}, {"upload", "reset-at-4096"}, {"upload", "reset-at-end"}, {"upload", "stall"}, {"upload", "409-after-first-bytes"}, {"upload", "401-after-first-bytes"},
	{"shim", "data-malformed-json"}, {"shim", "data-unknown-session"}, {"shim", "poll-unknown-session"}, {"shim", "close-unknown-session"}, {"shim", "open-backend-refuses-upgrade"}, {"shim", "open-slow-failure-overlapping-opens"}, {"shim", "malformed-data-on-live-session"}, {"shim", "backend-closes-session-normally"}, {"shim", "backend-closes-session-going-away"}, {"shim", "open-malformed-url"}, {"shim", "data-wrong-shape"}, {"shim", "backend-stalls-then-closes-during-client-burst"}, {"shim", "backend-stalls-then-resets-during-client-burst"},
}

type c07Lane struct {
	name string
	cfg  []string
	shim bool
	sess bool
	h2   bool // agent started with --force-http2 against an h2c backend
}

// C07 — one failing request never takes down the agent or other requests.
func C07(r *core.Run) {
	r.Level = "fault_enumeration"
	r.SetRule("real agent (plain; shim+sessions+banner) + scripted fake proxy + scripted raw backend; 8 lanes of healthy token requests run continuously while faults from an enumerated catalogue (injection point x kind: pending list, fetch, backend connect/headers/body, upload, shim endpoints) are injected one after another at scripted positions, each repeated; judged: agent process alive and crash-free, every healthy probe before/during/after answered correctly, unreachable backend => uploaded 502; class = (agent config, injection point, kind)")
	r.Assume("a fault may fail its own request in any way; probes have a 20 s progress bound (normal latency is milliseconds)")
	agentBin := r.MustBuild(r.BuildRepoBinary("./agent", "agent"))
	md, err := fakes.NewMetadata()
	if err != nil {
		r.Broken(err.Error())
		r.Finish(1)
	}
	defer md.Close()
	lanes := []c07Lane{
		{name: "plain", cfg: []string{"--proxy-timeout=3s"}},
		{name: "h2", cfg: []string{"--proxy-timeout=3s", "--force-http2=true"}, h2: true},
		{name: "full", cfg: []string{"--proxy-timeout=3s", "--shim-path=shim", "--shim-websockets=true", "--session-cookie-name=SID", "--disable-ssl-for-test=true", "--session-cookie-cache-limit=1000000", "--inject-banner=<b>banner</b>"}, shim: true, sess: true},
		{name: "full+injection", cfg: []string{"--proxy-timeout=3s", "--shim-path=shim", "--shim-websockets=true", "--session-cookie-name=SID", "--disable-ssl-for-test=true", "--session-cookie-cache-limit=1000000", "--inject-banner=<b>banner</b>", "--enable-websockets-injection=true", "--rewrite-websocket-host=true"}, shim: true, sess: true},
	}
	reps := r.Pick(1, 4)
	var wg sync.WaitGroup
	for li, ln := range lanes {
		wg.Add(1)
		go func(li int, ln c07Lane) {
			defer wg.Done()
			c07Lane_(r, agentBin, md, li, ln, reps)
		}(li, ln)
	}
	wg.Wait()
	r.JudgeRaces(core.ParseRaceLogs(filepath.Join(r.WorkDir, "race-")))
	r.Finish(r.Pick(40, 200))
}

// c07BlackHole: a backend address that neither accepts nor refuses (a listening socket whose accept queue is full, so
// further SYNs are dropped): the agent's connect runs into the transport's 30 s dial time-out, and the client must still
// get a 502 rather than nothing or something else.
func c07BlackHole(r *core.Run, agentBin string, md *fakes.Metadata, ln c07Lane, li int) {
	fd, err := syscall.Socket(syscall.AF_INET, syscall.SOCK_STREAM, 0)
	if err != nil {
		r.Inconclusive("black-hole scenario: socket: " + err.Error())
		return
	}
	defer syscall.Close(fd)
	if err := syscall.Bind(fd, &syscall.SockaddrInet4{Addr: [4]byte{127, 0, 0, 1}}); err != nil {
		r.Inconclusive("black-hole scenario: bind: " + err.Error())
		return
	}
	if err := syscall.Listen(fd, 0); err != nil {
		r.Inconclusive("black-hole scenario: listen: " + err.Error())
		return
	}
	sa, _ := syscall.Getsockname(fd)
	port := sa.(*syscall.SockaddrInet4).Port
	addr := fmt.Sprintf("127.0.0.1:%d", port)
	// fill the accept queue (never accepted), then verify that a further connect really hangs
	var fillers []net.Conn
	defer func() {
		for _, c := range fillers {
			c.Close()
		}
	}()
	for k := 0; k < 3; k++ {
		if c, err := net.DialTimeout("tcp", addr, 300*time.Millisecond); err == nil {
			fillers = append(fillers, c)
		}
	}
	if c, err := net.DialTimeout("tcp", addr, 1500*time.Millisecond); err == nil {
		c.Close()
		r.Inconclusive("black-hole scenario: the kernel still accepts connections on the full queue; scenario skipped")
		return
	}
	px, err := fakes.NewProxy()
	if err != nil {
		r.Broken(err.Error())
		return
	}
	defer px.Close()
	px.ListWait = 30 * time.Millisecond
	var cfg []string
	for _, a := range ln.cfg {
		if !strings.HasPrefix(a, "--proxy-timeout") {
			cfg = append(cfg, a)
		}
	}
	agent, err := startAgent(r, agentBin, fmt.Sprintf("agent7bh-%s", ln.name), md, px.URL(), addr, "b7bh", cfg...)
	if err != nil {
		r.Broken(err.Error())
		return
	}
	defer agent.Kill()
	for d := time.Now().Add(60 * time.Second); time.Now().Before(d) && px.Lists() == 0 && agent.Alive(); {
		time.Sleep(10 * time.Millisecond)
	}
	id := fmt.Sprintf("blackhole-%d", li)
	px.Enqueue(id, tokRequest("GET", id, 10, 0, "c07.example", nil, nil), "")
	up, ok := px.Wait(id, 50*time.Second)
	r.Case(fmt.Sprintf("%s|backend|black-holed", ln.name))
	switch {
	case !agent.Alive():
		r.Violate("C07:agent-terminated:"+ln.name+":backend/black-holed", "the agent exited after a request to a black-holed backend: "+core.Trunc(tail(agent.Log(), 800), 800), nil, nil)
	case !ok || up == nil || up.Resp == nil:
		r.Violate("C07:unreachable-backend:no-response:black-holed", fmt.Sprintf("config %s: a request to a backend that neither accepts nor refuses connections produced no uploaded response within 50 s (the dial time-out is 30 s)", ln.name), nil, nil)
	case up.Resp.Status != 502:
		r.Violate("C07:unreachable-backend:not-502:black-holed", fmt.Sprintf("config %s: a request to a backend that neither accepts nor refuses connections was answered %d, not 502", ln.name, up.Resp.Status), nil, nil)
	}
}

func c07Lane_(r *core.Run, agentBin string, md *fakes.Metadata, li int, ln c07Lane, reps int) {
	if ln.name == "plain" {
		bhDone := make(chan struct{})
		go func() { defer close(bhDone); c07BlackHole(r, agentBin, md, ln, li) }()
		defer func() { <-bhDone }()
	}
	backend, err := newTokBackend()
	if err != nil {
		r.Broken(err.Error())
		return
	}
	defer backend.Srv.Close()
	backend.Override = func(req *rawhttp.Message, conn net.Conn, br *bufio.Reader) (bool, bool) {
		if strings.HasPrefix(req.Target, "/ws/echo/") && rawhttp.HasToken(req.Get("Upgrade"), "websocket") {
			wsEcho(req, conn, br)
			return true, false
		}
		if req.Target == "/sess/login" || strings.HasPrefix(req.Target, "/app/whoami") {
			// a backend session whose only cookie is scoped to /app; whoami reports the cookies the backend was sent
			var w rawhttp.Builder
			body := "cookies=" + strings.Join(req.Get("Cookie"), "; ")
			w.Line("HTTP/1.1 200 OK")
			if req.Target == "/sess/login" {
				w.Field("Set-Cookie", "appsid=logged-in; Path=/app")
			}
			w.Field("Content-Length", fmt.Sprint(len(body))).End()
			w.WriteString(body)
			_, err := conn.Write(w.Bytes())
			return true, err == nil
		}
		if !strings.HasPrefix(req.Target, "/fault/") {
			return false, false
		}
		parts := strings.Split(req.Target, "/")
		kind := parts[2]
		rst := func() {
			if tc, ok := conn.(*net.TCPConn); ok {
				tc.SetLinger(0)
			}
		}
		switch kind {
		case "garbage-status":
			conn.Write([]byte("BLAH BLAH\r\n\r\n"))
		case "huge-headers":
			var w rawhttp.Builder
			w.Line("HTTP/1.1 200 OK")
			for i := 0; i < 1200; i++ {
				w.Field(fmt.Sprintf("X-Pad-%d", i), strings.Repeat("p", 1000))
			}
			w.End()
			conn.Write(w.Bytes())
		case "close-before-headers":
		case "slow-close":
			time.Sleep(150 * time.Millisecond)
		case "rst":
			rst()
		case "short-content-length":
			conn.Write([]byte("HTTP/1.1 200 OK\r\nContent-Length: 1000\r\n\r\n" + strings.Repeat("x", 100)))
		case "rst-mid-chunk":
			conn.Write([]byte("HTTP/1.1 200 OK\r\nTransfer-Encoding: chunked\r\n\r\n3e8\r\n" + strings.Repeat("x", 100)))
			time.Sleep(20 * time.Millisecond)
			rst()
		case "bad-chunk-size":
			conn.Write([]byte("HTTP/1.1 200 OK\r\nTransfer-Encoding: chunked\r\n\r\nzz\r\nabc\r\n0\r\n\r\n"))
		case "one-byte-then-trailers":
			conn.Write([]byte("HTTP/1.1 200 OK\r\nTrailer: X-A, X-B\r\nTransfer-Encoding: chunked\r\n\r\n1\r\nx\r\n0\r\nX-A: 1\r\nX-B: 2\r\n\r\n"))
			return true, true
		case "latin1-html-head-at-chunk-end":
			// an HTML page in an 8-bit encoding (bytes that are not valid UTF-8 before <head>) whose first piece on the wire ends right after the tag
			first := "<html lang=fr><!-- page g\xe9n\xe9r\xe9e \xe0 la vol\xe9e \xfc\xf6\xe4\xdf \xe9\xe9\xe9\xe9\xe9\xe9\xe9\xe9\xe9\xe9\xe9\xe9 --><head>"
			rest := "<title>t</title></head><body>caf\xe9</body></html>"
			conn.Write([]byte(fmt.Sprintf("HTTP/1.1 200 OK\r\nContent-Type: text/html; charset=iso-8859-1\r\nTransfer-Encoding: chunked\r\n\r\n%x\r\n%s\r\n", len(first), first)))
			time.Sleep(40 * time.Millisecond)
			conn.Write([]byte(fmt.Sprintf("%x\r\n%s\r\n0\r\n\r\n", len(rest), rest)))
			return true, true
		case "malformed-set-cookie":
			conn.Write([]byte("HTTP/1.1 200 OK\r\nSet-Cookie: =oops; Path=/\r\nSet-Cookie: ; HttpOnly\r\nSet-Cookie: a b=c\r\nSet-Cookie: \r\nSet-Cookie: name-only\r\n" +
				"Set-Cookie: q=\"unterminated; Path=/\r\nSet-Cookie: ok=1; Path=/; Max-Age=notanumber\r\nSet-Cookie: fine=1; Path=/\r\nContent-Length: 2\r\n\r\nok"))
			return true, true
		case "lying-content-encoding":
			conn.Write([]byte("HTTP/1.1 200 OK\r\nContent-Encoding: gzip\r\nContent-Length: 9\r\n\r\nnot-gzip!"))
			return true, true
		}
		return true, false
	}
	px, err := fakes.NewProxy()
	if err != nil {
		r.Broken(err.Error())
		return
	}
	defer px.Close()
	px.ListWait = 30 * time.Millisecond
	if ln.name == "plain" {
		px.Relist = true // App Engine style: an ID stays listed until its response has arrived
	}
	var listFault atomic.Value // string: fault for the next list call
	listFault.Store("")
	var fmu sync.Mutex
	fetchCount := map[string]int{}
	upCount := map[string]int{}
	hijack := func(w http.ResponseWriter) net.Conn {
		if hj, ok := w.(http.Hijacker); ok {
			c, _, _ := hj.Hijack()
			return c
		}
		return nil
	}
	px.OnList = func(w http.ResponseWriter, req *http.Request) bool {
		k, _ := listFault.Load().(string)
		if k == "" {
			return false
		}
		listFault.Store("")
		switch k {
		case "500":
			http.Error(w, "scripted", 500)
		case "404":
			http.Error(w, "scripted", 404)
		case "garbage-json":
			w.Write([]byte(`["abc", {`))
		case "non-string-json":
			w.Write([]byte(`[1, 2, {"a": null}]`))
		case "null-ids":
			w.Write([]byte(`[null, "", "no-such-id"]`))
		case "blank-body":
			w.Write([]byte("\r\n")) // a 200 whose body is white space only
		case "empty-body":
			w.WriteHeader(200)
		case "bom-json":
			w.Write([]byte("\ufeff[]"))
		case "html-200":
			w.Header().Set("Content-Type", "text/html")
			w.Write([]byte("  <html><body>Sign in to continue</body></html>\n")) // a captive portal / login page answering 200
		case "oversized":
			w.Write([]byte(`["` + strings.Repeat("x", 1100000) + `"]`))
		case "reset":
			if c := hijack(w); c != nil {
				if tc, ok := c.(*net.TCPConn); ok {
					tc.SetLinger(0)
				}
				c.Close()
			}
		}
		return true
	}
	faultOf := func(id, point string) string {
		// IDs look like "F|<point>|<kind>|<n>"
		p := strings.Split(id, "|")
		if len(p) >= 3 && p[0] == "F" && p[1] == point {
			return p[2]
		}
		return ""
	}
	px.OnFetch = func(id string, w http.ResponseWriter, req *http.Request) bool {
		k := faultOf(id, "fetch")
		if k == "" {
			return false
		}
		fmu.Lock()
		fetchCount[id]++
		n := fetchCount[id]
		fmu.Unlock()
		start := time.Now().Format(time.RFC3339Nano)
		switch k {
		case "reset-before-headers-x3", "close-before-headers-x3", "reset-x2-then-ok":
			if k == "reset-x2-then-ok" && n > 2 {
				return false
			}
			if c := hijack(w); c != nil {
				if tc, ok := c.(*net.TCPConn); ok && k != "close-before-headers-x3" {
					tc.SetLinger(0)
				}
				c.Close()
			}
		case "404":
			http.Error(w, "scripted", 404)
		case "500x3":
			http.Error(w, "scripted", 500)
		case "500x2-then-ok":
			if n <= 2 {
				http.Error(w, "scripted", 502)
				return true
			}
			return false
		case "not-http":
			w.Header().Set("X-Inverting-Proxy-Request-Start-Time", start)
			w.Write([]byte("this is not an http request\r\n\r\n"))
		case "no-start-time":
			w.Write(tokRequest("GET", "nostart", 10, 0, "x", nil, nil))
		case "truncated-body":
			if c := hijack(w); c != nil {
				c.Write([]byte("HTTP/1.1 200 OK\r\nX-Inverting-Proxy-Request-Start-Time: " + start + "\r\nContent-Length: 500\r\n\r\nPOST /t/trunc/r10/d0/x HTTP/1.1\r\nHost: x\r\nContent-Length: 300\r\n\r\nabc"))
				c.Close()
			}
		case "reset-mid-body":
			if c := hijack(w); c != nil {
				c.Write([]byte("HTTP/1.1 200 OK\r\nX-Inverting-Proxy-Request-Start-Time: " + start + "\r\nContent-Length: 500\r\n\r\nPOST /t/rst/r10/d0/x HTTP/1.1\r\nHost: x\r\nContent-Length: 300\r\n\r\nabc"))
				time.Sleep(10 * time.Millisecond)
				if tc, ok := c.(*net.TCPConn); ok {
					tc.SetLinger(0)
				}
				c.Close()
			}
		}
		return true
	}
	px.OnResponse = func(id string, w http.ResponseWriter, req *http.Request) bool {
		k := faultOf(id, "upload")
		if k == "" {
			return false
		}
		fmu.Lock()
		upCount[id]++
		fmu.Unlock()
		readN := func(n int) {
			buf := make([]byte, 4096)
			got := 0
			for got < n {
				k, err := req.Body.Read(buf)
				got += k
				if err != nil {
					return
				}
			}
		}
		rst := func() {
			if c := hijack(w); c != nil {
				if tc, ok := c.(*net.TCPConn); ok {
					tc.SetLinger(0)
				}
				c.Close()
			}
		}
		switch k {
		case "500x3":
			http.Error(w, "scripted", 500)
		case "404":
			http.Error(w, "scripted", 404)
		case "reset-at-0":
			rst()
		case "reset-at-4096":
			readN(4096)
			rst()
		case "reset-at-end":
			readN(1 << 30)
			rst()
		case "stall":
			time.Sleep(4 * time.Second) // longer than --proxy-timeout=3s
			http.Error(w, "late", 500)
		case "409-after-first-bytes", "401-after-first-bytes":
			// an early rejection of a partly uploaded response that the backend is still producing; the connection
			// stays open for a while, so the agent's transport is still sending when the reply arrives
			readN(1000)
			if c := hijack(w); c != nil {
				c.Write([]byte("HTTP/1.1 " + k[:3] + " Rejected\r\nContent-Type: text/plain\r\nContent-Length: 9\r\n\r\nrejected\n"))
				go func() {
					c.SetReadDeadline(time.Now().Add(600 * time.Millisecond))
					io.Copy(io.Discard, c)
					c.Close()
				}()
			}
		}
		return true
	}
	backendAddr := backend.Srv.Addr()
	if ln.h2 {
		h2l, err := net.Listen("tcp", "127.0.0.1:0")
		if err != nil {
			r.Broken(err.Error())
			return
		}
		defer h2l.Close()
		h2srv := &http.Server{Handler: h2c.NewHandler(http.HandlerFunc(c07H2Handler), &http2.Server{})}
		go h2srv.Serve(h2l)
		defer h2srv.Close()
		backendAddr = h2l.Addr().String()
	}
	agent, err := startAgent(r, agentBin, "agent7-"+ln.name, md, px.URL(), backendAddr, "b7-"+ln.name, ln.cfg...)
	if err != nil {
		r.Broken(err.Error())
		return
	}
	defer agent.Kill()

	// healthy lanes
	var current atomic.Value
	current.Store("start-up")
	stop := make(chan struct{})
	var probes, probeFails, slowProbes int64
	var pwg sync.WaitGroup
	probe := func(tok string, size int) (bool, string) {
		delay := 0
		if tokHash(tok)%4 == 0 {
			delay = 40 // stays in flight across several list calls
		}
		px.Enqueue(tok, tokRequest("GET", tok, size, delay, "c07.example", nil, nil), "")
		up, ok := px.Wait(tok, 20*time.Second)
		if !ok || up.Resp == nil {
			return false, "no complete response uploaded within 20s"
		}
		bad := checkTokResponse(up.Resp, "GET", tok, size)
		if ln.sess {
			var keep []string
			for _, b := range bad {
				if !strings.HasPrefix(b, "Set-Cookie") {
					keep = append(keep, b)
				}
			}
			bad = keep
		}
		if len(bad) > 0 {
			return false, strings.Join(bad, "; ")
		}
		return true, ""
	}
	for lane := 0; lane < 8; lane++ {
		pwg.Add(1)
		go func(lane int) {
			defer pwg.Done()
			for i := 0; ; i++ {
				select {
				case <-stop:
					return
				default:
				}
				during, _ := current.Load().(string)
				tok := fmt.Sprintf("p%ds%dl%di%d", li, r.Seed, lane, i)
				t0 := time.Now()
				ok, why := probe(tok, []int{10, 1000, 5000, 40000}[i%4])
				atomic.AddInt64(&probes, 1)
				if ok && time.Since(t0) > time.Second {
					atomic.AddInt64(&slowProbes, 1)
				}
				after, _ := current.Load().(string)
				if !ok && strings.HasPrefix(why, "no complete response") && atomic.LoadInt64(&slowProbes)*20 > atomic.LoadInt64(&probes) &&
					agent.Alive() && strings.Contains(agent.Log(), tok) && strings.Contains(agent.Log(), "Client.Timeout") {
					// load gauge: more than 5% of this lane's healthy probes needed over a second (they take milliseconds on a calm
					// machine) and the agent logged its own 3 s client time-out for this very request: the machine, not a neighbour's fault
					r.Inconclusive(fmt.Sprintf("healthy probe %s (issued during [%s]) got no response while %d of %d probes of the lane were slower than 1 s and the agent's own client time-out expired for it", tok, during, atomic.LoadInt64(&slowProbes), atomic.LoadInt64(&probes)))
					continue
				}
				if !ok {
					atomic.AddInt64(&probeFails, 1)
					r.Violate("C07:healthy-request-disturbed:"+ln.name+":during="+during, fmt.Sprintf("healthy probe %s issued during fault [%s] (finished during [%s]) failed: %s", tok, during, after, why), nil, nil)
					if !agent.Alive() {
						return
					}
				}
				time.Sleep(2 * time.Millisecond)
			}
		}(lane)
	}
	// healthy websocket-shim sessions (only in the configuration with the shim): each lane repeatedly opens a
	// session to the echo endpoint, exchanges tagged messages and closes it; a wrong, missing or foreign echo is
	// a disturbed neighbour
	shimCall := func(id, path, body string, hdr ...rawhttp.Field) (*fakes.Upload, bool) {
		var w rawhttp.Builder
		w.Line("POST "+path+" HTTP/1.1").Field("Host", "c07.example").Fields(hdr).Field("Content-Length", fmt.Sprint(len(body))).End()
		w.WriteString(body)
		px.Enqueue(id, w.Bytes(), "")
		up, ok := px.Wait(id, 25*time.Second)
		return up, ok && up.Resp != nil
	}
	var shimProbes, stallBursts int64
	if ln.shim {
		for lane := 0; lane < 3; lane++ {
			pwg.Add(1)
			go func(lane int) {
				defer pwg.Done()
				for i := 0; ; i++ {
					select {
					case <-stop:
						return
					default:
					}
					during, _ := current.Load().(string)
					tag := fmt.Sprintf("ws%ds%dl%di%d", li, r.Seed, lane, i)
					fail := func(why string) {
						after, _ := current.Load().(string)
						r.Violate("C07:healthy-shim-session-disturbed:"+ln.name+":during="+during, fmt.Sprintf("healthy shim session %s started during fault [%s] (finished during [%s]): %s", tag, during, after, why), nil, nil)
					}
					up, ok := shimCall(tag+"-open", "/shim/open", "ws://x/ws/echo/"+tag, rawhttp.Field{Name: "X-Websocket-Shim-Version", Value: "1"})
					if !ok || up.Resp.Status != 200 {
						st := 0
						if ok {
							st = up.Resp.Status
						}
						fail(fmt.Sprintf("open answered %d", st))
						time.Sleep(50 * time.Millisecond)
						continue
					}
					var om struct {
						ID string `json:"id"`
					}
					json.Unmarshal(up.Resp.Body, &om)
					good := true
					for k := 0; k < 4 && good; k++ {
						msg := fmt.Sprintf("m-%s-%d", tag, k)
						if k == 2 {
							time.Sleep(60 * time.Millisecond) // stay open across other sessions' opens
						}
						d, _ := json.Marshal([]map[string]interface{}{{"id": om.ID, "msg": msg}})
						if up, ok := shimCall(fmt.Sprintf("%s-d%d", tag, k), "/shim/data", string(d)); !ok || up.Resp.Status != 200 {
							fail(fmt.Sprintf("data call %d on session %s not answered 200", k, om.ID))
							good = false
							break
						}
						up, ok := shimCall(fmt.Sprintf("%s-p%d", tag, k), "/shim/poll", fmt.Sprintf(`{"id":%q}`, om.ID))
						var got []interface{}
						if ok {
							json.Unmarshal(up.Resp.Body, &got)
						}
						if !ok || up.Resp.Status != 200 || len(got) != 1 || got[0] != "echo:"+tag+":"+msg {
							st := 0
							if ok {
								st = up.Resp.Status
							}
							fail(fmt.Sprintf("poll %d on session %s returned status %d %v, want [%q]", k, om.ID, st, got, "echo:"+tag+":"+msg))
							good = false
						}
					}
					shimCall(tag+"-close", "/shim/close", fmt.Sprintf(`{"id":%q}`, om.ID))
					atomic.AddInt64(&shimProbes, 1)
				}
			}(lane)
		}
	}
	// ... and "job" sessions: the backend sends three results and ends the session normally while the client is not polling;
	// the client collects the results a moment later, whatever happened to other sessions in between
	var jobSessions int64
	if ln.shim {
		pwg.Add(1)
		go func() {
			defer pwg.Done()
			for i := 0; ; i++ {
				select {
				case <-stop:
					return
				default:
				}
				during, _ := current.Load().(string)
				tag := fmt.Sprintf("job%ds%di%d", li, r.Seed, i)
				up, ok := shimCall(tag+"-open", "/shim/open", "ws://x/ws/echo/job-then-close/"+tag, rawhttp.Field{Name: "X-Websocket-Shim-Version", Value: "1"})
				if !ok || up.Resp.Status != 200 {
					time.Sleep(50 * time.Millisecond) // (failed opens are the other shim lanes' business)
					continue
				}
				var om struct {
					ID string `json:"id"`
				}
				json.Unmarshal(up.Resp.Body, &om)
				time.Sleep(350 * time.Millisecond)
				var collected []interface{}
				for k := 0; k < 6 && len(collected) < 3; k++ {
					up, ok := shimCall(fmt.Sprintf("%s-p%d", tag, k), "/shim/poll", fmt.Sprintf(`{"id":%q}`, om.ID))
					if !ok {
						break // no answer at all: the probes' business
					}
					if up.Resp.Status != 200 {
						after, _ := current.Load().(string)
						r.Violate("C07:healthy-shim-session-disturbed:"+ln.name+":results-lost:during="+during, fmt.Sprintf("shim session %s (opened during fault [%s], polled during [%s]): its backend had sent three results and closed normally; poll %d was answered %d %q after only %d results had been delivered", om.ID, during, after, k, up.Resp.Status, core.Trunc(string(up.Resp.Body), 120), len(collected)), nil, nil)
						break
					}
					var got []interface{}
					json.Unmarshal(up.Resp.Body, &got)
					collected = append(collected, got...)
				}
				for k, m := range collected {
					if k < 3 && m != fmt.Sprintf("%s-r%d", tag, k) {
						r.Violate("C07:healthy-shim-session-disturbed:"+ln.name+":results-altered:during="+during, fmt.Sprintf("shim session %s: result %d arrived as %v", om.ID, k, m), nil, nil)
					}
				}
				shimCall(tag+"-close", "/shim/close", fmt.Sprintf(`{"id":%q}`, om.ID))
				atomic.AddInt64(&jobSessions, 1)
			}
		}()
	}
	// wait until the lanes work
	deadline := time.Now().Add(30 * time.Second)
	for atomic.LoadInt64(&probes) < 16 && time.Now().Before(deadline) && agent.Alive() {
		time.Sleep(20 * time.Millisecond)
	}
	if atomic.LoadInt64(&probes) < 16 {
		r.Broken("C07 lane " + ln.name + ": healthy lanes never started: " + core.Trunc(tail(agent.Log(), 800), 800))
		close(stop)
		return
	}
	// a user's session (agent session cookie + a backend cookie scoped to /app) that the faulty requests below belong to
	userSID := ""
	whoami := func(when string) {
		if userSID == "" {
			return
		}
		var w rawhttp.Builder
		id := fmt.Sprintf("whoami-%d-%s", li, when)
		w.Line("GET /app/whoami?"+when+" HTTP/1.1").Field("Host", "c07.example").Field("Cookie", userSID).End()
		px.Enqueue(id, w.Bytes(), "")
		up, ok := px.Wait(id, 20*time.Second)
		if !ok || up.Resp == nil {
			return // (a lost response is the healthy lanes' business)
		}
		if up.Resp.Status == 200 && !strings.Contains(string(up.Resp.Body), "appsid=logged-in") {
			r.Violate("C07:session-lost-after-neighbour-fault:"+ln.name, fmt.Sprintf("config %s: after fault [%s] on another path of the same session the backend no longer receives the session's /app cookie (it saw %q)", ln.name, when, core.Trunc(string(up.Resp.Body), 120)), nil, nil)
			userSID = ""
		}
	}
	if ln.sess {
		var w rawhttp.Builder
		w.Line("GET /sess/login HTTP/1.1").Field("Host", "c07.example").End()
		px.Enqueue(fmt.Sprintf("login-%d", li), w.Bytes(), "")
		if up, ok := px.Wait(fmt.Sprintf("login-%d", li), 20*time.Second); ok && up.Resp != nil {
			for _, sc := range up.Resp.Get("Set-Cookie") {
				if strings.HasPrefix(sc, "SID=") {
					userSID = strings.SplitN(sc, ";", 2)[0]
				}
			}
		}
		whoami("login")
	}
	// inject the catalogue
	inj := 0
	statusSeen := map[string]map[int]int{}
	for rep := 0; rep < reps; rep++ {
		for _, f := range c07Faults {
			if f.Point == "shim" && !ln.shim {
				continue
			}
			if f.Point == "backend-h2" && !ln.h2 || ln.h2 && f.Point == "backend" && f.Kind != "refused" {
				continue
			}
			if !agent.Alive() {
				break
			}
			label := f.Point + "/" + f.Kind
			current.Store(label)
			before := atomic.LoadInt64(&probes)
			id := fmt.Sprintf("F|%s|%s|%d-%d", f.Point, f.Kind, rep, inj)
			inj++
			var up *fakes.Upload
			var got bool
			refusedJudged := false
			switch f.Point {
			case "list":
				for k := 0; k < 1+rep; k++ { // consecutive failures in later repetitions
					listFault.Store(f.Kind)
					for w := 0; w < 500; w++ {
						if s, _ := listFault.Load().(string); s == "" {
							break
						}
						time.Sleep(2 * time.Millisecond)
					}
				}
			case "fetch":
				px.Enqueue(id, tokRequest("GET", "ff"+fmt.Sprint(inj), 100, 0, "c07.example", nil, nil), "")
				if f.Kind == "not-http" {
					// several garbled fetches at once, next to the healthy lanes' concurrent fetches
					for k := 0; k < 7; k++ {
						px.Enqueue(fmt.Sprintf("%s-x%d", id, k), tokRequest("GET", fmt.Sprintf("ff%dx%d", inj, k), 100, 0, "c07.example", nil, nil), "")
					}
				}
				up, got = px.Wait(id, 1500*time.Millisecond)
			case "upload":
				if strings.HasSuffix(f.Kind, "-after-first-bytes") {
					px.Enqueue(id, tokRequest("GET", "fu"+fmt.Sprint(inj), 40000, 0, "c07.example", nil, []rawhttp.Field{{Name: ":paced"}}), "")
				} else {
					px.Enqueue(id, tokRequest("GET", "fu"+fmt.Sprint(inj), []int{100, 5000, 20000}[inj%3], 0, "c07.example", nil, nil), "")
				}
				wait := 1500 * time.Millisecond
				if f.Kind == "stall" {
					wait = 6 * time.Second
				}
				px.Wait(id, wait)
			case "backend-h2":
				var w rawhttp.Builder
				w.Line(fmt.Sprintf("GET /fault/%s/%d HTTP/1.1", f.Kind, inj)).Field("Host", "c07.example").Field("Accept-Encoding", "identity").End()
				px.Enqueue(id, w.Bytes(), "")
				up, got = px.Wait(id, 3*time.Second)
			case "backend":
				if f.Kind == "refused" {
					// close the backend listener, issue the request, reopen on the same port
					port := backend.Srv.Port()
					current.Store("backend/refused(listener-down)")
					// healthy lanes will fail while the only backend is down: pause them by draining via a dedicated agent instead
					up, got, refusedJudged = c07Refused(r, agentBin, md, ln, li, inj)
					_ = port
				} else {
					var w rawhttp.Builder
					w.Line(fmt.Sprintf("GET /fault/%s/%d HTTP/1.1", f.Kind, inj)).Field("Host", "c07.example").Field("Accept-Encoding", "identity")
					if userSID != "" {
						w.Field("Cookie", userSID)
					}
					w.End()
					px.Enqueue(id, w.Bytes(), "")
					up, got = px.Wait(id, 3*time.Second)
					whoami("backend/" + f.Kind)
				}
			case "shim":
				var body, path string
				if f.Kind == "malformed-data-on-live-session" {
					// a healthy session receives malformed data calls; each may fail, the session must keep working
					tag := fmt.Sprintf("live%d-%d", li, inj)
					upo, ok := shimCall(tag+"-open", "/shim/open", "ws://x/ws/echo/"+tag, rawhttp.Field{Name: "X-Websocket-Shim-Version", Value: "1"})
					if ok && upo.Resp.Status == 200 {
						var om struct {
							ID string `json:"id"`
						}
						json.Unmarshal(upo.Resp.Body, &om)
						bads := []string{
							fmt.Sprintf(`[{"id":%q,"msg":["!!!not-base64!!!"]}]`, om.ID),
							fmt.Sprintf(`[{"id":%q,"msg":{"an":"object"}}]`, om.ID),
							fmt.Sprintf(`[{"id":%q,"msg":["a","b"]}]`, om.ID),
							fmt.Sprintf(`[{"id":%q,"msg":12345}]`, om.ID),
							fmt.Sprintf(`[{"id":%q}]`, om.ID),
							fmt.Sprintf(`[{"id":%q,"msg":[123]}]`, om.ID),
							fmt.Sprintf(`[{"id":%q,"msg":[null]}]`, om.ID),
							fmt.Sprintf(`[{"id":%q,"msg":[[]]}]`, om.ID),
							fmt.Sprintf(`[{"id":%q,"msg":[{"resource":{"headers":{}}}]}]`, om.ID),
							fmt.Sprintf(`[{"id":%q,"msg":[]}]`, om.ID),
							fmt.Sprintf(`[{"id":%q,"msg":null}]`, om.ID),
							fmt.Sprintf(`[{"id":%q,"msg":true}]`, om.ID),
							fmt.Sprintf(`[null,{"id":%q,"msg":"{\"resource\":{\"headers\":null}}"}]`, om.ID),
							fmt.Sprintf(`[{"id":%q,"msg":"{\"resource\":{\"headers\":[1,2]}}"}]`, om.ID),
							fmt.Sprintf(`[{"id":%q,"msg":"{\"resource\":7}"}]`, om.ID),
						}
						for k, bad := range bads {
							shimCall(fmt.Sprintf("%s-bad%d", tag, k), "/shim/data", bad)
							msg := fmt.Sprintf("after-bad-%d", k)
							d, _ := json.Marshal([]map[string]interface{}{{"id": om.ID, "msg": msg}})
							upd, okd := shimCall(fmt.Sprintf("%s-good%d", tag, k), "/shim/data", string(d))
							// some of the odd data calls are legal messages and are echoed too: poll until the echo of the well-formed one arrives
							var gotm []interface{}
							okp, seenEcho := false, false
							for pp := 0; pp < 3 && !seenEcho; pp++ {
								upp, ok := shimCall(fmt.Sprintf("%s-poll%d-%d", tag, k, pp), "/shim/poll", fmt.Sprintf(`{"id":%q}`, om.ID))
								okp = ok && upp.Resp.Status == 200
								if !okp {
									break
								}
								var part []interface{}
								json.Unmarshal(upp.Resp.Body, &part)
								gotm = append(gotm, part...)
								for _, g := range part {
									if g == "echo:"+tag+":"+msg {
										seenEcho = true
									}
								}
							}
							if !okd || upd.Resp.Status != 200 || !okp || !seenEcho {
								r.Violate("C07:healthy-shim-session-disturbed:"+ln.name+":after-malformed-data", fmt.Sprintf("config %s: after the malformed data call %s on live session %s, a well-formed exchange on the same session failed (data ok=%v, poll ok=%v, got %v)", ln.name, bad, om.ID, okd, okp, gotm), nil, nil)
								break
							}
						}
						shimCall(tag+"-close", "/shim/close", fmt.Sprintf(`{"id":%q}`, om.ID))
					}
				} else if strings.HasPrefix(f.Kind, "backend-stalls-then-") {
					// The backend stops reading, so the messages of a client burst back up in the session's writer;
					// then the backend ends the session (close frame or reset) while those writes are still pending.
					tag := fmt.Sprintf("stall%d-%d", li, inj)
					how := "stall-then-close"
					if strings.Contains(f.Kind, "resets") {
						how = "stall-then-reset"
					}
					upo, ok := shimCall(tag+"-open", "/shim/open", "ws://x/ws/echo/"+how+"/"+tag, rawhttp.Field{Name: "X-Websocket-Shim-Version", Value: "1"})
					if ok && upo.Resp.Status == 200 {
						var om struct {
							ID string `json:"id"`
						}
						json.Unmarshal(upo.Resp.Body, &om)
						big := strings.Repeat("x", 1<<20)
						var bwg sync.WaitGroup
						for k := 0; k < 7; k++ {
							var msgs []map[string]interface{}
							for q := 0; q < 4; q++ {
								msgs = append(msgs, map[string]interface{}{"id": om.ID, "msg": big})
							}
							d, _ := json.Marshal(msgs)
							bwg.Add(1)
							go func(k int, d []byte) {
								defer bwg.Done()
								t0 := time.Now()
								up, ok := shimCall(fmt.Sprintf("%s-burst%d", tag, k), "/shim/data", string(d))
								if os.Getenv("VERIF_DEBUG") != "" {
									st := 0
									if ok {
										st = up.Resp.Status
									}
									fmt.Fprintf(os.Stderr, "DEBUG burst %s-%d: status %d after %v\n", tag, k, st, time.Since(t0))
								}
							}(k, d)
							time.Sleep(30 * time.Millisecond)
						}
						bwg.Wait()
						shimCall(tag+"-poll", "/shim/poll", fmt.Sprintf(`{"id":%q}`, om.ID))
						shimCall(tag+"-close", "/shim/close", fmt.Sprintf(`{"id":%q}`, om.ID))
						atomic.AddInt64(&stallBursts, 1)
					}
				} else {
					switch f.Kind {
					case "data-malformed-json":
						path, body = "/shim/data", `[{"id": "1", "msg": `
					case "data-unknown-session":
						path, body = "/shim/data", `[{"id":"999999","msg":"hello"}]`
					case "data-wrong-shape":
						path, body = "/shim/data", `{"id":"1","msg":[1,2,3]}`
					case "poll-unknown-session":
						path, body = "/shim/poll", `{"id":"999999"}`
					case "close-unknown-session":
						path, body = "/shim/close", `{"id":"999999"}`
					case "open-backend-refuses-upgrade":
						path, body = "/shim/open", "ws://x/fault/close-before-headers/ws"
					case "open-malformed-url":
						path, body = "/shim/open", "http://[::1"
					case "backend-closes-session-normally":
						path, body = "/shim/open", "ws://x/ws/echo/close-now/a"
					case "backend-closes-session-going-away":
						path, body = "/shim/open", "ws://x/ws/echo/close-now/going-away/b"
					case "open-slow-failure-overlapping-opens":
						// the dial fails only after 150 ms, while the shim-session lanes keep opening sessions
						path, body = "/shim/open", "ws://x/fault/slow-close/ws"
					}
					var w rawhttp.Builder
					w.Line("POST "+path+" HTTP/1.1").Field("Host", "c07.example").Field("Content-Length", fmt.Sprint(len(body))).End()
					w.WriteString(body)
					px.Enqueue(id, w.Bytes(), "")
					if f.Kind == "open-slow-failure-overlapping-opens" {
						// several slow failures in a row, so that sessions opened by the healthy lanes overlap some of them
						for k := 0; k < 8; k++ {
							time.Sleep(40 * time.Millisecond)
							px.Enqueue(fmt.Sprintf("%s-%d", id, k), w.Bytes(), "")
						}
						time.Sleep(400 * time.Millisecond)
					}
					up, got = px.Wait(id, 5*time.Second)
					if strings.HasPrefix(f.Kind, "backend-closes-session") && got && up.Resp != nil && up.Resp.Status == 200 {
						var om struct {
							ID string `json:"id"`
						}
						json.Unmarshal(up.Resp.Body, &om)
						for k := 0; k < 3; k++ {
							shimCall(fmt.Sprintf("%s-poll%d", id, k), "/shim/poll", fmt.Sprintf(`{"id":%q}`, om.ID))
						}
						time.Sleep(300 * time.Millisecond)
					}
				}
			}
			if got && up != nil && up.Resp != nil {
				if statusSeen[label] == nil {
					statusSeen[label] = map[int]int{}
				}
				statusSeen[label][up.Resp.Status]++
			}
			if f.Point == "backend" && f.Kind == "refused" && refusedJudged {
				if !got || up == nil || up.Resp == nil {
					r.Violate("C07:unreachable-backend:no-response", fmt.Sprintf("config %s: request to an unreachable backend produced no uploaded response within 20s of being listed", ln.name), nil, nil)
				} else if up.Resp.Status != 502 {
					r.Violate("C07:unreachable-backend:not-502", fmt.Sprintf("config %s: request to an unreachable backend was answered %d, not 502", ln.name, up.Resp.Status), nil, nil)
				}
			}
			// let at least a few probes complete under/after this fault
			for w := 0; w < 2000 && atomic.LoadInt64(&probes) < before+8 && agent.Alive(); w++ {
				time.Sleep(2 * time.Millisecond)
			}
			r.Case(fmt.Sprintf("%s|%s|%s", ln.name, f.Point, f.Kind))
			if !agent.Alive() {
				r.Violate("C07:agent-terminated:"+ln.name+":"+label, fmt.Sprintf("config %s: the agent process exited during/after fault %s: %s", ln.name, label, core.Trunc(tail(agent.Log(), 1200), 1200)), nil, nil)
				break
			}
		}
	}
	current.Store("after-all-faults")
	after := atomic.LoadInt64(&probes)
	for w := 0; w < 3000 && atomic.LoadInt64(&probes) < after+24 && agent.Alive(); w++ {
		time.Sleep(2 * time.Millisecond)
	}
	close(stop)
	pwg.Wait()
	if !ln.h2 {
		count := map[string]int{}
		for _, sn := range backend.Seen() {
			if strings.HasPrefix(sn.Tok, fmt.Sprintf("p%ds%d", li, r.Seed)) {
				count[sn.Tok]++
			}
		}
		for tok, n := range count {
			if n > 1 {
				r.Violate("C07:healthy-request-forwarded-twice:"+ln.name, fmt.Sprintf("config %s: healthy request %s reached the backend %d times while faults were being injected", ln.name, tok, n), nil, nil)
			}
		}
	}
	r.Add("healthy_probes", int(atomic.LoadInt64(&probes)))
	r.Add("healthy_shim_sessions", int(atomic.LoadInt64(&shimProbes)))
	r.Add("job_sessions_whose_results_were_collected_after_the_backend_closed", int(atomic.LoadInt64(&jobSessions)))
	r.Add("client_bursts_into_stalled_then_closed_sessions", int(atomic.LoadInt64(&stallBursts)))
	r.Add("fault_injections", inj)
	r.Set("statuses_of_faulty_requests_"+ln.name, statusSeen)
	r.Sample(map[string]interface{}{"config": ln.name, "injections": inj, "probes": atomic.LoadInt64(&probes), "probe_failures": atomic.LoadInt64(&probeFails)})
	for _, ex := range core.CrashMarkers(agent.LogPath) {
		r.Violate(core.CrashSignature(ex), "agent crashed: "+ex, nil, nil)
	}
}

// c07Refused starts a second agent of the same configuration whose backend
// address is a closed port and issues one request through it.
func c07Refused(r *core.Run, agentBin string, md *fakes.Metadata, ln c07Lane, li, inj int) (up *fakes.Upload, ok bool, judged bool) {
	px, err := fakes.NewProxy()
	if err != nil {
		r.Broken(err.Error())
		return nil, false, false
	}
	defer px.Close()
	px.ListWait = 30 * time.Millisecond
	closed := fmt.Sprintf("127.0.0.1:%d", core.FreePort())
	agent, err := startAgent(r, agentBin, fmt.Sprintf("agent7r-%s-%d", ln.name, inj), md, px.URL(), closed, "b7r", ln.cfg...)
	if err != nil {
		r.Broken(err.Error())
		return nil, false, false
	}
	defer agent.Kill()
	// the progress bound below is for the request, not for the start-up of a fresh agent process on a busy machine
	for d := time.Now().Add(60 * time.Second); time.Now().Before(d) && px.Lists() == 0 && agent.Alive(); {
		time.Sleep(10 * time.Millisecond)
	}
	if px.Lists() == 0 {
		r.Inconclusive("C07 refused-backend scenario: the second agent made no pending-list call within 60 s of its start")
		return nil, false, false
	}
	id := fmt.Sprintf("refused-%d-%d", li, inj)
	px.Enqueue(id, tokRequest("GET", id, 10, 0, "c07.example", nil, nil), "")
	up, ok = px.Wait(id, 20*time.Second)
	// the agent must still be alive and still polling afterwards
	n := px.Lists()
	// (a progress bound, not a deadline: a polling agent lists again within milliseconds; 150 ms was once used
	// as the verdict here and misfired on a machine running twenty checks at once)
	for d := time.Now().Add(10 * time.Second); time.Now().Before(d) && px.Lists() == n && agent.Alive(); {
		time.Sleep(10 * time.Millisecond)
	}
	if !agent.Alive() {
		r.Violate("C07:agent-terminated:"+ln.name+":backend/refused", "the agent exited after a request to an unreachable backend: "+core.Trunc(tail(agent.Log(), 800), 800), nil, nil)
	} else if px.Lists() == n {
		r.Violate("C07:agent-stopped-polling:"+ln.name+":backend/refused", "the agent made no pending-list call for 10 s after a request to an unreachable backend", nil, nil)
	}
	// the backend comes (back) up: requests issued afterwards are served normally, however closely they follow each other
	if agent.Alive() && !ln.h2 { // (the token backend speaks HTTP/1.1 only)
		if tb, err := newTokBackendOn(closed); err == nil {
			served := 0
			for k := 0; k < 5; k++ {
				tok := fmt.Sprintf("back-%d-%d-%d", li, inj, k)
				px.Enqueue(tok, tokRequest("GET", tok, 10, 0, "c07.example", nil, nil), "")
				want := tokResponseFor(tok, 10)
				if u2, ok2 := px.Wait(tok, 10*time.Second); ok2 && u2.Resp != nil && u2.Resp.Status == want.Status && bytes.Equal(u2.Resp.Body, want.Body) {
					served++ // (status and body: the session and banner wrappers of the full configurations legitimately touch headers)
				}
				time.Sleep(250 * time.Millisecond)
			}
			tb.Srv.Close()
			if served < 4 {
				r.Violate("C07:requests-after-backend-came-back-not-served:"+ln.name, fmt.Sprintf("config %s: after one request had met an unreachable backend and the backend then came up, only %d of 5 later requests (250 ms apart) were served", ln.name, served), nil, nil)
			}
		}
	}
	for _, ex := range core.CrashMarkers(agent.LogPath) {
		r.Violate(core.CrashSignature(ex), "agent crashed: "+ex, nil, nil)
	}
	return up, ok, true
}

// c07H2Handler is the h2c backend of the --force-http2 lane: token responses
// and handler-level faults.
func c07H2Handler(w http.ResponseWriter, req *http.Request) {
	if strings.HasPrefix(req.URL.Path, "/fault/") {
		switch strings.Split(req.URL.Path, "/")[2] {
		case "abort-before-headers":
			panic(http.ErrAbortHandler)
		case "abort-mid-body":
			w.Header().Set("Content-Length", "1000")
			w.Write([]byte(strings.Repeat("x", 100)))
			if fl, ok := w.(http.Flusher); ok {
				fl.Flush()
			}
			panic(http.ErrAbortHandler)
		case "huge-headers":
			for i := 0; i < 1200; i++ {
				w.Header().Set(fmt.Sprintf("X-Pad-%d", i), strings.Repeat("p", 1000))
			}
			w.Write([]byte("x"))
		case "slow-then-abort":
			w.Write([]byte("partial"))
			if fl, ok := w.(http.Flusher); ok {
				fl.Flush()
			}
			time.Sleep(300 * time.Millisecond)
			panic(http.ErrAbortHandler)
		}
		return
	}
	tok, size, delay, ok := parseTokPath(req.URL.Path)
	if !ok {
		w.Write([]byte("ok"))
		return
	}
	if delay > 0 {
		time.Sleep(time.Duration(delay) * time.Millisecond)
	}
	tr := tokResponseFor(tok, size)
	for _, f := range tr.Fields {
		w.Header().Add(f.Name, f.Value)
	}
	w.Header().Add("Trailer", "X-Tok-Trailer")
	w.WriteHeader(tr.Status)
	w.Write(tr.Body)
	w.Header().Set("X-Tok-Trailer", tok)
}
