package props

import "verif/internal/core"

// C07 — stub, replaced by the real check.
func C07(r *core.Run) {
	r.Broken("check not implemented yet")
	r.Finish(1)
}
