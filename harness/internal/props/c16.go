package props

import "verif/internal/core"

// C16 — stub, replaced by the real check.
func C16(r *core.Run) {
	r.Broken("check not implemented yet")
	r.Finish(1)
}
