package props

import (
	"encoding/binary"
	"fmt"
	"io"
	"math/rand"
	"net"
	"path/filepath"
	"sort"
	"strconv"
	"sync"
	"sync/atomic"
	"time"

	"verif/internal/core"
	"verif/internal/rawhttp"
)

// c16Bound is T of the bounded restatement: end-of-stream at the far peer
// and release of the bridge's sockets within T. Observed latencies on a tree
// that propagates closes are a few milliseconds.
const c16Bound = 10 * time.Second

// c16Case is one bridged connection history.
type c16Case struct {
	ID      int    `json:"id"`
	Closer  string `json:"closer"`                    // client | server: the TCP peer that closes first
	Kind    string `json:"close_kind"`                // full | half-then-full (CloseWrite, observed only, then Close, judged) | abort (SetLinger(0)+Close: the peer goes away with a reset)
	Flight  string `json:"in_flight"`                 // virgin | idle | same | opposite | both | unread (the other peer's N bytes sit unread in the closer's socket, nobody is sending)
	N       int    `json:"n"`                         // bytes the closer writes right before closing (same, both) / exchanged earlier (idle) / left unread (unread)
	Slow    bool   `json:"slow_reader"`               // the other peer reads at ~2.7 MB/s only (32 KiB every 12 ms), also after the close
	Chunk   int    `json:"chunk"`                     // write size of the other peer's continuous stream (opposite, both)
	Drain   bool   `json:"drain"`                     // the closer reads the other peer's stream until it closes (else it never reads)
	StallMs int    `json:"reader_stall_ms,omitempty"` // the other peer reads nothing for this long (from connection set-up), then drains at full speed
	Phase   string `json:"phase"`                     // matrix | churn | slow | stalled | confirm
	Class   string `json:"class"`
}

type c16Result struct {
	Case           c16Case `json:"case"`
	EOS            string  `json:"end_of_stream_seen_by_other_peer"` // "", "eof", "error: ..."
	LatencyMs      float64 `json:"eos_latency_ms"`
	Missed         bool    `json:"missed_bound"`
	PreCloseSent   int64   `json:"bytes_sent_before_close"`
	PreCloseRecv   int64   `json:"bytes_of_those_received"`
	Altered        bool    `json:"received_bytes_altered,omitempty"`
	HalfObserved   string  `json:"after_half_close,omitempty"` // "eos within 2s" | "no eos within 2s"
	OtherWrote     int64   `json:"bytes_other_peer_wrote"`
	WriteErr       string  `json:"writer_failed_before_it_closed,omitempty"`
	Harness        string  `json:"harness_problem,omitempty"`
	FrontSockets   int     `json:"frontend_sockets_after,omitempty"`
	BackSockets    int     `json:"backend_sockets_after,omitempty"`
	LeakAfterBound bool    `json:"sockets_not_released,omitempty"`
}

func (c *c16Case) sig() string {
	if c.Kind == "abort" {
		return "C16:eof-not-propagated:" + c.Closer + "-aborts"
	}
	return "C16:eof-not-propagated:" + c.Closer + "-closes-first"
}

// strict reports whether completeness of the data written before the close
// is judged: a graceful close by a peer that had nothing unread.
func (c *c16Case) strict() bool {
	return c.Kind != "abort" && (c.Flight == "virgin" || c.Flight == "idle" || c.Flight == "same")
}

// c16Peer is the reading side of one harness TCP end.
type c16Peer struct {
	conn *net.TCPConn
	v    *bridgeVerifier

	mu       sync.Mutex
	recv     int64
	lastByte time.Time
	eos      string
	eosAt    time.Time
	stop     atomic.Bool
	slow     atomic.Bool // read 32 KiB every 12 ms only
	stallEnd time.Time   // read nothing before this instant
	done     chan struct{}
}

// c16NewPeer wraps one harness end; with read=false the end never reads,
// with slow=true it reads at a trickle.
func c16NewPeer(conn *net.TCPConn, expect *bridgeStream, read, slow bool, stall time.Duration) *c16Peer {
	p := &c16Peer{conn: conn, v: bridgeNewVerifier(expect), done: make(chan struct{}), stallEnd: time.Now().Add(stall)}
	p.slow.Store(slow)
	if read {
		go p.readLoop()
	} else {
		close(p.done)
	}
	return p
}

// readLoop reads until end-of-stream; it polls with short deadlines so that
// it can never block for good.
func (p *c16Peer) readLoop() {
	defer close(p.done)
	buf := make([]byte, 64<<10)
	for time.Now().Before(p.stallEnd) && !p.stop.Load() {
		time.Sleep(20 * time.Millisecond)
	}
	for {
		if p.stop.Load() {
			return
		}
		rb := buf
		if p.slow.Load() {
			time.Sleep(12 * time.Millisecond)
			rb = buf[:32<<10]
		}
		p.conn.SetReadDeadline(time.Now().Add(100 * time.Millisecond))
		n, err := p.conn.Read(rb)
		now := time.Now()
		if n > 0 {
			p.v.Check(buf[:n])
			p.mu.Lock()
			p.recv += int64(n)
			p.lastByte = now
			p.mu.Unlock()
		}
		if err == nil {
			continue
		}
		if bridgeIsTimeout(err) {
			if p.stop.Load() {
				return
			}
			continue
		}
		if p.stop.Load() {
			return // our own Close
		}
		p.mu.Lock()
		if err == io.EOF {
			p.eos = "eof"
		} else {
			p.eos = "error: " + err.Error()
		}
		p.eosAt = now
		p.mu.Unlock()
		return
	}
}

func (p *c16Peer) state() (recv int64, last time.Time, eos string, eosAt time.Time) {
	p.mu.Lock()
	defer p.mu.Unlock()
	return p.recv, p.lastByte, p.eos, p.eosAt
}

// waitRecv waits (bounded) until n bytes have arrived.
func (p *c16Peer) waitRecv(n int64, d time.Duration) bool {
	deadline := time.Now().Add(d)
	for time.Now().Before(deadline) {
		if r, _, eos, _ := p.state(); r >= n {
			return true
		} else if eos != "" {
			return false
		}
		time.Sleep(2 * time.Millisecond)
	}
	return false
}

// c16Write writes all of the stream's n bytes with a bounded wait.
func c16Write(conn *net.TCPConn, st *bridgeStream, n int64, d time.Duration) (int64, error) {
	buf := make([]byte, 64<<10)
	var sent int64
	conn.SetWriteDeadline(time.Now().Add(d))
	for sent < n {
		k := int64(len(buf))
		if n-sent < k {
			k = n - sent
		}
		st.Next(buf[:k])
		w, err := conn.Write(buf[:k])
		sent += int64(w)
		if err != nil {
			return sent, err
		}
	}
	return sent, nil
}

type c16Engine struct {
	r    *core.Run
	topo *bridgeTopo
	srv  *bridgeTCPServer

	connMu   sync.Mutex // one connection is being established at a time: accept order = connect order
	accepted chan *net.TCPConn

	peakF, peakB atomic.Int64
	stopSampler  chan struct{}
}

func c16NewEngine(r *core.Run, bins bridgeBins, suffix string) (*c16Engine, error) {
	e := &c16Engine{r: r, accepted: make(chan *net.TCPConn, 64), stopSampler: make(chan struct{})}
	srv, err := bridgeNewTCPServer(func(c *net.TCPConn, _ int) { e.accepted <- c })
	if err != nil {
		return nil, err
	}
	e.srv = srv
	e.topo, err = bridgeStartTopo(r, bins, suffix, srv.Port)
	if err != nil {
		srv.Close()
		return nil, err
	}
	go func() {
		for {
			select {
			case <-e.stopSampler:
				return
			case <-time.After(50 * time.Millisecond):
			}
			f, b := e.topo.Census()
			for f64 := int64(f); f64 > e.peakF.Load(); {
				e.peakF.Store(f64)
			}
			for b64 := int64(b); b64 > e.peakB.Load(); {
				e.peakB.Store(b64)
			}
		}
	}()
	return e, nil
}

func (e *c16Engine) close() {
	close(e.stopSampler)
	e.srv.Close()
	e.topo.Kill()
}

// connect opens one bridged connection and returns both harness ends.
func (e *c16Engine) connect() (cli, srv *net.TCPConn, err error) {
	e.connMu.Lock()
	defer e.connMu.Unlock()
	for len(e.accepted) > 0 { // nothing else connects to this port; be safe anyway
		(<-e.accepted).Close()
	}
	c, err := net.DialTimeout("tcp", e.topo.FrontAddr, 10*time.Second)
	if err != nil {
		return nil, nil, err
	}
	select {
	case s := <-e.accepted:
		return c.(*net.TCPConn), s, nil
	case <-time.After(15 * time.Second):
		c.Close()
		return nil, nil, fmt.Errorf("the bridge did not connect to the far TCP end within 15s")
	}
}

// run plays one connection history and judges the far peer's end-of-stream.
func (e *c16Engine) run(cs c16Case) (res c16Result) {
	res.Case = cs
	cli, srv, err := e.connect()
	if err != nil {
		res.Harness = err.Error()
		return res
	}
	x, y := cli, srv // x closes first
	if cs.Closer == "server" {
		x, y = srv, cli
	}
	seed := e.r.Seed
	const endless = int64(1) << 40
	xTotal := int64(cs.N)
	streaming := cs.Flight == "opposite" || cs.Flight == "both"
	if cs.Flight == "unread" {
		xTotal = 0 // the closer writes nothing
	}
	py := c16NewPeer(y, bridgeNewStream(seed, cs.ID, 'x', xTotal), true, cs.Slow, time.Duration(cs.StallMs)*time.Millisecond) // y reads what x wrote
	px := c16NewPeer(x, bridgeNewStream(seed, cs.ID, 'y', endless), (!streaming || cs.Drain) && cs.Flight != "unread", false, 0)
	wbound := c16Bound
	if cs.Slow {
		wbound = c16Bound + time.Duration(cs.N/(1<<20))*time.Second // the burst drains at the slow reader's pace
	}
	if cs.StallMs > 0 {
		wbound = c16Bound + time.Duration(cs.StallMs)*time.Millisecond + time.Duration(cs.N/(1<<20))*time.Second
	}
	var yWrote atomic.Int64
	var yStop atomic.Bool
	yDone := make(chan struct{})
	finish := func() {
		yStop.Store(true)
		px.stop.Store(true)
		py.stop.Store(true)
		x.Close()
		y.Close()
		<-px.done
		<-py.done
		<-yDone
		if streaming {
			res.OtherWrote = yWrote.Load()
		}
	}

	xs := bridgeNewStream(seed, cs.ID, 'x', xTotal)
	ys := bridgeNewStream(seed, cs.ID, 'y', endless)
	if streaming {
		go func() {
			defer close(yDone)
			buf := make([]byte, cs.Chunk)
			for !yStop.Load() && yWrote.Load() < 16<<20 {
				ys.Next(buf)
				off := 0
				for off < len(buf) && !yStop.Load() {
					y.SetWriteDeadline(time.Now().Add(200 * time.Millisecond))
					n, err := y.Write(buf[off:])
					off += n
					yWrote.Add(int64(n))
					if err != nil && !bridgeIsTimeout(err) {
						return
					}
				}
			}
		}()
	} else {
		close(yDone)
	}

	// ---- before the close
	switch cs.Flight {
	case "idle":
		if n, err := c16Write(x, xs, xTotal, c16Bound); err != nil {
			res.Harness = fmt.Sprintf("pre-close exchange: write %d/%d: %v", n, xTotal, err)
		} else if !py.waitRecv(xTotal, c16Bound) {
			res.Harness = "pre-close exchange did not reach the other peer"
		} else if n, err := c16Write(y, ys, int64(cs.N), c16Bound); err != nil {
			res.Harness = fmt.Sprintf("pre-close exchange: reply write %d/%d: %v", n, cs.N, err)
		} else if !px.waitRecv(int64(cs.N), c16Bound) {
			res.Harness = "pre-close reply did not reach the closing peer"
		}
		res.PreCloseSent = xTotal
	case "unread":
		// the other peer writes N bytes and falls silent; the closer never reads them
		if n, err := c16Write(y, ys, int64(cs.N), c16Bound); err != nil {
			res.Harness = fmt.Sprintf("other peer could not write its %d bytes: %d written: %v", cs.N, n, err)
			break
		}
		res.OtherWrote = int64(cs.N)
		deadline := time.Now().Add(c16Bound)
		need := min(cs.N, 64<<10) // a socket that is never read holds about 128 kB
		for bridgeUnread(x) < need {
			if time.Now().After(deadline) {
				res.Harness = fmt.Sprintf("only %d of %d bytes reached the closing peer's socket", bridgeUnread(x), cs.N)
				break
			}
			time.Sleep(2 * time.Millisecond)
		}
	case "opposite", "both":
		// let the other peer's stream get going: the closer has read 256 KiB of it, or (closer not
		// reading) the pipe is full / 8 MiB are under way
		deadline := time.Now().Add(c16Bound)
		last, lastChange := int64(-1), time.Now()
		for time.Now().Before(deadline) {
			if cs.Drain {
				if r, _, _, _ := px.state(); r >= 256<<10 {
					break
				}
			} else {
				w := yWrote.Load()
				if w != last {
					last, lastChange = w, time.Now()
				} else if w > 0 && time.Since(lastChange) > 150*time.Millisecond {
					break
				}
				if w >= 8<<20 {
					break
				}
			}
			time.Sleep(2 * time.Millisecond)
		}
	}
	if res.Harness != "" {
		finish()
		return res
	}
	if cs.Flight == "same" || cs.Flight == "both" {
		n, err := c16Write(x, xs, xTotal, wbound)
		res.PreCloseSent = n
		if err != nil && cs.strict() && !bridgeIsTimeout(err) {
			// neither peer has closed, yet the connection failed under the writer: the writer gives up
			// and closes; the bytes its Write calls had accepted are what was sent before the close
			res.WriteErr = err.Error()
		} else if err != nil {
			res.Harness = fmt.Sprintf("closer could not write its %d bytes before closing: %d written: %v", xTotal, n, err)
			finish()
			return res
		}
	}
	if _, _, eos, _ := py.state(); eos != "" && res.WriteErr == "" {
		res.Harness = "the other peer's connection ended before the first peer closed: " + eos
		res.EOS = eos
		finish()
		return res
	}

	// ---- the close
	tClose := time.Now()
	if cs.Kind == "half-then-full" {
		x.CloseWrite()
		res.HalfObserved = "no eos within 2s"
		for time.Since(tClose) < 2*time.Second {
			if _, _, eos, _ := py.state(); eos != "" {
				res.HalfObserved = "eos within 2s"
				break
			}
			time.Sleep(2 * time.Millisecond)
		}
		tClose = time.Now()
	}
	px.stop.Store(true)
	if cs.Kind == "abort" {
		x.SetLinger(0) // Close now discards unsent data and resets the connection
	}
	x.Close()

	// ---- the other peer must now see end-of-stream within T of (close, last byte of pre-close data)
	for {
		recv, last, eos, eosAt := py.state()
		base := tClose
		if last.After(base) {
			base = last
		}
		if eos != "" {
			res.EOS = eos
			if eosAt.After(base) {
				res.LatencyMs = float64(eosAt.Sub(base).Microseconds()) / 1000
			}
			res.PreCloseRecv = recv
			break
		}
		if time.Since(base) > c16Bound {
			res.Missed = true
			res.PreCloseRecv = recv
			break
		}
		time.Sleep(2 * time.Millisecond)
	}
	res.Altered = py.v.BadOffset >= 0
	finish()
	return res
}

// settle waits (bounded by T after the last harness end was closed) for the
// bridge processes to release their sockets.
func (e *c16Engine) settle() (f, b int, leaked bool) {
	deadline := time.Now().Add(c16Bound)
	for {
		f, b = e.topo.Census()
		if f >= 0 && b >= 0 && f <= e.topo.FrontBase && b <= e.topo.BackBase {
			return f, b, false
		}
		if time.Now().After(deadline) {
			return f, b, true
		}
		time.Sleep(50 * time.Millisecond)
	}
}

func c16Class(c *c16Case) string {
	s := fmt.Sprintf("%s|%s-closes-first|%s|%s", c.Phase, c.Closer, c.Kind, c.Flight)
	switch c.Flight {
	case "idle", "same", "unread":
		s += "|n:" + sizeClass(c.N)
		if c.Slow {
			s += fmt.Sprintf("|burst:%dMiB|slow-reader", c.N>>20)
		}
		if c.StallMs > 0 {
			s += fmt.Sprintf("|burst:%dMiB|reader-stalls:%dms", c.N>>20, c.StallMs)
		}
	case "opposite":
		s += fmt.Sprintf("|chunk:%d|drain:%v", c.Chunk, c.Drain)
	case "both":
		s += fmt.Sprintf("|n:%s|chunk:%d|drain:%v", sizeClass(c.N), c.Chunk, c.Drain)
	}
	return s
}

// c16Matrix is {client, server closes first} x {idle, same, opposite, both} x sizes, full and half close.
func c16Matrix(rng *rand.Rand, rep int) []c16Case {
	jit := func(n int) int {
		if rep == 0 || n <= 1 {
			return n
		}
		return n + rng.Intn(n/2+2)
	}
	var out []c16Case
	for _, who := range []string{"client", "server"} {
		add := func(kind, flight string, n, chunk int, drain bool) {
			out = append(out, c16Case{Closer: who, Kind: kind, Flight: flight, N: n, Chunk: chunk, Drain: drain, Phase: "matrix"})
		}
		add("full", "virgin", 0, 0, false)
		add("full", "idle", jit(1), 0, false)
		add("full", "idle", jit(65536), 0, false)
		for _, n := range []int{1, 4096, 262145, 2 << 20} {
			add("full", "same", jit(n), 0, false)
		}
		add("full", "opposite", 0, jit(1024), true)
		add("full", "opposite", 0, jit(65536), true)
		add("full", "opposite", 0, jit(1024), false)
		add("full", "opposite", 0, jit(65536), false)
		add("full", "both", jit(1), jit(4096), true)
		add("full", "both", jit(4096), jit(65536), false)
		add("full", "both", jit(262145), jit(4096), true)
		add("half-then-full", "idle", jit(100), 0, false)
		add("half-then-full", "same", jit(1), 0, false)
		add("half-then-full", "same", jit(70000), 0, false)
		add("half-then-full", "same", jit(1<<20), 0, false)
		add("half-then-full", "both", jit(4096), jit(16384), true)
		// the peer goes away abortively (reset), with and without traffic from the other side
		add("abort", "virgin", 0, 0, false)
		add("abort", "idle", jit(1000), 0, false)
		add("abort", "same", jit(4096), 0, false)
		add("abort", "same", jit(262145), 0, false)
		add("abort", "opposite", 0, jit(4096), true)
		add("abort", "both", jit(1000), jit(4096), false)
		// a plain Close with the other peer's bytes still unread in the socket (the kernel resets)
		add("full", "unread", jit(1), 0, false)
		add("full", "unread", jit(4096), 0, false)
		add("full", "unread", jit(100000), 0, false)
	}
	return out
}

// c16SlowCases: a large burst followed at once by a graceful close while the
// other peer reads slowly, so that the bridge still holds queued data when it
// learns of the close. Strict cases: every byte, then end-of-stream.
func c16SlowCases(rng *rand.Rand, quick bool) []c16Case {
	sizes := []int{4 << 20, 8 << 20}
	reps := 1
	if !quick {
		sizes = []int{4 << 20, 8 << 20, 16 << 20}
		reps = 2
	}
	var out []c16Case
	for k := 0; k < reps; k++ {
		for _, n := range sizes {
			for _, who := range []string{"client", "server"} {
				if k > 0 {
					n += rng.Intn(70000)
				}
				out = append(out, c16Case{Closer: who, Kind: "full", Flight: "same", N: n, Slow: true, Phase: "slow"})
			}
		}
	}
	return out
}

func c16Churn(rng *rand.Rand, n int) []c16Case {
	var out []c16Case
	flights := []string{"virgin", "idle", "same", "same", "opposite", "both", "unread"}
	for i := 0; i < n; i++ {
		c := c16Case{Closer: []string{"client", "server"}[rng.Intn(2)], Kind: "full", Flight: flights[rng.Intn(len(flights))], Phase: "churn"}
		if c.Flight != "unread" && rng.Intn(4) == 0 {
			c.Kind = "abort"
		}
		switch c.Flight {
		case "unread":
			c.N = []int{1, 1000, 70000}[rng.Intn(3)]
		case "idle", "same":
			c.N = []int{1, 17, 1000, 4097, 70000, 300000}[rng.Intn(6)]
		case "opposite":
			c.Chunk, c.Drain = []int{512, 4096, 32768}[rng.Intn(3)], rng.Intn(2) == 0
		case "both":
			c.N, c.Chunk, c.Drain = []int{1, 1000, 70000}[rng.Intn(3)], []int{512, 4096, 32768}[rng.Intn(3)], rng.Intn(2) == 0
		}
		out = append(out, c)
	}
	return out
}

// C16 — closing one end of a bridged TCP connection closes the other.
func C16(r *core.Run) {
	r.SetRule("harness TCP client -> real tcp-bridge-frontend -> real tcp-bridge-backend -> harness TCP server; per connection one peer closes first ({client, server} x {never used, idle after an exchange, its own data in flight, the other peer's data in flight, both} x sizes; full close, CloseWrite followed by close, abortive close (SetLinger(0) or Close with unread data), 4-16 MiB bursts closed at once towards a slow-reading peer, and a 32 MiB burst closed at once towards a peer that reads nothing for 14 s); 100 (thorough 500) short connections strictly one after the other through the same processes; 3000 (thorough 24000) rounds in which both peers of a connection close at nearly the same instant, then a liveness probe; six more connections opened at the very end, when the two processes have been up for more than 15 s; thorough only (the quick tier cannot reach a five-minute default): one connection per direction carrying 7 bytes every 4 s one way for 320 s with the other direction silent, then a real close - every byte, then end-of-stream, and not before; three connections whose frontend->backend websocket handshake is held up for 7 s by a relay while the client writes and closes; websocket handshakes on the streaming path that the backend refuses (extensions offered, bad version, no key, foreign origin, POST) must leave no connection to the TCP server; the other peer must read end-of-stream within T=10s of (close, last byte of the data sent before the close); with both peers gone each bridge process' socket count (/proc/<pid>/fd) must be back at its idle baseline within T; a missed bound is re-run alone on a fresh pair of bridge processes before it is reported; class = (phase, who closes first, close kind, what is in flight, sizes)")
	r.Assume("a half close (CloseWrite) is only observed; the verdict is taken after the same peer has fully closed")
	r.Assume("completeness of the data sent before the close is judged only for a graceful close by a peer that had nothing unread (never used / idle / own data in flight, including the slow-reader bursts); for abortive closes only the propagation of the close and the release of the sockets are judged: closing a TCP socket with unread data resets the connection and may discard the closer's own data even without a bridge")
	bins := bridgeBuild(r)
	e, err := c16NewEngine(r, bins, "")
	if err != nil {
		r.Broken(err.Error())
		r.Finish(1)
	}
	engineUp := time.Now()
	r.Set("idle_sockets_frontend", e.topo.FrontBase)
	r.Set("idle_sockets_backend", e.topo.BackBase)

	rng := r.Rand("c16")
	var cases []c16Case
	for rep := 0; rep < r.Pick(1, 10); rep++ {
		cases = append(cases, c16Matrix(rng, rep)...)
	}
	nMatrix := len(cases)
	cases = append(cases, c16Churn(rng, r.Pick(40, 200))...)
	nChurn := len(cases)
	cases = append(cases, c16SlowCases(rng, r.Quick())...)
	nSlow := len(cases)
	// stalled readers: the writer pushes 32 MiB (far more than the socket buffers on the way hold) and
	// closes at once, the other peer reads nothing for 14 s and then drains: every byte, then end-of-stream
	for _, who := range []string{"client", "server"} {
		cases = append(cases, c16Case{Closer: who, Kind: "full", Flight: "same", N: 32<<20 + 1, StallMs: 14000, Phase: "stalled"})
	}
	for i := range cases {
		cases[i].ID = i
		cases[i].Class = c16Class(&cases[i])
	}
	results := make([]c16Result, len(cases))
	var wg sync.WaitGroup
	var live, maxLive atomic.Int64
	start := func(i int) {
		wg.Add(1)
		go func() {
			defer wg.Done()
			if n := live.Add(1); n > maxLive.Load() {
				maxLive.Store(n)
			}
			results[i] = e.run(cases[i])
			live.Add(-1)
		}()
	}
	// websocket handshakes that take 7 s: on processes of their own, alongside everything else
	type shRes struct {
		held   int
		leaked bool
		detail map[string]interface{}
		err    error
	}
	// thorough only: one-way trickles that outlast five minutes, on processes of their own
	var owDone chan []c16OneWayResult
	if !r.Quick() {
		owDone = make(chan []c16OneWayResult, 1)
		go func() { owDone <- c16OneWay(r, bins, "-oneway0") }()
	}
	shDone := make(chan shRes, 1)
	go func() {
		var x shRes
		x.held, x.leaked, x.detail, x.err = c16SlowHandshake(r, bins, "-slowhs0", true)
		shDone <- x
	}()
	// the stalled-reader connections run alongside everything else
	var stallWG sync.WaitGroup
	for i := nSlow; i < len(cases); i++ {
		stallWG.Add(1)
		go func(i int) {
			defer stallWG.Done()
			results[i] = e.run(cases[i])
		}(i)
	}
	// matrix: all histories side by side (connection set-up is serialised by the engine)
	for i := 0; i < nMatrix; i++ {
		start(i)
	}
	wg.Wait()
	fM, bM := e.topo.Census()
	leakM := false
	// churn: connections opened and closed over time
	for i := nMatrix; i < nChurn; i++ {
		start(i)
		time.Sleep(20 * time.Millisecond)
	}
	wg.Wait()
	// one connection after the other through the same two processes: a connection must close
	// properly whatever the earlier, finished connections left behind in the process
	seqCases := c16SeqCases(r.Pick(100, 500), len(cases))
	// simultaneous closes run on processes of their own, alongside the remaining phases
	simDone := make(chan c16SimResult, 1)
	go func() { simDone <- c16SimClose(r, bins, "-simclose", r.Pick(3000, 24000), 24) }()
	tSeq := time.Now()
	seqResults, seqMissed := c16Sequential(e, seqCases)
	r.Set("sequential_phase_seconds", float64(int(time.Since(tSeq).Seconds()*10))/10)
	// slow readers: at most four at a time and nothing else running, so that the reader (not the
	// bridge) is the bottleneck and data is still queued inside the bridge when the writer closes
	if !r.Quick() {
		stallWG.Wait() // thorough: the matrix outlasts the stall; keep the drain out of the slow-reader phase
	}
	for i := nChurn; i < nSlow; i += 4 {
		for j := i; j < i+4 && j < nSlow; j++ {
			start(j)
		}
		wg.Wait()
	}
	stallWG.Wait()
	sim := <-simDone
	// late connections: new clients through the same two processes, which have been up for well over 10 s now
	lateAge := time.Since(engineUp).Seconds()
	lateCases := c16SeqCases(6, len(cases)+100000)
	var lateResults []c16Result
	for i := range lateCases {
		lateCases[i].Phase = "late"
		lateCases[i].Class = c16Class(&lateCases[i])
		res := e.run(lateCases[i])
		lateResults = append(lateResults, res)
		if res.Harness != "" || res.Missed {
			break // one failure is enough; it is repeated alone below
		}
	}
	fC, bC, leakC := e.settle()
	r.Set("sockets_right_after_matrix(not_settled)", map[string]int{"frontend": fM, "backend": bM})
	r.Set("sockets_after_all_peers_gone_for_T", map[string]int{"frontend": fC, "backend": bC})
	r.Max("peak_sockets_frontend", int(e.peakF.Load()))
	r.Max("peak_sockets_backend", int(e.peakB.Load()))
	r.Max("max_concurrent_bridged_connections", int(maxLive.Load()))

	// ---- judge
	type tally struct{ n, eos, eof, missed int }
	byClass := map[string]*tally{}
	var lat []float64
	cands := map[string][]int{} // signature -> case indexes that missed the bound
	sampled := map[string]bool{}
	for i, res := range results {
		cs := cases[i]
		r.Case(cs.Class)
		key := fmt.Sprintf("%s-closes-first/%s/%s", cs.Closer, cs.Kind, cs.Flight)
		t := byClass[key]
		if t == nil {
			t = &tally{}
			byClass[key] = t
		}
		t.n++
		if res.Harness != "" {
			r.Inconclusive(fmt.Sprintf("case %d (%s): %s", cs.ID, cs.Class, res.Harness))
			continue
		}
		r.Add("bytes_sent_before_close", int(res.PreCloseSent))
		r.Add("bytes_streamed_by_other_peer", int(res.OtherWrote))
		if res.HalfObserved != "" {
			r.Add("half_close:"+res.HalfObserved, 1)
		}
		if res.Missed {
			t.missed++
			cands[cs.sig()] = append(cands[cs.sig()], i)
			continue
		}
		t.eos++
		if res.EOS == "eof" {
			t.eof++
		}
		lat = append(lat, res.LatencyMs)
		strict := cs.strict()
		want := res.PreCloseSent
		if cs.Slow {
			r.Add("slow_reader_bursts_delivered_bytes", int(res.PreCloseRecv))
		}
		if cs.StallMs > 0 {
			r.Add("stalled_reader_bursts_delivered_bytes", int(res.PreCloseRecv))
		}
		if cs.Kind == "abort" || cs.Flight == "unread" {
			r.Add("abortive_closes_propagated", 1)
		}
		if strict && (res.PreCloseRecv != want || res.Altered) {
			r.Violate("C16:data-before-close-lost:"+cs.Closer+"-closes-first",
				fmt.Sprintf("case %d (%s): the other peer's stream ended (%s) after %d of the %d bytes written before the graceful close (altered=%v)%s", cs.ID, cs.Class, res.EOS, res.PreCloseRecv, want, res.Altered,
					map[bool]string{true: "; the writer's connection failed under it while neither peer had closed: " + res.WriteErr, false: ""}[res.WriteErr != ""]), cs, res)
		} else if !strict && res.PreCloseRecv != want {
			r.Add("pre_close_data_incomplete_after_reset_prone_close(observed_only)", 1)
		}
		if !sampled[key] && len(sampled) < 4 {
			sampled[key] = true
			r.Sample(res)
		}
	}
	if len(lat) > 0 {
		sort.Float64s(lat)
		r.Set("eos_latency_ms", map[string]float64{"min": lat[0], "median": lat[len(lat)/2], "max": lat[len(lat)-1]})
	}
	r.Set("eos_observed_cases", len(lat))
	tl := map[string]string{}
	for k, t := range byClass {
		tl[k] = fmt.Sprintf("eos %d/%d (clean eof %d), missed %d", t.eos, t.n, t.eof, t.missed)
	}
	r.Set("end_of_stream_by_class", tl)

	// ---- confirm missed bounds alone, each on a fresh pair of bridge processes, side by side
	type confirm struct {
		sig     string
		cs      c16Case
		res     c16Result
		err     error
		leakRun bool
	}
	var confs []*confirm
	sigs := make([]string, 0, len(cands))
	for s := range cands {
		sigs = append(sigs, s)
	}
	sort.Strings(sigs)
	for _, s := range sigs {
		confs = append(confs, &confirm{sig: s, cs: cases[cands[s][0]]})
	}
	if leakM || leakC {
		cf := &confirm{sig: "C16:sockets-leaked", leakRun: true, cs: c16Case{Closer: "client", Kind: "full", Flight: "same", N: 4096}}
		if len(sigs) > 0 {
			cf.cs = cases[cands[sigs[0]][0]]
		}
		confs = append(confs, cf)
	}
	procs := []*core.Proc{e.topo.Front, e.topo.Back}
	var pmu sync.Mutex
	var cwg sync.WaitGroup
	for k, cf := range confs {
		cwg.Add(1)
		go func(k int, cf *confirm) {
			defer cwg.Done()
			ce, err := c16NewEngine(r, bins, fmt.Sprintf("-confirm%d", k))
			if err != nil {
				cf.err = err
				return
			}
			defer ce.close()
			pmu.Lock()
			procs = append(procs, ce.topo.Front, ce.topo.Back)
			pmu.Unlock()
			cs := cf.cs
			cs.Phase = "confirm"
			cf.res = ce.run(cs)
			if cf.leakRun {
				cf.res.FrontSockets, cf.res.BackSockets, cf.res.LeakAfterBound = ce.settle()
			}
			judgeProcs(r, true, ce.topo.Front, ce.topo.Back)
		}(k, cf)
	}
	cwg.Wait()
	for _, cf := range confs {
		r.Add("solo_confirmation_runs", 1)
		switch {
		case cf.err != nil:
			r.Broken("confirmation topology: " + cf.err.Error())
		case cf.res.Harness != "":
			r.Inconclusive(fmt.Sprintf("%s: solo re-run of case %d undecided: %s", cf.sig, cf.cs.ID, cf.res.Harness))
		case cf.leakRun:
			detail := map[string]interface{}{
				"after_matrix": map[string]int{"frontend": fM, "backend": bM}, "after_churn": map[string]int{"frontend": fC, "backend": bC},
				"idle": map[string]int{"frontend": e.topo.FrontBase, "backend": e.topo.BackBase}, "solo": cf.res}
			if cf.res.LeakAfterBound {
				r.Violate("C16:sockets-leaked", fmt.Sprintf("with every TCP peer gone for %s the bridge still holds sockets: frontend %d (idle %d), backend %d (idle %d) after %d connections; reproduced alone on fresh processes with one connection (%s): frontend %d, backend %d",
					c16Bound, fC, e.topo.FrontBase, bC, e.topo.BackBase, len(cases), c16Class(&cf.cs), cf.res.FrontSockets, cf.res.BackSockets), cf.cs, detail)
			} else {
				r.Inconclusive(fmt.Sprintf("sockets not released after the run (frontend %d, backend %d) but released on the solo re-run", fC, bC))
			}
		case cf.res.Missed:
			for _, i := range cands[cf.sig] {
				cs, res := cases[i], results[i]
				how := "closed"
				if cs.Kind == "abort" {
					how = "went away abortively (SetLinger(0)+Close)"
				} else if cs.Flight == "unread" {
					how = fmt.Sprintf("closed with %d received bytes unread (reset)", cs.N)
				}
				r.Violate(cf.sig, fmt.Sprintf("case %d (%s): %s %s at a point where it had written %d bytes; the other peer received %d of them and then no end-of-stream for %s (bound T); reproduced when case %d was re-run alone on fresh bridge processes",
					cs.ID, cs.Class, cs.Closer, how, res.PreCloseSent, res.PreCloseRecv, c16Bound, cf.cs.ID), cs, map[string]interface{}{"first": res, "solo": cf.res})
			}
		default:
			for _, i := range cands[cf.sig] {
				r.Inconclusive(fmt.Sprintf("case %d (%s) missed the bound, the solo re-run of case %d did not (eos after %.1f ms)", i, cases[i].Class, cf.cs.ID, cf.res.LatencyMs))
			}
		}
	}

	// ---- sequential connections
	for i, res := range seqResults {
		cs := seqCases[i]
		r.Case(cs.Class)
		switch {
		case res.Harness != "":
			r.Inconclusive(fmt.Sprintf("case %d (%s): %s", cs.ID, cs.Class, res.Harness))
		case res.Missed:
		case res.PreCloseRecv != res.PreCloseSent || res.Altered:
			r.Violate("C16:data-before-close-lost:"+cs.Closer+"-closes-first",
				fmt.Sprintf("case %d (%s): the other peer's stream ended (%s) after %d of the %d bytes written before the graceful close (altered=%v)", cs.ID, cs.Class, res.EOS, res.PreCloseRecv, res.PreCloseSent, res.Altered), cs, res)
		}
	}
	r.Add("sequential_connections_closed_properly", len(seqResults)-btoi(seqMissed >= 0))
	if seqMissed >= 0 {
		// re-run the history (not the single connection) on fresh processes
		first := seqResults[seqMissed]
		ce, err := c16NewEngine(r, bins, "-seqconfirm")
		if err != nil {
			r.Broken("confirmation topology: " + err.Error())
		} else {
			again, missed2 := c16Sequential(ce, c16SeqCases(2*len(seqCases), 500000))
			f2, b2, leak2 := ce.settle()
			judgeProcs(r, true, ce.topo.Front, ce.topo.Back)
			ce.close()
			detail := map[string]interface{}{"first_run_connection_number": seqMissed + 1, "first": first, "frontend_sockets": f2, "backend_sockets": b2}
			if missed2 >= 0 {
				detail["second_run_connection_number"] = missed2 + 1
				detail["second"] = again[missed2]
				r.Violate("C16:eof-not-propagated:later-connection", fmt.Sprintf("connection #%d of a sequence of short connections through the same bridge processes (%s): %s closed, the other peer saw no end-of-stream for %s; a fresh pair of processes given the same kind of sequence did the same at connection #%d, after %d proper ones",
					seqMissed+1, seqCases[seqMissed].Class, seqCases[seqMissed].Closer, c16Bound, missed2+1, missed2), seqCases[seqMissed], detail)
				if leak2 {
					r.Violate("C16:sockets-leaked:later-connection", fmt.Sprintf("after that sequence, with every peer gone for %s, the fresh processes still hold sockets: frontend %d (idle %d), backend %d (idle %d)", c16Bound, f2, ce.topo.FrontBase, b2, ce.topo.BackBase), nil, detail)
				}
			} else {
				r.Inconclusive(fmt.Sprintf("sequential connection #%d (%s) missed the bound; %d sequential connections on fresh processes did not", seqMissed+1, seqCases[seqMissed].Class, len(again)))
			}
		}
	}

	// ---- late connections
	r.Set("late_connections_opened_at_process_age_s(at_least)", float64(int(lateAge*10))/10)
	for i, res := range lateResults {
		cs := lateCases[i]
		r.Case(cs.Class)
		switch {
		case res.Harness == "" && !res.Missed:
			if res.PreCloseRecv != res.PreCloseSent || res.Altered {
				r.Violate("C16:data-before-close-lost:"+cs.Closer+"-closes-first",
					fmt.Sprintf("case %d (%s): the other peer's stream ended (%s) after %d of the %d bytes written before the graceful close (altered=%v)", cs.ID, cs.Class, res.EOS, res.PreCloseRecv, res.PreCloseSent, res.Altered), cs, res)
			}
		default:
			// repeat the history alone: fresh processes, left idle for 12 s, then this connection
			what := res.Harness
			if res.Missed {
				what = fmt.Sprintf("%s closed, the other peer saw no end-of-stream for %s", cs.Closer, c16Bound)
			}
			ce, err := c16NewEngine(r, bins, "-lateconfirm")
			if err != nil {
				r.Broken("confirmation topology: " + err.Error())
				break
			}
			time.Sleep(12 * time.Second)
			again := ce.run(cs)
			judgeProcs(r, true, ce.topo.Front, ce.topo.Back)
			ce.close()
			if again.Harness != "" || again.Missed {
				sig := "C16:connection-never-reaches-server:late-connection"
				if res.Missed {
					sig = "C16:eof-not-propagated:late-connection"
				}
				r.Violate(sig, fmt.Sprintf("case %d (%s), opened when the bridge processes had been up for %.0f s (dozens of earlier connections were bridged properly): %s; repeated alone on fresh processes that were left idle for 12 s before their first connection: %s (missed=%v)",
					cs.ID, cs.Class, lateAge, what, again.Harness, again.Missed), cs, map[string]interface{}{"first": res, "second": again})
			} else {
				r.Inconclusive(fmt.Sprintf("late case %d (%s): %s; not reproduced on fresh processes aged 12 s", cs.ID, cs.Class, what))
			}
		}
	}

	// ---- simultaneous closes
	r.Cases("simultaneous-close|server-then-client(skew<=400us)", sim.byMode[0])
	r.Cases("simultaneous-close|client-then-server(skew<=400us)", sim.byMode[1])
	r.Cases("simultaneous-close|two-goroutines-released-together", sim.byMode[2])
	r.Set("simultaneous_close_phase", map[string]interface{}{"rounds": sim.rounds, "seconds": sim.seconds, "liveness_probe": sim.probe, "sockets_frontend": sim.f, "sockets_backend": sim.b})
	switch {
	case sim.err != nil:
		r.Broken("simultaneous-close topology: " + sim.err.Error())
	case sim.problem != "" && sim.dead == "":
		r.Inconclusive("simultaneous-close phase: " + sim.problem + " (both bridge processes alive, no crash marker)")
	case sim.problem != "":
		// the crash marker / unexpected exit of that process is reported by the process monitor below;
		// this adds what the TCP peers saw
		r.Violate("C16:bridge-process-died:simultaneous-close", fmt.Sprintf("after %d rounds in which both TCP peers of a bridged connection closed at (nearly) the same instant, %s is gone and %s", sim.rounds, sim.dead, sim.problem), nil, sim.log)
	case sim.leaked:
		again := c16SimClose(r, bins, "-simclose2", r.Pick(3000, 24000), 24)
		if again.err == nil && again.leaked {
			r.Violate("C16:sockets-leaked:simultaneous-close", fmt.Sprintf("after %d simultaneous-close rounds, with every peer gone for %s: frontend %d, backend %d sockets (repeated on fresh processes: %d, %d)", sim.rounds, c16Bound, sim.f, sim.b, again.f, again.b), nil, nil)
		} else {
			r.Inconclusive("sockets not released after the simultaneous-close phase, not reproduced on fresh processes")
		}
	}

	// ---- the TCP server is unreachable: the bridge must still release the client's connection
	for attempt := 0; attempt < 2; attempt++ {
		missed, leaked, detail, err := c16Unreachable(r, bins, fmt.Sprintf("-down%d", attempt), r.Pick(6, 24))
		if err != nil {
			r.Broken("unreachable-server topology: " + err.Error())
			break
		}
		if attempt == 0 {
			r.Cases("unreachable-server|client-waits", 1)
			r.Cases("unreachable-server|client-writes", 1)
		}
		if missed == 0 && !leaked {
			if attempt == 1 {
				r.Inconclusive("unreachable-server phase missed its bound once but not when repeated on fresh processes")
			}
			break
		}
		if attempt == 1 {
			if missed > 0 {
				r.Violate("C16:eof-not-propagated:server-unreachable", fmt.Sprintf("the bridge backend cannot reach its TCP server, yet %d client connection(s) saw no end-of-stream within %s (repeated on fresh processes)", missed, c16Bound), nil, detail)
			}
			if leaked {
				r.Violate("C16:sockets-leaked:server-unreachable", fmt.Sprintf("connections to an unreachable TCP server are not released after the clients left: %v", detail), nil, detail)
			}
		}
	}

	// ---- thorough: one-way trickles of 320 s
	if owDone != nil {
		var ows []c16OneWayResult
		select {
		case ows = <-owDone:
		case <-time.After(8 * time.Minute):
			r.Inconclusive("one-way trickle connections: the harness did not finish them within its watchdog")
		}
		for _, ow := range ows {
			r.Case(ow.Class)
			r.Add("one_way_trickle_bytes_delivered", int(ow.Recv))
			who := map[string]string{"c2s": "client", "s2c": "server"}[ow.Dir]
			switch {
			case ow.Harness != "":
				r.Inconclusive("one-way trickle " + ow.Dir + ": " + ow.Harness)
			case ow.Early != "":
				// a safety observation, no clock decides it: the stream ended although the writer had not closed
				r.Violate("C16:data-before-close-lost:"+who+"-closes-first", fmt.Sprintf("%s: %d s into a one-way stream (%d bytes every %d s, the other direction silent, nobody had closed) %s; the writer had written %d bytes, the reader had received %d; the writer closed only afterwards",
					ow.Class, ow.EarlyAtS, c16OneWayChunk, c16OneWayEveryS, ow.Early, ow.Sent, ow.Recv), nil, ow)
			case ow.Missed:
				again := c16OneWay(r, bins, "-oneway1")
				rep := false
				for _, a := range again {
					rep = rep || (a.Dir == ow.Dir && a.Missed)
				}
				if rep {
					r.Violate("C16:eof-not-propagated:"+who+"-closes-first", fmt.Sprintf("%s: the writer closed after %d s of trickling %d bytes; the reader received %d and saw no end-of-stream for %s (repeated alone on fresh processes)", ow.Class, ow.Seconds, ow.Sent, ow.Recv, c16Bound), nil, ow)
				} else {
					r.Inconclusive(ow.Class + ": no end-of-stream within the bound after the close, not reproduced when repeated")
				}
			case ow.Recv != ow.Sent || ow.Altered:
				r.Violate("C16:data-before-close-lost:"+who+"-closes-first", fmt.Sprintf("%s: the reader's stream ended (%s) after %d of the %d bytes written before the close (altered=%v)", ow.Class, ow.EOS, ow.Recv, ow.Sent, ow.Altered), nil, ow)
			default:
				r.Sample(ow)
			}
		}
	}

	// ---- slow websocket handshakes: whatever the frontend decides meanwhile, once the clients are gone
	// and the handshake is over, the TCP server must not be left with a connection that never ends
	if sh := <-shDone; sh.err != nil {
		r.Broken("slow-handshake topology: " + sh.err.Error())
	} else if sh.held > 0 || sh.leaked {
		held, leaked, detail, err := c16SlowHandshake(r, bins, "-slowhs1", false)
		switch {
		case err != nil:
			r.Broken("slow-handshake topology: " + err.Error())
		case held == 0 && !leaked:
			r.Inconclusive("slow-handshake phase missed its bound once but not when repeated on fresh processes")
		default:
			both := map[string]interface{}{"first": sh.detail, "second": detail}
			if held > 0 {
				r.Violate("C16:connection-outlives-endpoints:slow-websocket-handshake", fmt.Sprintf("the websocket handshake between frontend and backend took 7 s; the TCP clients wrote and closed meanwhile; %s after the handshake had gone through %d connection(s) at the TCP server had still not seen end-of-stream (repeated on fresh processes)", c16Bound, held), nil, both)
			}
			if leaked {
				r.Violate("C16:sockets-leaked:slow-websocket-handshake", fmt.Sprintf("after slow websocket handshakes whose clients are long gone the bridge processes do not return to their idle socket counts within %s: %v", c16Bound, detail), nil, both)
			}
		}
	}

	// ---- websocket handshakes the backend refuses must not leave a connection to the TCP server behind
	for attempt := 0; attempt < 2; attempt++ {
		held, leaked, detail, err := c16Refused(r, bins, fmt.Sprintf("-refused%d", attempt), r.Pick(2, 8), attempt == 0)
		if err != nil {
			r.Broken("refused-upgrade topology: " + err.Error())
			break
		}
		if held == 0 && !leaked {
			if attempt == 1 {
				r.Inconclusive("refused-upgrade phase missed its bound once but not when repeated on fresh processes")
			}
			break
		}
		if attempt == 1 {
			if held > 0 {
				r.Violate("C16:connection-outlives-endpoints:refused-upgrade", fmt.Sprintf("the bridge backend refused websocket handshakes on the streaming path, the clients left, yet %d connection(s) it had opened to the TCP server saw no end-of-stream within %s (repeated on fresh processes)", held, c16Bound), nil, detail)
			}
			if leaked {
				r.Violate("C16:sockets-leaked:refused-upgrade", fmt.Sprintf("after refused websocket handshakes the backend process does not return to its idle socket count within %s: %v", c16Bound, detail), nil, detail)
			}
		}
	}

	judgeProcs(r, true, e.topo.Front, e.topo.Back)
	e.close()
	_ = procs
	r.JudgeRaces(core.ParseRaceLogs(filepath.Join(r.WorkDir, "race-")))
	r.Finish(r.Pick(60, 450))
}

// c16Unreachable starts a bridge whose backend forwards to a closed port and
// connects n clients (half of them write first): every client must observe
// end-of-stream (EOF or reset) within the bound, and after the clients left
// both processes must be back at their idle socket count within the bound.
func c16Unreachable(r *core.Run, bins bridgeBins, suffix string, n int) (missed int, leaked bool, detail map[string]interface{}, err error) {
	topo, err := bridgeStartTopo(r, bins, suffix, core.FreePort())
	if err != nil {
		return 0, false, nil, err
	}
	defer topo.Kill()
	var wg sync.WaitGroup
	var mu sync.Mutex
	var lat []int64
	for i := 0; i < n; i++ {
		wg.Add(1)
		go func(i int) {
			defer wg.Done()
			c, err := net.DialTimeout("tcp", topo.FrontAddr, 5*time.Second)
			if err != nil {
				mu.Lock()
				missed++ // cannot even connect: counts as not released/served
				mu.Unlock()
				return
			}
			defer c.Close()
			t0 := time.Now()
			if i%2 == 1 {
				c.Write([]byte("hello from a client whose server is down"))
			}
			c.SetReadDeadline(time.Now().Add(c16Bound))
			buf := make([]byte, 256)
			for {
				_, err := c.Read(buf)
				if err == nil {
					continue
				}
				mu.Lock()
				if bridgeIsTimeout(err) {
					missed++
				} else {
					lat = append(lat, time.Since(t0).Milliseconds())
				}
				mu.Unlock()
				return
			}
		}(i)
		time.Sleep(5 * time.Millisecond)
	}
	wg.Wait()
	// all clients are gone now; census must return to baseline within the bound
	deadline := time.Now().Add(c16Bound)
	var f, b int
	for {
		f, b = topo.Census()
		if f <= topo.FrontBase && b <= topo.BackBase {
			break
		}
		if time.Now().After(deadline) {
			leaked = true
			break
		}
		time.Sleep(50 * time.Millisecond)
	}
	detail = map[string]interface{}{"clients": n, "eos_latencies_ms": lat, "sockets_frontend": f, "sockets_backend": b, "idle_frontend": topo.FrontBase, "idle_backend": topo.BackBase}
	r.Add("unreachable_server_clients_released", len(lat))
	judgeProcs(r, true, topo.Front, topo.Back)
	return missed, leaked, detail, nil
}

// c16Refused sends websocket handshakes on the streaming path that the
// upgrader refuses straight to a fresh bridge backend. Nothing was bridged
// and the clients leave at once, so within the bound the TCP server must hold
// no connection that has not seen end-of-stream and the backend must be back
// at its idle socket count.
func c16Refused(r *core.Run, bins bridgeBins, suffix string, reps int, count bool) (held int, leaked bool, detail map[string]interface{}, err error) {
	sp, err := bridgeStreamingPath()
	if err != nil {
		return 0, false, nil, err
	}
	type accepted struct {
		eos atomic.Bool
	}
	var mu sync.Mutex
	var accs []*accepted
	var stop atomic.Bool
	srv, err := bridgeNewTCPServer(func(c *net.TCPConn, _ int) {
		defer c.Close()
		a := &accepted{}
		mu.Lock()
		accs = append(accs, a)
		mu.Unlock()
		buf := make([]byte, 4096)
		for !stop.Load() {
			c.SetReadDeadline(time.Now().Add(100 * time.Millisecond))
			if _, err := c.Read(buf); err != nil && !bridgeIsTimeout(err) {
				a.eos.Store(true) // EOF or reset: the bridge let go of it
				return
			}
		}
	})
	if err != nil {
		return 0, false, nil, err
	}
	defer srv.Close()
	defer stop.Store(true)
	topo, err := bridgeStartTopo(r, bins, suffix, srv.Port)
	if err != nil {
		return 0, false, nil, err
	}
	defer topo.Kill()
	kinds := []struct {
		name, method string
		fields       []rawhttp.Field
		key          bool
		version      string
	}{
		{"extensions-offered", "GET", []rawhttp.Field{{Name: "Sec-WebSocket-Extensions", Value: "permessage-deflate; client_max_window_bits"}}, true, "13"},
		{"unsupported-version", "GET", nil, true, "8"},
		{"no-key", "GET", nil, false, "13"},
		{"foreign-origin", "GET", []rawhttp.Field{{Name: "Origin", Value: "http://elsewhere.example"}}, true, "13"},
		{"post-method", "POST", []rawhttp.Field{{Name: "Content-Length", Value: "0"}}, true, "13"},
	}
	statuses := map[string][]int{}
	for _, k := range kinds {
		for i := 0; i < reps; i++ {
			var w rawhttp.Builder
			w.Line(k.method+" "+sp+" HTTP/1.1").Field("Host", topo.BackAddr).Field("Connection", "Upgrade").Field("Upgrade", "websocket").
				Field("Sec-WebSocket-Version", k.version)
			if k.key {
				w.Field("Sec-WebSocket-Key", "dGhlIHNhbXBsZSBub25jZQ==")
			}
			w.Fields(k.fields).End()
			cl := rawhttp.NewClient(topo.BackAddr, 10*time.Second)
			m, derr := cl.Do(w.Bytes(), k.method)
			cl.Close() // the client is gone, whatever the answer was
			st := -1
			if derr == nil && m != nil {
				st = m.Status
			}
			statuses[k.name] = append(statuses[k.name], st)
		}
		if count {
			r.Cases("refused-upgrade|"+k.name, reps)
		}
	}
	gone := time.Now()
	time.Sleep(200 * time.Millisecond) // the bridge answers after it has dialled (if it dials at all); this only covers the accept loop's lag
	var f, b, n int
	for {
		held = 0
		mu.Lock()
		n = len(accs)
		for _, a := range accs {
			if !a.eos.Load() {
				held++
			}
		}
		mu.Unlock()
		f, b = topo.Census()
		leaked = b > topo.BackBase || f > topo.FrontBase
		if (held == 0 && !leaked) || time.Since(gone) > c16Bound {
			break
		}
		time.Sleep(50 * time.Millisecond)
	}
	detail = map[string]interface{}{"handshake_statuses": statuses, "connections_opened_to_tcp_server": n, "of_those_without_end_of_stream": held,
		"sockets_backend": b, "idle_backend": topo.BackBase, "sockets_frontend": f, "idle_frontend": topo.FrontBase}
	if count {
		r.Set("refused_upgrade_phase", detail)
	}
	judgeProcs(r, true, topo.Front, topo.Back)
	return held, leaked, detail, nil
}

func btoi(b bool) int {
	if b {
		return 1
	}
	return 0
}

// c16SeqCases are n short connection histories to be played one after the
// other (both close orders; never used / idle / own data in flight).
func c16SeqCases(n, idBase int) []c16Case {
	var out []c16Case
	shapes := []struct {
		flight string
		n      int
	}{{"virgin", 0}, {"same", 1000}, {"idle", 100}, {"same", 40000}, {"virgin", 0}, {"same", 1}}
	for i := 0; i < n; i++ {
		sh := shapes[i%len(shapes)]
		c := c16Case{ID: idBase + i, Closer: []string{"client", "server"}[(i/2+i)%2], Kind: "full", Flight: sh.flight, N: sh.n, Phase: "sequential"}
		c.Class = c16Class(&c)
		out = append(out, c)
	}
	return out
}

// c16Sequential plays the cases strictly one after the other on e and stops
// at the first one whose far peer saw no end-of-stream within the bound.
func c16Sequential(e *c16Engine, cases []c16Case) (results []c16Result, missed int) {
	for i, cs := range cases {
		res := e.run(cs)
		results = append(results, res)
		if res.Missed {
			return results, i
		}
	}
	return results, -1
}

type c16SimResult struct {
	rounds  int
	byMode  [3]int
	seconds float64
	problem string // what the TCP peers saw go wrong
	dead    string // which bridge process is gone
	log     string
	probe   string
	leaked  bool
	f, b    int
	err     error
}

// c16SimClose: on a fresh pair of bridge processes, `workers` clients open a
// bridged connection, and both TCP peers of it close at (nearly) the same
// instant - server first by 0-400 us, client first by 0-400 us, or from two
// goroutines released together - `rounds` times in all. Every round needs
// the bridge to be alive (the next connection must be bridged); afterwards a
// fresh connection must still carry data and the sockets must be released.
func c16SimClose(r *core.Run, bins bridgeBins, suffix string, rounds, workers int) (out c16SimResult) {
	chans := make([]chan *net.TCPConn, workers+1)
	for i := range chans {
		chans[i] = make(chan *net.TCPConn, 4)
	}
	srv, err := bridgeNewTCPServer(func(c *net.TCPConn, _ int) {
		var id [4]byte
		c.SetReadDeadline(time.Now().Add(10 * time.Second))
		if _, err := io.ReadFull(c, id[:]); err != nil {
			c.Close()
			return
		}
		c.SetReadDeadline(time.Time{})
		if w := int(binary.BigEndian.Uint32(id[:])); w < len(chans) {
			chans[w] <- c
		} else {
			c.Close()
		}
	})
	if err != nil {
		out.err = err
		return
	}
	defer srv.Close()
	topo, err := bridgeStartTopo(r, bins, suffix, srv.Port)
	if err != nil {
		out.err = err
		return
	}
	defer topo.Kill()
	open := func(w int) (cli, far *net.TCPConn, err error) {
		c, err := net.DialTimeout("tcp", topo.FrontAddr, 5*time.Second)
		if err != nil {
			return nil, nil, fmt.Errorf("a new client cannot connect to the frontend: %v", err)
		}
		var id [4]byte
		binary.BigEndian.PutUint32(id[:], uint32(w))
		c.SetWriteDeadline(time.Now().Add(5 * time.Second))
		if _, err := c.Write(id[:]); err != nil {
			c.Close()
			return nil, nil, fmt.Errorf("a new client's first bytes were refused: %v", err)
		}
		select {
		case s := <-chans[w]:
			return c.(*net.TCPConn), s, nil
		case <-time.After(c16Bound):
			c.Close()
			return nil, nil, fmt.Errorf("a new client's connection was not bridged to the TCP server within %s", c16Bound)
		}
	}
	var mu sync.Mutex
	var stop atomic.Bool
	var wg sync.WaitGroup
	t0 := time.Now()
	for w := 0; w < workers; w++ {
		wg.Add(1)
		go func(w int) {
			defer wg.Done()
			rng := rand.New(rand.NewSource(r.Seed*1000 + int64(w)))
			spin := func(d time.Duration) {
				for t := time.Now(); time.Since(t) < d; {
				}
			}
			for i := w; i < rounds && !stop.Load(); i += workers {
				cli, far, err := open(w)
				if err != nil {
					if !stop.Swap(true) {
						mu.Lock()
						out.problem = err.Error()
						mu.Unlock()
					}
					return
				}
				mode := i % 3
				d := time.Duration(rng.Intn(400)) * time.Microsecond
				switch mode {
				case 0:
					far.Close()
					spin(d)
					cli.Close()
				case 1:
					cli.Close()
					spin(d)
					far.Close()
				case 2:
					var g sync.WaitGroup
					gate := make(chan struct{})
					g.Add(2)
					go func() { defer g.Done(); <-gate; far.Close() }()
					go func() { defer g.Done(); <-gate; cli.Close() }()
					close(gate)
					g.Wait()
				}
				mu.Lock()
				out.rounds++
				out.byMode[mode]++
				mu.Unlock()
			}
		}(w)
	}
	wg.Wait()
	out.seconds = float64(int(time.Since(t0).Seconds()*10)) / 10
	if out.problem == "" {
		// liveness: a fresh connection is bridged and carries a byte each way
		out.probe = "ok"
		cli, far, err := open(workers)
		if err != nil {
			out.problem, out.probe = err.Error(), err.Error()
		} else {
			buf := make([]byte, 1)
			cli.SetDeadline(time.Now().Add(c16Bound))
			far.SetDeadline(time.Now().Add(c16Bound))
			cli.Write([]byte{0x5a})
			if _, err := io.ReadFull(far, buf); err != nil || buf[0] != 0x5a {
				out.problem = fmt.Sprintf("the probe connection did not carry a byte to the server: %v", err)
			}
			far.Write([]byte{0xa5})
			if _, err := io.ReadFull(cli, buf); out.problem == "" && (err != nil || buf[0] != 0xa5) {
				out.problem = fmt.Sprintf("the probe connection did not carry a byte to the client: %v", err)
			}
			cli.Close()
			far.Close()
			if out.problem != "" {
				out.probe = out.problem
			}
		}
	}
	for _, p := range []*core.Proc{topo.Front, topo.Back} {
		if !p.Alive() && out.dead == "" {
			out.dead = p.Name
			out.log = core.Trunc(tail(p.Log(), 3000), 3000)
		}
	}
	if out.problem == "" {
		deadline := time.Now().Add(c16Bound)
		for {
			out.f, out.b = topo.Census()
			out.leaked = out.f > topo.FrontBase || out.b > topo.BackBase
			if !out.leaked || time.Now().After(deadline) {
				break
			}
			time.Sleep(50 * time.Millisecond)
		}
	}
	judgeProcs(r, true, topo.Front, topo.Back)
	return out
}

// c16SlowHandshake puts a TCP relay between a fresh frontend and a fresh backend
// that holds back the backend's first bytes (the answer to the websocket upgrade)
// for 7 s. Three clients connect to the frontend, write (or not) and close while
// the handshake is pending. Once the handshakes have gone through and the clients
// are gone, every connection the TCP server accepted must see end-of-stream within
// the bound (with or without the client's bytes before it), and both processes
// must be back at their idle socket counts.
func c16SlowHandshake(r *core.Run, bins bridgeBins, suffix string, count bool) (held int, leaked bool, detail map[string]interface{}, err error) {
	const delay = 7 * time.Second
	type accepted struct {
		eos  atomic.Bool
		recv atomic.Int64
	}
	var mu sync.Mutex
	var accs []*accepted
	var stop atomic.Bool
	srv, err := bridgeNewTCPServer(func(c *net.TCPConn, _ int) {
		defer c.Close()
		a := &accepted{}
		mu.Lock()
		accs = append(accs, a)
		mu.Unlock()
		buf := make([]byte, 4096)
		for !stop.Load() {
			c.SetReadDeadline(time.Now().Add(100 * time.Millisecond))
			n, err := c.Read(buf)
			a.recv.Add(int64(n))
			if err != nil && !bridgeIsTimeout(err) {
				a.eos.Store(true)
				return
			}
		}
	})
	if err != nil {
		return 0, false, nil, err
	}
	defer srv.Close()
	defer stop.Store(true)
	back, bp, err := bridgeStartProc(r, "bridge-backend"+suffix, bins.Back, func(port int) []string {
		return []string{"-frontend-port", strconv.Itoa(port), "-backend-port", strconv.Itoa(srv.Port)}
	})
	if err != nil {
		return 0, false, nil, err
	}
	defer back.Kill()
	// the relay
	rl, err := net.Listen("tcp", "127.0.0.1:0")
	if err != nil {
		return 0, false, nil, err
	}
	defer rl.Close()
	var released []time.Time
	var relayed atomic.Int64
	go func() {
		for {
			fc, err := rl.Accept()
			if err != nil {
				return
			}
			relayed.Add(1)
			go func(fc net.Conn) {
				t0 := time.Now()
				bc, err := net.DialTimeout("tcp", fmt.Sprintf("127.0.0.1:%d", bp), 5*time.Second)
				if err != nil {
					fc.Close()
					return
				}
				var once sync.Once
				closeBoth := func() { once.Do(func() { fc.Close(); bc.Close() }) }
				go func() { defer closeBoth(); io.Copy(bc, fc) }()
				defer closeBoth()
				buf := make([]byte, 32<<10)
				n, err := bc.Read(buf) // the answer to the upgrade request
				if n > 0 {
					time.Sleep(time.Until(t0.Add(delay)))
					mu.Lock()
					released = append(released, time.Now())
					mu.Unlock()
					if _, werr := fc.Write(buf[:n]); werr != nil {
						return
					}
				}
				if err == nil {
					io.Copy(fc, bc)
				}
			}(fc)
		}
	}()
	front, fp, err := bridgeStartProc(r, "bridge-frontend"+suffix, bins.Front, func(port int) []string {
		return []string{"-frontend-port", strconv.Itoa(port), "-backend", "ws://" + rl.Addr().String()}
	})
	if err != nil {
		return 0, false, nil, err
	}
	defer front.Kill()
	fBase, bBase := bridgeSockets(front.Cmd.Process.Pid), bridgeSockets(back.Cmd.Process.Pid)
	clients := []struct {
		name    string
		write   int
		closeAt time.Duration
	}{{"writes-then-closes-at-1s", 5, time.Second}, {"closes-at-once", 0, 0}, {"writes-then-closes-at-6s", 3000, 6 * time.Second}}
	var wg sync.WaitGroup
	t0 := time.Now()
	for _, cl := range clients {
		if count {
			r.Cases("slow-websocket-handshake|client-"+cl.name, 1)
		}
		c, derr := net.DialTimeout("tcp", fmt.Sprintf("127.0.0.1:%d", fp), 5*time.Second)
		if derr != nil {
			return 0, false, nil, derr
		}
		wg.Add(1)
		go func(c net.Conn, write int, closeAt time.Duration) {
			defer wg.Done()
			if write > 0 {
				c.SetWriteDeadline(time.Now().Add(5 * time.Second))
				c.Write(tokBytes("slowhs", "x", write))
			}
			time.Sleep(time.Until(t0.Add(closeAt)))
			c.Close()
		}(c, cl.write, cl.closeAt)
	}
	wg.Wait() // every client is gone (6 s)
	// wait for the handshakes to be let through (7 s), bounded
	for time.Since(t0) < delay+5*time.Second {
		mu.Lock()
		n := len(released)
		mu.Unlock()
		if n >= len(clients) {
			break
		}
		time.Sleep(20 * time.Millisecond)
	}
	base := time.Now() // clients gone, handshakes over: the bound runs from here
	time.Sleep(200 * time.Millisecond)
	var f, b, n int
	var got []int64
	for {
		held, got = 0, nil
		mu.Lock()
		n = len(accs)
		for _, a := range accs {
			if !a.eos.Load() {
				held++
			}
			got = append(got, a.recv.Load())
		}
		mu.Unlock()
		f, b = bridgeSockets(front.Cmd.Process.Pid), bridgeSockets(back.Cmd.Process.Pid)
		leaked = f > fBase || b > bBase
		if (held == 0 && !leaked) || time.Since(base) > c16Bound {
			break
		}
		time.Sleep(50 * time.Millisecond)
	}
	mu.Lock()
	nrel := len(released)
	mu.Unlock()
	detail = map[string]interface{}{"handshakes_relayed": relayed.Load(), "handshake_answers_released_after_7s": nrel,
		"connections_at_tcp_server": n, "of_those_without_end_of_stream": held, "bytes_each_received": got,
		"sockets_frontend": f, "idle_frontend": fBase, "sockets_backend": b, "idle_backend": bBase}
	if count {
		r.Set("slow_handshake_phase", detail)
	}
	judgeProcs(r, true, front, back)
	return held, leaked, detail, nil
}

const (
	c16OneWayChunk  = 7
	c16OneWayEveryS = 4
	c16OneWayTicks  = 80 // 320 s
)

type c16OneWayResult struct {
	Dir      string `json:"direction"`
	Class    string `json:"class"`
	Sent     int64  `json:"bytes_written_before_close"`
	Recv     int64  `json:"bytes_received"`
	Seconds  int    `json:"seconds_streamed"`
	Early    string `json:"ended_before_the_close,omitempty"`
	EarlyAtS int    `json:"ended_at_second,omitempty"`
	EOS      string `json:"end_of_stream_after_close"`
	Missed   bool   `json:"missed_bound"`
	Altered  bool   `json:"altered,omitempty"`
	MaxGapMs int64  `json:"longest_pause_between_writes_ms"`
	Harness  string `json:"harness_problem,omitempty"`
}

// c16OneWay: on a fresh pair of bridge processes, one connection per direction on which one peer
// writes a few bytes every few seconds for 320 s while the other peer never writes; then the
// writer closes. The reader must not see the stream end before that, and must then have every
// byte followed by end-of-stream within the bound.
func c16OneWay(r *core.Run, bins bridgeBins, suffix string) []c16OneWayResult {
	e, err := c16NewEngine(r, bins, suffix)
	if err != nil {
		return []c16OneWayResult{{Dir: "c2s", Class: "one-way-trickle", Harness: err.Error()}}
	}
	defer e.close()
	out := make([]c16OneWayResult, 2)
	var wg sync.WaitGroup
	for k, dir := range []string{"c2s", "s2c"} {
		wg.Add(1)
		go func(k int, dir string) {
			defer wg.Done()
			res := &out[k]
			res.Dir = dir
			res.Class = fmt.Sprintf("one-way-trickle|%s|%dB/%ds|%ds|other-direction-silent", dir, c16OneWayChunk, c16OneWayEveryS, c16OneWayTicks*c16OneWayEveryS)
			cli, srv, err := e.connect()
			if err != nil {
				res.Harness = err.Error()
				return
			}
			x, y := cli, srv
			if dir == "s2c" {
				x, y = srv, cli
			}
			total := int64(c16OneWayTicks * c16OneWayChunk)
			id := 7000000 + k
			py := c16NewPeer(y, bridgeNewStream(r.Seed, id, 'x', total), true, false, 0)
			px := c16NewPeer(x, bridgeNewStream(r.Seed, id, 'y', 0), true, false, 0)
			defer func() {
				px.stop.Store(true)
				py.stop.Store(true)
				x.Close()
				y.Close()
				<-px.done
				<-py.done
			}()
			xs := bridgeNewStream(r.Seed, id, 'x', total)
			buf := make([]byte, c16OneWayChunk)
			t0 := time.Now()
			last := t0
			for tick := 0; tick < c16OneWayTicks; tick++ {
				if _, _, eos, _ := py.state(); eos != "" {
					res.Early = "the reader saw its stream end (" + eos + ")"
				} else if _, _, eos, _ := px.state(); eos != "" {
					res.Early = "the writer's own connection was ended (" + eos + ")"
				}
				if res.Early == "" {
					xs.Next(buf)
					x.SetWriteDeadline(time.Now().Add(c16Bound))
					n, err := x.Write(buf)
					res.Sent += int64(n)
					if gap := time.Since(last).Milliseconds(); gap > res.MaxGapMs {
						res.MaxGapMs = gap
					}
					last = time.Now()
					if err != nil {
						res.Early = "the writer's write failed: " + err.Error()
					}
				}
				if res.Early != "" {
					res.EarlyAtS = int(time.Since(t0).Seconds())
					break
				}
				time.Sleep(time.Until(t0.Add(time.Duration(tick+1) * c16OneWayEveryS * time.Second)))
			}
			res.Seconds = int(time.Since(t0).Seconds())
			// the real close
			px.stop.Store(true)
			tClose := time.Now()
			x.Close()
			for {
				recv, lastB, eos, _ := py.state()
				res.Recv = recv
				base := tClose
				if lastB.After(base) {
					base = lastB
				}
				if eos != "" {
					res.EOS = eos
					break
				}
				if time.Since(base) > c16Bound {
					res.Missed = true
					break
				}
				time.Sleep(5 * time.Millisecond)
			}
			res.Altered = py.v.BadOffset >= 0
		}(k, dir)
	}
	wg.Wait()
	judgeProcs(r, true, e.topo.Front, e.topo.Back)
	return out
}
