package props

import "verif/internal/core"

// C18 — stub, replaced by the real check.
func C18(r *core.Run) {
	r.Broken("check not implemented yet")
	r.Finish(1)
}
