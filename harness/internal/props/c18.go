package props

import (
	"encoding/json"
	"fmt"
	"math/rand"
	"strings"
	"time"

	"verif/internal/core"
)

type c18Backend struct {
	ID       string   `json:"id"`
	EndUser  string   `json:"end_user"`
	Prefixes []string `json:"prefixes"`
	Seen     string   `json:"seen"`
}

type c18Config struct {
	I        int          `json:"i"`
	Backends []c18Backend `json:"backends"`
	Orders   [][]int      `json:"orders"`
	HTTP     bool         `json:"http,omitempty"`
}

var (
	c18Prefixes = []string{"/", "/a", "/a/", "/a/b", "/ab", "/b", ""}
	c18EndUsers = []string{"u1@example.com", "u2@example.com", "allUsers"}
	c18Seen     = []string{"fresh", "4m", "6m", "1h", "never"}
	c18Users    = []string{"u1@example.com", "u2@example.com", "u3@example.com"}
	c18Paths    = []string{"/", "/a", "/a/", "/a/b/c", "/ab", "/b", "/c", ""}
)

func c18Live(seen string) bool { return seen == "fresh" || seen == "4m" }

// c18Match is the length of the longest prefix of b matching path, -1 if none.
func c18Match(b *c18Backend, path string) int {
	best := -1
	for _, p := range b.Prefixes {
		if strings.HasPrefix(path, p) && len(p) > best {
			best = len(p)
		}
	}
	return best
}

// c18Expect is the independent specification: the set of admissible backend
// answers and whether 404 is admissible, for one (configuration, user, path).
func c18Expect(cfg *c18Config, user, path string) (allowed map[string]bool, allow404 bool, class string) {
	var cands []*c18Backend
	src := "user"
	for i := range cfg.Backends {
		b := &cfg.Backends[i]
		if b.EndUser == user && c18Match(b, path) >= 0 {
			cands = append(cands, b)
		}
	}
	if len(cands) == 0 {
		src = "shared"
		for i := range cfg.Backends {
			b := &cfg.Backends[i]
			if b.EndUser == "allUsers" && c18Match(b, path) >= 0 {
				cands = append(cands, b)
			}
		}
	}
	allowed = map[string]bool{}
	if len(cands) == 0 {
		return allowed, true, fmt.Sprintf("n%d|none", len(cfg.Backends))
	}
	max := -1
	for _, b := range cands {
		if m := c18Match(b, path); m > max {
			max = m
		}
	}
	nL, nLive := 0, 0
	for _, b := range cands {
		if c18Match(b, path) == max {
			nL++
			if c18Live(b.Seen) {
				nLive++
				allowed[b.ID] = true
			}
		}
	}
	allow404 = nLive < nL
	liveness := "all-live"
	if nLive == 0 {
		liveness = "none-live"
	} else if nLive < nL {
		liveness = "some-live"
	}
	sharedToo := false
	if src == "user" {
		for i := range cfg.Backends {
			if cfg.Backends[i].EndUser == "allUsers" && c18Match(&cfg.Backends[i], path) > max {
				sharedToo = true // a shared backend is more specific, yet must not be used
			}
		}
	}
	nl := nL
	if nl > 2 {
		nl = 2
	}
	class = fmt.Sprintf("n%d|%s|cands%d|len%d|tie%d|%s|sharedLonger:%v", len(cfg.Backends), src, min(len(cands), 3), max, nl, liveness, sharedToo)
	return allowed, allow404, class
}

// c18Why names what is wrong with answer got.
func c18Why(cfg *c18Config, user, path, got string) string {
	if got == "!" {
		return "404-despite-live-match"
	}
	var b *c18Backend
	for i := range cfg.Backends {
		if cfg.Backends[i].ID == got {
			b = &cfg.Backends[i]
		}
	}
	if b == nil {
		return "wrong-backend:unknown-id"
	}
	if b.EndUser != user && b.EndUser != "allUsers" {
		return "wrong-backend:other-users-backend"
	}
	m := c18Match(b, path)
	if m < 0 {
		return "wrong-backend:non-matching-backend"
	}
	userHas, max := false, -1
	for i := range cfg.Backends {
		o := &cfg.Backends[i]
		if o.EndUser == user && c18Match(o, path) >= 0 {
			userHas = true
		}
	}
	if b.EndUser == "allUsers" && userHas {
		return "wrong-backend:shared-despite-user-match"
	}
	for i := range cfg.Backends {
		o := &cfg.Backends[i]
		if o.EndUser == b.EndUser {
			if mm := c18Match(o, path); mm > max {
				max = mm
			}
		}
	}
	if m < max {
		return "wrong-backend:shorter-prefix-chosen"
	}
	if !c18Live(b.Seen) {
		return "wrong-backend:not-live-chosen"
	}
	return "wrong-backend:other"
}

func c18Perms(n int) [][]int {
	var out [][]int
	var rec func(cur []int, used int)
	rec = func(cur []int, used int) {
		if len(cur) == n {
			out = append(out, append([]int(nil), cur...))
			return
		}
		for i := 0; i < n; i++ {
			if used&(1<<i) == 0 {
				rec(append(cur, i), used|1<<i)
			}
		}
	}
	rec(nil, 0)
	return out
}

func c18Orders(rng *rand.Rand, n, max int) [][]int {
	all := c18Perms(n)
	if len(all) <= max {
		return all
	}
	// identity, full reversal, then random others
	out := [][]int{all[0], all[len(all)-1]}
	for _, i := range rng.Perm(len(all) - 2)[:max-2] {
		out = append(out, all[i+1])
	}
	return out
}

func c18RandPrefixes(rng *rand.Rand) []string {
	k := 1 + rng.Intn(3)
	var out []string
	for _, i := range rng.Perm(len(c18Prefixes))[:k] {
		out = append(out, c18Prefixes[i])
	}
	if rng.Intn(8) == 0 {
		out = append(out, out[0]) // duplicate prefix
	}
	return out
}

func c18Generate(r *core.Run) []c18Config {
	rng := r.Rand("c18")
	var cfgs []c18Config
	add := func(bs []c18Backend, maxOrders int) {
		for i := range bs {
			bs[i].ID = fmt.Sprintf("bk%d", i)
		}
		// the IDs decide the key order inside the store; vary which backend gets which
		if len(bs) > 1 && rng.Intn(2) == 0 {
			for i, j := range rng.Perm(len(bs)) {
				bs[i].ID = fmt.Sprintf("bk%d", j)
			}
		}
		cfgs = append(cfgs, c18Config{I: len(cfgs), Backends: bs, Orders: c18Orders(rng, len(bs), maxOrders)})
	}
	quick := r.Quick()
	// one backend, exhaustive: end user x single prefix x liveness
	for _, eu := range c18EndUsers {
		for _, p := range c18Prefixes {
			for _, s := range c18Seen {
				add([]c18Backend{{EndUser: eu, Prefixes: []string{p}, Seen: s}}, 1)
			}
		}
	}
	// two backends, single prefix each: exhaustive over end users x prefixes, liveness exhaustive in thorough
	seen2 := []string{"fresh", "6m"}
	if !quick {
		seen2 = c18Seen
	}
	for _, eu1 := range c18EndUsers {
		for _, p1 := range c18Prefixes {
			for _, eu2 := range c18EndUsers {
				for _, p2 := range c18Prefixes {
					for _, s1 := range seen2 {
						for _, s2 := range seen2 {
							if quick && rng.Intn(3) != 0 {
								continue
							}
							add([]c18Backend{{EndUser: eu1, Prefixes: []string{p1}, Seen: s1}, {EndUser: eu2, Prefixes: []string{p2}, Seen: s2}}, 2)
						}
					}
				}
			}
		}
	}
	// random larger configurations: 2-4 backends, prefix lists of 1-3 (+duplicates)
	nRand := r.Pick(900, 10000)
	for k := 0; k < nRand; k++ {
		n := []int{2, 2, 3, 3, 3, 3, 4, 4}[rng.Intn(8)]
		if quick {
			n = 2 + rng.Intn(3)
		}
		bs := make([]c18Backend, n)
		for i := range bs {
			bs[i] = c18Backend{EndUser: c18EndUsers[rng.Intn(3)], Prefixes: c18RandPrefixes(rng), Seen: c18Seen[rng.Intn(5)]}
			if rng.Intn(3) == 0 {
				bs[i].Seen = "fresh" // keep enough live backends for ties among live ones
			}
		}
		add(bs, r.Pick(6, 24))
	}
	// the sample that also goes through the client HTTP handler
	nHTTP := r.Pick(12, 150)
	for _, i := range rng.Perm(len(cfgs))[:nHTTP] {
		cfgs[i].HTTP = true
	}
	return cfgs
}

// C18 — routing to the most specific live backend.
func C18(r *core.Run) {
	r.SetRule("bounded-exhaustive comparison of LookupBackend (real caching+persistent store over a fake datastore/memcache) with an independent longest-prefix specification: 1-4 backends, prefix lists (1-3, duplicates) over {/, /a, /a/, /a/b, /ab, /b, \"\"}, endUser in {u1,u2,allUsers}, last seen in {fresh,4m,6m,1h,never}, users {u1,u2,u3} x 8 paths, every/many insertion orders, each lookup repeated; sample through the client HTTP handler; class = (#backends, candidate source user/shared/none, #candidates, longest match length, tie size, liveness of the longest class, more specific shared backend present)")
	r.Assume("ties and a non-live member of the longest-prefix class admit 404 or any live member; liveness margins are >= 60 s from the 5-minute boundary; 'never seen' is the state right after registration; last-seen ages are produced by ageing the time-valued properties written when the backend's pending list is read")
	bin := r.MustBuild(e3Build(r))
	cfgs := c18Generate(r)
	spec := map[string]interface{}{"mode": "c18", "workers": 16, "users": c18Users, "paths": c18Paths, "reps": 2, "configs": cfgs}
	res := e3Run(r, bin, "c18", spec, time.Duration(r.Pick(240, 1500))*time.Second)
	seenCfg := 0
	orders, lookups, httpCases, routed := 0, 0, 0, 0
	for _, ln := range res.Lines {
		var rec struct {
			Cfg        int                      `json:"cfg"`
			SetupErr   string                   `json:"setup_err"`
			Res        [][]string               `json:"res"`
			Evals      int                      `json:"evals"`
			OrderDiffs []map[string]interface{} `json:"order_diffs"`
			RepDiffs   []map[string]interface{} `json:"rep_diffs"`
			HTTP       []struct {
				U, P     int
				Status   int
				ListedIn []string `json:"listed_in"`
				Hung     bool
				SetupErr string `json:"setup_err"`
			} `json:"http"`
		}
		if err := json.Unmarshal(ln, &rec); err != nil || rec.Cfg < 0 || rec.Cfg >= len(cfgs) {
			r.Broken("unreadable C18 result line: " + core.Trunc(string(ln), 200))
			continue
		}
		cfg := &cfgs[rec.Cfg]
		if rec.SetupErr != "" || rec.Res == nil {
			r.Broken(fmt.Sprintf("C18 configuration %d could not be set up: %s", rec.Cfg, rec.SetupErr))
			continue
		}
		seenCfg++
		orders += len(cfg.Orders)
		lookups += rec.Evals
		for ui, u := range c18Users {
			for pi, p := range c18Paths {
				got := rec.Res[ui][pi]
				allowed, allow404, class := c18Expect(cfg, u, p)
				r.Case(class)
				ok := (got == "!" && allow404) || allowed[got]
				if !ok {
					why := c18Why(cfg, u, p, got)
					r.Violate("C18:"+why, fmt.Sprintf("user %s path %q: LookupBackend answered %q; admissible: %v, 404 admissible: %v", u, p, got, keysOf(allowed), allow404),
						map[string]interface{}{"config": cfg, "user": u, "path": p}, map[string]interface{}{"got": got})
				}
				if rec.Cfg%997 == 0 && len(allowed) > 0 && ui == 0 {
					r.Sample(map[string]interface{}{"config": cfg.Backends, "user": u, "path": p, "answer": got, "admissible": keysOf(allowed), "404_admissible": allow404})
				}
			}
		}
		for _, d := range rec.OrderDiffs {
			r.Violate("C18:order-dependent", fmt.Sprintf("the answer changes with the order in which the same backends were registered: %v", d), map[string]interface{}{"config": cfg}, d)
		}
		for _, d := range rec.RepDiffs {
			r.Violate("C18:unstable-on-repetition", fmt.Sprintf("the same lookup answered differently when repeated: %v", d), map[string]interface{}{"config": cfg}, d)
		}
		for _, h := range rec.HTTP {
			if h.SetupErr != "" {
				r.Broken("C18 HTTP sample: " + h.SetupErr)
				continue
			}
			u, p := c18Users[h.U], c18Paths[h.P]
			allowed, allow404, class := c18Expect(cfg, u, p)
			r.Case("http|" + class)
			httpCases++
			cs := map[string]interface{}{"config": cfg, "user": u, "path": p, "via": "client handler"}
			switch {
			case h.Hung:
				r.Violate("C18:http-handler-hangs", "client handler did not return", cs, h)
			case len(h.ListedIn) == 0:
				if h.Status != 404 {
					r.Violate("C18:http-unrouted-not-404", fmt.Sprintf("user %s path %q: request was queued for no backend but the client got %d, not 404", u, p, h.Status), cs, h)
				} else if !allow404 {
					r.Violate("C18:http-"+c18Why(cfg, u, p, "!"), fmt.Sprintf("user %s path %q: client got 404; admissible backends: %v", u, p, keysOf(allowed)), cs, h)
				}
			default:
				routed++
				if len(h.ListedIn) > 1 {
					r.Violate("C18:http-queued-for-several-backends", fmt.Sprintf("user %s path %q: request queued for %v", u, p, h.ListedIn), cs, h)
				}
				if h.Status == 404 {
					r.Violate("C18:http-404-but-queued", fmt.Sprintf("user %s path %q: client got 404 although the request was queued for %v", u, p, h.ListedIn), cs, h)
				}
				for _, b := range h.ListedIn {
					if !allowed[b] {
						r.Violate("C18:http-"+c18Why(cfg, u, p, b), fmt.Sprintf("user %s path %q: request queued for %q; admissible: %v, 404 admissible: %v", u, p, b, keysOf(allowed), allow404), cs, h)
					}
				}
			}
		}
	}
	if seenCfg != len(cfgs) && res.SawEnd {
		r.Broken(fmt.Sprintf("C18: %d of %d configurations reported", seenCfg, len(cfgs)))
	}
	r.Set("configurations", seenCfg)
	r.Set("insertion_orders_built", orders)
	r.Set("lookups_executed", lookups)
	r.Set("http_handler_cases", httpCases)
	r.Set("http_handler_cases_routed", routed)
	e3Finish(r, res, r.Pick(20000, 300000))
}

func keysOf(m map[string]bool) []string {
	out := []string{}
	for k := range m {
		out = append(out, k)
	}
	sortStrings(out)
	return out
}

func sortStrings(s []string) {
	for i := 1; i < len(s); i++ {
		for j := i; j > 0 && s[j] < s[j-1]; j-- {
			s[j], s[j-1] = s[j-1], s[j]
		}
	}
}
