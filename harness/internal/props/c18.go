package props

import (
	"encoding/json"
	"fmt"
	"math/rand"
	"strings"
	"time"

	"verif/internal/core"
)

type c18Backend struct {
	ID       string   `json:"id"`
	EndUser  string   `json:"end_user"`
	Prefixes []string `json:"prefixes"`
	Seen     string   `json:"seen"`               // last poll of its agent
	Active   string   `json:"active,omitempty"`   // last response posted for it (never decides liveness)
	Rereg    bool     `json:"rereg,omitempty"`    // had an earlier life under the same ID (polled, answered, deleted); Seen is "never"
	Repolled string   `json:"repolled,omitempty"` // "overwrite"/"delete": registered and polled, registered again seconds later (after a delete), then polled as Seen says
	Usurped  bool     `json:"usurped,omitempty"`  // registered for agent A, who polled; registered again for agent B; A polled again since, B never: Seen is "never"
}

type c18Hist struct {
	U   int    `json:"u"`
	P   int    `json:"p"`
	B   string `json:"b"`
	Mut string `json:"mut"`
}

type c18Config struct {
	I        int          `json:"i"`
	Backends []c18Backend `json:"backends"`
	Orders   [][]int      `json:"orders"`
	HTTP     bool         `json:"http,omitempty"`
	Hist     []c18Hist    `json:"hist,omitempty"`
	ViaAPI   bool         `json:"via_api,omitempty"`
	Cron     bool         `json:"cron,omitempty"` // the cron clean-up ran between the registrations and the first polls (must remove nothing that recent)
}

var (
	c18Prefixes = []string{"/", "/a", "/a/", "/a/b", "/ab", "/b", ""}
	c18EndUsers = []string{"Alice.Smith@Example.COM", "u2@example.com", "allUsers"}
	c18Seen     = []string{"fresh", "4m", "6m", "1h", "never"}
	c18Active   = []string{"", "fresh", "4m", "6m"}
	c18Users    = []string{"Alice.Smith@Example.COM", "u2@example.com", "u3@example.com"}
	c18Paths    = []string{"/", "/a", "/a/", "/a/b/c", "/ab", "/b", "/c", "", "/données/x", "/a b/c", "/50%/x", "/a/b"}
	// how the paths are spelled on the request line where that is not simply the escaped form: "/a/b" arrives as "/a%2Fb"
	c18WirePaths = []string{"", "", "", "", "", "", "", "", "", "", "", "/a%2Fb"}
	// paths sent through the client handler only: they look like platform, API or agent endpoints but are ordinary end-user paths
	c18HTTPPaths = []string{"/_ah/warmup", "/_ah/start", "/_ah", "/_ah/health", "/_ahx", "/apix/backends", "/agents/pending", "/cron/deleted"}
	// prefixes whose characters are escaped on the wire; the request path of the statement is the decoded one
	c18PrefixesEsc = append(append([]string{}, c18Prefixes...), "/données/", "/a b/", "/50%/")
)

func c18Live(seen string) bool { return seen == "fresh" || seen == "4m" }

// c18Match is the length of the longest prefix of b matching path, -1 if none.
func c18Match(b *c18Backend, path string) int {
	best := -1
	for _, p := range b.Prefixes {
		if strings.HasPrefix(path, p) && len(p) > best {
			best = len(p)
		}
	}
	return best
}

// c18Expect is the independent specification: the set of admissible backend
// answers and whether 404 is admissible, for one (configuration, user, path).
func c18Expect(cfg *c18Config, user, path string) (allowed map[string]bool, allow404 bool, class string) {
	var cands []*c18Backend
	src := "user"
	for i := range cfg.Backends {
		b := &cfg.Backends[i]
		if b.EndUser == user && c18Match(b, path) >= 0 {
			cands = append(cands, b)
		}
	}
	if len(cands) == 0 {
		src = "shared"
		for i := range cfg.Backends {
			b := &cfg.Backends[i]
			if b.EndUser == "allUsers" && c18Match(b, path) >= 0 {
				cands = append(cands, b)
			}
		}
	}
	allowed = map[string]bool{}
	if len(cands) == 0 {
		return allowed, true, fmt.Sprintf("n%d|none", len(cfg.Backends))
	}
	max := -1
	for _, b := range cands {
		if m := c18Match(b, path); m > max {
			max = m
		}
	}
	nL, nLive := 0, 0
	for _, b := range cands {
		if c18Match(b, path) == max {
			nL++
			if c18Live(b.Seen) {
				nLive++
				allowed[b.ID] = true
			}
		}
	}
	allow404 = nLive < nL
	liveness := "all-live"
	if nLive == 0 {
		liveness = "none-live"
	} else if nLive < nL {
		liveness = "some-live"
	}
	recentAnswer := false // a member of the longest class is not live by its polls, yet a response was posted for it recently
	for _, b := range cands {
		if c18Match(b, path) == max && !c18Live(b.Seen) && (b.Active == "fresh" || b.Active == "4m") {
			recentAnswer = true
		}
	}
	sharedToo := false
	if src == "user" {
		for i := range cfg.Backends {
			if cfg.Backends[i].EndUser == "allUsers" && c18Match(&cfg.Backends[i], path) > max {
				sharedToo = true // a shared backend is more specific, yet must not be used
			}
		}
	}
	nl := nL
	if nl > 2 {
		nl = 2
	}
	if cfg.Cron {
		defer func() { class += "|cron-before-first-poll" }()
	}
	class = fmt.Sprintf("n%d|%s|cands%d|len%d|tie%d|%s|sharedLonger:%v|notPolledButAnswered:%v", len(cfg.Backends), src, min(len(cands), 3), max, nl, liveness, sharedToo, recentAnswer)
	return allowed, allow404, class
}

// c18Why names what is wrong with answer got.
func c18Why(cfg *c18Config, user, path, got string) string {
	if got == "!" {
		if cfg.Cron {
			return "404-despite-live-match:cron-clean-up-ran-before-the-first-poll"
		}
		if allowed, _, _ := c18Expect(cfg, user, path); len(allowed) > 0 {
			for i := range cfg.Backends {
				if allowed[cfg.Backends[i].ID] && cfg.Backends[i].Repolled != "" {
					return "404-despite-fresh-poll:after-re-registration"
				}
			}
		}
		return "404-despite-live-match"
	}
	var b *c18Backend
	for i := range cfg.Backends {
		if cfg.Backends[i].ID == got {
			b = &cfg.Backends[i]
		}
	}
	if b == nil {
		return "wrong-backend:unknown-id"
	}
	if b.EndUser != user && b.EndUser != "allUsers" {
		return "wrong-backend:other-users-backend"
	}
	m := c18Match(b, path)
	if m < 0 {
		return "wrong-backend:non-matching-backend"
	}
	userHas, max := false, -1
	for i := range cfg.Backends {
		o := &cfg.Backends[i]
		if o.EndUser == user && c18Match(o, path) >= 0 {
			userHas = true
		}
	}
	if b.EndUser == "allUsers" && userHas {
		return "wrong-backend:shared-despite-user-match"
	}
	for i := range cfg.Backends {
		o := &cfg.Backends[i]
		if o.EndUser == b.EndUser {
			if mm := c18Match(o, path); mm > max {
				max = mm
			}
		}
	}
	if m < max {
		return "wrong-backend:shorter-prefix-chosen"
	}
	if !c18Live(b.Seen) {
		if b.Usurped {
			return "wrong-backend:not-live-chosen:only-its-former-agent-polled"
		}
		if b.Active == "fresh" || b.Active == "4m" {
			return "wrong-backend:not-live-chosen:response-posted-recently"
		}
		return "wrong-backend:not-live-chosen"
	}
	return "wrong-backend:other"
}

// c18After is the configuration a history's mutation leaves behind.
func c18After(cfg *c18Config, h c18Hist) *c18Config {
	out := &c18Config{I: cfg.I}
	for _, b := range cfg.Backends {
		if b.ID == h.B {
			switch h.Mut {
			case "delete":
				continue
			case "age":
				b.Seen = "6m"
			case "reregister":
				b.EndUser, b.Seen = "someone-else@example.com", "never"
			}
		}
		out.Backends = append(out.Backends, b)
	}
	return out
}

func c18Perms(n int) [][]int {
	var out [][]int
	var rec func(cur []int, used int)
	rec = func(cur []int, used int) {
		if len(cur) == n {
			out = append(out, append([]int(nil), cur...))
			return
		}
		for i := 0; i < n; i++ {
			if used&(1<<i) == 0 {
				rec(append(cur, i), used|1<<i)
			}
		}
	}
	rec(nil, 0)
	return out
}

func c18Orders(rng *rand.Rand, n, max int) [][]int {
	all := c18Perms(n)
	if len(all) <= max {
		return all
	}
	// identity, full reversal, then random others
	out := [][]int{all[0], all[len(all)-1]}
	for _, i := range rng.Perm(len(all) - 2)[:max-2] {
		out = append(out, all[i+1])
	}
	return out
}

func c18RandPrefixes(rng *rand.Rand) []string {
	k := 1 + rng.Intn(3)
	var out []string
	for _, i := range rng.Perm(len(c18PrefixesEsc))[:k] {
		out = append(out, c18PrefixesEsc[i])
	}
	if rng.Intn(8) == 0 {
		out = append(out, out[0]) // duplicate prefix
	}
	return out
}

func c18Generate(r *core.Run) []c18Config {
	rng := r.Rand("c18")
	var cfgs []c18Config
	add := func(bs []c18Backend, maxOrders int) {
		for i := range bs {
			bs[i].ID = fmt.Sprintf("bk%d", i)
		}
		// the IDs decide the key order inside the store; vary which backend gets which
		if len(bs) > 1 && rng.Intn(2) == 0 {
			for i, j := range rng.Perm(len(bs)) {
				bs[i].ID = fmt.Sprintf("bk%d", j)
			}
		}
		cfgs = append(cfgs, c18Config{I: len(cfgs), Backends: bs, Orders: c18Orders(rng, len(bs), maxOrders)})
	}
	quick := r.Quick()
	// first (it is the slowest): a configuration with more than 500 backends for one user (thorough: also more than
	// 500 shared ones); the most specific matches sort late in key order, a less specific one sorts early
	{
		var bs []c18Backend
		for i := 0; i < 505; i++ {
			b := c18Backend{ID: fmt.Sprintf("big-p%04d", i), EndUser: "u2@example.com", Prefixes: []string{fmt.Sprintf("/zz%d/", i)}, Seen: "never"}
			switch i {
			case 3:
				b.Prefixes, b.Seen = []string{"/"}, "fresh"
			case 501:
				b.Prefixes, b.Seen = []string{"/a"}, "fresh"
			case 503:
				b.Prefixes, b.Seen = []string{"/a/b"}, "fresh"
			}
			bs = append(bs, b)
		}
		nShared := 3
		if !quick {
			nShared = 506
		}
		for i := 0; i < nShared; i++ {
			b := c18Backend{ID: fmt.Sprintf("big-s%04d", i), EndUser: "allUsers", Prefixes: []string{fmt.Sprintf("/yy%d/", i)}, Seen: "never"}
			switch i {
			case 1:
				b.Prefixes, b.Seen = []string{"/"}, "4m"
			case nShared - 1:
				b.Prefixes, b.Seen = []string{"/b", "/a/"}, "fresh"
			}
			bs = append(bs, b)
		}
		order := make([]int, len(bs))
		for i := range order {
			order[i] = i
		}
		cfgs = append(cfgs, c18Config{I: 0, Backends: bs, Orders: [][]int{order}})
	}
	// one backend, exhaustive: end user x single prefix x liveness
	for _, eu := range c18EndUsers {
		for _, p := range c18PrefixesEsc {
			// registered and polled, registered again within seconds (directly or after a delete), polled again: live
			add([]c18Backend{{EndUser: eu, Prefixes: []string{p}, Seen: "fresh", Repolled: "overwrite"}}, 1)
			add([]c18Backend{{EndUser: eu, Prefixes: []string{p}, Seen: "fresh", Repolled: "delete"}}, 1)
			for _, s := range c18Seen {
				for _, a := range c18Active { // last poll x last posted response, exhaustive
					add([]c18Backend{{EndUser: eu, Prefixes: []string{p}, Seen: s, Active: a}}, 1)
				}
			}
			// the cron clean-up runs after registration and before the agent's first poll
			add([]c18Backend{{EndUser: eu, Prefixes: []string{p}, Seen: "fresh"}}, 1)
			cfgs[len(cfgs)-1].Cron = true
			// registered for another agent account since its (former) agent last polled; the former agent polls on
			if len(p) <= 3 {
				add([]c18Backend{{EndUser: eu, Prefixes: []string{p}, Seen: "never", Usurped: true}}, 1)
			}
			// registered, polled, answered, deleted, registered again: never polled in its present life
			add([]c18Backend{{EndUser: eu, Prefixes: []string{p}, Seen: "never", Active: "fresh", Rereg: true}}, 1)
		}
	}
	// two backends, single prefix each: exhaustive over end users x prefixes, liveness exhaustive in thorough
	seen2 := []string{"fresh", "6m"}
	if !quick {
		seen2 = c18Seen
	}
	for _, eu1 := range c18EndUsers {
		for _, p1 := range c18Prefixes {
			for _, eu2 := range c18EndUsers {
				for _, p2 := range c18Prefixes {
					for _, s1 := range seen2 {
						for _, s2 := range seen2 {
							if quick && rng.Intn(3) != 0 {
								continue
							}
							a1, a2 := "", ""
							if rng.Intn(3) == 0 {
								a1 = c18Active[rng.Intn(len(c18Active))]
							}
							if rng.Intn(3) == 0 {
								a2 = c18Active[rng.Intn(len(c18Active))]
							}
							add([]c18Backend{{EndUser: eu1, Prefixes: []string{p1}, Seen: s1, Active: a1}, {EndUser: eu2, Prefixes: []string{p2}, Seen: s2, Active: a2}}, 2)
						}
					}
				}
			}
		}
	}
	// random larger configurations: 2-4 backends, prefix lists of 1-3 (+duplicates)
	nRand := r.Pick(600, 8000)
	for k := 0; k < nRand; k++ {
		n := []int{2, 2, 3, 3, 3, 3, 4, 4}[rng.Intn(8)]
		if quick {
			n = 2 + rng.Intn(3)
		}
		bs := make([]c18Backend, n)
		for i := range bs {
			bs[i] = c18Backend{EndUser: c18EndUsers[rng.Intn(3)], Prefixes: c18RandPrefixes(rng), Seen: c18Seen[rng.Intn(5)]}
			if rng.Intn(3) == 0 {
				bs[i].Seen = "fresh" // keep enough live backends for ties among live ones
			}
			if rng.Intn(2) == 0 {
				bs[i].Active = c18Active[rng.Intn(len(c18Active))]
			}
			if rng.Intn(12) == 0 {
				bs[i].Seen, bs[i].Active, bs[i].Rereg = "never", "fresh", true
			} else if rng.Intn(12) == 0 {
				bs[i].Seen, bs[i].Repolled = "fresh", []string{"overwrite", "delete"}[rng.Intn(2)]
			}
		}
		add(bs, r.Pick(6, 24))
	}
	// the sample that also goes through the client HTTP handler
	nHTTP := r.Pick(12, 90)
	for _, i := range rng.Perm(len(cfgs))[:nHTTP] {
		cfgs[i].HTTP = true
	}
	// a third of the configurations, and all that go through the client handler, are registered the way an
	// administrator does it: POST /api/backends (the rest through the store interface)
	for i := range cfgs {
		cfgs[i].ViaAPI = rng.Intn(3) == 0
		if len(cfgs[i].Backends) <= 8 && rng.Intn(5) == 0 {
			cfgs[i].Cron = true
		}
	}
	defer func() {
		for i := range cfgs {
			if cfgs[i].HTTP || len(cfgs[i].Hist) > 0 {
				cfgs[i].ViaAPI = true
			}
		}
	}()
	// always through the client handler: one live shared backend whose prefix is spelled differently on the wire
	for i := range cfgs {
		if bs := cfgs[i].Backends; len(bs) == 1 && bs[0].EndUser == "allUsers" && (bs[0].Seen == "6m" || bs[0].Seen == "never") && bs[0].Active == "" && bs[0].Repolled == "" && !bs[0].Rereg && !bs[0].Usurped && !cfgs[i].Cron && bs[0].Prefixes[0] == "/" {
			cfgs[i].HTTP = true // a dead backend that matches everything: with failing reads it must still not be routed to
		}
		if bs := cfgs[i].Backends; len(bs) == 1 && bs[0].EndUser == "allUsers" && bs[0].Seen == "fresh" && bs[0].Active == "" && bs[0].Repolled == "" && !bs[0].Rereg {
			switch bs[0].Prefixes[0] {
			case "/données/", "/a b/", "/50%/", "/a/", "/a/b", "/", "":
				cfgs[i].HTTP = true
			}
		}
	}
	// three-step histories through the client handler: a cacheable GET is answered by the one admissible backend,
	// then that backend is deleted / its agent's last poll ages past the window / it is registered for another
	// end user, then the same user GETs the same URL again
	nHist := r.Pick(24, 300)
	muts := []string{"delete", "age", "reregister"}
	for _, i := range rng.Perm(len(cfgs)) {
		if nHist == 0 {
			break
		}
		cfg := &cfgs[i]
		ui, pi := rng.Intn(len(c18Users)), rng.Intn(len(c18Paths))
		if c18Paths[pi] == "" {
			continue
		}
		allowed, allow404, _ := c18Expect(cfg, c18Users[ui], c18Paths[pi])
		if allow404 || len(allowed) != 1 {
			continue
		}
		b := keysOf(allowed)[0]
		fresh := false
		for _, cb := range cfg.Backends {
			fresh = fresh || (cb.ID == b && cb.Seen == "fresh")
		}
		if !fresh {
			continue // the harness polls as the backend's agent during the history: only where that changes nothing
		}
		cfg.Hist = append(cfg.Hist, c18Hist{U: ui, P: pi, B: b, Mut: muts[nHist%3]})
		nHist--
	}
	return cfgs
}

// C18 — routing to the most specific live backend.
func C18(r *core.Run) {
	r.SetRule("bounded-exhaustive comparison of LookupBackend (real caching+persistent store over a fake datastore/memcache) with an independent longest-prefix specification: 1-4 backends, prefix lists (1-3, duplicates) over {/, /a, /a/, /a/b, /ab, /b, \"\", /données/, \"/a b/\", /50%/}, endUser in {u1 (a mixed-case address, upper-case domain), u2, allUsers}, a third of the configurations (and every one sent through the client handler) registered through POST /api/backends instead of the store interface, last poll in {fresh,4m,6m,1h,never} x last posted response in {none,fresh,4m,6m} (dated independently; posted through the real store), backends with an earlier life under the same ID (registered, polled, answered, deleted, registered again = never polled), backends registered again for another agent account while only the former agent keeps polling (through /agent/pending; must be turned away and must not keep the backend live), the cron clean-up (/cron/delete) run between the registrations and the first polls in a fifth of the configurations (nothing that recent may be removed), one configuration with 520 private backends of one user and 510 shared ones (most specific matches late in key order), backends registered, polled and registered again within seconds (directly or after a delete) before their present poll, users {u1,u2,u3} x 12 paths (including non-ASCII, space, percent and one that arrives with an encoded slash, %2F; the request path is the decoded one), every/many insertion orders, each lookup repeated; sample through the client HTTP handler (also paths that look like platform / API / agent endpoints - /_ah/warmup, /_ah, /_ahx, /apix/..., /agents/..., /cron/... - and every request repeated with the handler's 1st or 2nd datastore query, or its first / every datastore read (the liveness record), failing: an error answer is admissible then, a backend the specification does not select is not), including three-step histories (a cacheable GET answered by the one admissible backend; that backend deleted / its last poll aged past the window / registered for another end user; the same GET again); class = (#backends, candidate source user/shared/none, #candidates, longest match length, tie size, liveness of the longest class, more specific shared backend present)")
	r.Assume("ties and a non-live member of the longest-prefix class admit 404 or any live member; liveness margins are >= 60 s from the 5-minute boundary; 'never seen' is the state right after registration; a backend is live iff its agent listed pending requests within the window - a posted response never counts; a request answered without being queued for any backend (GET cache replay) is admissible only where some backend is admissible for that user and path; last-seen ages are produced by ageing the time-valued properties written when the backend's pending list is read")
	bin := r.MustBuild(e3Build(r))
	cfgs := c18Generate(r)
	spec := map[string]interface{}{"mode": "c18", "workers": 16, "users": c18Users, "paths": c18Paths, "wire_paths": c18WirePaths, "http_paths": c18HTTPPaths, "reps": 2, "configs": cfgs}
	res := e3Run(r, bin, "c18", spec, time.Duration(r.Pick(240, 1500))*time.Second)
	seenCfg := 0
	orders, lookups, httpCases, routed, histCases, hist404 := 0, 0, 0, 0, 0, 0
	for _, ln := range res.Lines {
		var rec struct {
			Cfg        int                      `json:"cfg"`
			SetupErr   string                   `json:"setup_err"`
			Res        [][]string               `json:"res"`
			Evals      int                      `json:"evals"`
			OrderDiffs []map[string]interface{} `json:"order_diffs"`
			RepDiffs   []map[string]interface{} `json:"rep_diffs"`
			Hist       []struct {
				U, P        int
				B, Mut      string
				SetupErr    string   `json:"setup_err"`
				ListedFirst bool     `json:"listed_first"`
				FirstStatus int      `json:"first_status"`
				FirstBodyOK bool     `json:"first_body_ok"`
				Status      int      `json:"status"`
				ListedIn    []string `json:"listed_in"`
				Hung        bool     `json:"hung"`
				ReplayedOld bool     `json:"replayed_first_answer"`
			} `json:"hist"`
			HTTP []struct {
				Fault    string `json:"fault"`
				Fired    int    `json:"fault_fired"`
				U, P     int
				Status   int
				ListedIn []string `json:"listed_in"`
				Hung     bool
				SetupErr string `json:"setup_err"`
			} `json:"http"`
		}
		if err := json.Unmarshal(ln, &rec); err != nil || rec.Cfg < 0 || rec.Cfg >= len(cfgs) {
			r.Broken("unreadable C18 result line: " + core.Trunc(string(ln), 200))
			continue
		}
		cfg := &cfgs[rec.Cfg]
		if rec.SetupErr != "" || rec.Res == nil {
			r.Broken(fmt.Sprintf("C18 configuration %d could not be set up: %s", rec.Cfg, rec.SetupErr))
			continue
		}
		seenCfg++
		orders += len(cfg.Orders)
		lookups += rec.Evals
		for ui, u := range c18Users {
			for pi, p := range c18Paths {
				got := rec.Res[ui][pi]
				allowed, allow404, class := c18Expect(cfg, u, p)
				r.Case(class)
				ok := (got == "!" && allow404) || allowed[got]
				if !ok {
					why := c18Why(cfg, u, p, got)
					r.Violate("C18:"+why, fmt.Sprintf("user %s path %q: LookupBackend answered %q; admissible: %v, 404 admissible: %v", u, p, got, keysOf(allowed), allow404),
						map[string]interface{}{"config": cfg, "user": u, "path": p}, map[string]interface{}{"got": got})
				}
				if rec.Cfg%997 == 1 && len(allowed) > 0 && ui == 0 && len(cfg.Backends) <= 8 {
					r.Sample(map[string]interface{}{"config": cfg.Backends, "user": u, "path": p, "answer": got, "admissible": keysOf(allowed), "404_admissible": allow404})
				}
			}
		}
		for _, d := range rec.OrderDiffs {
			r.Violate("C18:order-dependent", fmt.Sprintf("the answer changes with the order in which the same backends were registered: %v", d), map[string]interface{}{"config": cfg}, d)
		}
		for _, d := range rec.RepDiffs {
			r.Violate("C18:unstable-on-repetition", fmt.Sprintf("the same lookup answered differently when repeated: %v", d), map[string]interface{}{"config": cfg}, d)
		}
		for _, h := range rec.Hist {
			hs := c18Hist{U: h.U, P: h.P, B: h.B, Mut: h.Mut}
			u, p := c18Users[h.U], c18Paths[h.P]
			cs := map[string]interface{}{"config": cfg, "user": u, "path": p, "history": fmt.Sprintf("GET answered by %s (cacheable 200); then %s of %s; then the same GET again", h.B, h.Mut, h.B)}
			switch {
			case h.SetupErr != "":
				r.Broken(fmt.Sprintf("C18 history (config %d): %s", rec.Cfg, h.SetupErr))
				continue
			case h.FirstStatus != 200 || !h.FirstBodyOK:
				// the first step is an ordinary routed request; it is judged like the HTTP sample
				r.Violate("C18:http-history-first-request-not-served", fmt.Sprintf("user %s path %q: the only admissible backend %s is live and answered (listed: %v), the client got %d", u, p, h.B, h.ListedFirst, h.FirstStatus), cs, h)
				continue
			}
			after := c18After(cfg, hs)
			allowed, allow404, class := c18Expect(after, u, p)
			histCases++
			r.Case("http-history|" + h.Mut + "|" + class)
			if len(allowed) == 0 {
				hist404++
			}
			if histCases <= 2 {
				r.Sample(map[string]interface{}{"history": cs, "first_status": h.FirstStatus, "last_status": h.Status, "last_queued_for": h.ListedIn, "admissible_after": keysOf(allowed)})
			}
			switch {
			case h.Hung:
				r.Violate("C18:http-handler-hangs", "client handler did not return", cs, h)
			case len(h.ListedIn) == 0 && h.Status == 404:
				if !allow404 {
					r.Violate("C18:http-"+c18Why(after, u, p, "!"), fmt.Sprintf("user %s path %q after %s of %s: client got 404; admissible backends: %v", u, p, h.Mut, h.B, keysOf(allowed)), cs, h)
				}
			case len(h.ListedIn) == 0:
				// answered without being queued for any backend: only a replay of the GET cache can do that, and the
				// cache may only stand in for a backend the request could have been routed to
				if len(allowed) == 0 {
					sig := "C18:http-unrouted-not-404"
					if h.Status == 200 && h.ReplayedOld {
						sig = "C18:http-served-from-cache-without-live-backend:" + h.Mut
					}
					r.Violate(sig, fmt.Sprintf("user %s path %q: after %s of %s no live backend is registered for this user and path, yet the client got %d (replay of the earlier answer: %v) instead of 404", u, p, h.Mut, h.B, h.Status, h.ReplayedOld), cs, h)
				}
			default:
				for _, b := range h.ListedIn {
					if !allowed[b] {
						r.Violate("C18:http-"+c18Why(after, u, p, b), fmt.Sprintf("user %s path %q after %s of %s: request queued for %q; admissible: %v, 404 admissible: %v", u, p, h.Mut, h.B, b, keysOf(allowed), allow404), cs, h)
					}
				}
			}
		}
		for _, h := range rec.HTTP {
			if h.SetupErr != "" {
				r.Broken("C18 HTTP sample: " + h.SetupErr)
				continue
			}
			allPaths := append(append([]string{}, c18Paths...), c18HTTPPaths...)
			u, p := c18Users[h.U], allPaths[h.P]
			allowed, allow404, class := c18Expect(cfg, u, p)
			if h.P >= len(c18Paths) {
				class += "|platform-like-path"
			}
			faulted := h.Fault != "" && h.Fired > 0 // one datastore query of the handler failed: an error answer is admissible, a wrong backend is not
			if h.Fault != "" {
				class += "|fails:" + h.Fault
			}
			r.Case("http|" + class)
			httpCases++
			cs := map[string]interface{}{"config": cfg, "user": u, "path": p, "via": "client handler", "failing_call": h.Fault}
			switch {
			case h.Hung:
				r.Violate("C18:http-handler-hangs", "client handler did not return", cs, h)
			case len(h.ListedIn) == 0 && faulted:
				if h.Status/100 == 2 {
					r.Violate("C18:http-unrouted-not-404", fmt.Sprintf("user %s path %q (with %s failing): request was queued for no backend but the client got %d", u, p, h.Fault, h.Status), cs, h)
				}
			case len(h.ListedIn) == 0:
				if h.Status != 404 {
					r.Violate("C18:http-unrouted-not-404", fmt.Sprintf("user %s path %q: request was queued for no backend but the client got %d, not 404", u, p, h.Status), cs, h)
				} else if !allow404 {
					r.Violate("C18:http-"+c18Why(cfg, u, p, "!"), fmt.Sprintf("user %s path %q: client got 404; admissible backends: %v", u, p, keysOf(allowed)), cs, h)
				}
			default:
				routed++
				if len(h.ListedIn) > 1 {
					r.Violate("C18:http-queued-for-several-backends", fmt.Sprintf("user %s path %q: request queued for %v", u, p, h.ListedIn), cs, h)
				}
				if h.Status == 404 {
					r.Violate("C18:http-404-but-queued", fmt.Sprintf("user %s path %q: client got 404 although the request was queued for %v", u, p, h.ListedIn), cs, h)
				}
				for _, b := range h.ListedIn {
					if !allowed[b] {
						r.Violate("C18:http-"+c18Why(cfg, u, p, b), fmt.Sprintf("user %s path %q: request queued for %q; admissible: %v, 404 admissible: %v", u, p, b, keysOf(allowed), allow404), cs, h)
					}
				}
			}
		}
	}
	r.Set("http_histories", histCases)
	r.Set("http_histories_expecting_404", hist404)
	if seenCfg != len(cfgs) && res.SawEnd {
		r.Broken(fmt.Sprintf("C18: %d of %d configurations reported", seenCfg, len(cfgs)))
	}
	r.Set("configurations", seenCfg)
	r.Set("insertion_orders_built", orders)
	r.Set("lookups_executed", lookups)
	r.Set("http_handler_cases", httpCases)
	r.Set("http_handler_cases_routed", routed)
	e3Finish(r, res, r.Pick(20000, 300000))
}

func keysOf(m map[string]bool) []string {
	out := []string{}
	for k := range m {
		out = append(out, k)
	}
	sortStrings(out)
	return out
}

func sortStrings(s []string) {
	for i := 1; i < len(s); i++ {
		for j := i; j > 0 && s[j] < s[j-1]; j-- {
			s[j], s[j-1] = s[j-1], s[j]
		}
	}
}
