package props

import (
	"bufio"
	"bytes"
	"errors"
	"fmt"
	"io"
	"math/rand"
	"net"
	"net/http"
	"path/filepath"
	"strconv"
	"strings"
	"sync"
	"sync/atomic"
	"time"

	"golang.org/x/net/http2"
	"golang.org/x/net/http2/h2c"

	"verif/internal/core"
	"verif/internal/fakes"
	"verif/internal/rawhttp"
)

var errSkipped = errors.New("skipped after repeated failures")

var hopByHop = []string{"Connection", "Keep-Alive", "Proxy-Authenticate", "Proxy-Authorization", "TE", "Trailer", "Transfer-Encoding", "Upgrade"}

func isHop(name string) bool {
	for _, h := range hopByHop {
		if strings.EqualFold(h, name) {
			return true
		}
	}
	return false
}

// recorder is a raw backend that records requests by their X-Tok header and
// answers 200 "ok".
type recorder struct {
	Srv  *rawhttp.Server
	mu   sync.Mutex
	reqs map[string][]*rawhttp.Message
	errs map[string]string
}

func newRecorder() (*recorder, error) { return newRecorderOn("127.0.0.1:0") }

func newRecorderOn(addr string) (*recorder, error) {
	rc := &recorder{reqs: map[string][]*rawhttp.Message{}, errs: map[string]string{}}
	s, err := rawhttp.NewServerOn(addr, func(req *rawhttp.Message, reqErr error, conn net.Conn, br *bufio.Reader) bool {
		tok := ""
		if v := req.Get("X-Tok"); len(v) > 0 {
			tok = v[0]
		}
		rc.mu.Lock()
		rc.reqs[tok] = append(rc.reqs[tok], req)
		if reqErr != nil {
			rc.errs[tok] = reqErr.Error()
		}
		rc.mu.Unlock()
		if reqErr != nil {
			return false
		}
		var w rawhttp.Builder
		w.Line("HTTP/1.1 200 OK").Field("Content-Length", "2").Field("X-Tok", tok).End()
		if req.Method != "HEAD" {
			w.WriteString("ok")
		}
		_, err := conn.Write(w.Bytes())
		return err == nil
	})
	if err != nil {
		return nil, err
	}
	rc.Srv = s
	return rc, nil
}

func (rc *recorder) get(tok string) ([]*rawhttp.Message, string) {
	rc.mu.Lock()
	defer rc.mu.Unlock()
	return rc.reqs[tok], rc.errs[tok]
}

// genReq is a generated client request.
type genReq struct {
	Tok     string
	Method  string
	Target  string
	Host    string
	Fields  []rawhttp.Field // as sent (excluding Host and framing)
	Hop     []rawhttp.Field // planted hop-by-hop fields (unique tokens)
	BodyLen int
	Chunked bool
	Chunks  []int
	// request trailers (chunked bodies only): part of the input, their delivery is not judged
	Trailers []rawhttp.Field
	Class    string
	body     []byte
	// HopNamesStrict: the backend must not receive ANY field under a hop-by-hop name the client used
	// (HTTP/1.1 path only: an HTTP/2 transport adds its own "te: trailers").
	HopNamesStrict bool
}

const pathChars = "abcXYZ019-._~!$&'()*+,;=:@"

func genSegment(rng *rand.Rand) string {
	switch rng.Intn(12) {
	case 0:
		return ""
	case 1:
		return "."
	case 2:
		return ".."
	case 3:
		return "%2F" + string(pathChars[rng.Intn(len(pathChars))])
	case 4:
		return "a%20b%25c"
	case 5:
		return "%7Euser%41"
	case 6:
		return "%e4%bd%a0"
	}
	n := 1 + rng.Intn(8)
	b := make([]byte, n)
	for i := range b {
		b[i] = pathChars[rng.Intn(len(pathChars))]
	}
	return string(b)
}

func genTarget(rng *rand.Rand) (string, string) {
	nseg := 1 + rng.Intn(5)
	var sb strings.Builder
	pclass := "plain"
	for i := 0; i < nseg; i++ {
		sb.WriteByte('/')
		seg := genSegment(rng)
		switch {
		case seg == "":
			pclass = "empty-seg"
		case seg == "." || seg == "..":
			pclass = "dot-seg"
		case strings.Contains(seg, "%"):
			if pclass == "plain" {
				pclass = "escaped"
			}
		}
		sb.WriteString(seg)
	}
	if rng.Intn(5) == 0 {
		sb.WriteByte('/')
	}
	qclass := "noq"
	switch rng.Intn(7) {
	case 0:
		sb.WriteString("?")
		qclass = "emptyq"
	case 1:
		sb.WriteString("?a=1&b=2&a=3")
		qclass = "multi"
	case 2:
		sb.WriteString("?q=a+b%20c%26d&e=&f")
		qclass = "escq"
	case 3:
		sb.WriteString("?x=%E4%BD%A0&y=/path/?z")
		qclass = "utf8q"
	case 4:
		sb.WriteString(fmt.Sprintf("?n=%d&=v&&k==", rng.Intn(1000)))
		qclass = "oddq"
	}
	return sb.String(), pclass + "/" + qclass
}

var c02Methods = []string{"GET", "GET", "HEAD", "POST", "POST", "PUT", "PATCH", "DELETE", "OPTIONS", "PROPFIND", "REPORT", "FOO-BAR_1"}

func randValue(rng *rand.Rand) string {
	switch rng.Intn(8) {
	case 0:
		return ""
	case 1:
		return "a  b\tc"
	case 2:
		return "caf\xe9-\x80\xff"
	case 3:
		return `"quoted, value"; q=0.5`
	case 4:
		return strings.Repeat("v", 1+rng.Intn(3000))
	}
	const cs = "abcdefghijklmnopqrstuvwxyzABCDEFGHIJKLMNOPQRSTUVWXYZ0123456789 ,;=/:-_.()<>@[]{}?!*'#$%&+^`|~"
	n := 1 + rng.Intn(30)
	b := make([]byte, n)
	for i := range b {
		b[i] = cs[rng.Intn(len(cs))]
	}
	return strings.Trim(string(b), " ")
}

func mixCase(rng *rand.Rand, s string) string {
	b := []byte(s)
	for i := range b {
		if rng.Intn(2) == 0 {
			if b[i] >= 'a' && b[i] <= 'z' {
				b[i] -= 32
			} else if b[i] >= 'A' && b[i] <= 'Z' {
				b[i] += 32
			}
		}
	}
	return string(b)
}

var c02Names = []string{"Proxy-Status", "Upgrade-Insecure-Requests", "Connection-Id", "Keep-Alive-Hint", "Trailer-Info", "Te-Extension", "Proxy-Features", "X-Api-Key", "X-Goog-Iap-Jwt-Assertion",
	"Accept", "Accept-Language", "Cookie", "X-Forwarded-For", "Via", "X-Custom", "Authorization", "Cache-Control", "If-None-Match", "Referer", "Origin", "X-A_b.c~1", "Content-Type", "Range", "Forwarded", "X-Request-Id", "Pragma",
	// what a front end in front of the proxy (or a client pretending to be one) sends along
	"X-Forwarded-Host", "X-Forwarded-Proto", "X-Forwarded-Port", "X-Real-Ip", "X-Original-Url", "X-Http-Method-Override", "X-Forwarded-Server"}

var c02BodySizes = []int{0, 1, 2, 4095, 4096, 4097, 32767, 32768, 32769, 65535, 65536, 65537}

func genRequest(rng *rand.Rand, tok string, big bool) *genReq {
	g := &genReq{Tok: tok, Method: c02Methods[rng.Intn(len(c02Methods))]}
	var tclass string
	g.Target, tclass = genTarget(rng)
	switch rng.Intn(5) {
	case 0:
		g.Host = "Example.COM:8443"
	case 1:
		g.Host = "[2001:db8::1]:80"
	case 2:
		g.Host = "sub.host-" + tok + ".example"
	default:
		g.Host = "h" + tok + ".example.org"
	}
	// header fields
	nf := rng.Intn(13)
	used := map[string]bool{}
	shape := ""
	for i := 0; i < nf; i++ {
		name := c02Names[rng.Intn(len(c02Names))]
		if used[strings.ToLower(name)] {
			continue
		}
		used[strings.ToLower(name)] = true
		reps := 1
		if rng.Intn(3) == 0 {
			reps = 2 + rng.Intn(3)
			shape += "R"
		} else {
			shape += "s"
		}
		wire := name
		if rng.Intn(2) == 0 {
			wire = mixCase(rng, name)
		}
		for k := 0; k < reps; k++ {
			v := randValue(rng)
			if strings.EqualFold(name, "Range") {
				v = "bytes=0-" + strconv.Itoa(rng.Intn(100))
			}
			switch strings.ToLower(name) {
			case "x-forwarded-host", "x-forwarded-server":
				v = []string{"internal.example.net", "other-" + tok + ".example:8443", "[2001:db8::2]:81"}[rng.Intn(3)]
			case "x-forwarded-proto":
				v = []string{"https", "http", "wss"}[rng.Intn(3)]
			case "x-original-url":
				v = "/rewritten/" + tok + "?x=1"
			case "x-http-method-override":
				v = []string{"DELETE", "PUT", "PATCH"}[rng.Intn(3)]
			}
			if strings.EqualFold(name, "Accept") && rng.Intn(2) == 0 {
				v = []string{"text/html", "text/html,application/xhtml+xml,application/xml;q=0.9,*/*;q=0.8", "application/json, text/html;q=0.1"}[rng.Intn(3)]
			}
			g.Fields = append(g.Fields, rawhttp.Field{Name: wire, Value: v})
		}
	}
	if rng.Intn(3) > 0 {
		g.Fields = append(g.Fields, rawhttp.Field{Name: "User-Agent", Value: "verif-client/" + tok})
	}
	// now and then a header block far beyond the usual few hundred bytes (below net/http's 1 MiB server default)
	if rng.Intn(40) == 0 {
		n := []int{17, 60, 1}[rng.Intn(3)]
		for k := 0; k < n; k++ {
			sz := 1000
			if n == 1 {
				sz = 30000
			}
			g.Fields = append(g.Fields, rawhttp.Field{Name: "X-Big-" + tok, Value: fmt.Sprintf("big%d-%s", k, strings.Repeat("abcdefghij", sz/10))})
		}
		shape += "B"
	}
	// interleave one more value of an already used repeated field at the end (order across the message)
	if len(g.Fields) > 2 && rng.Intn(4) == 0 {
		f := g.Fields[0]
		if !strings.EqualFold(f.Name, "User-Agent") {
			g.Fields = append(g.Fields, rawhttp.Field{Name: f.Name, Value: "late-" + tok})
		}
	}
	// body
	hasBody := g.Method != "GET" && g.Method != "HEAD" && g.Method != "OPTIONS" && g.Method != "DELETE" || rng.Intn(6) == 0
	if g.Method == "HEAD" {
		hasBody = false
	}
	if hasBody {
		g.BodyLen = c02BodySizes[rng.Intn(len(c02BodySizes))]
		if rng.Intn(4) == 0 {
			g.BodyLen = rng.Intn(200000)
		}
		if big {
			g.BodyLen = []int{1 << 20, 1<<20 + 1, 3<<20 + 17, 8 << 20}[rng.Intn(4)]
		}
		g.body = tokBytes(tok, "c02body", g.BodyLen)
		if !used["content-type"] && rng.Intn(5) == 0 {
			// form submissions: a body an intermediary could be tempted to parse (and thereby consume)
			used["content-type"] = true
			k := rng.Intn(3)
			ct := []string{"application/x-www-form-urlencoded", "multipart/form-data; boundary=bnd" + tok, "application/x-www-form-urlencoded; charset=UTF-8"}[k]
			if g.BodyLen > 0 && g.BodyLen < 100000 {
				var form string
				if k == 1 {
					form = "--bnd" + tok + "\r\nContent-Disposition: form-data; name=\"backend\"\r\n\r\nv-" + tok + "\r\n--bnd" + tok + "--\r\n"
				} else {
					form = "backend=v-" + tok + "&a=1&b=%2F%3F&a=2"
				}
				for len(form) < g.BodyLen && k != 1 {
					form += "&pad=" + tok
				}
				g.body = []byte(form)
				g.BodyLen = len(g.body)
			}
			g.Fields = append(g.Fields, rawhttp.Field{Name: "Content-Type", Value: ct})
			shape += "F"
		}
		g.Chunked = rng.Intn(2) == 0
		if g.Chunked {
			rest := g.BodyLen
			for rest > 0 {
				n := 1 + rng.Intn(70000)
				if rng.Intn(5) == 0 {
					n = 1
				}
				if n > rest {
					n = rest
				}
				g.Chunks = append(g.Chunks, n)
				rest -= n
			}
			if rng.Intn(6) == 0 {
				g.Trailers = []rawhttp.Field{{Name: "X-Req-Trailer", Value: "t-" + tok}}
				if rng.Intn(2) == 0 {
					g.Trailers = append(g.Trailers, rawhttp.Field{Name: "X-Req-Checksum", Value: strconv.Itoa(g.BodyLen)})
				}
			}
		}
	}
	// planted hop-by-hop fields
	hopShape := 0
	for i, h := range hopByHop {
		if rng.Intn(3) != 0 {
			continue
		}
		switch h {
		case "Transfer-Encoding":
			continue // functional: used for framing only
		case "Trailer":
			if g.Chunked {
				continue // a declared-but-empty trailer section is re-announced by the framing layer; request trailers are outside the generator
			}
		case "Upgrade":
			continue // would turn the request into a protocol switch
		}
		hopShape |= 1 << i
		val := "hop" + strconv.Itoa(i) + "-" + tok
		if h == "TE" {
			val = []string{"trailers", "trailers, hop4-" + tok, "gzip;q=0.5, trailers, hop4-" + tok, "hop4-" + tok}[rng.Intn(4)]
		}
		if h == "Trailer" {
			val = "X-Hop" + strconv.Itoa(i) + "-" + tok
		}
		if h == "Connection" {
			// option lists are also written without optional whitespace, or with more of it
			val = []string{val, "keep-alive," + val, "x-unrelated-option ,\t" + val + ",x-another-one", val + " , keep-alive"}[rng.Intn(4)]
		}
		g.Hop = append(g.Hop, rawhttp.Field{Name: h, Value: val})
		if h == "Connection" && rng.Intn(2) == 0 {
			// the field the client nominates as hop-by-hop is really sent (under a differently-cased name)
			g.Hop = append(g.Hop, rawhttp.Field{Name: "HOP0-" + strings.ToUpper(tok), Value: "nominated-hop0-" + tok})
			hopShape |= 1 << 8
		}
	}
	fr := "none"
	if hasBody {
		fr = "cl"
		if g.Chunked {
			fr = "chunked"
		}
	}
	g.Class = fmt.Sprintf("%s|%s|hdr:%d%s|body:%s|%s|hop:%x", methodClass(g.Method), tclass, len(shape), boolStr(strings.Contains(shape, "R"), "+rep", "")+boolStr(strings.Contains(shape, "B"), "+big", "")+boolStr(strings.Contains(shape, "F"), "+form", ""), sizeClass(g.BodyLen), fr+boolStr(len(g.Trailers) > 0, "+trailers", ""), hopShape)
	return g
}

func boolStr(b bool, t, f string) string {
	if b {
		return t
	}
	return f
}

func methodClass(m string) string {
	switch m {
	case "GET", "HEAD", "POST", "PUT", "PATCH", "DELETE", "OPTIONS":
		return m
	}
	return "ext"
}

func (g *genReq) wire() []byte {
	var w rawhttp.Builder
	w.Line(g.Method + " " + g.Target + " HTTP/1.1")
	w.Field("Host", g.Host)
	w.Field("X-Tok", g.Tok)
	w.Field("Accept-Encoding", "identity")
	// hop fields are spread before and after the end-to-end ones
	for i, h := range g.Hop {
		if i%2 == 0 {
			w.Field(h.Name, h.Value)
		}
	}
	w.Fields(g.Fields)
	for i, h := range g.Hop {
		if i%2 == 1 {
			w.Field(h.Name, h.Value)
		}
	}
	if g.body != nil || g.BodyLen > 0 {
		if g.Chunked {
			if len(g.Trailers) > 0 {
				var names []string
				for _, t := range g.Trailers {
					names = append(names, t.Name)
				}
				w.Field("Trailer", strings.Join(names, ", "))
			}
			w.Field("Transfer-Encoding", "chunked").End()
			off := 0
			for _, n := range g.Chunks {
				w.Chunk(g.body[off : off+n])
				off += n
			}
			w.LastChunk(g.Trailers)
			return w.Bytes()
		}
		w.Field("Content-Length", strconv.Itoa(g.BodyLen))
	} else if g.Method == "POST" || g.Method == "PUT" || g.Method == "PATCH" {
		w.Field("Content-Length", "0")
	}
	w.End()
	w.Write(g.body)
	return w.Bytes()
}

// compareRequest is the request fidelity oracle.
func compareRequest(g *genReq, got *rawhttp.Message) []string {
	var bad []string
	if got.Method != g.Method {
		bad = append(bad, fmt.Sprintf("method %q want %q", got.Method, g.Method))
	}
	if got.Target != g.Target {
		bad = append(bad, fmt.Sprintf("target %q want %q", got.Target, g.Target))
	}
	if h := got.Get("Host"); len(h) != 1 || h[0] != g.Host {
		bad = append(bad, fmt.Sprintf("Host %q want %q", h, g.Host))
	}
	// every end-to-end field the client used: same value list in order
	names := []string{}
	seen := map[string]bool{}
	sent := append([]rawhttp.Field{{Name: "X-Tok", Value: g.Tok}, {Name: "Accept-Encoding", Value: "identity"}}, g.Fields...)
	for _, f := range sent {
		k := strings.ToLower(f.Name)
		if !seen[k] {
			seen[k] = true
			names = append(names, f.Name)
		}
	}
	for _, n := range names {
		var want []string
		for _, f := range sent {
			if strings.EqualFold(f.Name, n) {
				want = append(want, strings.Trim(f.Value, " \t"))
			}
		}
		gotv := got.Get(n)
		if strings.Join(gotv, "\x00") != strings.Join(want, "\x00") || len(gotv) != len(want) {
			bad = append(bad, fmt.Sprintf("field %q: got %q want %q", n, trunc(gotv), trunc(want)))
		}
	}
	if g.HopNamesStrict {
		for _, h := range g.Hop {
			if strings.EqualFold(h.Name, "Trailer") || strings.EqualFold(h.Name, "Connection") {
				continue // re-framing may announce its own; judged by token below
			}
			if v := got.Get(h.Name); len(v) > 0 {
				bad = append(bad, fmt.Sprintf("hop-by-hop field %s (client sent %q) reached the backend as %q", h.Name, h.Value, v))
			}
		}
	}
	// planted hop-by-hop tokens must be absent everywhere
	for _, h := range g.Hop {
		for _, f := range got.Fields {
			if h.Value == "trailers" {
				continue // not a unique token; covered by the name rule
			}
			tokv := h.Value
			if i := strings.LastIndex(tokv, "hop4-"); i >= 0 {
				tokv = tokv[i:]
			}
			if strings.Contains(f.Value, tokv) || strings.EqualFold(f.Name, tokv) {
				bad = append(bad, fmt.Sprintf("hop-by-hop field %s: %s reached the backend as %s: %s", h.Name, h.Value, f.Name, f.Value))
			}
		}
	}
	if len(got.Body) != g.BodyLen || rawhttp.SHA(got.Body) != rawhttp.SHA(g.body) {
		off := 0
		for off < len(got.Body) && off < len(g.body) && got.Body[off] == g.body[off] {
			off++
		}
		bad = append(bad, fmt.Sprintf("body len %d want %d, first difference at offset %d", len(got.Body), g.BodyLen, off))
	}
	return bad
}

func trunc(vs []string) []string {
	out := make([]string, len(vs))
	for i, v := range vs {
		out[i] = core.Trunc(v, 80)
	}
	return out
}

// C02 — the backend receives the client's request unaltered.
func C02(r *core.Run) {
	r.SetRule("grammar-generated requests (method, origin-form target with escapes/dot/empty segments and queries, Host variants, 0-12 header fields with repeats/mixed case/odd values, planted hop-by-hop fields with unique tokens, bodies at buffer boundaries framed by CL or random chunks) sent by raw-TCP clients through real server+agent to a raw-TCP recording backend; class = (method, path class, query class, header shape, body-size class, framing, hop-field set)")
	r.Assume("well-formed requests only: no CONNECT/asterisk/absolute-form targets, ';' in queries or malformed escapes (DESIGN.md §3 C02); request trailers are sent (1 chunked request in 6) but their own delivery is not judged")
	serverBin := r.MustBuild(r.BuildRepoBinary("./server", "server"))
	agentBin := r.MustBuild(r.BuildRepoBinary("./agent", "agent"))
	md, err := fakes.NewMetadata()
	if err != nil {
		r.Broken(err.Error())
		r.Finish(1)
	}
	defer md.Close()
	rec, err := newRecorder()
	if err != nil {
		r.Broken(err.Error())
		r.Finish(1)
	}
	defer rec.Srv.Close()
	server, addr, err := startServer(r, serverBin, "server")
	if err != nil {
		r.Broken(err.Error())
		r.Finish(1)
	}
	defer server.Kill()
	agent, err := startAgent(r, agentBin, "agent", md, "http://"+addr+"/", rec.Srv.Addr(), "b1")
	if err != nil {
		r.Broken(err.Error())
		r.Finish(1)
	}
	defer agent.Kill()
	if err := waitReady(addr, agent, server); err != nil {
		r.Broken(err.Error())
		r.Finish(1)
	}

	slowDone := make(chan struct{})
	go func() {
		defer close(slowDone)
		c02SlowBodies(r, addr, rec)
	}()
	c02ExpectContinue(r, addr, rec)

	total := r.Pick(800, 24000)
	nbig := r.Pick(6, 160)
	workers := 8
	rng := r.Rand("c02")
	gens := make([]*genReq, 0, total+nbig)
	for i := 0; i < total+nbig; i++ {
		g := genRequest(rng, fmt.Sprintf("s%dn%d", r.Seed, i), i >= total)
		g.HopNamesStrict = true
		gens = append(gens, g)
	}
	var wg sync.WaitGroup
	ch := make(chan *genReq)
	type res struct {
		g   *genReq
		err error
		st  int
	}
	results := make(chan res, len(gens))
	var failures int64
	for wkr := 0; wkr < workers; wkr++ {
		wg.Add(1)
		go func() {
			defer wg.Done()
			cl := rawhttp.NewClient(addr, 30*time.Second)
			defer cl.Close()
			for g := range ch {
				if atomic.LoadInt64(&failures) >= 24 {
					results <- res{g, errSkipped, 0}
					continue // the tree is refuted already; do not sit out a time-out per remaining request
				}
				m, err := cl.Do(g.wire(), g.Method)
				if err != nil {
					atomic.AddInt64(&failures, 1)
				}
				st := 0
				if m != nil {
					st = m.Status
				}
				results <- res{g, err, st}
			}
		}()
	}
	for _, g := range gens {
		ch <- g
	}
	close(ch)
	wg.Wait()
	close(results)
	for rs := range results {
		g := rs.g
		if rs.err == errSkipped {
			continue
		}
		r.Case(g.Class)
		if rs.err != nil || rs.st != 200 {
			// the request did not make it through: that is itself a refutation for a well-formed request
			got, _ := rec.get(g.Tok)
			if len(got) == 0 {
				r.Violate("C02:request-not-delivered", fmt.Sprintf("well-formed request %s %s was not delivered to the backend (client saw status %d, err %v)", g.Method, g.Target, rs.st, rs.err), g, nil)
				continue
			}
		}
		got, perr := rec.get(g.Tok)
		if len(got) != 1 {
			r.Violate("C02:delivery-count", fmt.Sprintf("backend saw request %s %d times", g.Tok, len(got)), g, nil)
			if len(got) == 0 {
				continue
			}
		}
		if perr != "" {
			r.Violate("C02:backend-parse-error", fmt.Sprintf("backend could not parse forwarded request %s: %s", g.Tok, perr), g, nil)
			continue
		}
		if bad := compareRequest(g, got[0]); len(bad) > 0 {
			sig := "C02:" + diffKind(bad[0])
			r.Violate(sig, fmt.Sprintf("%s %s: %s", g.Method, g.Target, strings.Join(bad, "; ")), g, map[string]interface{}{"received_start": got[0].StartLine, "received_fields": got[0].Fields})
		}
		r.Sample(map[string]interface{}{"sent": g, "received_start_line": got[0].StartLine, "received_fields": len(got[0].Fields)})
	}
	c02H2(r, md, serverBin, agentBin)
	c02Full(r, md, serverBin, agentBin)
	c02BackendComesUpLate(r, md, agentBin)
	c02FetchCut(r, md, serverBin, agentBin)
	<-slowDone
	judgeProcs(r, true, server, agent)
	killAll(agent, server)
	// Races are listed but only attributed ones decide (anchors: server.go, utils.go, agent.go)
	r.JudgeRaces(core.ParseRaceLogs(filepath.Join(r.WorkDir, "race-")))
	r.Finish(r.Pick(300, 5000))
}

func diffKind(s string) string {
	if i := strings.IndexAny(s, " :"); i > 0 {
		k := s[:i]
		if k == "field" {
			// include the field name class
			return "field-altered"
		}
		return k + "-altered"
	}
	return "altered"
}

// waitReady probes the topology until a request is served.
func waitReady(addr string, procs ...*core.Proc) error {
	deadline := time.Now().Add(30 * time.Second)
	for {
		c := rawhttp.NewClient(addr, 3*time.Second)
		var w rawhttp.Builder
		w.Line("GET /__probe HTTP/1.1").Field("Host", "probe").Field("X-Tok", "probe").End()
		m, err := c.Do(w.Bytes(), "GET")
		c.Close()
		if err == nil && m.Status == 200 {
			return nil
		}
		for _, p := range procs {
			if !p.Alive() {
				return fmt.Errorf("%s died during start-up: %s", p.Name, core.Trunc(p.Log(), 1500))
			}
		}
		if time.Now().After(deadline) {
			return fmt.Errorf("topology not ready after 30s (last: %v)", err)
		}
		time.Sleep(100 * time.Millisecond)
	}
}

// c02H2 is the HTTP/2 flavour: the agent runs with --force-http2 against an
// h2c recording backend; the same generator and oracle apply, minus what
// HTTP/2 framing itself legitimately changes (Cookie crumbling).
func c02H2(r *core.Run, md *fakes.Metadata, serverBin, agentBin string) {
	var mu sync.Mutex
	got := map[string][]*rawhttp.Message{}
	l, err := net.Listen("tcp", "127.0.0.1:0")
	if err != nil {
		r.Broken(err.Error())
		return
	}
	defer l.Close()
	handler := http.HandlerFunc(func(w http.ResponseWriter, req *http.Request) {
		body, _ := io.ReadAll(req.Body)
		m := &rawhttp.Message{Method: req.Method, Target: req.RequestURI, Body: body}
		m.Fields = append(m.Fields, rawhttp.Field{Name: "Host", Value: req.Host})
		for k, vs := range req.Header {
			for _, v := range vs {
				m.Fields = append(m.Fields, rawhttp.Field{Name: k, Value: v})
			}
		}
		mu.Lock()
		got[req.Header.Get("X-Tok")] = append(got[req.Header.Get("X-Tok")], m)
		mu.Unlock()
		w.Write([]byte("ok"))
	})
	srv := &http.Server{Handler: h2c.NewHandler(handler, &http2.Server{MaxReadFrameSize: 1 << 20})}
	go srv.Serve(l)
	defer srv.Close()
	server, addr, err := startServer(r, serverBin, "server-h2")
	if err != nil {
		r.Broken(err.Error())
		return
	}
	defer server.Kill()
	agent, err := startAgent(r, agentBin, "agent-h2", md, "http://"+addr+"/", l.Addr().String(), "b2h2", "--force-http2=true", "--debug=true")
	if err != nil {
		r.Broken(err.Error())
		return
	}
	defer agent.Kill()
	if err := waitReady(addr, agent, server); err != nil {
		r.Broken("h2 flavour: " + err.Error())
		return
	}
	rng := r.Rand("c02h2")
	n := r.Pick(150, 3000)
	var gens []*genReq
	for i := 0; i < n; i++ {
		g := genRequest(rng, fmt.Sprintf("s%dh2n%d", r.Seed, i), false)
		var keep []rawhttp.Field
		for _, f := range g.Fields {
			if !strings.EqualFold(f.Name, "Cookie") { // HTTP/2 may split and re-join cookie pairs
				keep = append(keep, f)
			}
		}
		g.Fields = keep
		g.Class = "h2|" + g.Class
		gens = append(gens, g)
	}
	ch := make(chan *genReq)
	var wg sync.WaitGroup
	var failures int64
	for wkr := 0; wkr < 6; wkr++ {
		wg.Add(1)
		go func() {
			defer wg.Done()
			cl := rawhttp.NewClient(addr, 30*time.Second)
			defer cl.Close()
			for g := range ch {
				if atomic.LoadInt64(&failures) >= 24 {
					continue
				}
				if _, err := cl.Do(g.wire(), g.Method); err != nil {
					atomic.AddInt64(&failures, 1)
				}
			}
		}()
	}
	for _, g := range gens {
		ch <- g
	}
	close(ch)
	wg.Wait()
	for _, g := range gens {
		if atomic.LoadInt64(&failures) >= 24 {
			r.Violate("C02:h2:request-not-delivered", "well-formed requests repeatedly got no response through the --force-http2 agent", g, nil)
			break
		}
		r.Case(g.Class)
		mu.Lock()
		ms := got[g.Tok]
		mu.Unlock()
		if len(ms) != 1 {
			r.Violate("C02:h2:delivery-count", fmt.Sprintf("h2c backend saw request %s %d times (%s %s)", g.Tok, len(ms), g.Method, g.Target), g, nil)
			continue
		}
		if bad := compareRequest(g, ms[0]); len(bad) > 0 {
			r.Violate("C02:h2:"+diffKind(bad[0]), fmt.Sprintf("h2c backend: %s %s: %s", g.Method, g.Target, strings.Join(bad, "; ")), g, map[string]interface{}{"received_fields": ms[0].Fields, "received_target": ms[0].Target})
		}
	}
	r.Add("h2_backend_requests", len(gens))
	judgeProcs(r, true, server, agent)
}

// c02Full is the "all request-side features on" flavour: the agent runs with
// the banner, the websocket shim and session tracking enabled; the same
// generator and oracle apply (Cookie excluded: session tracking rewrites it
// by design).
func c02Full(r *core.Run, md *fakes.Metadata, serverBin, agentBin string) {
	rec, err := newRecorder()
	if err != nil {
		r.Broken(err.Error())
		return
	}
	defer rec.Srv.Close()
	server, addr, err := startServer(r, serverBin, "server-full")
	if err != nil {
		r.Broken(err.Error())
		return
	}
	defer server.Kill()
	agent, err := startAgent(r, agentBin, "agent-full", md, "http://"+addr+"/", rec.Srv.Addr(), "b2full",
		"--inject-banner=<b>banner</b>", "--shim-path=shim", "--shim-websockets=true", "--session-cookie-name=SIDC02", "--disable-ssl-for-test=true", "--debug=true")
	if err != nil {
		r.Broken(err.Error())
		return
	}
	defer agent.Kill()
	if err := waitReady(addr, agent, server); err != nil {
		r.Broken("full flavour: " + err.Error())
		return
	}
	rng := r.Rand("c02full")
	n := r.Pick(150, 3000)
	var gens []*genReq
	for i := 0; i < n; i++ {
		g := genRequest(rng, fmt.Sprintf("s%dfulln%d", r.Seed, i), false)
		var keep []rawhttp.Field
		for _, f := range g.Fields {
			if !strings.EqualFold(f.Name, "Cookie") {
				keep = append(keep, f)
			}
		}
		g.Fields = keep
		if i%3 == 0 && g.Method == "GET" {
			// a page navigation: GET with an Accept that includes text/html
			g.Fields = append([]rawhttp.Field{{Name: "Accept", Value: "text/html,application/xhtml+xml;q=0.9,*/*;q=0.8"}}, dropField(g.Fields, "Accept")...)
		}
		g.HopNamesStrict = true
		g.Class = "full|" + g.Class
		gens = append(gens, g)
	}
	ch := make(chan *genReq)
	var wg sync.WaitGroup
	var failures int64
	var stmu sync.Mutex
	status := map[string]int{}
	location := map[string]string{}
	for wkr := 0; wkr < 6; wkr++ {
		wg.Add(1)
		go func() {
			defer wg.Done()
			cl := rawhttp.NewClient(addr, 30*time.Second)
			defer cl.Close()
			for g := range ch {
				if atomic.LoadInt64(&failures) >= 24 {
					continue
				}
				m, err := cl.Do(g.wire(), g.Method)
				if err != nil {
					atomic.AddInt64(&failures, 1)
				} else {
					stmu.Lock()
					status[g.Tok] = m.Status
					if v := m.Get("Location"); len(v) > 0 {
						location[g.Tok] = v[0]
					}
					stmu.Unlock()
				}
			}
		}()
	}
	for _, g := range gens {
		ch <- g
	}
	close(ch)
	wg.Wait()
	for _, g := range gens {
		if atomic.LoadInt64(&failures) >= 24 {
			r.Violate("C02:full:request-not-delivered", "well-formed requests repeatedly got no response through the agent with banner, shim and sessions enabled", g, nil)
			break
		}
		r.Case(g.Class)
		got, perr := rec.get(g.Tok)
		if len(got) == 0 && (status[g.Tok] == 301 || status[g.Tok] == 308) {
			// answered by the agent itself with a redirect to the "cleaned" path: the handler chain of this
			// configuration is mounted on http.ServeMux, which does that for paths containing //, /./ or /../
			pth := g.Target
			if i := strings.IndexByte(pth, '?'); i >= 0 {
				pth = pth[:i]
			}
			r.Add("full_config_requests_redirected_by_servemux", 1)
			r.Violate("C02:full:non-clean-path-redirected", fmt.Sprintf("agent with banner/shim enabled: %s %s was not delivered to the backend; the agent answered %d Location: %s", g.Method, g.Target, status[g.Tok], location[g.Tok]), g, nil)
			continue
		}
		if len(got) != 1 || perr != "" {
			r.Violate("C02:full:delivery-count", fmt.Sprintf("backend saw request %s %d times (%s %s) %s", g.Tok, len(got), g.Method, g.Target, perr), g, nil)
			continue
		}
		if bad := compareRequest(g, got[0]); len(bad) > 0 {
			r.Violate("C02:full:"+diffKind(bad[0]), fmt.Sprintf("agent with banner+shim+sessions: %s %s: %s", g.Method, g.Target, strings.Join(bad, "; ")), g, map[string]interface{}{"received_start": got[0].StartLine, "received_fields": got[0].Fields})
		}
	}
	r.Add("full_config_requests", len(gens))
	judgeProcs(r, true, server, agent)
}

func dropField(fs []rawhttp.Field, name string) []rawhttp.Field {
	var out []rawhttp.Field
	for _, f := range fs {
		if !strings.EqualFold(f.Name, name) {
			out = append(out, f)
		}
	}
	return out
}

// c02SlowBodies sends a few requests whose bodies arrive slowly (a pause of
// more than 10 s - thorough: also more than 30 s - in the middle of the body,
// well inside the agent's 60 s fetch time-out): the backend must still receive
// the complete body.  The pause is the input; nothing is decided by timing.
func c02SlowBodies(r *core.Run, addr string, rec *recorder) {
	pauses := []time.Duration{10500 * time.Millisecond}
	if !r.Quick() {
		pauses = append(pauses, 31*time.Second)
	}
	rng := r.Rand("c02-slow")
	var wg sync.WaitGroup
	for pi, pause := range pauses {
		for k := 0; k < 2; k++ {
			g := &genReq{Tok: fmt.Sprintf("s%dslow%d-%d", r.Seed, pi, k), Method: []string{"POST", "PUT"}[k], Host: "slow.example", Chunked: k == 1}
			g.Target = "/slow/" + g.Tok
			g.BodyLen = 3000 + rng.Intn(70000)
			g.body = make([]byte, g.BodyLen)
			rng.Read(g.body)
			cut := 1 + rng.Intn(g.BodyLen-1)
			g.Chunks = []int{cut, g.BodyLen - cut}
			g.Class = fmt.Sprintf("%s|slow-body|pause=%ds|chunked=%v", g.Method, int(pause.Seconds()), g.Chunked)
			wire := g.wire()
			// position in the wire image after which the client pauses: inside the body
			at := len(wire) - (g.BodyLen - cut) - 16
			wg.Add(1)
			go func(g *genReq, wire []byte, at int, pause time.Duration) {
				defer wg.Done()
				r.Case(g.Class)
				conn, err := net.DialTimeout("tcp", addr, 5*time.Second)
				if err != nil {
					r.Inconclusive("slow-body lane: dial: " + err.Error())
					return
				}
				defer conn.Close()
				conn.Write(wire[:at])
				time.Sleep(pause)
				conn.Write(wire[at:])
				conn.SetReadDeadline(time.Now().Add(30 * time.Second))
				m, err := rawhttp.ReadResponse(bufio.NewReader(conn), g.Method)
				got, perr := rec.get(g.Tok)
				if len(got) == 0 {
					r.Violate("C02:request-not-delivered:slow-body", fmt.Sprintf("%s with a body sent over %s was not delivered to the backend (client: %v %v)", g.Method, pause, m != nil, err), g, nil)
					return
				}
				if perr != "" {
					r.Violate("C02:backend-parse-error:slow-body", fmt.Sprintf("backend could not parse forwarded slow request %s (body sent over %s): %s; body got %d of %d bytes", g.Tok, pause, perr, len(got[0].Body), g.BodyLen), g, nil)
					return
				}
				if bad := compareRequest(g, got[0]); len(bad) > 0 {
					r.Violate("C02:"+diffKind(bad[0])+":slow-body", fmt.Sprintf("%s %s (body sent over %s): %s", g.Method, g.Target, pause, strings.Join(bad, "; ")), g, nil)
				}
			}(g, wire, at, pause)
		}
	}
	wg.Wait()
	r.Add("slow_body_requests", len(pauses)*2)
}

// c02ExpectContinue: clients that announce their body with "Expect: 100-continue"
// (curl does for bodies over 1 KiB) and send it once the proxy says 100 Continue,
// or after waiting in vain.  The backend must receive the request and body unchanged.
func c02ExpectContinue(r *core.Run, addr string, rec *recorder) {
	rng := r.Rand("c02-expect")
	n := r.Pick(6, 40)
	var wg sync.WaitGroup
	var got100 int64
	for k := 0; k < n; k++ {
		g := &genReq{Tok: fmt.Sprintf("s%dexp%d", r.Seed, k), Method: []string{"POST", "PUT", "PATCH"}[k%3], Host: "expect.example", Chunked: k%2 == 1}
		g.Target = "/expect/" + g.Tok + "?k=" + fmt.Sprint(k)
		g.BodyLen = []int{1, 1025, 4096, 70000, 1 << 20}[rng.Intn(5)]
		g.body = make([]byte, g.BodyLen)
		rng.Read(g.body)
		g.Chunks = []int{g.BodyLen}
		g.Fields = []rawhttp.Field{{Name: []string{"Expect", "expect"}[k%2], Value: []string{"100-continue", "100-Continue"}[(k/2)%2]}, {Name: "Content-Type", Value: "application/x-verif"}}
		g.Class = fmt.Sprintf("%s|expect-100-continue|body:%s|chunked=%v", g.Method, sizeClass(g.BodyLen), g.Chunked)
		wire := g.wire()
		var headLen int
		if i := strings.Index(string(wire), "\r\n\r\n"); i >= 0 {
			headLen = i + 4
		}
		wg.Add(1)
		go func(g *genReq, wire []byte, headLen int) {
			defer wg.Done()
			r.Case(g.Class)
			conn, err := net.DialTimeout("tcp", addr, 5*time.Second)
			if err != nil {
				r.Inconclusive("expect lane: dial: " + err.Error())
				return
			}
			defer conn.Close()
			br := bufio.NewReader(conn)
			conn.Write(wire[:headLen])
			// wait for the interim response (a client may also send the body after waiting in vain)
			conn.SetReadDeadline(time.Now().Add(3 * time.Second))
			if line, err := br.Peek(12); err == nil && strings.HasPrefix(string(line), "HTTP/1.1 100") {
				atomic.AddInt64(&got100, 1)
			}
			conn.Write(wire[headLen:])
			conn.SetReadDeadline(time.Now().Add(30 * time.Second))
			m, err := rawhttp.ReadResponse(br, g.Method)
			got, perr := rec.get(g.Tok)
			switch {
			case len(got) == 0:
				st := 0
				if m != nil {
					st = m.Status
				}
				r.Violate("C02:request-not-delivered:expect-continue", fmt.Sprintf("%s with Expect: 100-continue and a %d-byte body was not delivered to the backend (client saw status %d, err %v)", g.Method, g.BodyLen, st, err), g, nil)
			case len(got) > 1:
				r.Violate("C02:delivery-count:expect-continue", fmt.Sprintf("backend saw request %s %d times", g.Tok, len(got)), g, nil)
			case perr != "":
				r.Violate("C02:backend-parse-error:expect-continue", fmt.Sprintf("backend could not parse forwarded request %s: %s (body got %d of %d bytes)", g.Tok, perr, len(got[0].Body), g.BodyLen), g, nil)
			default:
				if bad := compareRequest(g, got[0]); len(bad) > 0 {
					r.Violate("C02:"+diffKind(bad[0])+":expect-continue", fmt.Sprintf("%s %s: %s", g.Method, g.Target, strings.Join(bad, "; ")), g, nil)
				}
			}
		}(g, wire, headLen)
	}
	wg.Wait()
	r.Add("expect_continue_requests", n)
	r.Add("expect_continue_interim_100_seen_by_client", int(atomic.LoadInt64(&got100)))
}

// c02BackendComesUpLate: requests with bodies arrive while the backend port
// refuses connections; the backend starts to listen a moment later.  A request
// may fail (the client then gets a 502) - but whatever reaches the backend, by
// whatever retry, has to be the complete, unaltered request.
func c02BackendComesUpLate(r *core.Run, md *fakes.Metadata, agentBin string) {
	px, err := fakes.NewProxy()
	if err != nil {
		r.Broken(err.Error())
		return
	}
	defer px.Close()
	px.ListWait = 30 * time.Millisecond
	addr := fmt.Sprintf("127.0.0.1:%d", core.FreePort())
	agent, err := startAgent(r, agentBin, "agent-late", md, px.URL(), addr, "b2late")
	if err != nil {
		r.Broken(err.Error())
		return
	}
	defer agent.Kill()
	for d := time.Now().Add(60 * time.Second); time.Now().Before(d) && px.Lists() == 0 && agent.Alive(); {
		time.Sleep(10 * time.Millisecond)
	}
	if px.Lists() == 0 {
		r.Inconclusive("C02 late-backend lane: the agent never polled")
		return
	}
	rng := r.Rand("c02-late")
	var gens []*genReq
	for k := 0; k < 8; k++ {
		g := &genReq{Tok: fmt.Sprintf("s%dlate%d", r.Seed, k), Method: []string{"POST", "PUT", "PATCH", "POST"}[k%4], Host: "late.example", Chunked: k%2 == 1}
		g.Target = "/late/" + g.Tok
		g.BodyLen = []int{300, 20000, 70000, 1, 4097}[k%5]
		g.body = make([]byte, g.BodyLen)
		rng.Read(g.body)
		g.Chunks = []int{g.BodyLen}
		g.Class = fmt.Sprintf("%s|backend-comes-up-late|body:%s|chunked=%v", g.Method, sizeClass(g.BodyLen), g.Chunked)
		gens = append(gens, g)
		px.Enqueue(g.Tok, g.wire(), "")
		time.Sleep(20 * time.Millisecond)
	}
	rec, err := newRecorderOn(addr)
	if err != nil {
		r.Inconclusive("C02 late-backend lane: cannot listen on " + addr + ": " + err.Error())
		return
	}
	defer rec.Srv.Close()
	for _, g := range gens {
		px.Wait(g.Tok, 10*time.Second)
	}
	time.Sleep(2500 * time.Millisecond) // a late retry, if any, has happened by now
	reached := 0
	for _, g := range gens {
		r.Case(g.Class)
		got, perr := rec.get(g.Tok)
		if len(got) == 0 {
			continue
		}
		reached++
		if perr != "" {
			r.Violate("C02:backend-parse-error:after-backend-came-up", fmt.Sprintf("a request that first met a refused connection reached the backend damaged: %s (body got %d of %d bytes)", perr, len(got[0].Body), g.BodyLen), g, nil)
			continue
		}
		if bad := compareRequest(g, got[0]); len(bad) > 0 {
			r.Violate("C02:"+diffKind(bad[0])+":after-backend-came-up", fmt.Sprintf("%s %s reached the backend after a refused connection: %s", g.Method, g.Target, strings.Join(bad, "; ")), g, nil)
		}
	}
	r.Add("late_backend_requests_that_reached_the_backend", reached)
	judgeProcs(r, true, agent)
}

// c02FetchCut: real stand-alone proxy and real agent with a byte relay
// between them that cuts the agent's first fetch of a marked request inside the
// serialised request's header block (a connection break on the agent-proxy
// leg). The request may be lost; but whatever reaches the backend, by whatever
// retry, must be the client's request with its complete body.
func c02FetchCut(r *core.Run, md *fakes.Metadata, serverBin, agentBin string) {
	server, saddr, err := startServer(r, serverBin, "server-cut")
	if err != nil {
		r.Broken(err.Error())
		return
	}
	defer server.Kill()
	rec, err := newRecorder()
	if err != nil {
		r.Broken(err.Error())
		return
	}
	defer rec.Srv.Close()
	rl, err := net.Listen("tcp", "127.0.0.1:0")
	if err != nil {
		r.Broken(err.Error())
		return
	}
	defer rl.Close()
	var cmu sync.Mutex
	cutDone := map[string]bool{} // marker values already cut once
	var cuts int64
	go func() {
		for {
			ac, err := rl.Accept()
			if err != nil {
				return
			}
			go func(ac net.Conn) {
				defer ac.Close()
				pc, err := net.DialTimeout("tcp", saddr, 5*time.Second)
				if err != nil {
					return
				}
				defer pc.Close()
				go func() { io.Copy(pc, ac); pc.(*net.TCPConn).CloseWrite() }()
				// proxy -> agent: forward until a not yet used cut marker shows up, then drop the connection right before it
				buf := make([]byte, 0, 64<<10)
				tmp := make([]byte, 16<<10)
				const marker = "X-Cut-Here: "
				for {
					n, err := pc.Read(tmp)
					buf = append(buf, tmp[:n]...)
					if i := bytes.Index(buf, []byte(marker)); i >= 0 && len(buf) >= i+len(marker)+12 {
						val := string(buf[i+len(marker) : i+len(marker)+12])
						cmu.Lock()
						first := !cutDone[val]
						cutDone[val] = true
						cmu.Unlock()
						if first {
							ac.Write(buf[:i])
							atomic.AddInt64(&cuts, 1)
							if tc, ok := ac.(*net.TCPConn); ok {
								tc.SetLinger(0)
							}
							return
						}
					}
					// keep a possible partial marker back
					keep := 0
					if i := bytes.Index(buf, []byte("X-Cut")); i >= 0 && len(buf)-i < len(marker)+12 && err == nil {
						keep = len(buf) - i
					}
					if _, werr := ac.Write(buf[:len(buf)-keep]); werr != nil {
						return
					}
					buf = append(buf[:0], buf[len(buf)-keep:]...)
					if err != nil {
						return
					}
				}
			}(ac)
		}
	}()
	agent, err := startAgent(r, agentBin, "agent-cut", md, "http://"+rl.Addr().String()+"/", rec.Srv.Addr(), "b1")
	if err != nil {
		r.Broken(err.Error())
		return
	}
	defer agent.Kill()
	if err := waitReady(saddr, agent, server); err != nil {
		r.Inconclusive("C02 fetch-cut lane: " + err.Error())
		return
	}
	rng := r.Rand("c02-cut")
	var gens []*genReq
	var wg sync.WaitGroup
	for k := 0; k < 6; k++ {
		g := &genReq{Tok: fmt.Sprintf("s%dcut%d", r.Seed, k), Method: []string{"POST", "PUT", "POST"}[k%3], Host: "cut.example", Chunked: k%2 == 1}
		g.Target = "/cut/" + g.Tok
		g.BodyLen = []int{300, 2 << 20, 70000}[k%3]
		g.body = make([]byte, g.BodyLen)
		rng.Read(g.body)
		g.Chunks = []int{g.BodyLen}
		if k < 4 {
			// (the last two are not cut: the relay itself must be transparent)
			g.Fields = append(g.Fields, rawhttp.Field{Name: "X-Cut-Here", Value: fmt.Sprintf("%012d", int(tokHash(g.Tok)%1000000000000))})
		}
		g.Fields = append(g.Fields, rawhttp.Field{Name: "X-Tok", Value: g.Tok})
		g.Class = fmt.Sprintf("%s|fetch-cut-inside-header=%v|body:%s|chunked=%v", g.Method, k < 4, sizeClass(g.BodyLen), g.Chunked)
		gens = append(gens, g)
		wg.Add(1)
		go func(g *genReq) {
			defer wg.Done()
			// the request may never be answered (the agent may give the cut request up): the client's view is not judged
			cl := rawhttp.NewClient(saddr, 6*time.Second)
			defer cl.Close()
			cl.Do(g.wire(), g.Method)
		}(g)
	}
	wg.Wait()
	time.Sleep(500 * time.Millisecond)
	reached := 0
	for k, g := range gens {
		r.Case(g.Class)
		got, perr := rec.get(g.Tok)
		if len(got) == 0 {
			if k >= 4 {
				r.Inconclusive(fmt.Sprintf("C02 fetch-cut lane: request %s, which was not cut, did not reach the backend", g.Tok))
			}
			continue
		}
		reached++
		if perr != "" {
			r.Violate("C02:backend-parse-error:after-fetch-cut", fmt.Sprintf("a request whose first fetch was cut inside its header block reached the backend damaged: %s (body got %d of %d bytes)", perr, len(got[0].Body), g.BodyLen), g, nil)
			continue
		}
		if bad := compareRequest(g, got[0]); len(bad) > 0 {
			r.Violate("C02:"+diffKind(bad[0])+":after-fetch-cut", fmt.Sprintf("%s %s reached the backend after its first fetch had been cut inside the header block: %s", g.Method, g.Target, strings.Join(bad, "; ")), g, nil)
		}
	}
	r.Add("fetches_cut_inside_the_header_block", int(atomic.LoadInt64(&cuts)))
	r.Add("cut_lane_requests_that_reached_the_backend", reached)
	judgeProcs(r, true, agent, server)
}
