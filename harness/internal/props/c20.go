package props

import "verif/internal/core"

// C20 — stub, replaced by the real check.
func C20(r *core.Run) {
	r.Broken("check not implemented yet")
	r.Finish(1)
}
