package props

import (
	"bufio"
	"fmt"
	"io"
	"net"
	"net/http"
	"path/filepath"
	"regexp"
	"strings"
	"sync"
	"sync/atomic"
	"syscall"
	"time"

	"verif/internal/core"
	"verif/internal/fakes"
	"verif/internal/rawhttp"
)

type c20HealthCase struct {
	Name      string `json:"name"`
	Threshold int    `json:"threshold"`
	Kind      string `json:"failure_kind"` // non200 | closed
	Script    string `json:"script"`       // P/F per health request; afterwards F forever
	Traffic   bool   `json:"traffic"`      // client requests keep arriving (one every 250 ms) for the whole history: being busy is no reason not to check
}

type c20HealthEvent struct {
	Idx  int
	Pass bool
	Sent time.Time
}

// c20Health runs one health history and applies the ordering oracles.
func c20Health(r *core.Run, agentBin string, md *fakes.Metadata, c c20HealthCase) {
	var mu sync.Mutex
	var events []c20HealthEvent
	idx := 0
	backend, err := rawhttp.NewServer(func(req *rawhttp.Message, reqErr error, conn net.Conn, br *bufio.Reader) bool {
		if reqErr != nil {
			return false
		}
		if !strings.HasPrefix(req.Target, "/healthz") {
			var w rawhttp.Builder
			w.Line("HTTP/1.1 200 OK").Field("Content-Length", "2").End()
			w.WriteString("ok")
			conn.Write(w.Bytes())
			return true
		}
		mu.Lock()
		i := idx
		idx++
		pass := i < len(c.Script) && c.Script[i] == 'P'
		slow := i < len(c.Script) && c.Script[i] == 'S' // a check that takes 2.7 s to fail
		mu.Unlock()
		if slow {
			time.Sleep(2700 * time.Millisecond)
		}
		keep := true
		// the time stamp is taken before the reply is written: the earliest moment the agent can have seen it
		// (stamping after the write let a descheduled handler record a time later than the agent's first poll)
		sent := time.Now()
		if pass {
			var w rawhttp.Builder
			w.Line("HTTP/1.1 200 OK").Field("Content-Length", "2").End()
			w.WriteString("ok")
			conn.Write(w.Bytes())
		} else if c.Kind == "non200" {
			var w rawhttp.Builder
			w.Line("HTTP/1.1 503 Unhealthy").Field("Content-Length", "0").End()
			conn.Write(w.Bytes())
		} else {
			keep = false // close without answering
		}
		mu.Lock()
		events = append(events, c20HealthEvent{i, pass, sent})
		mu.Unlock()
		return keep
	})
	if err != nil {
		r.Broken(err.Error())
		return
	}
	defer backend.Close()
	px, err := fakes.NewProxy()
	if err != nil {
		r.Broken(err.Error())
		return
	}
	defer px.Close()
	px.ListWait = 100 * time.Millisecond
	var firstProxyReq time.Time
	px.OnList = func(w http.ResponseWriter, req *http.Request) bool {
		mu.Lock()
		if firstProxyReq.IsZero() {
			firstProxyReq = time.Now()
		}
		mu.Unlock()
		return false
	}
	px.OnFetch = func(id string, w http.ResponseWriter, req *http.Request) bool {
		mu.Lock()
		if firstProxyReq.IsZero() {
			firstProxyReq = time.Now()
		}
		mu.Unlock()
		return false
	}
	agent, err := startAgent(r, agentBin, "agent-"+c.Name, md, px.URL(), backend.Addr(), "b20-"+c.Name,
		"--health-check-path=/healthz", "--health-check-interval-seconds=1", fmt.Sprintf("--health-check-unhealthy-threshold=%d", c.Threshold))
	if err != nil {
		r.Broken(err.Error())
		return
	}
	defer agent.Kill()
	if c.Traffic {
		stopTraffic := make(chan struct{})
		defer close(stopTraffic)
		go func() {
			for n := 0; ; n++ {
				select {
				case <-stopTraffic:
					return
				case <-agent.Done():
					return
				case <-time.After(250 * time.Millisecond):
				}
				var w rawhttp.Builder
				w.Line(fmt.Sprintf("GET /work/%d HTTP/1.1", n)).Field("Host", "c20.example").End()
				px.Enqueue(fmt.Sprintf("%s-work%d", c.Name, n), w.Bytes(), "")
			}
		}()
	}
	// the history needs len(script)+threshold health checks at 1 s each; T = 10 s on top
	total := time.Duration(len(c.Script)+c.Threshold+2)*time.Second + 12*time.Second
	var exitAt time.Time
	select {
	case <-agent.Done():
		exitAt = time.Now()
	case <-time.After(total):
	}
	mu.Lock()
	evs := append([]c20HealthEvent(nil), events...)
	first := firstProxyReq
	mu.Unlock()
	cls := fmt.Sprintf("health|t=%d|%s|lateP=%d|resets=%d", c.Threshold, c.Kind, strings.Index(c.Script, "P"), strings.Count(c.Script, "P")-1)
	if c.Traffic {
		cls += "|steady-client-traffic"
	}
	r.Case(cls)
	r.Add("health_replies_served", len(evs))
	// (1) start-up gate
	var firstPass time.Time
	for _, e := range evs {
		if e.Pass {
			firstPass = e.Sent
			break
		}
	}
	if !first.IsZero() && (firstPass.IsZero() || first.Before(firstPass)) {
		r.Violate("C20:polled-before-healthy", fmt.Sprintf("history %s (t=%d, %s): the proxy received a request %v before the first passing health reply was sent", c.Script, c.Threshold, c.Kind, firstPass.Sub(first)), c, nil)
	}
	if first.IsZero() && !firstPass.IsZero() && exitAt.IsZero() {
		r.Violate("C20:never-polled-after-healthy", fmt.Sprintf("history %s: a health check passed but the proxy never received a request", c.Script), c, nil)
	}
	// (2)/(3) exit only after t consecutive failures, and then within T
	trailing := func(until time.Time) (n int, tth time.Time) {
		cnt := 0
		var when time.Time
		for _, e := range evs {
			if !until.IsZero() && e.Sent.After(until) {
				break
			}
			if e.Pass {
				cnt = 0
				when = time.Time{}
			} else {
				cnt++
				if cnt == c.Threshold {
					when = e.Sent
				}
			}
		}
		return cnt, when
	}
	// the t-th consecutive failure (after the first passing check) is the last check the agent ever makes: the checks are
	// made one after another by one loop, which terminates the process right after that reply
	{
		cnt, seenP, at := 0, false, -1
		for i, e := range evs {
			if at >= 0 {
				r.Violate("C20:health-check-after-threshold-reached", fmt.Sprintf("history %s (t=%d, %s): health reply %d was the %d. consecutive failure, yet the agent went on and made check %d %v later (a later passing check resets the count, so it may never exit)", c.Script, c.Threshold, c.Kind, at+1, c.Threshold, i+1, e.Sent.Sub(evs[at].Sent).Round(time.Millisecond)), c, nil)
				break
			}
			switch {
			case e.Pass:
				seenP, cnt = true, 0
			case seenP:
				cnt++
				if cnt == c.Threshold {
					at = i
				}
			}
		}
	}
	if !exitAt.IsZero() {
		n, _ := trailing(exitAt)
		seenPass := !firstPass.IsZero() && firstPass.Before(exitAt)
		if !seenPass {
			r.Violate("C20:exited-before-first-healthy", fmt.Sprintf("history %s: the agent exited although no health check had passed yet (start-up should keep waiting): %s", c.Script, core.Trunc(tail(agent.Log(), 300), 300)), c, nil)
		} else if n < c.Threshold {
			r.Violate("C20:exited-before-threshold", fmt.Sprintf("history %s (t=%d, %s): the agent exited after only %d consecutive failing health replies: %s", c.Script, c.Threshold, c.Kind, n, core.Trunc(tail(agent.Log(), 300), 300)), c, evs)
		}
	} else {
		_, tth := trailing(time.Time{})
		if !tth.IsZero() && time.Since(tth) > 10*time.Second {
			r.Violate("C20:no-exit-when-unhealthy", fmt.Sprintf("history %s (t=%d, %s): %d consecutive health checks failed %v ago but the agent is still running", c.Script, c.Threshold, c.Kind, c.Threshold, time.Since(tth).Round(time.Millisecond)), c, nil)
		} else if tth.IsZero() {
			// the checks run every second; when the last one was asked for more than 8 s ago (and one had passed before), the agent
			// has stopped checking a backend that would now fail every check - it can never notice and exit
			var last time.Time
			for _, e := range evs {
				last = e.Sent
			}
			if !firstPass.IsZero() && !last.IsZero() && time.Since(last) > 8*time.Second {
				r.Violate("C20:health-checks-stopped", fmt.Sprintf("history %s (t=%d, %s): after %d health checks (the last one %v ago, interval 1 s) the agent makes no further checks; the backend now fails every check, so the agent can never terminate itself", c.Script, c.Threshold, c.Kind, len(evs), time.Since(last).Round(time.Millisecond)), c, nil)
			} else {
				r.Inconclusive(fmt.Sprintf("health history %s did not reach %d consecutive failures in time (%d replies)", c.Script, c.Threshold, len(evs)))
			}
		}
	}
	for _, ex := range core.CrashMarkers(agent.LogPath) {
		r.Violate(core.CrashSignature(ex), "agent crashed: "+ex, c, nil)
	}
	r.Sample(map[string]interface{}{"case": c, "health_replies": len(evs), "exited": !exitAt.IsZero()})
}

type c20ShutCase struct {
	Name            string `json:"name"`
	Signal          string `json:"signal"`
	GraceS          int    `json:"grace_s"` // 0 = option off
	Phase           string `json:"phase"`   // at-backend | uploading | idle
	Finish          string `json:"finish"`  // inside | outside
	FinishS         float64
	GraceMs         int    `json:"grace_ms,omitempty"`                     // > 0: a period that is not a whole number of seconds (overrides GraceS for the flag and the oracle)
	Second          string `json:"second_signal,omitempty"`                // a second signal (INT/TERM) sent 300 ms after the first, during the period
	SecondAtMs      int    `json:"second_signal_at_ms,omitempty"`          // default 300
	RejectFirstPost bool   `json:"first_response_post_rejected,omitempty"` // the proxy answers the first upload attempt of the in-flight request with 503
	Shim            bool   `json:"shim_enabled,omitempty"`                 // the agent runs with --shim-path/--shim-websockets
	ProxyTimeoutS   int    `json:"proxy_timeout_s,omitempty"`              // the agent runs with --proxy-timeout=<n>s (shorter than the period)
	SlowStartMs     int    `json:"slow_start_ms,omitempty"`                // the agent's main goroutine is held up for this long where it registers its signal handler (hook utils.signals.install): a start-up schedule of a loaded machine
	Health          bool   `json:"health_checks_enabled,omitempty"`        // the agent also runs health checks (1 s interval, threshold 2) against a backend that always passes them
}

var c20BeginRe = regexp.MustCompile(`Begin graceful shutdown`)

func (c c20ShutCase) grace() time.Duration {
	if c.GraceMs > 0 {
		return time.Duration(c.GraceMs) * time.Millisecond
	}
	return time.Duration(c.GraceS) * time.Second
}

// c20Shutdown runs one shutdown scenario. Returns false if the "inside"
// response was missing (caller confirms by a solo re-run).
func c20Shutdown(r *core.Run, agentBin string, md *fakes.Metadata, c c20ShutCase, confirm bool) (insideOK bool) {
	insideOK = true
	release := make(chan struct{})
	var relOnce sync.Once
	atBackend := make(chan struct{}, 1)
	backend, err := rawhttp.NewServer(func(req *rawhttp.Message, reqErr error, conn net.Conn, br *bufio.Reader) bool {
		if reqErr != nil {
			return false
		}
		tok, size, _, ok := parseTokPath(req.Target)
		if !ok {
			var w rawhttp.Builder
			w.Line("HTTP/1.1 200 OK").Field("Content-Length", "2").End()
			w.WriteString("ok")
			conn.Write(w.Bytes())
			return true
		}
		select {
		case atBackend <- struct{}{}:
		default:
		}
		if c.Phase == "body-streaming" && rawhttp.SHA(req.Body) != rawhttp.SHA(tokBytes(tok, "c20-body", 40000)) {
			var w rawhttp.Builder
			w.Line("HTTP/1.1 400 Request body incomplete").Field("Content-Length", "0").End()
			conn.Write(w.Bytes())
			return false
		}
		if c.Phase == "at-backend" {
			<-release
		}
		tr := tokResponseFor(tok, size)
		var w rawhttp.Builder
		w.Line(fmt.Sprintf("HTTP/1.1 %d X", tr.Status)).Fields(tr.Fields).Field("Trailer", "X-Tok-Trailer").Field("Transfer-Encoding", "chunked").End()
		w.Chunk(tr.Body[:len(tr.Body)/2])
		conn.Write(w.Bytes())
		if c.Phase == "uploading" {
			<-release // first half is on its way to the proxy; hold the rest
		}
		var w2 rawhttp.Builder
		w2.Chunk(tr.Body[len(tr.Body)/2:]).LastChunk(tr.Trailer)
		conn.Write(w2.Bytes())
		return true
	})
	if err != nil {
		r.Broken(err.Error())
		return
	}
	defer backend.Close()
	defer relOnce.Do(func() { close(release) })
	px, err := fakes.NewProxy()
	if err != nil {
		r.Broken(err.Error())
		return
	}
	defer px.Close()
	// list calls are long polls held by the harness
	var mu sync.Mutex
	type listCall struct {
		arrived time.Time
		rel     chan []byte
	}
	var lists []*listCall
	failing := false
	var failedArrivals []time.Time
	px.OnList = func(w http.ResponseWriter, req *http.Request) bool {
		mu.Lock()
		if failing {
			failedArrivals = append(failedArrivals, time.Now())
			mu.Unlock()
			http.Error(w, "scripted outage", 503)
			return true
		}
		mu.Unlock()
		lc := &listCall{arrived: time.Now(), rel: make(chan []byte, 1)}
		mu.Lock()
		lists = append(lists, lc)
		mu.Unlock()
		select {
		case b := <-lc.rel:
			w.WriteHeader(200)
			w.Write(b)
		case <-time.After(25 * time.Second):
			w.WriteHeader(200)
			w.Write([]byte("[]"))
		case <-req.Context().Done():
		}
		return true
	}
	args := []string{}
	if c.GraceS > 0 {
		args = append(args, "--graceful-shutdown-timeout="+c.grace().String())
	}
	if c.ProxyTimeoutS > 0 {
		args = append(args, fmt.Sprintf("--proxy-timeout=%ds", c.ProxyTimeoutS))
	}
	if c.Shim {
		args = append(args, "--shim-path=shim", "--shim-websockets=true")
	}
	if c.Health {
		args = append(args, "--health-check-path=/healthz", "--health-check-interval-seconds=1", "--health-check-unhealthy-threshold=2")
	}
	fetchHeld := make(chan struct{}, 1)
	if c.Phase == "listed" {
		px.OnFetch = func(id string, w http.ResponseWriter, req *http.Request) bool {
			select {
			case fetchHeld <- struct{}{}:
			default:
			}
			select {
			case <-release:
			case <-time.After(25 * time.Second):
			}
			return false
		}
	}
	bodyTok := "sd" + c.Name
	reqBody := tokBytes(bodyTok, "c20-body", 40000)
	if c.Phase == "body-streaming" {
		// the fetch reply carries the request header and half of its body; the rest follows only after the signal
		px.OnFetch = func(id string, w http.ResponseWriter, req *http.Request) bool {
			raw := tokRequest("POST", bodyTok, 4000, 0, "c20.example", reqBody, nil)
			w.Header().Set("X-Inverting-Proxy-Request-ID", id)
			w.Header().Set("X-Inverting-Proxy-Request-Start-Time", time.Now().Format(time.RFC3339Nano))
			w.WriteHeader(200)
			k := len(raw) - len(reqBody)/2
			w.Write(raw[:k])
			if fl, ok := w.(http.Flusher); ok {
				fl.Flush()
			}
			select {
			case fetchHeld <- struct{}{}:
			default:
			}
			select {
			case <-release:
			case <-time.After(25 * time.Second):
			}
			w.Write(raw[k:])
			return true
		}
	}
	if c.RejectFirstPost {
		var posts int64
		px.OnResponse = func(id string, w http.ResponseWriter, req *http.Request) bool {
			if atomic.AddInt64(&posts, 1) == 1 {
				io.Copy(io.Discard, req.Body)
				http.Error(w, "scripted transient failure", 503)
				return true
			}
			return false
		}
	}
	if c.Phase == "before-first-poll" {
		// the agent's start-up calls to the metadata server take 300 ms each: the signal arrives while the polling goroutine
		// is still preparing its client, i.e. after the handler has been registered and before any list call
		md2, err := fakes.NewMetadata()
		if err != nil {
			r.Broken(err.Error())
			return
		}
		defer md2.Close()
		atomic.StoreInt64(&md2.DelayNs, int64(300*time.Millisecond))
		md = md2
	}
	var agent *core.Proc
	if c.SlowStartMs > 0 {
		full := append([]string{"--proxy=" + px.URL(), "--host=" + backend.Addr(), "--backend=b20-" + c.Name, "--disable-gce-vm-header=true"}, args...)
		env := append(md.AgentEnv(r.WorkDir), fmt.Sprintf("VERIF_HOOK_DELAYS=utils.signals.install=%dms", c.SlowStartMs))
		agent, err = r.StartProc("agent-"+c.Name, agentBin, full, env...)
	} else {
		agent, err = startAgent(r, agentBin, "agent-"+c.Name, md, px.URL(), backend.Addr(), "b20-"+c.Name, args...)
	}
	if err != nil {
		r.Broken(err.Error())
		return
	}
	defer agent.Kill()
	waitList := func(n int, d time.Duration) *listCall {
		deadline := time.Now().Add(d)
		for time.Now().Before(deadline) {
			mu.Lock()
			if len(lists) >= n {
				lc := lists[n-1]
				mu.Unlock()
				return lc
			}
			mu.Unlock()
			time.Sleep(2 * time.Millisecond)
		}
		return nil
	}
	if c.Phase == "before-first-poll" {
		for d := time.Now().Add(30 * time.Second); time.Now().Before(d) && atomic.LoadInt64(&md.Reqs) == 0 && agent.Alive(); {
			time.Sleep(2 * time.Millisecond)
		}
		mu.Lock()
		already := len(lists)
		mu.Unlock()
		r.Case(fmt.Sprintf("shutdown|%s|grace=%d|%s|-", c.Signal, c.GraceS, c.Phase))
		if atomic.LoadInt64(&md.Reqs) == 0 || already > 0 {
			r.Inconclusive(fmt.Sprintf("shutdown scenario %s: the start-up window was missed (metadata requests %d, list calls %d)", c.Name, atomic.LoadInt64(&md.Reqs), already))
			return
		}
		sig := syscall.SIGINT
		if c.Signal == "TERM" {
			sig = syscall.SIGTERM
		}
		tSig := time.Now()
		agent.Signal(sig)
		if _, err := agent.WaitLog(c20BeginRe, 10*time.Second); err != nil {
			if !agent.Alive() {
				r.Violate("C20:exited-before-grace-period:"+c.Signal, fmt.Sprintf("scenario %s: the agent exited %v after SIG%s (sent while its polling goroutine was still preparing its client) although a %ds graceful-shutdown period is configured", c.Name, time.Since(tSig).Round(time.Millisecond), c.Signal, c.GraceS), c, nil)
			} else {
				r.Violate("C20:signal-ignored:"+c.Signal, fmt.Sprintf("scenario %s: no graceful shutdown began within 10s of SIG%s", c.Name, c.Signal), c, nil)
			}
			return
		}
		select {
		case <-agent.Done():
		case <-time.After(c.grace() + 10*time.Second):
			r.Violate("C20:no-exit-after-grace-period", fmt.Sprintf("scenario %s: still running %v after SIG%s with a %ds period", c.Name, time.Since(tSig).Round(time.Millisecond), c.Signal, c.GraceS), c, nil)
		}
		if d := time.Since(tSig); agent.Alive() == false && d < c.grace()-50*time.Millisecond {
			r.Violate("C20:exited-before-grace-period:"+c.Signal, fmt.Sprintf("scenario %s: exited %v after SIG%s, before the %v period ended", c.Name, d.Round(time.Millisecond), c.Signal, c.grace()), c, nil)
		}
		// the shutdown was announced before any list call had been made: none may start afterwards
		mu.Lock()
		n := len(lists)
		mu.Unlock()
		if n > 0 {
			r.Violate("C20:polled-after-shutdown-began:signal-before-first-poll", fmt.Sprintf("scenario %s: SIG%s arrived before the agent's first pending-list call (its polling goroutine was still preparing its client); the shutdown was announced, and then %d pending-list call(s) were started", c.Name, c.Signal, n), c, nil)
		}
		return
	}
	l1 := waitList(1, 30*time.Second)
	if l1 == nil {
		r.Inconclusive("shutdown scenario " + c.Name + ": agent never polled")
		return
	}
	tok := "sd" + c.Name
	if c.Phase == "proxy-failing" {
		// the proxy starts failing list calls shortly before the signal; the agent is in its retry loop
		mu.Lock()
		failing = true
		mu.Unlock()
		l1.rel <- []byte("[]")
		time.Sleep(60 * time.Millisecond)
		sig := syscall.SIGINT
		if c.Signal == "TERM" {
			sig = syscall.SIGTERM
		}
		tSig := time.Now()
		agent.Signal(sig)
		r.Case(fmt.Sprintf("shutdown|%s|grace=%d|%s|-", c.Signal, c.GraceS, c.Phase))
		if _, err := agent.WaitLog(c20BeginRe, 10*time.Second); err != nil {
			r.Violate("C20:signal-ignored:"+c.Signal, fmt.Sprintf("scenario %s: no graceful shutdown began within 10s of SIG%s while the proxy was failing", c.Name, c.Signal), c, nil)
			return
		}
		tObs := time.Now()
		grace := c.grace()
		select {
		case <-agent.Done():
			if d := time.Since(tSig); d < grace-50*time.Millisecond {
				r.Violate("C20:exited-before-grace-period:"+c.Signal, fmt.Sprintf("scenario %s: exited %v after SIG%s, before the %ds period ended", c.Name, d.Round(time.Millisecond), c.Signal, c.GraceS), c, nil)
			}
		case <-time.After(grace + 10*time.Second):
			r.Violate("C20:no-exit-after-grace-period", fmt.Sprintf("scenario %s: still running %v after SIG%s with a %ds period (proxy failing)", c.Name, time.Since(tSig).Round(time.Millisecond), c.Signal, c.GraceS), c, nil)
		}
		mu.Lock()
		late := 0
		for _, a := range failedArrivals {
			if a.After(tObs) {
				late++
			}
		}
		nFailed := len(failedArrivals)
		mu.Unlock()
		// one call may have been past the context check when the shutdown was announced
		if late > 1 {
			r.Violate("C20:polled-after-shutdown-began:proxy-failing", fmt.Sprintf("scenario %s: %d pending-list calls started after the graceful shutdown had been announced while the proxy was failing list calls (at most the one in flight may)", c.Name, late), c, nil)
		}
		r.Sample(map[string]interface{}{"case": c, "failing_list_calls": nFailed, "after_announcement": late})
		return
	}
	if c.Phase != "idle" {
		respSize := 4000
		if c.RejectFirstPost {
			respSize = 300 // small enough for the agent to replay it in a second upload attempt
		}
		px.Store(tok, tokRequest("GET", tok, respSize, 0, "c20.example", nil, nil), "")
		l1.rel <- []byte(fmt.Sprintf("[%q]", tok))
		reached := atBackend
		if c.Phase == "listed" || c.Phase == "body-streaming" {
			reached = fetchHeld
		}
		select {
		case <-reached:
		case <-time.After(20 * time.Second):
			r.Inconclusive("shutdown scenario " + c.Name + ": request never reached phase " + c.Phase)
			return
		}
		if c.Phase == "uploading" {
			time.Sleep(50 * time.Millisecond)
		}
	}
	// exactly one list call must be outstanding when the signal is sent
	n0 := 1
	if c.Phase != "idle" {
		n0 = 2
	}
	held := waitList(n0, 20*time.Second)
	if held == nil {
		r.Inconclusive("shutdown scenario " + c.Name + ": no list call outstanding before the signal")
		return
	}
	sig := syscall.SIGINT
	if c.Signal == "TERM" {
		sig = syscall.SIGTERM
	}
	tSig := time.Now()
	agent.Signal(sig)
	if c.Phase != "idle" {
		go func() {
			time.Sleep(time.Duration(c.FinishS * float64(time.Second)))
			relOnce.Do(func() { close(release) })
		}()
	}
	cls := fmt.Sprintf("shutdown|%s|grace=%d|%s|%s", c.Signal, c.GraceS, c.Phase, c.Finish)
	if c.GraceMs > 0 {
		cls += fmt.Sprintf("|fractional-period=%dms", c.GraceMs)
	}
	if c.Second != "" {
		cls += "|second-signal=" + c.Second
		go func() {
			at := 300 * time.Millisecond
			if c.SecondAtMs > 0 {
				at = time.Duration(c.SecondAtMs) * time.Millisecond
			}
			time.Sleep(at)
			s2 := syscall.SIGINT
			if c.Second == "TERM" {
				s2 = syscall.SIGTERM
			}
			agent.Signal(s2)
		}()
	}
	if c.Health {
		cls += "|health-checks-on"
	}
	if c.Shim {
		cls += "|shim-on"
	}
	if c.RejectFirstPost {
		cls += "|first-post-rejected"
	}
	if c.SlowStartMs > 0 {
		cls += "|signal-soon-after-a-slow-start"
	}
	if c.ProxyTimeoutS > 0 {
		cls += "|proxy-timeout-shorter-than-the-period"
	}
	if !confirm {
		r.Case(cls)
	}
	if c.GraceS == 0 {
		select {
		case <-agent.Done():
			r.Max("max_exit_latency_ms_without_grace", int(time.Since(tSig).Milliseconds()))
		case <-time.After(10 * time.Second):
			r.Violate("C20:no-prompt-exit-without-grace:"+c.Signal, fmt.Sprintf("scenario %s: without a graceful-shutdown period the agent was still running 10s after SIG%s", c.Name, c.Signal), c, nil)
		}
		return
	}
	// wait for the agent to announce the shutdown, then release the held list call
	if _, err := agent.WaitLog(c20BeginRe, 10*time.Second); err != nil {
		if !agent.Alive() {
			r.Violate("C20:exited-before-grace-period:"+c.Signal, fmt.Sprintf("scenario %s: the agent exited %v after SIG%s although a %ds graceful-shutdown period is configured", c.Name, time.Since(tSig).Round(time.Millisecond), c.Signal, c.GraceS), c, nil)
		} else {
			r.Violate("C20:signal-ignored:"+c.Signal, fmt.Sprintf("scenario %s: no graceful shutdown began within 10s of SIG%s", c.Name, c.Signal), c, nil)
		}
		return
	}
	mu.Lock()
	nAtAnnounce := len(lists)
	mu.Unlock()
	held.rel <- []byte("[]")
	tRel := time.Now()
	// process exit timing
	grace := c.grace()
	var exitAt time.Time
	select {
	case <-agent.Done():
		exitAt = time.Now()
	case <-time.After(grace + 10*time.Second - time.Since(tSig)):
	}
	if exitAt.IsZero() {
		r.Violate("C20:no-exit-after-grace-period", fmt.Sprintf("scenario %s: still running %v after SIG%s with a %ds period", c.Name, time.Since(tSig).Round(time.Millisecond), c.Signal, c.GraceS), c, nil)
	} else if exitAt.Sub(tSig) < grace-50*time.Millisecond {
		r.Violate("C20:exited-before-grace-period:"+c.Signal, fmt.Sprintf("scenario %s: exited %v after SIG%s, before the %v period ended", c.Name, exitAt.Sub(tSig).Round(time.Millisecond), c.Signal, c.grace()), c, nil)
	} else {
		over := exitAt.Sub(tSig) - grace
		r.Max("max_exit_overshoot_ms", int(over.Milliseconds()))
		if over > 2*time.Second {
			// "the process exits when the period ends": an exit more than 2 s late (120 ms is usual) is re-run alone before it counts
			if !confirm {
				return false
			}
			r.Violate("C20:exit-later-than-grace-period", fmt.Sprintf("scenario %s: the agent exited %v after SIG%s, %v after the %v period had ended (also when run alone)", c.Name, exitAt.Sub(tSig).Round(time.Millisecond), c.Signal, over.Round(time.Millisecond), c.grace()), c, nil)
		}
	}
	// no new list call after the in-flight one returned
	mu.Lock()
	var late []time.Duration
	for i, lc := range lists {
		if i >= nAtAnnounce && lc.arrived.After(tRel) {
			late = append(late, lc.arrived.Sub(tRel))
		}
	}
	extraBefore := nAtAnnounce - n0
	mu.Unlock()
	if len(late) > 0 {
		r.Violate("C20:polled-after-shutdown-began", fmt.Sprintf("scenario %s: %d pending-list call(s) started after the shutdown was announced and the in-flight call had returned (first %v after)", c.Name, len(late), late[0].Round(time.Millisecond)), c, nil)
	}
	_ = extraBefore
	// the forwarded request must be answered in full when the backend finished inside the period
	if (c.Phase == "at-backend" || c.Phase == "uploading" || c.Phase == "body-streaming") && c.Finish == "inside" {
		ups := px.Uploads(tok)
		ok := false
		var why string
		if len(ups) == 0 {
			why = "no response upload reached the proxy"
		} else {
			u := ups[len(ups)-1]
			if u.Resp == nil || u.Err != "" {
				why = "upload incomplete: " + u.Err
			} else if bad := checkTokResponse(u.Resp, map[bool]string{true: "POST", false: "GET"}[c.Phase == "body-streaming"], tok, map[bool]int{true: 300, false: 4000}[c.RejectFirstPost]); len(bad) > 0 {
				why = fmt.Sprint(bad)
			} else {
				ok = true
			}
		}
		if !ok {
			insideOK = false
			if confirm {
				r.Violate("C20:in-flight-request-not-answered:"+c.Phase, fmt.Sprintf("scenario %s: backend finished %.1fs after SIG%s, inside the %v period, but %s (confirmed alone)", c.Name, c.FinishS, c.Signal, c.grace(), why), c, nil)
			}
		} else {
			r.Add("in_flight_requests_answered_during_shutdown", 1)
		}
	}
	for _, ex := range core.CrashMarkers(agent.LogPath) {
		r.Violate(core.CrashSignature(ex), "agent crashed: "+ex, c, nil)
	}
	if !confirm {
		r.Sample(map[string]interface{}{"case": c, "exit_after_ms": exitAt.Sub(tSig).Milliseconds(), "list_calls": len(lists)})
	}
	return
}

// C20 — agent lifecycle.
func C20(r *core.Run) {
	r.SetRule("real agent binary; health histories at 1 s interval F^k P (late backend), P (F^(t-1) P)^m F^t for thresholds t in 1..3 and failure kinds {non-200, connection closed}, ordering oracles on one clock (no proxy request before the first passing reply was sent; no exit with fewer than t trailing failures; exit within 10 s of the t-th); shutdown scenarios signal {INT,TERM} x grace {off,2s,5s} x phase of one in-flight request {idle, listed-not-fetched, at backend, uploading} (phases held by the harness) x backend finishing inside/outside the period; class = scenario tuple")
	r.Assume("progress bound T=10s; 'inside' means the backend finishes 1 s after the signal with >= 1 s of the period left, a miss is confirmed by a solo re-run; phases before the request reaches the backend are outside the statement")
	agentBin := r.MustBuild(r.BuildRepoBinary("./agent", "agent"))
	md, err := fakes.NewMetadata()
	if err != nil {
		r.Broken(err.Error())
		r.Finish(1)
	}
	defer md.Close()
	var hcs []c20HealthCase
	var scs []c20ShutCase
	add := func(t int, kind, script string) {
		hcs = append(hcs, c20HealthCase{Name: fmt.Sprintf("h%d", len(hcs)), Threshold: t, Kind: kind, Script: script})
	}
	// a backend that fails its checks while client requests keep arriving and being answered
	hcs = append(hcs, c20HealthCase{Name: "h-traffic", Threshold: 2, Kind: "non200", Script: "PP", Traffic: true})
	if !r.Quick() {
		// (failures at HTTP level only: with client traffic the agent's idle connections to the backend are shared with the health
		// check, and net/http silently repeats a GET whose reused connection is closed without an answer - one check, two arrivals)
		hcs = append(hcs, c20HealthCase{Name: "h-traffic2", Threshold: 3, Kind: "non200", Script: "FPFFP", Traffic: true})
	}
	if r.Quick() {
		add(1, "non200", "FFP")
		add(2, "closed", "PFPFP")
		add(3, "non200", "FPFFPFFP")
		add(2, "non200", "P")
		add(1, "non200", "PFP")  // the very first periodic check fails at threshold 1; a passing check would follow
		add(3, "non200", "PSPP") // one check that is slow to fail, between passing ones: far from three consecutive failures
	} else {
		add(3, "non200", "PSPP")
		add(3, "non200", "PSPSP")
		add(2, "non200", "PSP")
		add(3, "non200", "FPSSP")
		for t := 1; t <= 3; t++ {
			add(t, []string{"non200", "closed"}[t%2], "P"+strings.Repeat("F", t)+"P")
			add(t, []string{"closed", "non200"}[t%2], "FP"+strings.Repeat("F", t)+"PP")
		}
		for t := 1; t <= 3; t++ {
			for _, kind := range []string{"non200", "closed"} {
				for k := 0; k <= 3; k++ {
					add(t, kind, strings.Repeat("F", k)+"P")
				}
				for m := 1; m <= 3; m++ {
					add(t, kind, "P"+strings.Repeat(strings.Repeat("F", t-1)+"P", m))
					add(t, kind, strings.Repeat("F", m)+"P"+strings.Repeat(strings.Repeat("F", t-1)+"P", m))
				}
			}
		}
	}
	for _, sig := range []string{"INT", "TERM"} {
		for _, g := range []int{0, 2, 5} {
			for _, ph := range []string{"idle", "listed", "proxy-failing", "at-backend", "body-streaming", "uploading"} {
				for _, fin := range []string{"inside", "outside"} {
					if (ph == "idle" || ph == "listed" || ph == "proxy-failing") && fin == "outside" {
						continue
					}
					if (ph == "proxy-failing" || ph == "body-streaming") && g == 0 {
						continue
					}
					if ph == "body-streaming" && fin == "outside" {
						continue
					}
					if g == 0 && fin == "outside" {
						continue
					}
					c := c20ShutCase{Signal: sig, GraceS: g, Phase: ph, Finish: fin, FinishS: 1}
					if fin == "outside" {
						c.FinishS = float64(g) + 2
					}
					if r.Quick() && !(sig == "INT" && g == 2 || sig == "TERM" && (g == 0 && ph != "uploading" && ph != "listed" || g == 2 && ph == "at-backend" && fin == "inside")) {
						continue
					}
					c.Name = fmt.Sprintf("s%d", len(scs))
					scs = append(scs, c)
				}
			}
		}
	}
	// health checks keep passing while the grace period (longer than interval x threshold) runs: the in-flight request is still answered
	scs = append(scs, c20ShutCase{Name: fmt.Sprintf("s%d", len(scs)), Signal: "INT", GraceS: 7, Phase: "at-backend", Finish: "inside", FinishS: 4.5, Health: true})
	// the websocket shim enabled: prompt exit without a period, and the usual behaviour with one
	scs = append(scs, c20ShutCase{Name: fmt.Sprintf("s%d", len(scs)), Signal: "TERM", GraceS: 0, Phase: "idle", Finish: "inside", FinishS: 1, Shim: true},
		c20ShutCase{Name: fmt.Sprintf("s%d", len(scs)+1), Signal: "INT", GraceS: 2, Phase: "at-backend", Finish: "inside", FinishS: 1, Shim: true})
	// a second signal shortly before the period (counted from the first) ends: the exit time must not move
	scs = append(scs, c20ShutCase{Name: fmt.Sprintf("s%d", len(scs)), Signal: "INT", GraceS: 3, Phase: "idle", Finish: "inside", FinishS: 1, Second: "TERM", SecondAtMs: 2500})
	// the proxy rejects the first upload attempt of the in-flight response (a transient 503): the retry must still happen during the period
	scs = append(scs, c20ShutCase{Name: fmt.Sprintf("s%d", len(scs)), Signal: "INT", GraceS: 4, Phase: "at-backend", Finish: "inside", FinishS: 1, RejectFirstPost: true})
	// the signal arrives as soon as the agent polls, on a machine so busy that the agent's main goroutine needs 1.5 s from
	// starting its polling loop to its next statement: an agent that polls (and forwards) is an agent that shuts down gracefully
	scs = append(scs, c20ShutCase{Name: fmt.Sprintf("s%d", len(scs)), Signal: "TERM", GraceS: 2, Phase: "idle", Finish: "inside", FinishS: 1, SlowStartMs: 1500},
		c20ShutCase{Name: fmt.Sprintf("s%d", len(scs)+1), Signal: "INT", GraceS: 3, Phase: "at-backend", Finish: "inside", FinishS: 1, SlowStartMs: 1500})
	// the signal arrives after the handler has been registered and before the first list call
	scs = append(scs, c20ShutCase{Name: fmt.Sprintf("s%d", len(scs)), Signal: "TERM", GraceS: 6, Phase: "before-first-poll", Finish: "inside", FinishS: 1})
	// other time-outs of the agent are shorter than the period: the period is the period
	scs = append(scs, c20ShutCase{Name: fmt.Sprintf("s%d", len(scs)), Signal: "TERM", GraceS: 4, Phase: "idle", Finish: "inside", FinishS: 1, ProxyTimeoutS: 2})
	// a backend that stays busy far beyond the period (longer than the progress bound): the process still exits when the period ends
	scs = append(scs, c20ShutCase{Name: fmt.Sprintf("s%d", len(scs)), Signal: "TERM", GraceS: 2, Phase: "at-backend", Finish: "outside", FinishS: 16})
	// a period that is not a whole number of seconds, with the backend finishing in its last second; and a second signal during the period
	scs = append(scs, c20ShutCase{Name: fmt.Sprintf("s%d", len(scs)), Signal: "TERM", GraceS: 3, GraceMs: 3900, Phase: "at-backend", Finish: "inside", FinishS: 3.3})
	scs = append(scs, c20ShutCase{Name: fmt.Sprintf("s%d", len(scs)), Signal: "INT", GraceS: 3, Phase: "at-backend", Finish: "inside", FinishS: 1.5, Second: "TERM"})
	if !r.Quick() {
		scs = append(scs, c20ShutCase{Name: fmt.Sprintf("s%d", len(scs)), Signal: "INT", GraceS: 1, GraceMs: 1800, Phase: "uploading", Finish: "inside", FinishS: 1.3},
			c20ShutCase{Name: fmt.Sprintf("s%d", len(scs)+1), Signal: "TERM", GraceS: 2, Phase: "uploading", Finish: "inside", FinishS: 1, Second: "TERM"},
			c20ShutCase{Name: fmt.Sprintf("s%d", len(scs)+2), Signal: "TERM", GraceS: 2, Phase: "idle", Finish: "inside", FinishS: 1, Second: "INT"})
	}
	if !r.Quick() {
		scs = append(scs, c20ShutCase{Name: fmt.Sprintf("s%d", len(scs)), Signal: "TERM", GraceS: 7, Phase: "uploading", Finish: "inside", FinishS: 4.5, Health: true},
			c20ShutCase{Name: fmt.Sprintf("s%d", len(scs)+1), Signal: "TERM", GraceS: 5, Phase: "at-backend", Finish: "outside", FinishS: 7, Health: true},
			c20ShutCase{Name: fmt.Sprintf("s%d", len(scs)+2), Signal: "INT", GraceS: 0, Phase: "at-backend", Finish: "inside", FinishS: 1, Health: true})
	}
	if !r.Quick() {
		// repetitions of the schedule-sensitive scenarios
		base := append([]c20ShutCase(nil), scs...)
		for rep := 0; rep < 2; rep++ {
			for _, c := range base {
				if c.GraceS > 0 {
					c.Name = fmt.Sprintf("s%d", len(scs))
					scs = append(scs, c)
				}
			}
		}
	}
	sem := make(chan struct{}, 16)
	var wg sync.WaitGroup
	var mu sync.Mutex
	var redo []c20ShutCase
	for _, c := range hcs {
		sem <- struct{}{}
		wg.Add(1)
		go func(c c20HealthCase) {
			defer wg.Done()
			defer func() { <-sem }()
			c20Health(r, agentBin, md, c)
		}(c)
	}
	for _, c := range scs {
		sem <- struct{}{}
		wg.Add(1)
		go func(c c20ShutCase) {
			defer wg.Done()
			defer func() { <-sem }()
			if !c20Shutdown(r, agentBin, md, c, false) {
				mu.Lock()
				redo = append(redo, c)
				mu.Unlock()
			}
		}(c)
	}
	type su struct {
		sig   string
		grace int
	}
	sus := []su{{"TERM", 0}, {"INT", 2}}
	if !r.Quick() {
		sus = append(sus, su{"INT", 0}, su{"TERM", 2}, su{"TERM", 5})
	}
	for i, x := range sus {
		sem <- struct{}{}
		wg.Add(1)
		go func(i int, x su) {
			defer wg.Done()
			defer func() { <-sem }()
			c20SignalDuringStartup(r, agentBin, md, fmt.Sprintf("su%d", i), x.sig, x.grace)
		}(i, x)
	}
	wg.Wait()
	for _, c := range redo {
		c.Name += "solo"
		if c20Shutdown(r, agentBin, md, c, true) {
			r.Inconclusive("shutdown scenario " + c.Name + " lost the in-flight response once but not when re-run alone")
		}
	}
	r.Set("health_histories", len(hcs))
	r.Set("shutdown_scenarios", len(scs))
	r.JudgeRaces(core.ParseRaceLogs(filepath.Join(r.WorkDir, "race-")))
	r.Finish(r.Pick(8, 100))
}

// c20SignalDuringStartup sends the signal while the agent is still waiting
// for its first passing health check: it must exit (promptly without a grace
// period, by the end of it otherwise) instead of swallowing the signal.
func c20SignalDuringStartup(r *core.Run, agentBin string, md *fakes.Metadata, name, signal string, graceS int) {
	var mu sync.Mutex
	served := 0
	backend, err := rawhttp.NewServer(func(req *rawhttp.Message, reqErr error, conn net.Conn, br *bufio.Reader) bool {
		if reqErr != nil {
			return false
		}
		var w rawhttp.Builder
		w.Line("HTTP/1.1 503 Unhealthy").Field("Content-Length", "0").End()
		conn.Write(w.Bytes())
		mu.Lock()
		served++
		mu.Unlock()
		return true
	})
	if err != nil {
		r.Broken(err.Error())
		return
	}
	defer backend.Close()
	px, err := fakes.NewProxy()
	if err != nil {
		r.Broken(err.Error())
		return
	}
	defer px.Close()
	args := []string{"--health-check-path=/healthz", "--health-check-interval-seconds=1", "--health-check-unhealthy-threshold=2"}
	if graceS > 0 {
		args = append(args, fmt.Sprintf("--graceful-shutdown-timeout=%ds", graceS))
	}
	agent, err := startAgent(r, agentBin, "agent-"+name, md, px.URL(), backend.Addr(), "b20-"+name, args...)
	if err != nil {
		r.Broken(err.Error())
		return
	}
	defer agent.Kill()
	// wait until at least two failing health replies were served (the agent is in its start-up wait)
	deadline := time.Now().Add(20 * time.Second)
	for {
		mu.Lock()
		n := served
		mu.Unlock()
		if n >= 2 {
			break
		}
		if !agent.Alive() || time.Now().After(deadline) {
			r.Inconclusive("start-up signal scenario " + name + ": the agent did not reach its health wait")
			return
		}
		time.Sleep(10 * time.Millisecond)
	}
	sig := syscall.SIGINT
	if signal == "TERM" {
		sig = syscall.SIGTERM
	}
	tSig := time.Now()
	agent.Signal(sig)
	r.Case(fmt.Sprintf("shutdown|%s|grace=%d|waiting-for-first-healthy|-", signal, graceS))
	select {
	case <-agent.Done():
		r.Max("max_exit_latency_ms_signal_during_startup", int(time.Since(tSig).Milliseconds()))
	case <-time.After(time.Duration(graceS)*time.Second + 10*time.Second):
		r.Violate("C20:signal-swallowed-during-startup:"+signal, fmt.Sprintf("scenario %s: SIG%s arrived while the agent was waiting for its first passing health check (grace period %ds); it was still running %v later", name, signal, graceS, time.Since(tSig).Round(time.Millisecond)), nil, nil)
	}
	if px.Lists() > 0 {
		r.Violate("C20:polled-before-healthy", fmt.Sprintf("scenario %s: the proxy received %d list calls although no health check ever passed", name, px.Lists()), nil, nil)
	}
}
