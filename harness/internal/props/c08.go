package props

import "verif/internal/core"

// C08 — stub, replaced by the real check.
func C08(r *core.Run) {
	r.Broken("check not implemented yet")
	r.Finish(1)
}
