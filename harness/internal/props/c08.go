package props

import (
	"bufio"
	"bytes"
	"encoding/json"
	"fmt"
	"net/http"
	"path/filepath"
	"sort"
	"strings"
	"sync"
	"time"

	"verif/internal/core"
	"verif/internal/fakes"
)

// c08Base is the independent specification of the un-jittered delay in ns:
// doubling from 1 ms, capped at 3 s.
func c08Base(n uint64) int64 {
	const ms, cap = int64(1000000), int64(3000000000)
	if n >= 12 {
		return cap
	}
	b := ms << n
	if b > cap {
		return cap
	}
	return b
}

// C08 — backoff delays are bounded and strictly positive.
func C08(r *core.Run) {
	r.SetRule("pure part: utils.ExponentialBackoffDuration(n) in a race-built worker for n in 0..70, around 2^31, 2^32, 2^63, 2^64-1 and random 64-bit values, many draws each, against an independent integer specification (0 < 0.9*base-1ns <= d <= 1.1*base+1ns, base = min(2^n ms, 3 s)); black-box part: real agent against a fake proxy failing list calls by script (500 / garbage / reset), arrival gaps judged only by load-safe inequalities (gap_i >= 0.9*base(i); reset after success shown by a short gap after 11 failures + 1 success); class = n (pure) or (script, failure kind)")
	r.Assume("a gap can only be lengthened by load, so lower bounds are load-safe; the reset clause is reported only if the long gap repeats in 3 independent repetitions; the soft upper bound on gaps never decides")
	bin := r.MustBuild(r.BuildWorker())
	agentBin := r.MustBuild(r.BuildRepoBinary("./agent", "agent"))

	// ---- pure part
	rng := r.Rand("c08")
	var ns []uint64
	for n := uint64(0); n <= 70; n++ {
		ns = append(ns, n)
	}
	for _, p := range []uint64{1 << 31, 1 << 32, 1 << 63} {
		ns = append(ns, p-1, p, p+1)
	}
	ns = append(ns, ^uint64(0), ^uint64(0)-1)
	for i := 0; i < r.Pick(200, 20000); i++ {
		ns = append(ns, rng.Uint64()>>uint(rng.Intn(64)))
	}
	draws := r.Pick(60, 100)
	spec, _ := json.Marshal(map[string]interface{}{"ns": ns, "draws": draws})
	out, logPath, err := r.RunWorker(bin, "c08", spec, 5*time.Minute)
	if err != nil {
		for _, ex := range core.CrashMarkers(logPath) {
			r.Violate(core.CrashSignature(ex), "backoff computation crashed: "+ex, nil, nil)
		}
		if len(core.CrashMarkers(logPath)) == 0 {
			r.Broken("c08 worker: " + err.Error())
		}
	}
	sc := bufio.NewScanner(bytes.NewReader(out))
	calls := 0
	for sc.Scan() {
		var res struct {
			N     uint64 `json:"n"`
			Min   int64  `json:"min_ns"`
			Max   int64  `json:"max_ns"`
			Panic string `json:"panic"`
		}
		if json.Unmarshal(sc.Bytes(), &res) != nil {
			continue
		}
		calls += draws
		cls := fmt.Sprintf("pure|n=%d", res.N)
		if res.N > 70 {
			cls = "pure|n>70"
		}
		r.Cases(cls, 1)
		base := c08Base(res.N)
		lo, hi := base/10*9-1, base/10*11+1
		if res.Panic != "" {
			r.Violate("C08:pure:panic", fmt.Sprintf("ExponentialBackoffDuration(%d) panicked: %s", res.N, res.Panic), res, nil)
			continue
		}
		if res.Min <= 0 {
			r.Violate("C08:pure:non-positive", fmt.Sprintf("ExponentialBackoffDuration(%d) returned %d ns", res.N, res.Min), res, nil)
		} else if res.Min < lo || res.Max > hi {
			which := "n<=11"
			if res.N > 11 {
				which = "n>11"
			}
			r.Violate("C08:pure:out-of-range:"+which, fmt.Sprintf("ExponentialBackoffDuration(%d) in [%d,%d] ns, allowed [%d,%d] ns", res.N, res.Min, res.Max, lo, hi), res, nil)
		}
		if res.N == 3 || res.N == 40 {
			r.Sample(res)
		}
	}
	r.Set("pure_calls", calls)

	// ---- black-box part
	md, err := fakes.NewMetadata()
	if err != nil {
		r.Broken(err.Error())
		r.Finish(1)
	}
	defer md.Close()
	kinds := []string{"500", "503-empty-body", "garbage", "reset", "long-outage", "mixed", "404-empty-body", "500", "hang", "completions-during-outage", "error-text-looks-like-cancellation", "same-id-relisted"}
	nScripts := r.Pick(12, 24)
	var wg sync.WaitGroup
	for si := 0; si < nScripts; si++ {
		wg.Add(1)
		go func(si int) {
			defer wg.Done()
			kind := kinds[si%len(kinds)]
			suspect := 0
			reps := 0
			for rep := 0; rep < 3; rep++ {
				reps++
				long, ok := c08Script(r, agentBin, md, si, rep, kind)
				if !ok {
					return
				}
				if !long {
					break
				}
				suspect++
			}
			if suspect == 3 {
				r.Violate("C08:no-reset-after-success", fmt.Sprintf("script %d (%s): after 11 consecutive failures and one success the next failure was followed by a gap >= 0.9*base(11)=1.84s in 3 of 3 repetitions (the shortest delay is ~1ms)", si, kind), nil, nil)
			} else if suspect > 0 {
				r.Inconclusive(fmt.Sprintf("script %d: long gap after success in %d of %d repetitions", si, suspect, reps))
			}
		}(si)
	}
	wg.Wait()
	// schedule after a success: a median ratio beyond 1.5 (or below 0.66) in at least two independent agent runs
	var shifted []string
	c08Shifts.Range(func(k, v interface{}) bool {
		shifted = append(shifted, fmt.Sprintf("run %v: median ratio %.2f", k, v))
		return true
	})
	sort.Strings(shifted)
	if len(shifted) >= 2 {
		r.Violate("C08:schedule-after-success-differs", fmt.Sprintf("the delays of a failure streak that follows a successful list call differ from the cold-start schedule (gaps 7..11 of the second streak divided by the same gaps of the first, same agent): %s", strings.Join(shifted, "; ")), nil, nil)
	} else if len(shifted) == 1 {
		r.Inconclusive("one agent run showed a shifted schedule after a success: " + shifted[0])
	}
	r.JudgeRaces(core.ParseRaceLogs(filepath.Join(r.WorkDir, "race-")))
	r.Finish(r.Pick(100, 5000))
}

var c08Shifts sync.Map

// c08Script runs: F=11 failures, 1 success, 3 failures, 1 success, 2 failures
// and judges the arrival gaps. Returns whether the gap after the first
// post-success failure was long (>= 0.9*base(11)).
func c08Script(r *core.Run, agentBin string, md *fakes.Metadata, si, rep int, kind string) (long bool, ok bool) {
	scheduleShift := 0.0
	defer func() {
		if scheduleShift != 0 {
			c08Shifts.Store(fmt.Sprintf("%d-%d", si, rep), scheduleShift)
		}
	}()
	px, err := fakes.NewProxy()
	if err != nil {
		r.Broken(err.Error())
		return false, false
	}
	defer px.Close()
	px.ListWait = 20 * time.Millisecond
	script := []bool{}
	nf := 11
	if kind == "long-outage" {
		// well past the point where the delay has reached its ~3 s cap: it must stay there however long the outage lasts
		nf = r.Pick(16, 22)
	}
	for i := 0; i < nf; i++ {
		script = append(script, false)
	}
	if kind == "500" {
		// a second streak as long as the first: after a success the schedule must be the same as from a cold start
		script = append(script, true)
		for i := 0; i < nf; i++ {
			script = append(script, false)
		}
		script = append(script, true)
	} else {
		script = append(script, true, false, false, false, true, false, false, true)
	}
	resetIdx := nf + 1 // index of the first failure after the first success
	backendAddr := "127.0.0.1:1"
	var extra []string
	var slowIDs []string
	if kind == "hang" {
		// the proxy accepts the list call and never answers: every call ends in the agent's own (short) time-out
		extra = []string{"--proxy-timeout=300ms"}
	}
	if kind == "completions-during-outage" {
		// the first list call succeeds and hands out three slow requests; the list endpoint then fails for good while
		// fetches and uploads keep working, so requests complete in the middle of the back-off ramp
		script = append([]bool{true}, script...)
		resetIdx++
		tb, err := newTokBackend()
		if err != nil {
			r.Broken(err.Error())
			return false, false
		}
		defer tb.Srv.Close()
		backendAddr = tb.Srv.Addr()
		for k, d := range []int{700, 1500, 2600} {
			id := fmt.Sprintf("s%dc8slow%d-%d-%d", r.Seed, si, rep, k)
			slowIDs = append(slowIDs, id)
			px.Store(id, tokRequest("GET", id, 50, d, "c08.example", nil, nil), "")
		}
	}
	relist := false
	if kind == "same-id-relisted" {
		// the first list call hands out one request that stays at the backend for the whole script, and every later
		// successful list call names that same, still unanswered request again (as the proxy does): such a reply is a
		// success like any other - the failure streak that follows it starts from the shortest delay
		script = append([]bool{true}, script...)
		resetIdx++
		relist = true
		tb, err := newTokBackend()
		if err != nil {
			r.Broken(err.Error())
			return false, false
		}
		defer tb.Srv.Close()
		backendAddr = tb.Srv.Addr()
		id := fmt.Sprintf("s%dc8held%d-%d", r.Seed, si, rep)
		slowIDs = append(slowIDs, id)
		px.Store(id, tokRequest("GET", id, 50, 40000, "c08.example", nil, nil), "")
	}
	var mu sync.Mutex
	var arrivals []time.Time
	idx := 0
	px.OnList = func(w http.ResponseWriter, req *http.Request) bool {
		mu.Lock()
		arrivals = append(arrivals, time.Now())
		i := idx
		idx++
		mu.Unlock()
		// One connection per list call: Go's transport transparently re-sends an idempotent request
		// when a *reused* connection is reset, which would show up as a second arrival without a sleep.
		w.Header().Set("Connection", "close")
		if (i == 0 || relist && (i >= len(script) || script[i])) && len(slowIDs) > 0 {
			b, _ := json.Marshal(slowIDs)
			w.WriteHeader(200)
			w.Write(b)
			return true
		}
		if i >= len(script) || script[i] {
			return false // success: default empty list
		}
		if kind == "hang" {
			select {
			case <-req.Context().Done():
			case <-time.After(5 * time.Second):
			}
			return true
		}
		k := kind
		if k == "long-outage" || k == "completions-during-outage" || k == "same-id-relisted" {
			k = "500"
		}
		if k == "mixed" {
			k = []string{"500", "garbage", "reset", "503-empty-body"}[i%4]
		}
		if k == "500" || k == "503-empty-body" {
			// failing replies may carry advice the agent's back-off must not be shortened by
			if v := []string{"0", "Wed, 21 Oct 2015 07:28:00 GMT", "", "1"}[i%4]; v != "" {
				w.Header().Set("Retry-After", v)
			}
		}
		switch k {
		case "error-text-looks-like-cancellation":
			// failing replies whose bodies quote errors of the proxy's own back ends
			st := []int{500, 401, 503, 499}[i%4]
			http.Error(w, []string{"context canceled", "rpc error: code = Canceled desc = context canceled", "Post \"http://store/\": context deadline exceeded", "operation was canceled; EOF; connection reset by peer; i/o timeout"}[i%4], st)
		case "500":
			http.Error(w, "scripted failure", 500)
		case "503-empty-body":
			w.WriteHeader(503) // a bare error status, as a load balancer in front of the proxy would send
		case "404-empty-body":
			w.WriteHeader(404)
		case "garbage":
			w.WriteHeader(200)
			w.Write([]byte(`{"not":"a list"`))
		case "reset":
			if hj, ok := w.(http.Hijacker); ok {
				c, _, _ := hj.Hijack()
				c.Close()
			}
		}
		return true
	}
	agent, err := startAgent(r, agentBin, fmt.Sprintf("agent8-%d-%d", si, rep), md, px.URL(), backendAddr, fmt.Sprintf("b8-%d", si), extra...)
	if err != nil {
		r.Broken(err.Error())
		return false, false
	}
	defer agent.Kill()
	deadline := time.Now().Add(90 * time.Second)
	for time.Now().Before(deadline) {
		mu.Lock()
		n := len(arrivals)
		mu.Unlock()
		if n > len(script) {
			break
		}
		time.Sleep(20 * time.Millisecond)
	}
	mu.Lock()
	arr := append([]time.Time(nil), arrivals...)
	mu.Unlock()
	if len(arr) <= len(script) {
		if !agent.Alive() {
			judgeProcs(r, true, agent)
		}
		r.Inconclusive(fmt.Sprintf("script %d: only %d of %d list calls arrived within 90s", si, len(arr), len(script)+1))
		return false, true
	}
	// gaps: after the k-th consecutive failure (k=1..) the agent sleeps base(k-1)
	consec := 0
	var gaps []int64
	var streaks [][]time.Duration
	for i := 0; i < len(script); i++ {
		gap := arr[i+1].Sub(arr[i])
		if script[i] {
			consec = 0
			continue
		}
		consec++
		if consec == 1 {
			streaks = append(streaks, nil)
		}
		streaks[len(streaks)-1] = append(streaks[len(streaks)-1], gap)
		base := c08Base(uint64(consec - 1))
		gaps = append(gaps, gap.Microseconds())
		r.Cases(fmt.Sprintf("blackbox|%s|failure#%d", kind, consec), 1)
		if i == resetIdx {
			// first failure after the first success: reset clause
			if gap.Nanoseconds() >= c08Base(11)/10*9 {
				long = true
			}
			continue
		}
		if gap.Nanoseconds() < base/10*9 {
			r.Violate("C08:gap-too-short", fmt.Sprintf("script %d (%s): after %d consecutive failures the next list call arrived after %v, less than 0.9*%v (busy loop / missing sleep)", si, kind, consec, gap, time.Duration(base)), nil, gaps)
		}
		if !r.Quick() && gap.Nanoseconds() > base/10*11+2000000000 {
			r.Inconclusive(fmt.Sprintf("script %d: gap %v after %d failures exceeds 1.1*base+2s (soft bound, load-dependent)", si, gap, consec))
		}
	}
	// Same schedule after a success as from a cold start: compare the k-th gaps of two full streaks of one agent (both carry
	// the same list-call overhead, so load cancels out to first order); with +-10% jitter their ratio stays within 0.82..1.22.
	if len(streaks) >= 2 && len(streaks[0]) >= 11 && len(streaks[1]) >= 11 {
		var ratios []float64
		for k := 6; k <= 10; k++ {
			ratios = append(ratios, float64(streaks[1][k])/float64(streaks[0][k]))
		}
		sort.Float64s(ratios)
		if med := ratios[len(ratios)/2]; med > 1.5 || med < 0.66 {
			scheduleShift = med
		}
		r.Cases("blackbox|second-streak-after-success-vs-cold-start", 1)
	}
	if rep == 0 && si == 0 {
		r.Sample(map[string]interface{}{"script": "11 failures, success, 3 failures, success, 2 failures, success", "kind": kind, "gaps_us_after_each_failure": gaps})
	}
	r.Add("list_calls_timed", len(arr))
	return long, true
}
