package props

import (
	"bufio"
	"fmt"
	"io"
	"net"
	"path/filepath"
	"regexp"
	"sort"
	"strings"
	"sync"
	"sync/atomic"
	"time"

	"verif/internal/core"
	"verif/internal/fakes"
	"verif/internal/rawhttp"
)

// e1 is the real server + real agent + scripted backend topology.
type e1 struct {
	r       *core.Run
	md      *fakes.Metadata
	backend *tokBackend
	server  *core.Proc
	agent   *core.Proc
	addr    string // server address
}

func (t *e1) close() {
	killAll(t.agent, t.server)
	if t.backend != nil {
		t.backend.Srv.Close()
	}
}

// startE1 brings the topology up and waits until a probe request is served.
func startE1(r *core.Run, md *fakes.Metadata, serverBin, agentBin, tag string, agentArgs ...string) (*e1, error) {
	return startE1Env(r, md, serverBin, agentBin, tag, nil, agentArgs...)
}

// startE1Env is startE1 with extra environment for the server (hook delays).
func startE1Env(r *core.Run, md *fakes.Metadata, serverBin, agentBin, tag string, serverEnv []string, agentArgs ...string) (*e1, error) {
	t := &e1{r: r, md: md}
	var err error
	if t.backend, err = newTokBackend(); err != nil {
		return nil, err
	}
	if t.server, t.addr, err = startServer(r, serverBin, "server-"+tag, serverEnv...); err != nil {
		t.close()
		return nil, err
	}
	if t.agent, err = startAgent(r, agentBin, "agent-"+tag, md, "http://"+t.addr+"/", t.backend.Srv.Addr(), "b-"+tag, agentArgs...); err != nil {
		t.close()
		return nil, err
	}
	// readiness probe
	deadline := time.Now().Add(30 * time.Second)
	for {
		c := rawhttp.NewClient(t.addr, 3*time.Second)
		m, err := c.Do(tokRequest("GET", "probe"+tag, 10, 0, "probe.example", nil, nil), "GET")
		c.Close()
		if err == nil && len(checkTokResponse(m, "GET", "probe"+tag, 10)) == 0 {
			return t, nil
		}
		if !t.agent.Alive() || !t.server.Alive() {
			lg := t.agent.Log()
			t.close()
			return nil, fmt.Errorf("topology died during start-up: %s", core.Trunc(lg, 1500))
		}
		if time.Now().After(deadline) {
			t.close()
			return nil, fmt.Errorf("topology not ready after 30s (last: %v)", err)
		}
		time.Sleep(100 * time.Millisecond)
	}
}

var newIDRe = regexp.MustCompile(`Received new frontend request "([0-9a-f]+)"`)

// C01 — every client gets the response to its own request.
func C01(r *core.Run) {
	r.SetRule("K concurrent raw clients send token requests (GET/POST, bodies 0..256KiB quick / ..4MiB thorough, backend latency and response = f(token)) through real server+agent; a case is one request; class = (method, request-size class, response-size class, concurrency level, aborted?)")
	r.Assume("the scripted backend and raw clients are correct; loopback TCP")
	serverBin := r.MustBuild(r.BuildRepoBinary("./server", "server"))
	agentBin := r.MustBuild(r.BuildRepoBinary("./agent", "agent"))
	md, err := fakes.NewMetadata()
	if err != nil {
		r.Broken(err.Error())
		r.Finish(1)
	}
	defer md.Close()

	laneDone := make(chan struct{})
	go func() {
		defer close(laneDone)
		var lw sync.WaitGroup
		lw.Add(1)
		go func() { defer lw.Done(); c01Dependent(r, md, serverBin, agentBin) }()
		lw.Add(1)
		go func() { defer lw.Done(); c01LateAgent(r, md, serverBin, agentBin) }()
		lw.Add(1)
		go func() { defer lw.Done(); c01ProxyRestart(r, md, serverBin, agentBin) }()
		c01ShortTimeout(r, md, serverBin, agentBin)
		lw.Wait()
	}()
	defer func() { <-laneDone }()

	rng := r.Rand("c01")
	rounds := r.Pick(5, 30)
	perClient := r.Pick(40, 60)
	levels := []int{1, 4, 16, 64, 128}
	reqSizes := []int{0, 0, 1, 100, 4096, 65537, 256 << 10}
	respSizes := []int{0, 1, 100, 4095, 4097, 40000, 256 << 10}
	if !r.Quick() {
		reqSizes = append(reqSizes, 1<<20, 4<<20)
		respSizes = append(respSizes, 1<<20, 4<<20)
	}
	permSigs := map[string]struct{}{}
	totalIDs := map[string]int{}
	multiList := 0

	for round := 0; round < rounds; round++ {
		if r.Violations() > 0 && round >= 2 {
			break // refuted already; further rounds would only add witnesses (and client time-outs)
		}
		K := levels[round%len(levels)]
		if r.Quick() && K == 128 {
			K = 64
		}
		var senv []string
		if round%2 == 1 {
			// widen the window after ID generation in every other round
			senv = []string{"VERIF_HOOK_DELAYS=server.id.new=1ms@30"}
		}
		// one round in five runs the agent with the websocket shim's response hook installed and serves HTML pages
		shimRound := round%5 == 3
		var aargs []string
		if shimRound {
			aargs = []string{"--shim-websockets=true", "--shim-path=shim"}
		}
		t, err := startE1Env(r, md, serverBin, agentBin, fmt.Sprintf("r%d", round), senv, aargs...)
		if err != nil {
			r.Broken("start: " + err.Error())
			break
		}
		type result struct {
			tok, method   string
			size, reqSize int
			bad           []string
			err           error
			aborted       bool
			ms            int64
		}
		type plan struct {
			Tok, Method              string
			RespSize, Delay, ReqSize int
			Abort                    bool
			AbortMid                 bool // the client walks away in the middle of a dribbled response
		}
		plans := make([][]plan, K)
		n := perClient
		if K >= 64 {
			n = perClient / 2
		}
		for c := 0; c < K; c++ {
			for i := 0; i < n; i++ {
				p := plan{Tok: fmt.Sprintf("s%dr%dc%di%d", r.Seed, round, c, i), Method: "GET"}
				if shimRound && i%2 == 0 {
					p.Tok += "H" // an HTML page (see tokResponseFor)
				}
				if rng.Intn(2) == 0 {
					p.Method = "POST"
					p.ReqSize = reqSizes[rng.Intn(len(reqSizes))]
				}
				p.RespSize = respSizes[rng.Intn(len(respSizes))]
				if p.RespSize > 300<<10 && K > 16 {
					p.RespSize = 40000
				}
				if p.ReqSize > 300<<10 && K > 16 {
					p.ReqSize = 65537
				}
				p.Delay = []int{0, 0, 1, 5, 20, 50}[rng.Intn(6)]
				p.Abort = rng.Intn(25) == 0
				if !p.Abort && rng.Intn(12) == 0 {
					p.AbortMid = true
					p.RespSize = 40000
				}
				plans[c] = append(plans[c], p)
			}
		}
		var results []result
		var mu sync.Mutex
		var wg sync.WaitGroup
		// barrier-released bursts: all clients wait for step i before sending request i
		var step int64
		var lost int64
		var mainWg sync.WaitGroup
		mainDone := make(chan struct{})
		for c := 0; c < K; c++ {
			wg.Add(1)
			mainWg.Add(1)
			go func(c int) {
				defer wg.Done()
				defer mainWg.Done()
				cl := rawhttp.NewClient(t.addr, time.Duration(r.Pick(12, 30))*time.Second)
				defer cl.Close()
				for i, p := range plans[c] {
					if i%4 == 0 { // every 4th request is a synchronised burst
						atomic.AddInt64(&step, 1)
						for d := time.Now().Add(200 * time.Millisecond); atomic.LoadInt64(&step) < int64((i/4+1)*K) && time.Now().Before(d); {
							time.Sleep(200 * time.Microsecond)
						}
					}
					var body []byte
					if p.Method == "POST" {
						body = tokBytes(p.Tok, "req", p.ReqSize)
					}
					// correlation-style headers shared by several concurrent requests: they must never act as keys
					extra := []rawhttp.Field{{Name: "X-Request-Id", Value: fmt.Sprintf("rid-%d", c%3)}, {Name: "X-Correlation-Id", Value: "shared"}}
					if i%3 == 0 {
						extra = nil
					}
					raw := tokRequest(p.Method, p.Tok, p.RespSize, p.Delay, "h"+p.Tok+".example", body, extra)
					if p.AbortMid {
						// read the beginning of a dribbled response, then disappear while the backend keeps producing
						rawp := tokRequest(p.Method, p.Tok, p.RespSize, p.Delay, "h"+p.Tok+".example", body, append(extra, rawhttp.Field{Name: ":paced"}))
						if conn, err := net.DialTimeout("tcp", t.addr, 5*time.Second); err == nil {
							conn.Write(rawp)
							conn.SetReadDeadline(time.Now().Add(3 * time.Second))
							if tokHash(p.Tok)%2 == 0 {
								buf := make([]byte, 3000)
								io.ReadAtLeast(conn, buf, 1500)
							} else {
								// ... or shortly before its end: the proxy notices the dead client while the last chunks and the trailers are being relayed
								io.CopyN(io.Discard, conn, int64(p.RespSize-2048*int(1+tokHash(p.Tok)%3)))
							}
							conn.Close()
						}
						mu.Lock()
						results = append(results, result{tok: p.Tok, method: p.Method, size: p.RespSize, reqSize: p.ReqSize, aborted: true})
						mu.Unlock()
						continue
					}
					if p.Abort {
						// send and walk away: the response must reach nobody else
						if conn, err := net.DialTimeout("tcp", t.addr, 5*time.Second); err == nil {
							conn.Write(raw)
							time.Sleep(time.Duration(p.Delay%3) * time.Millisecond)
							conn.Close()
						}
						mu.Lock()
						results = append(results, result{tok: p.Tok, method: p.Method, size: p.RespSize, reqSize: p.ReqSize, aborted: true})
						mu.Unlock()
						continue
					}
					if atomic.LoadInt64(&lost) >= 8 {
						break // responses are being lost in this round: do not sit out 30 s for every remaining request
					}
					t0 := time.Now()
					m, err := cl.Do(raw, p.Method)
					if err != nil {
						atomic.AddInt64(&lost, 1)
					}
					res := result{tok: p.Tok, method: p.Method, size: p.RespSize, reqSize: p.ReqSize, err: err, ms: time.Since(t0).Milliseconds()}
					if err == nil {
						res.bad = checkTokResponse(m, p.Method, p.Tok, p.RespSize)
					}
					mu.Lock()
					results = append(results, res)
					mu.Unlock()
				}
			}(c)
		}
		// alongside: clients that walk away 1-12 KiB before the end of a dribbled response (the proxy then learns of the
		// dead client while the last chunks and the trailers of that response are still being relayed)
		for k := 0; k < 96; k++ {
			wg.Add(1)
			go func(k int) {
				defer wg.Done()
				time.Sleep(time.Duration(k*7) * time.Millisecond)
				tok := fmt.Sprintf("s%dr%dlate%d", r.Seed, round, k)
				raw := tokRequest("GET", tok, 40000, 0, "h"+tok+".example", nil, []rawhttp.Field{{Name: ":paced"}})
				if conn, err := net.DialTimeout("tcp", t.addr, 5*time.Second); err == nil {
					conn.Write(raw)
					conn.SetReadDeadline(time.Now().Add(5 * time.Second))
					io.CopyN(io.Discard, conn, int64(40000-512*(1+k%24)))
					conn.Close()
				}
				mu.Lock()
				results = append(results, result{tok: tok, method: "GET", size: 40000, aborted: true})
				mu.Unlock()
			}(k)
		}
		// ... and two clients whose requests nominate, in their own Connection field, names that every other request of the round
		// uses end to end (X-Tok, and the response's trailer name): what one client declares hop-by-hop for its own message
		// must not touch anybody else's
		for k := 0; k < 2; k++ {
			wg.Add(1)
			go func(k int) {
				defer wg.Done()
				time.Sleep(time.Duration(60+k*400) * time.Millisecond)
				tok := fmt.Sprintf("s%dr%dnom%d", r.Seed, round, k)
				raw := tokRequest("GET", tok, 2000, 0, "h"+tok+".example", nil, []rawhttp.Field{{Name: "Connection", Value: []string{"X-Tok, X-Tok-Trailer", "keep-alive, x-tok, Set-Cookie, X-Tok-Trailer"}[k]}})
				cl := rawhttp.NewClient(t.addr, 12*time.Second)
				defer cl.Close()
				t0 := time.Now()
				m, err := cl.Do(raw, "GET")
				res := result{tok: tok, method: "GET", size: 2000, err: err, ms: time.Since(t0).Milliseconds()}
				if err == nil {
					res.bad = checkTokResponse(m, "GET", tok, 2000)
				}
				mu.Lock()
				results = append(results, res)
				mu.Unlock()
			}(k)
		}
		// ... and uploads that pause: the client sends a good part of a 60-90 KB body and then nothing for as long as the
		// round's other clients are at work (25 s at most), then the rest; everybody else must be served meanwhile, and
		// the paused upload's own response must be its own
		go func() { mainWg.Wait(); close(mainDone) }()
		for k := 0; k < 3; k++ {
			wg.Add(1)
			go func(k int) {
				defer wg.Done()
				time.Sleep(time.Duration(350+k*300) * time.Millisecond)
				tok := fmt.Sprintf("s%dr%dpause%d", r.Seed, round, k)
				size, reqSize := 300+k*4000, 60000+k*15000
				full := tokRequest("POST", tok, size, 0, "h"+tok+".example", tokBytes(tok, "req", reqSize), nil)
				res := result{tok: tok, method: "POST", size: size, reqSize: reqSize}
				t0 := time.Now()
				conn, err := net.DialTimeout("tcp", t.addr, 5*time.Second)
				if err == nil {
					cut := len(full) - reqSize/2
					conn.Write(full[:cut])
					select {
					case <-mainDone:
					case <-time.After(25 * time.Second):
					}
					paused := time.Since(t0)
					conn.SetDeadline(time.Now().Add(20 * time.Second))
					conn.Write(full[cut:])
					var m *rawhttp.Message
					m, err = rawhttp.ReadResponse(bufio.NewReader(conn), "POST")
					conn.Close()
					if err == nil {
						res.bad = checkTokResponse(m, "POST", tok, size)
						r.Add("paused_uploads_completed_and_compared", 1)
						r.Max("longest_upload_pause_ms", int(paused.Milliseconds()))
					}
				}
				// the completion time of a paused upload is the round's length: not part of the latency statistics;
				// an unanswered one is reported as inconclusive below (ms stays 0), never as a lost response
				res.err = err
				mu.Lock()
				results = append(results, res)
				mu.Unlock()
			}(k)
		}
		// ... and clients that announce an upload, send only part of it and disconnect (whatever the proxy and the agent do
		// with the truncated request must not leak into anybody else's exchange)
		for k := 0; k < 16; k++ {
			wg.Add(1)
			go func(k int) {
				defer wg.Done()
				time.Sleep(time.Duration(k*23) * time.Millisecond)
				tok := fmt.Sprintf("s%dr%dpart%d", r.Seed, round, k)
				full := tokRequest("POST", tok, 300+k*977, 0, "h"+tok+".example", tokBytes(tok, "req", 20000+k*3000), nil)
				if conn, err := net.DialTimeout("tcp", t.addr, 5*time.Second); err == nil {
					conn.Write(full[:len(full)-(15000+k*1000)])
					time.Sleep(time.Duration(30+k*5) * time.Millisecond)
					conn.Close()
				}
				mu.Lock()
				results = append(results, result{tok: tok, method: "POST", size: 300 + k*977, reqSize: 20000 + k*3000, aborted: true})
				mu.Unlock()
			}(k)
		}
		wg.Wait()
		time.Sleep(100 * time.Millisecond)

		// oracle 1: every client saw only its own token sites
		var okMs []int64
		for _, res := range results {
			if !res.aborted && res.err == nil && !strings.Contains(res.tok, "pause") {
				okMs = append(okMs, res.ms)
			}
		}
		sort.Slice(okMs, func(a, b int) bool { return okMs[a] < okMs[b] })
		p95 := int64(0)
		if len(okMs) > 0 {
			p95 = okMs[len(okMs)*95/100]
		}
		for _, res := range results {
			cls := fmt.Sprintf("%s/req%s/resp%s/K%d/abort=%v", res.method, sizeClass(res.reqSize), sizeClass(res.size), K, res.aborted)
			r.Case(cls)
			if res.aborted {
				continue
			}
			if res.err != nil {
				// A response that has not arrived after the client deadline is lost if the round
				// was otherwise fast (the bound scales with what this machine did under this load:
				// 95% of the round's requests finished 8x faster than the time this one waited).
				if len(okMs) >= 20 && res.ms >= 5000 && p95*8 < res.ms {
					r.Violate("C01:no-response", fmt.Sprintf("client %s got no response after %d ms (95%% of the %d answered requests of the round took <= %d ms): %v", res.tok, res.ms, len(okMs), p95, res.err), res, nil)
				} else {
					r.Inconclusive(fmt.Sprintf("client %s got no parsable response: %v", res.tok, res.err))
				}
				continue
			}
			if len(res.bad) > 0 {
				r.Violate("C01:client-saw-foreign-or-altered-response", fmt.Sprintf("client %s: %v", res.tok, res.bad), res, nil)
			}
		}
		// oracle 2: backend saw each token at most once with matching header token and body
		seen := t.backend.Seen()
		count := map[string]int{}
		var order []string
		for _, s := range seen {
			if s.Tok == "" || len(s.Tok) > 5 && s.Tok[:5] == "probe" {
				continue
			}
			count[s.Tok]++
			order = append(order, s.Tok)
			if strings.Contains(s.Tok, "nom") {
				continue // this client declared its own X-Tok field hop-by-hop
			}
			if len(s.HdrTok) != 1 || s.HdrTok[0] != s.Tok {
				r.Violate("C01:backend-request-mixed", fmt.Sprintf("backend saw path token %s with header token %v", s.Tok, s.HdrTok), s, nil)
			}
		}
		for tok, n := range count {
			if n > 1 {
				r.Violate("C01:request-delivered-twice", fmt.Sprintf("backend saw token %s %d times", tok, n), nil, nil)
			}
		}
		for _, res := range results {
			if !res.aborted && res.err == nil && count[res.tok] != 1 {
				r.Violate("C01:response-without-backend-visit", fmt.Sprintf("client %s got a response but backend saw the token %d times", res.tok, count[res.tok]), nil, nil)
			}
		}
		// oracle 3: request IDs pairwise distinct
		ids := newIDRe.FindAllStringSubmatch(t.server.Log(), -1)
		local := map[string]int{}
		for _, m := range ids {
			local[m[1]]++
			totalIDs[m[1]]++
		}
		for id, n := range local {
			if n > 1 {
				r.Violate("C01:duplicate-request-id", fmt.Sprintf("request ID %s assigned %d times in one server run", id, n), nil, nil)
			}
		}
		multiList += len(regexp.MustCompile(`Reporting pending requests: \[[^\]]*,`).FindAllString(t.server.Log(), -1))
		r.Add("request_ids_seen", len(ids))
		r.Max("max_in_flight_at_backend", t.backend.MaxInFlight())
		// interleaving signature: first 12 arrivals' client order
		if len(order) > 12 {
			order = order[:12]
		}
		permSigs[fmt.Sprint(order)] = struct{}{}
		if round == 0 {
			r.Sample(map[string]interface{}{"round": round, "clients": K, "first_requests": plans[0][:min(3, len(plans[0]))]})
		}
		judgeProcs(r, true, t.server, t.agent)
		time.Sleep(250 * time.Millisecond) // let the hook counters be flushed
		r.Add("hook_hits_server.id.new", hookHits(r, fmt.Sprintf("server-r%d", round))["server.id.new"])
		t.close()
	}
	<-laneDone
	r.JudgeRaces(core.ParseRaceLogs(filepath.Join(r.WorkDir, "race-")))
	r.Set("arrival_order_signatures", len(permSigs))
	r.Set("list_replies_with_multiple_ids", multiList)
	r.Set("distinct_request_ids", len(totalIDs))
	r.Finish(r.Pick(100, 2000))
}

func sizeClass(n int) string {
	switch {
	case n == 0:
		return "0"
	case n < 4096:
		return "<4k"
	case n < 32768:
		return "<32k"
	case n < 1<<20:
		return "<1M"
	default:
		return ">=1M"
	}
}

// c01ShortTimeout runs the topology with an agent whose --proxy-timeout is far
// shorter than the proxy's 30 s long poll and than some backend latencies: the
// agent then keeps abandoning pending-list polls and re-opening response
// uploads, and every client must still receive its own response.  Responses
// are small (well below the 4 KiB upload replay limit) and backend latencies
// stay below twice the time-out, so that the three upload attempts suffice.
func c01ShortTimeout(r *core.Run, md *fakes.Metadata, serverBin, agentBin string) {
	const timeout = 2 * time.Second
	t, err := startE1(r, md, serverBin, agentBin, "st", "--proxy-timeout="+timeout.String())
	if err != nil {
		r.Broken("short-timeout lane start: " + err.Error())
		return
	}
	defer t.close()
	rng := r.Rand("c01-short-timeout")
	waves := r.Pick(2, 6)
	type res struct {
		Tok   string `json:"tok"`
		Delay int    `json:"backend_delay_ms"`
		Wave  int    `json:"wave"`
		Ms    int64  `json:"waited_ms"`
		Err   string `json:"error,omitempty"`
		bad   []string
	}
	var all []res
	var mu sync.Mutex
	for w := 0; w < waves; w++ {
		// stay idle for more than two time-outs: the agent abandons at least two long polls
		time.Sleep(2*timeout + time.Duration(rng.Intn(700))*time.Millisecond)
		var wg sync.WaitGroup
		n := 4 + rng.Intn(5)
		for i := 0; i < n; i++ {
			delay := []int{0, 30, 2300, 2600, 3100, 3500}[rng.Intn(6)]
			tok := fmt.Sprintf("s%dstw%di%d", r.Seed, w, i)
			wg.Add(1)
			go func(tok string, delay, i int) {
				defer wg.Done()
				time.Sleep(time.Duration(i*150) * time.Millisecond)
				cl := rawhttp.NewClient(t.addr, 25*time.Second)
				defer cl.Close()
				t0 := time.Now()
				m, err := cl.Do(tokRequest("GET", tok, 100+i*37, delay, "h"+tok+".example", nil, nil), "GET")
				x := res{Tok: tok, Delay: delay, Wave: w, Ms: time.Since(t0).Milliseconds()}
				if err != nil {
					x.Err = err.Error()
				} else {
					x.bad = checkTokResponse(m, "GET", tok, 100+i*37)
				}
				mu.Lock()
				all = append(all, x)
				mu.Unlock()
			}(tok, delay, i)
		}
		wg.Wait()
		if r.Violations() > 0 {
			break
		}
	}
	// Tell a lost response from a machine that is merely overloaded: a final solo
	// request through the proxy, or else (that probe can be lost for the same
	// reason) the overhead of the answered requests of this lane and a direct
	// request to the backend.
	cl := rawhttp.NewClient(t.addr, 25*time.Second)
	t0 := time.Now()
	m, perr := cl.Do(tokRequest("GET", "stprobe", 10, 0, "probe.example", nil, nil), "GET")
	cl.Close()
	healthy := perr == nil && len(checkTokResponse(m, "GET", "stprobe", 10)) == 0 && time.Since(t0) < 5*time.Second
	if !healthy && t.agent.Alive() && t.server.Alive() {
		worst := int64(0)
		for _, x := range all {
			if x.Err == "" && x.Ms-int64(x.Delay) > worst {
				worst = x.Ms - int64(x.Delay)
			}
		}
		dc := rawhttp.NewClient(t.backend.Srv.Addr(), 5*time.Second)
		t1 := time.Now()
		_, derr := dc.Do(tokRequest("GET", "stdirect", 10, 0, "probe.example", nil, nil), "GET")
		dc.Close()
		healthy = derr == nil && time.Since(t1) < 500*time.Millisecond && worst < 5000
	}
	for _, x := range all {
		cls := "short-proxy-timeout/delay<timeout"
		if x.Delay >= 2000 {
			cls = "short-proxy-timeout/delay>timeout"
		}
		r.Case(cls)
		switch {
		case x.Err != "" && healthy && x.Ms >= 20000:
			r.Violate("C01:no-response:short-proxy-timeout", fmt.Sprintf("client %s (backend latency %d ms, agent --proxy-timeout=%s) got no response after %d ms although a later solo request was served promptly: %s", x.Tok, x.Delay, timeout, x.Ms, x.Err), x, nil)
		case x.Err != "":
			r.Inconclusive(fmt.Sprintf("short-timeout lane: client %s got no parsable response (%s), final probe healthy=%v", x.Tok, x.Err, healthy))
		case len(x.bad) > 0:
			r.Violate("C01:client-saw-foreign-or-altered-response", fmt.Sprintf("short-timeout lane: client %s: %v", x.Tok, x.bad), x, nil)
		}
	}
	r.Add("short_timeout_lane_requests", len(all))
	r.Add("short_timeout_lane_abandoned_polls", strings.Count(t.agent.Log(), "Failed to read pending requests"))
	seen := map[string]int{}
	for _, sn := range t.backend.Seen() {
		seen[sn.Tok]++
	}
	for tok, n := range seen {
		if n > 1 {
			r.Violate("C01:request-delivered-twice", fmt.Sprintf("short-timeout lane: backend saw token %s %d times", tok, n), nil, nil)
		}
	}
	judgeProcs(r, true, t.server, t.agent)
}

// c01Dependent: requests whose responses depend on a later request.  N clients
// send "hold" requests that the backend answers only once a "release" request
// of the same group has reached it (long polls waiting for an event that
// another client posts).  Every client must get its own response: a proxy or
// agent that stops forwarding while N requests are in flight never delivers
// the release.
func c01Dependent(r *core.Run, md *fakes.Metadata, serverBin, agentBin string) {
	t, err := startE1(r, md, serverBin, agentBin, "dep")
	if err != nil {
		r.Broken("dependent-requests lane start: " + err.Error())
		return
	}
	defer t.close()
	var mu sync.Mutex
	released := map[string]chan struct{}{}
	holding := map[string]int{}
	gate := func(g string) chan struct{} {
		mu.Lock()
		defer mu.Unlock()
		if released[g] == nil {
			released[g] = make(chan struct{})
		}
		return released[g]
	}
	t.backend.Override = func(req *rawhttp.Message, conn net.Conn, br *bufio.Reader) (bool, bool) {
		parts := strings.Split(strings.Trim(req.Target, "/"), "/")
		if len(parts) != 3 || parts[0] != "dep" {
			return false, false
		}
		g, tok := parts[1], parts[2]
		ch := gate(g)
		if strings.HasPrefix(tok, "release") {
			mu.Lock()
			select {
			case <-ch:
			default:
				close(ch)
			}
			mu.Unlock()
		} else {
			mu.Lock()
			holding[g]++
			mu.Unlock()
			select {
			case <-ch:
			case <-time.After(40 * time.Second):
			}
		}
		body := "dep-" + tok
		var w rawhttp.Builder
		w.Line("HTTP/1.1 200 OK").Field("X-Tok", tok).Field("Content-Length", fmt.Sprint(len(body))).End()
		w.WriteString(body)
		_, err := conn.Write(w.Bytes())
		return true, err == nil
	}
	groups := []int{130}
	if !r.Quick() {
		groups = []int{130, 260, 520}
	}
	for gi, n := range groups {
		g := fmt.Sprintf("s%dg%d", r.Seed, gi)
		type res struct {
			tok string
			ms  int64
			err string
		}
		var rs []res
		var rmu sync.Mutex
		var wg sync.WaitGroup
		do := func(tok string) {
			defer wg.Done()
			cl := rawhttp.NewClient(t.addr, 30*time.Second)
			defer cl.Close()
			var w rawhttp.Builder
			w.Line("GET /dep/"+g+"/"+tok+" HTTP/1.1").Field("Host", "dep.example").Field("X-Tok", tok).End()
			t0 := time.Now()
			m, err := cl.Do(w.Bytes(), "GET")
			x := res{tok: tok, ms: time.Since(t0).Milliseconds()}
			switch {
			case err != nil:
				x.err = err.Error()
			case m.Status != 200 || string(m.Body) != "dep-"+tok:
				r.Violate("C01:client-saw-foreign-or-altered-response", fmt.Sprintf("dependent-requests lane: client %s got status %d body %q", tok, m.Status, core.Trunc(string(m.Body), 60)), nil, nil)
			}
			rmu.Lock()
			rs = append(rs, x)
			rmu.Unlock()
		}
		for i := 0; i < n; i++ {
			wg.Add(1)
			go do(fmt.Sprintf("hold%d", i))
		}
		// the release follows once the holders are at the backend (or after 3 s: a path that admits only some of them must still let the release through)
		for d := time.Now().Add(3 * time.Second); time.Now().Before(d); time.Sleep(10 * time.Millisecond) {
			mu.Lock()
			h := holding[g]
			mu.Unlock()
			if h >= n {
				break
			}
		}
		mu.Lock()
		atBackend := holding[g]
		mu.Unlock()
		wg.Add(1)
		go do("release")
		wg.Wait()
		// load gauge: a direct request to the backend
		dc := rawhttp.NewClient(t.backend.Srv.Addr(), 5*time.Second)
		t1 := time.Now()
		_, derr := dc.Do(tokRequest("GET", "depdirect", 10, 0, "probe.example", nil, nil), "GET")
		dc.Close()
		calm := derr == nil && time.Since(t1) < 500*time.Millisecond
		lost := 0
		for _, x := range rs {
			if x.err != "" {
				lost++
			}
		}
		r.Cases(fmt.Sprintf("dependent-requests|holders=%d", n), n+1)
		r.Add("dependent_lane_holders_at_backend_when_released", atBackend)
		if lost > 0 {
			if calm && t.agent.Alive() && t.server.Alive() {
				r.Violate("C01:no-response:dependent-requests", fmt.Sprintf("%d holders waiting for an event and one client posting it: %d of %d clients got no response within 30 s (%d holders had reached the backend when the release was sent; a direct backend request took < 0.5 s)", n, lost, n+1, atBackend), nil, nil)
			} else {
				r.Inconclusive(fmt.Sprintf("dependent-requests lane: %d of %d clients got no response, machine calm=%v", lost, n+1, calm))
			}
			break
		}
	}
	judgeProcs(r, true, t.server, t.agent)
}

// c01LateAgent: clients queue up at the proxy while no agent is connected
// (an agent restart, a deployment); when the agent arrives every waiting
// client must get the response to its own request.
func c01LateAgent(r *core.Run, md *fakes.Metadata, serverBin, agentBin string) {
	backend, err := newTokBackend()
	if err != nil {
		r.Broken(err.Error())
		return
	}
	defer backend.Srv.Close()
	server, addr, err := startServer(r, serverBin, "server-late")
	if err != nil {
		r.Broken("late-agent lane: " + err.Error())
		return
	}
	defer server.Kill()
	n := r.Pick(1300, 2600)
	type res struct {
		tok string
		err string
		bad []string
	}
	out := make(chan res, n)
	var wg sync.WaitGroup
	for i := 0; i < n; i++ {
		wg.Add(1)
		go func(i int) {
			defer wg.Done()
			time.Sleep(time.Duration(i/100) * 20 * time.Millisecond) // arrive in waves of 100
			tok := fmt.Sprintf("s%dwait%d", r.Seed, i)
			cl := rawhttp.NewClient(addr, 60*time.Second)
			defer cl.Close()
			m, err := cl.Do(tokRequest("GET", tok, 64, 0, "h"+tok+".example", nil, nil), "GET")
			x := res{tok: tok}
			if err != nil {
				x.err = err.Error()
			} else {
				x.bad = checkTokResponse(m, "GET", tok, 64)
			}
			out <- x
		}(i)
	}
	// the agent arrives once the clients are waiting
	time.Sleep(time.Duration(n/100)*20*time.Millisecond + 700*time.Millisecond)
	agent, err := startAgent(r, agentBin, "agent-late", md, "http://"+addr+"/", backend.Srv.Addr(), "b-late")
	if err != nil {
		r.Broken("late-agent lane: " + err.Error())
		return
	}
	defer agent.Kill()
	wg.Wait()
	close(out)
	lost := 0
	for x := range out {
		switch {
		case x.err != "":
			lost++
		case len(x.bad) > 0:
			r.Violate("C01:client-saw-foreign-or-altered-response", fmt.Sprintf("late-agent lane: client %s: %v", x.tok, x.bad), nil, nil)
		}
	}
	r.Cases(fmt.Sprintf("clients-waiting-for-a-late-agent=%d", n), n)
	if lost > 0 {
		// load gauge: the machine is not the reason when a fresh request is now served promptly
		cl := rawhttp.NewClient(addr, 20*time.Second)
		t0 := time.Now()
		m, perr := cl.Do(tokRequest("GET", "lateprobe", 10, 0, "probe.example", nil, nil), "GET")
		cl.Close()
		if perr == nil && len(checkTokResponse(m, "GET", "lateprobe", 10)) == 0 && time.Since(t0) < 5*time.Second && agent.Alive() && server.Alive() {
			r.Violate("C01:no-response:clients-waiting-for-a-late-agent", fmt.Sprintf("%d clients were waiting at the proxy when the agent connected: %d of them got no response within 60 s although a request sent afterwards was served in %v", n, lost, time.Since(t0).Round(time.Millisecond)), nil, nil)
		} else {
			r.Inconclusive(fmt.Sprintf("late-agent lane: %d of %d clients got no response; the follow-up probe did not pass either", lost, n))
		}
	}
	judgeProcs(r, true, server, agent)
}

// c01ProxyRestart: the stand-alone proxy is restarted on its port while the
// agent keeps running. Clients of the new proxy process are clients like any
// other: each gets its own response, whatever IDs the old process had handed out.
func c01ProxyRestart(r *core.Run, md *fakes.Metadata, serverBin, agentBin string) {
	backend, err := newTokBackend()
	if err != nil {
		r.Broken(err.Error())
		return
	}
	defer backend.Srv.Close()
	server, addr, err := startServer(r, serverBin, "server-restart1")
	if err != nil {
		r.Broken("proxy-restart lane: " + err.Error())
		return
	}
	defer func() { server.Kill() }()
	agent, err := startAgent(r, agentBin, "agent-restart", md, "http://"+addr+"/", backend.Srv.Addr(), "b1")
	if err != nil {
		r.Broken("proxy-restart lane: " + err.Error())
		return
	}
	defer agent.Kill()
	if err := waitReady(addr, agent, server); err != nil {
		r.Inconclusive("proxy-restart lane: " + err.Error())
		return
	}
	type res struct {
		tok string
		err string
		bad []string
		ms  int64
	}
	batch := func(phase string, n int) []res {
		out := make([]res, n)
		var wg sync.WaitGroup
		sem := make(chan struct{}, 8)
		for i := 0; i < n; i++ {
			wg.Add(1)
			sem <- struct{}{}
			go func(i int) {
				defer wg.Done()
				defer func() { <-sem }()
				tok := fmt.Sprintf("s%d%s%d", r.Seed, phase, i)
				cl := rawhttp.NewClient(addr, 15*time.Second)
				defer cl.Close()
				t0 := time.Now()
				m, err := cl.Do(tokRequest("GET", tok, 300+i, 0, "h"+tok+".example", nil, nil), "GET")
				x := res{tok: tok, ms: time.Since(t0).Milliseconds()}
				if err != nil {
					x.err = err.Error()
				} else {
					x.bad = checkTokResponse(m, "GET", tok, 300+i)
				}
				out[i] = x
			}(i)
		}
		wg.Wait()
		return out
	}
	n1, n2 := 40, 70
	for _, x := range batch("before", n1) {
		r.Case("proxy-restart|before")
		if x.err != "" {
			r.Inconclusive("proxy-restart lane: request " + x.tok + " before the restart got no response: " + x.err)
			return
		} else if len(x.bad) > 0 {
			r.Violate("C01:client-saw-foreign-or-altered-response", fmt.Sprintf("client %s: %v", x.tok, x.bad), nil, nil)
		}
	}
	// restart on the same port
	server.Kill()
	time.Sleep(100 * time.Millisecond)
	port := addr[strings.LastIndexByte(addr, ':')+1:]
	var s2 *core.Proc
	for try := 0; try < 20 && s2 == nil; try++ {
		p, err := r.StartProc("server-restart2", serverBin, []string{"--port=" + port}, "VERIF_HOOK_STATS="+filepath.Join(r.WorkDir, "hooks-server-restart2"))
		if err == nil {
			if _, werr := p.WaitLog(listenRe, 5*time.Second); werr == nil {
				s2 = p
				break
			}
			p.Kill()
		}
		time.Sleep(250 * time.Millisecond)
	}
	if s2 == nil {
		r.Inconclusive("proxy-restart lane: could not restart the proxy on port " + port)
		return
	}
	server = s2
	// the agent finds the new process by itself (its back-off is capped at ~3 s)
	polled := regexp.MustCompile(`Reporting pending requests`)
	answered, lost := 0, 0
	var firstLost res
	for _, x := range batch("after", n2) {
		r.Case("proxy-restart|after")
		switch {
		case x.err != "":
			lost++
			if firstLost.tok == "" {
				firstLost = x
			}
		case len(x.bad) > 0:
			r.Violate("C01:client-saw-foreign-or-altered-response:after-proxy-restart", fmt.Sprintf("client %s: %v", x.tok, x.bad), nil, nil)
		default:
			answered++
		}
	}
	r.Add("requests_answered_after_a_proxy_restart", answered)
	if lost > 0 {
		if answered > 0 && polled.MatchString(s2.Log()) {
			r.Violate("C01:no-response:after-proxy-restart", fmt.Sprintf("after the proxy had been restarted (agent kept running), %d of %d clients got no response within 15 s while %d others were answered, e.g. %s (%d ms): %s", lost, n2, answered, firstLost.tok, firstLost.ms, firstLost.err), nil, nil)
		} else {
			r.Inconclusive(fmt.Sprintf("proxy-restart lane: %d of %d clients unanswered after the restart and %d answered (agent polling the new process: %v)", lost, n2, answered, polled.MatchString(s2.Log())))
		}
	}
	judgeProcs(r, true, agent)
}
