package props

import (
	"bufio"
	"bytes"
	"crypto/sha256"
	"encoding/hex"
	"encoding/json"
	"fmt"
	"io"
	"math/rand"
	"net"
	"path/filepath"
	"strconv"
	"strings"
	"sync"
	"sync/atomic"
	"time"

	"verif/internal/core"
	"verif/internal/rawhttp"
)

// ---- E1: byte streams through the two real binaries ---------------------------------

// c15Dir is the plan of one direction of one bridged connection.
type c15Dir struct {
	Len   int64 `json:"len"`        // total stream length including the 16-byte header
	Write int   `json:"write_size"` // bytes per Write call; 0 = random 1..70000
	Read  int   `json:"read_buf"`   // receiver buffer size
	// StallMs > 0: the receiver reads nothing (beyond the header that identifies the connection)
	// for this long while the sender keeps pushing, then drains everything
	StallMs int `json:"reader_stall_ms,omitempty"`
	// SlowMs > 0: for this long the receiver reads only 16 KiB every 50 ms (about 320 kB/s), so that
	// data stays in flight inside the bridge the whole time; then it drains at full speed
	SlowMs int `json:"reader_slow_ms,omitempty"`
}

// c15Conn is one case: one bridged connection with traffic in both directions.
type c15Conn struct {
	Idx         int  `json:"idx"`
	Round       int  `json:"round"`
	Conc        int  `json:"concurrency"`
	ServerFirst bool `json:"server_first"` // far end starts sending before it has read anything (solo rounds only)
	// Turns != nil: request/response rounds instead of two free-running streams. The client writes
	// Req bytes in one Write and waits for the complete reply of Rep bytes before its next request; the
	// server waits for the complete request before it replies (one Write). Nothing else is in flight.
	Turns []c15Turn `json:"turns,omitempty"`
	C2S   c15Dir    `json:"c2s"`
	S2C   c15Dir    `json:"s2c"`
	Class string    `json:"class"`
}

type c15Turn struct {
	Req int `json:"req"`
	Rep int `json:"rep"`
}

// c15DirRes is what both ends observed for one direction.
type c15DirRes struct {
	Sent        int64  `json:"sent"`
	SentSHA     string `json:"sent_sha256"`
	SendErr     string `json:"send_err,omitempty"`
	SendStall   bool   `json:"send_stalled,omitempty"`
	Recv        int64  `json:"received"`
	RecvSHA     string `json:"received_sha256"`
	RecvErr     string `json:"recv_err,omitempty"`
	RecvStall   bool   `json:"recv_stalled,omitempty"`
	Checkpoints int    `json:"checkpoints"`
	BadOffset   int64  `json:"first_bad_offset"`
	BadGot      string `json:"bad_got,omitempty"`
	BadWant     string `json:"bad_want,omitempty"`
	values      [256]bool
}

type c15Live struct {
	Spec       *c15Conn  `json:"spec"`
	C2S        c15DirRes `json:"c2s"`
	S2C        c15DirRes `json:"s2c"`
	DialErr    string    `json:"dial_err,omitempty"`
	NotBridged bool      `json:"far_end_never_saw_connection,omitempty"`
	Aborted    bool      `json:"aborted_after_mismatch,omitempty"`
	TurnsDone  int       `json:"turns_completed,omitempty"`
	TurnFail   string    `json:"turn_failure,omitempty"` // what the client was doing when it gave up
	TurnStall  bool      `json:"turn_stalled,omitempty"`

	mu      sync.Mutex
	claim   int // 0 unclaimed, 1 far end attached, 2 abandoned
	cli     net.Conn
	srv     net.Conn
	srvDone chan struct{}
}

func (l *c15Live) abort() {
	l.mu.Lock()
	l.Aborted = true
	c, s := l.cli, l.srv
	l.mu.Unlock()
	if c != nil {
		c.Close()
	}
	if s != nil {
		s.Close()
	}
}

func (l *c15Live) aborted() bool { l.mu.Lock(); defer l.mu.Unlock(); return l.Aborted }

type c15Engine struct {
	r     *core.Run
	topo  *bridgeTopo
	srv   *bridgeTCPServer
	stall time.Duration

	mu        sync.Mutex
	lives     map[int]*c15Live
	solo      *c15Live
	strays    []string
	open      int
	maxOpen   int
	chunkHist map[string]int
}

func (e *c15Engine) track(d int) {
	e.mu.Lock()
	e.open += d
	if e.open > e.maxOpen {
		e.maxOpen = e.open
	}
	e.mu.Unlock()
}

func c15ChunkClass(n int) string {
	switch {
	case n == 1:
		return "1"
	case n < 8:
		return "2-7"
	case n < 1024:
		return "8-1023"
	case n == 1024:
		return "1024"
	case n < 32768:
		return "1025-32767"
	case n == 32768:
		return "32768"
	default:
		return ">32768"
	}
}

// c15Send writes the stream with the planned segmentation.
func (e *c15Engine) c15Send(l *c15Live, conn net.Conn, st *bridgeStream, d c15Dir, rng *rand.Rand, res *c15DirRes) {
	maxw := d.Write
	if maxw == 0 {
		maxw = 70000
	}
	buf := make([]byte, maxw)
	h := sha256.New()
	for res.Sent < d.Len {
		n := d.Write
		if n == 0 {
			n = 1 + rng.Intn(70000)
		}
		if rem := d.Len - res.Sent; int64(n) > rem {
			n = int(rem)
		}
		st.Next(buf[:n])
		h.Write(buf[:n])
		conn.SetWriteDeadline(time.Now().Add(e.stall + time.Duration(d.StallMs)*time.Millisecond))
		k, err := conn.Write(buf[:n])
		res.Sent += int64(k)
		if err != nil {
			if bridgeIsTimeout(err) {
				res.SendStall = true
			}
			res.SendErr = err.Error()
			break
		}
	}
	res.SentSHA = hex.EncodeToString(h.Sum(nil))
}

// c15Recv reads with the planned buffer size and compares every chunk with
// the regenerated stream (each read is a checkpoint of the prefix property).
func (e *c15Engine) c15Recv(l *c15Live, conn net.Conn, v *bridgeVerifier, d c15Dir, pre []byte, res *c15DirRes) {
	hist := map[string]int{}
	ok := true
	if len(pre) > 0 {
		ok = v.Check(pre)
	}
	buf := make([]byte, d.Read)
	for until := time.Now().Add(time.Duration(d.StallMs) * time.Millisecond); d.StallMs > 0 && time.Now().Before(until) && !l.aborted(); {
		time.Sleep(20 * time.Millisecond) // the planned stall: flow control must hold the sender, nothing may be lost
	}
	slowEnd := time.Now().Add(time.Duration(d.SlowMs) * time.Millisecond)
	for ok && v.Received < d.Len {
		rb := buf
		if d.SlowMs > 0 && time.Now().Before(slowEnd) {
			time.Sleep(50 * time.Millisecond)
			rb = buf[:min(len(buf), 16<<10)]
		}
		conn.SetReadDeadline(time.Now().Add(e.stall))
		n, err := conn.Read(rb)
		if n > 0 {
			hist[c15ChunkClass(n)]++
			if ok = v.Check(buf[:n]); !ok {
				break
			}
		}
		if err != nil {
			if bridgeIsTimeout(err) {
				res.RecvStall = true
			}
			res.RecvErr = err.Error()
			break
		}
	}
	if ok && v.Received == d.Len && res.RecvErr == "" {
		// one more short look for bytes beyond the announced end (can only miss, never accuse)
		conn.SetReadDeadline(time.Now().Add(30 * time.Millisecond))
		if n, _ := conn.Read(buf); n > 0 {
			ok = v.Check(buf[:n])
		}
	}
	res.Recv, res.RecvSHA, res.Checkpoints = v.Received, v.SHA(), v.Checkpoints
	res.BadOffset, res.BadGot, res.BadWant = v.BadOffset, v.BadGot, v.BadWant
	res.values = v.Values
	e.mu.Lock()
	for k, n := range hist {
		e.chunkHist[k] += n
	}
	e.mu.Unlock()
	if !ok {
		l.abort() // unblock the other three pumps of this connection
	}
}

// serve is the far TCP end of every bridged connection.
func (e *c15Engine) serve(c *net.TCPConn, seq int) {
	defer c.Close()
	e.track(1)
	defer e.track(-1)
	e.mu.Lock()
	l := e.solo
	e.solo = nil
	e.mu.Unlock()
	var pre []byte
	if l == nil {
		hdr := make([]byte, bridgeHdrLen)
		c.SetReadDeadline(time.Now().Add(e.stall))
		if n, err := io.ReadFull(c, hdr); err != nil {
			if n > 0 {
				e.mu.Lock()
				e.strays = append(e.strays, fmt.Sprintf("accept #%d: only %d header bytes (%x): %v", seq, n, hdr[:n], err))
				e.mu.Unlock()
			}
			return
		}
		dir, idx, _, ok := bridgeParseHdr(hdr)
		if ok && dir == 'c' {
			e.mu.Lock()
			l = e.lives[idx]
			e.mu.Unlock()
		}
		if l == nil {
			e.mu.Lock()
			e.strays = append(e.strays, fmt.Sprintf("accept #%d: first 16 bytes %x are not the header of any open connection", seq, hdr))
			e.mu.Unlock()
			return
		}
		pre = hdr
	}
	l.mu.Lock()
	if l.claim == 2 { // given up by its client (dial failure / far end too late)
		l.mu.Unlock()
		return
	}
	if l.claim != 0 {
		l.mu.Unlock()
		e.mu.Lock()
		e.strays = append(e.strays, fmt.Sprintf("accept #%d: second far-end connection for connection %d", seq, l.Spec.Idx))
		e.mu.Unlock()
		return
	}
	l.claim = 1
	l.srv = c
	l.mu.Unlock()
	defer close(l.srvDone)
	sp := l.Spec
	if sp.Turns != nil {
		e.serveTurns(l, c, pre)
		return
	}
	var wg sync.WaitGroup
	wg.Add(1)
	go func() {
		defer wg.Done()
		e.c15Send(l, c, bridgeNewStream(e.r.Seed, sp.Idx, 's', sp.S2C.Len), sp.S2C, rand.New(rand.NewSource(e.r.Seed^int64(sp.Idx)<<20^2)), &l.S2C)
	}()
	e.c15Recv(l, c, bridgeNewVerifier(bridgeNewStream(e.r.Seed, sp.Idx, 'c', sp.C2S.Len)), sp.C2S, pre, &l.C2S)
	wg.Wait()
}

// client runs the near end of one connection and waits for the far end.
func (e *c15Engine) client(l *c15Live) {
	sp := l.Spec
	conn, err := net.DialTimeout("tcp", e.topo.FrontAddr, 10*time.Second)
	if err != nil {
		l.DialErr = err.Error()
		l.mu.Lock()
		l.claim = 2
		l.mu.Unlock()
		return
	}
	defer conn.Close()
	l.mu.Lock()
	l.cli = conn
	l.mu.Unlock()
	if sp.Turns != nil {
		e.clientTurns(l, conn)
		conn.Close() // done or given up: lets the far end finish at once
		l.mu.Lock()
		if l.TurnFail != "" && l.claim == 0 {
			// the client waited out the progress bound and the far end was never even connected
			l.claim = 2
			l.NotBridged = true
		}
		l.mu.Unlock()
		if l.NotBridged {
			return
		}
		select {
		case <-l.srvDone:
		case <-time.After(e.stall):
			l.mu.Lock()
			if l.claim == 0 {
				l.claim = 2
				l.NotBridged = true
			}
			l.mu.Unlock()
		}
		return
	}
	var wg sync.WaitGroup
	wg.Add(2)
	go func() {
		defer wg.Done()
		e.c15Send(l, conn, bridgeNewStream(e.r.Seed, sp.Idx, 'c', sp.C2S.Len), sp.C2S, rand.New(rand.NewSource(e.r.Seed^int64(sp.Idx)<<20^1)), &l.C2S)
	}()
	go func() {
		defer wg.Done()
		e.c15Recv(l, conn, bridgeNewVerifier(bridgeNewStream(e.r.Seed, sp.Idx, 's', sp.S2C.Len)), sp.S2C, nil, &l.S2C)
	}()
	wg.Wait()
	select {
	case <-l.srvDone:
	case <-time.After(e.stall):
		l.mu.Lock()
		if l.claim == 0 {
			l.claim = 2
			l.NotBridged = true
			l.mu.Unlock()
			return
		}
		l.mu.Unlock()
		<-l.srvDone // attached: its pumps are bounded by their own progress deadlines
	}
}

// c15Exchange writes `out` bytes of the outgoing stream in one Write (0: nothing) and then reads
// exactly `in` bytes of the incoming one, checking every chunk. It returns "" or what went wrong.
func (e *c15Engine) c15Exchange(conn net.Conn, out int, os *bridgeStream, oh io.Writer, ores *c15DirRes, in int, iv *bridgeVerifier, rb []byte) (fail string, stalled bool) {
	if out > 0 {
		buf := make([]byte, out)
		os.Next(buf)
		oh.Write(buf)
		conn.SetWriteDeadline(time.Now().Add(e.stall))
		k, err := conn.Write(buf)
		ores.Sent += int64(k)
		if err != nil {
			ores.SendErr = err.Error()
			ores.SendStall = bridgeIsTimeout(err)
			return fmt.Sprintf("writing a message of %d bytes: %d written: %v", out, k, err), ores.SendStall
		}
	}
	for need := in; need > 0; {
		conn.SetReadDeadline(time.Now().Add(e.stall))
		n, err := conn.Read(rb[:min(need, len(rb))])
		if n > 0 {
			need -= n
			if !iv.Check(rb[:n]) {
				return "mismatch", false
			}
		}
		if err != nil {
			return fmt.Sprintf("waiting for a message of %d bytes: %d of them received: %v", in, in-need, err), bridgeIsTimeout(err)
		}
	}
	return "", false
}

func c15FillRecv(res *c15DirRes, v *bridgeVerifier) {
	res.Recv, res.RecvSHA, res.Checkpoints = v.Received, v.SHA(), v.Checkpoints
	res.BadOffset, res.BadGot, res.BadWant = v.BadOffset, v.BadGot, v.BadWant
	res.values = v.Values
}

// clientTurns drives a request/response connection.
func (e *c15Engine) clientTurns(l *c15Live, conn net.Conn) {
	sp := l.Spec
	out := bridgeNewStream(e.r.Seed, sp.Idx, 'c', sp.C2S.Len)
	v := bridgeNewVerifier(bridgeNewStream(e.r.Seed, sp.Idx, 's', sp.S2C.Len))
	h := sha256.New()
	rb := make([]byte, 64<<10)
	for i, t := range sp.Turns {
		if fail, stalled := e.c15Exchange(conn, t.Req, out, h, &l.C2S, t.Rep, v, rb); fail != "" {
			l.TurnFail = fmt.Sprintf("turn %d (request %d bytes, reply %d bytes): client %s", i, t.Req, t.Rep, fail)
			l.TurnStall = stalled
			break
		}
		l.TurnsDone++
	}
	l.C2S.SentSHA = hex.EncodeToString(h.Sum(nil))
	c15FillRecv(&l.S2C, v)
}

// serveTurns is the far end of a request/response connection.
func (e *c15Engine) serveTurns(l *c15Live, c net.Conn, pre []byte) {
	sp := l.Spec
	out := bridgeNewStream(e.r.Seed, sp.Idx, 's', sp.S2C.Len)
	v := bridgeNewVerifier(bridgeNewStream(e.r.Seed, sp.Idx, 'c', sp.C2S.Len))
	h := sha256.New()
	rb := make([]byte, 64<<10)
	ok := true
	if len(pre) > 0 {
		ok = v.Check(pre)
	}
	prev := 0 // reply owed for the request read in the previous step
	for i := 0; ok && i <= len(sp.Turns); i++ {
		in := 0
		if i < len(sp.Turns) {
			in = sp.Turns[i].Req
			if i == 0 {
				in -= len(pre)
			}
		}
		if fail, _ := e.c15Exchange(c, prev, out, h, &l.S2C, in, v, rb); fail != "" {
			break
		}
		if i < len(sp.Turns) {
			prev = sp.Turns[i].Rep
		}
	}
	l.S2C.SentSHA = hex.EncodeToString(h.Sum(nil))
	c15FillRecv(&l.C2S, v)
}

// judgeTurns is the oracle of a request/response connection: the client is the
// driver, so the connection is judged at the point where the client stopped.
func (e *c15Engine) judgeTurns(l *c15Live) (cands []c15Candidate, bad bool) {
	r, sp := e.r, l.Spec
	for _, d := range []struct {
		name string
		tag  byte
		plan c15Dir
		res  *c15DirRes
	}{{"c2s", 'c', sp.C2S, &l.C2S}, {"s2c", 's', sp.S2C, &l.S2C}} {
		if d.res.BadOffset >= 0 {
			bad = true
			r.Violate("C15:bytes-altered:"+d.name, fmt.Sprintf("connection %d (%s) direction %s: receiver's bytes are not a prefix of the sender's: first differing offset %d of %d, got %s want %s%s",
				sp.Idx, sp.Class, d.name, d.res.BadOffset, d.plan.Len, d.res.BadGot, d.res.BadWant, c15Diagnose(r.Seed, sp.Idx, d.tag, d.plan.Len, d.res.BadOffset, d.res.BadGot)), sp, l)
		}
	}
	if bad || l.TurnFail == "" {
		if !bad && (l.C2S.Recv != sp.C2S.Len || l.S2C.Recv != sp.S2C.Len) {
			bad = true
			r.Violate("C15:stream-incomplete:c2s", fmt.Sprintf("connection %d (%s): all %d turns completed at the client but the far end had received %d of %d bytes", sp.Idx, sp.Class, len(sp.Turns), l.C2S.Recv, sp.C2S.Len), sp, l)
		}
		return nil, bad
	}
	// which message is being held back: the request (not all of it has reached the far end) or the reply
	dir := "s2c"
	if l.C2S.Recv < l.C2S.Sent || (l.NotBridged && l.C2S.Sent > 0) {
		dir = "c2s"
	}
	if l.NotBridged {
		l.TurnFail += "; the TCP server was never connected to for this client"
	}
	what := fmt.Sprintf("%s; at that point client->server: %d sent, %d received by the server; server->client: %d sent, %d received by the client; nothing else was in flight and neither end had closed",
		l.TurnFail, l.C2S.Sent, l.C2S.Recv, l.S2C.Sent, l.S2C.Recv)
	if l.TurnStall {
		return []c15Candidate{{l, dir, what}}, false
	}
	r.Violate("C15:stream-incomplete:"+dir, fmt.Sprintf("connection %d (%s): %s", sp.Idx, sp.Class, what), sp, l)
	return nil, true
}

// round runs the given connections concurrently and returns when all ended.
func (e *c15Engine) round(specs []*c15Conn) []*c15Live {
	lives := make([]*c15Live, len(specs))
	e.mu.Lock()
	for i, sp := range specs {
		lives[i] = &c15Live{Spec: sp, srvDone: make(chan struct{})}
		lives[i].C2S.BadOffset, lives[i].S2C.BadOffset = -1, -1
		e.lives[sp.Idx] = lives[i]
	}
	setSolo := len(specs) == 1 && specs[0].ServerFirst
	if setSolo {
		e.solo = lives[0]
	}
	e.mu.Unlock()
	var wg sync.WaitGroup
	for _, l := range lives {
		wg.Add(1)
		go func(l *c15Live) { defer wg.Done(); e.client(l) }(l)
	}
	wg.Wait()
	e.mu.Lock()
	if setSolo {
		e.solo = nil
	}
	for _, sp := range specs {
		delete(e.lives, sp.Idx)
	}
	e.mu.Unlock()
	return lives
}

func c15LenClass(n int64) string {
	switch {
	case n <= bridgeHdrLen+1:
		return "hdr"
	case n < 4096:
		return "<4k"
	case n <= 65537:
		return "<=64k+1"
	case n < 1<<20:
		return "<1M"
	case n < 4<<20:
		return "<4M"
	default:
		return ">=4M"
	}
}

func c15WriteClass(w int) string {
	if w == 0 {
		return "rand"
	}
	return strconv.Itoa(w)
}

var c15WriteSizes = []int{1, 2, 1023, 1024, 1025, 4096, 32768, 65537, 0}
var c15ReadSizes = []int{1, 7, 1024, 65536}

func c15PickLen(rng *rand.Rand, quick bool, w, rb int) int64 {
	pick := func(v ...int64) int64 { return v[rng.Intn(len(v))] }
	switch {
	case w == 1 || rb == 1:
		return pick(16, 17, 31, 300, 4097, 65536)
	case w == 2 || rb == 7:
		return pick(16, 1000, 65537, 262144)
	case quick:
		return pick(1040, 65537, 512<<10, 1<<20+1, 4<<20)
	}
	return pick(65537, 512<<10, 2<<20, 4<<20+1, 8<<20, 8<<20)
}

// c15Plan is the case list: a pure function of seed and tier.
func c15Plan(r *core.Run) [][]*c15Conn {
	var concs []int
	if r.Quick() {
		concs = []int{1, 1, 1, 1, 4, 16, 48}
	} else {
		for i := 0; i < 8; i++ {
			concs = append(concs, 1)
		}
		for i := 0; i < 8; i++ {
			concs = append(concs, 4)
		}
		for i := 0; i < 8; i++ {
			concs = append(concs, 16)
		}
		for i := 0; i < 9; i++ {
			concs = append(concs, 48)
		}
	}
	rng := r.Rand("c15-plan")
	type combo struct{ w, rb int }
	var combos []combo
	for _, w := range c15WriteSizes {
		for _, rb := range c15ReadSizes {
			combos = append(combos, combo{w, rb})
		}
	}
	permA := rng.Perm(len(combos))
	permB := rng.Perm(len(combos))
	var rounds [][]*c15Conn
	idx := 0
	for ri, conc := range concs {
		var round []*c15Conn
		for k := 0; k < conc; k++ {
			a := combos[permA[idx%len(combos)]]
			b := combos[permB[(idx+idx/len(combos))%len(combos)]]
			sp := &c15Conn{Idx: idx, Round: ri, Conc: conc,
				C2S: c15Dir{Write: a.w, Read: a.rb}, S2C: c15Dir{Write: b.w, Read: b.rb}}
			sp.C2S.Len = c15PickLen(rng, r.Quick(), a.w, a.rb)
			sp.S2C.Len = c15PickLen(rng, r.Quick(), b.w, b.rb)
			first := "client-first"
			if conc == 1 && ri%2 == 1 {
				sp.ServerFirst = true
				first = "server-first"
			}
			sp.Class = fmt.Sprintf("conc=%d|%s|c2s:w%s/r%d/%s|s2c:w%s/r%d/%s", conc, first,
				c15WriteClass(a.w), a.rb, c15LenClass(sp.C2S.Len), c15WriteClass(b.w), b.rb, c15LenClass(sp.S2C.Len))
			round = append(round, sp)
			idx++
		}
		rounds = append(rounds, round)
	}
	rounds = append(rounds, c15TurnPlan(r, rng, len(concs)))
	rounds = append(rounds, c15GreetingPlan(r, rng, len(concs)+1)...)
	return rounds
}

// c15GreetingPlan: the server speaks first (a greeting banner as in SMTP, SSH, MySQL). The client
// connects and only reads until it has the whole greeting, then the exchange continues in turns.
// One connection per round, because the far end can only tell which connection it has accepted
// from bytes the client sends - and here the client sends none at first.
func c15GreetingPlan(r *core.Run, rng *rand.Rand, round int) [][]*c15Conn {
	greetings := []int{275, 1, 65536}
	if !r.Quick() {
		greetings = append(greetings, 32768, 17, 100000, 1+rng.Intn(5000), 32768*(1+rng.Intn(4)))
	}
	var out [][]*c15Conn
	for i, g := range greetings {
		turns := []c15Turn{{Req: 0, Rep: g}, {Req: 20 + i, Rep: 300}, {Req: 1, Rep: 1}, {Req: 1000 + rng.Intn(3000), Rep: 32768}, {Req: 5, Rep: 17}}
		sp := &c15Conn{Idx: 4000000 + i, Round: round + i, Conc: 1, ServerFirst: true, Turns: turns}
		for _, t := range turns {
			sp.C2S.Len += int64(t.Req)
			sp.S2C.Len += int64(t.Rep)
		}
		sp.Class = fmt.Sprintf("request-response|server-speaks-first|greeting:%d|client-waits-for-it", g)
		out = append(out, []*c15Conn{sp})
	}
	return out
}

// c15TurnPlan: long-lived request/response connections whose messages end exactly on, just
// before and just after multiples of the 32 KiB copy buffer, in either direction, with the
// connection staying open and silent afterwards: a message must arrive without anything
// else having to be written after it.
func c15TurnPlan(r *core.Run, rng *rand.Rand, round int) []*c15Conn {
	sizes := []int{32768, 1, 65536, 32767, 98304, 32769, 131072, 16384, 65535, 163840, 65537, 49152, 131071, 32768, 196608, 131073, 32768}
	mk := func(idx int, name string, turns []c15Turn) *c15Conn {
		sp := &c15Conn{Idx: idx, Round: round, Conc: 3, Turns: turns}
		for _, t := range turns {
			sp.C2S.Len += int64(t.Req)
			sp.S2C.Len += int64(t.Rep)
		}
		sp.Class = fmt.Sprintf("request-response|%s|%d turns", name, len(turns))
		return sp
	}
	build := func(k int) (both, rep, req []c15Turn) {
		ss := append([]int(nil), sizes...)
		if k > 0 {
			rng.Shuffle(len(ss), func(i, j int) { ss[i], ss[j] = ss[j], ss[i] })
			for i := 0; i < 6; i++ {
				ss = append(ss, 32768*(1+rng.Intn(8))+rng.Intn(3)-1)
			}
			if ss[0] < bridgeHdrLen {
				ss[0], ss[1] = ss[1], ss[0]
			}
		}
		for i, n := range ss {
			both = append(both, c15Turn{Req: n, Rep: ss[(i+3)%len(ss)]})
			rep = append(rep, c15Turn{Req: 16 + i, Rep: n})
			req = append(req, c15Turn{Req: max(n, bridgeHdrLen), Rep: 1 + i%5})
		}
		return
	}
	var out []*c15Conn
	for k := 0; k < r.Pick(1, 6); k++ {
		both, rep, req := build(k)
		out = append(out, mk(3000000+10*k, "exact-sizes-both-ways", both), mk(3000001+10*k, "exact-size-replies", rep), mk(3000002+10*k, "exact-size-requests", req))
	}
	return out
}

// c15Diagnose looks for the received bytes further on in the sender's stream.
func c15Diagnose(seed int64, idx int, dir byte, total, off int64, gotHex string) string {
	got, _ := hex.DecodeString(gotHex)
	if len(got) < 8 || off > 64<<20 {
		return ""
	}
	st := bridgeNewStream(seed, idx, dir, total)
	end := off + 2<<20
	if end > total {
		end = total
	}
	if end <= off {
		return ""
	}
	all := make([]byte, end)
	st.Next(all)
	if k := bytes.Index(all[off:], got[:8]); k > 0 {
		return fmt.Sprintf("; the received bytes equal the sender's stream %d bytes further on, i.e. %d bytes were dropped at offset %d", k, k, off)
	}
	if off >= 8 {
		lo := off - 2<<20
		if lo < 0 {
			lo = 0
		}
		if k := bytes.LastIndex(all[lo:off], got[:8]); k >= 0 {
			return fmt.Sprintf("; the received bytes repeat the sender's stream from offset %d", lo+int64(k))
		}
	}
	return ""
}

type c15Candidate struct {
	l    *c15Live
	dir  string
	what string
}

// judge applies the oracle to one finished connection; stalls are returned
// as candidates for the solo re-run.
func (e *c15Engine) judge(l *c15Live, confirmRun bool) (cands []c15Candidate, bad bool) {
	r, sp := e.r, l.Spec
	if l.DialErr != "" {
		r.Broken(fmt.Sprintf("connection %d: cannot connect to the bridge frontend: %s", sp.Idx, l.DialErr))
		return nil, false
	}
	if sp.Turns != nil {
		return e.judgeTurns(l)
	}
	if l.NotBridged {
		cands = append(cands, c15Candidate{l, "c2s", fmt.Sprintf("the far TCP end never saw connection %d although the client wrote %d bytes", sp.Idx, l.C2S.Sent)})
	}
	for _, d := range []struct {
		name string
		tag  byte
		plan c15Dir
		res  *c15DirRes
	}{{"c2s", 'c', sp.C2S, &l.C2S}, {"s2c", 's', sp.S2C, &l.S2C}} {
		res := d.res
		switch {
		case res.BadOffset >= 0:
			bad = true
			kind := "bytes-altered"
			if res.BadOffset >= d.plan.Len {
				kind = "bytes-beyond-end"
			}
			msg := fmt.Sprintf("connection %d (%s) direction %s: receiver's bytes are not a prefix of the sender's: first differing offset %d of %d, got %s want %s (sender had written %d bytes)%s",
				sp.Idx, sp.Class, d.name, res.BadOffset, d.plan.Len, res.BadGot, res.BadWant, res.Sent,
				c15Diagnose(r.Seed, sp.Idx, d.tag, d.plan.Len, res.BadOffset, res.BadGot))
			r.Violate("C15:"+kind+":"+d.name, msg, sp, l)
		case res.Recv < d.plan.Len:
			if l.aborted() || l.NotBridged {
				continue // torn down because of the other direction / already a candidate
			}
			if res.RecvStall || res.SendStall {
				cands = append(cands, c15Candidate{l, d.name, fmt.Sprintf("direction %s made no progress for %s: %d of %d bytes received, %d sent (send err %q, recv err %q)",
					d.name, e.stall, res.Recv, d.plan.Len, res.Sent, res.SendErr, res.RecvErr)})
				continue
			}
			bad = true
			r.Violate("C15:stream-incomplete:"+d.name, fmt.Sprintf("connection %d (%s) direction %s ended early: %d of %d bytes received, %d sent (send err %q, recv err %q) while neither harness end had closed",
				sp.Idx, sp.Class, d.name, res.Recv, d.plan.Len, res.Sent, res.SendErr, res.RecvErr), sp, l)
		default:
			if res.SentSHA != res.RecvSHA || res.Sent != res.Recv {
				bad = true
				r.Violate("C15:bytes-altered:"+d.name, fmt.Sprintf("connection %d direction %s: length/SHA-256 differ at the end: sent %d %s received %d %s",
					sp.Idx, d.name, res.Sent, res.SentSHA, res.Recv, res.RecvSHA), sp, l)
			}
		}
	}
	return cands, bad
}

// c15StalledPlan: one connection per direction whose receiver stops reading
// for 13-14 s while the sender pushes far more than the socket buffers on
// the way can hold. A byte stream is flow-controlled end to end: the sender
// must simply be held back, and every byte must arrive once the receiver
// drains. They run alongside everything else.
func c15StalledPlan(r *core.Run) []*c15Conn {
	var out []*c15Conn
	add := func(idx int, dir string, n int64, stall, write int) {
		big := c15Dir{Len: n, Write: write, Read: 65536, StallMs: stall}
		small := c15Dir{Len: bridgeHdrLen, Write: 1024, Read: 1024}
		sp := &c15Conn{Idx: idx, Round: -1, Conc: 1, C2S: big, S2C: small}
		if dir == "s2c" {
			sp.C2S, sp.S2C = small, big
		}
		sp.Class = fmt.Sprintf("stalled-reader|%s|%dMiB|stall:%dms|w%s", dir, n>>20, stall, c15WriteClass(write))
		out = append(out, sp)
	}
	add(2000001, "c2s", 32<<20+17, 14000, 32768)
	add(2000002, "s2c", 32<<20+17, 14000, 32768)
	if !r.Quick() {
		add(2000003, "c2s", 48<<20+1, 13000, 0)
		add(2000004, "s2c", 48<<20+1, 13000, 0)
	}
	// long-lived connections: older than 30 s (thorough: 60 s) with data in flight all the time,
	// because the receiver trickles; whatever the bridge does periodically on an established
	// connection (keep-alives, timers) must not disturb the stream
	long := func(idx int, dir string, n int64, slow int) {
		big := c15Dir{Len: n, Write: 32768, Read: 65536, SlowMs: slow}
		small := c15Dir{Len: bridgeHdrLen, Write: 1024, Read: 1024}
		sp := &c15Conn{Idx: idx, Round: -1, Conc: 1, C2S: big, S2C: small}
		if dir == "s2c" {
			sp.C2S, sp.S2C = small, big
		}
		sp.Class = fmt.Sprintf("long-lived-slow-reader|%s|%dMiB|slow:%dms", dir, n>>20, slow)
		out = append(out, sp)
	}
	long(2000005, "s2c", 24<<20+5, 31200)
	if !r.Quick() {
		long(2000006, "c2s", 24<<20+5, 31200)
		long(2000007, "s2c", 56<<20+3, 62000)
		long(2000008, "c2s", 56<<20+3, 62000)
	}
	return out
}

// c15Streams runs the E1 stream rounds. The returned finish function waits
// for the stalled-reader connections (started first, running alongside the
// rounds and whatever the caller does next), judges them and closes the far end.
func c15Streams(r *core.Run, bins bridgeBins) ([]*core.Proc, func()) {
	e := &c15Engine{r: r, stall: 20 * time.Second, lives: map[int]*c15Live{}, chunkHist: map[string]int{}}
	srv, err := bridgeNewTCPServer(e.serve)
	if err != nil {
		r.Broken("tcp server: " + err.Error())
		return nil, func() {}
	}
	e.srv = srv
	topo, err := bridgeStartTopo(r, bins, "", srv.Port)
	if err != nil {
		srv.Close()
		r.Broken(err.Error())
		return nil, func() {}
	}
	e.topo = topo
	var values [256]bool
	var cands []c15Candidate
	sampled := map[int]bool{}
	t0 := time.Now()
	account := func(l *c15Live) {
		r.Add("e1_bytes_client_to_server", int(l.C2S.Recv))
		r.Add("e1_bytes_server_to_client", int(l.S2C.Recv))
		r.Add("e1_checkpoints_compared", l.C2S.Checkpoints+l.S2C.Checkpoints)
		for i := range values {
			values[i] = values[i] || l.C2S.values[i] || l.S2C.values[i]
		}
	}
	stalledDone := make(chan []*c15Live, 1)
	go func() { stalledDone <- e.round(c15StalledPlan(r)) }()
	// let their far ends attach before the rounds begin (a server-first solo round claims the next accept)
	for deadline := time.Now().Add(5 * time.Second); time.Now().Before(deadline); time.Sleep(5 * time.Millisecond) {
		e.mu.Lock()
		n := 0
		for _, l := range e.lives {
			l.mu.Lock()
			if l.claim != 0 {
				n++
			}
			l.mu.Unlock()
		}
		ready := n >= len(c15StalledPlan(r))
		e.mu.Unlock()
		if ready {
			break
		}
	}
	finish := func() {
		defer srv.Close()
		var lives []*c15Live
		select {
		case lives = <-stalledDone:
		case <-time.After(3 * time.Minute):
			r.Broken("stalled-reader connections did not end within 3 minutes")
			return
		}
		for _, l := range lives {
			r.Case(l.Spec.Class)
			cs, bad := e.judge(l, false)
			account(l)
			big := &l.C2S
			if l.Spec.S2C.StallMs+l.Spec.S2C.SlowMs > 0 {
				big = &l.S2C
			}
			if l.Spec.C2S.SlowMs+l.Spec.S2C.SlowMs > 0 {
				r.Add("e1_long_lived_slow_reader_bytes_delivered", int(big.Recv))
			} else {
				r.Add("e1_stalled_reader_bytes_delivered", int(big.Recv))
			}
			for _, c := range cs {
				r.Inconclusive(fmt.Sprintf("stalled-reader connection %d: %s (not re-run)", l.Spec.Idx, c.what))
			}
			if !bad && len(cs) == 0 {
				r.Sample(l)
			}
		}
		f, b := topo.Census()
		r.Set("e1_bridge_sockets_at_end", map[string]int{"frontend": f, "backend": b, "frontend_idle": topo.FrontBase, "backend_idle": topo.BackBase})
	}
	for _, round := range c15Plan(r) {
		if !topo.Front.Alive() || !topo.Back.Alive() {
			break
		}
		if len(cands) >= 3 {
			r.Inconclusive(fmt.Sprintf("rounds from #%d on were not run: three connections had already stalled (they are re-run alone below)", round[0].Round))
			break
		}
		for _, l := range e.round(round) {
			sp := l.Spec
			r.Case(sp.Class)
			cs, bad := e.judge(l, false)
			cands = append(cands, cs...)
			account(l)
			if !bad && len(cs) == 0 && !sampled[sp.Conc] {
				sampled[sp.Conc] = true
				r.Sample(l)
			}
		}
	}
	r.Set("e1_stream_seconds", float64(int(time.Since(t0).Seconds()*10))/10)
	// stalls: a missed progress bound counts only if the same connection plan stalls again on its own
	for i, c := range cands {
		if i >= 3 {
			r.Inconclusive(fmt.Sprintf("connection %d: %s (not re-run: already three re-runs)", c.l.Spec.Idx, c.what))
			continue
		}
		sp := *c.l.Spec
		sp.Idx += 1000000
		sp.Conc = 1
		if len(sp.Turns) == 0 || sp.Turns[0].Req > 0 {
			sp.ServerFirst = false // (a connection on which the client sends nothing at first can only be told apart while it is alone)
		}
		solo := e.round([]*c15Conn{&sp})[0]
		cs, bad := e.judge(solo, true)
		switch {
		case len(cs) > 0:
			r.Violate("C15:stream-incomplete:"+c.dir, fmt.Sprintf("connection %d (%s): %s; reproduced when the same plan was re-run alone: %s",
				c.l.Spec.Idx, c.l.Spec.Class, c.what, cs[0].what), c.l.Spec, map[string]interface{}{"first": c.l, "solo": solo})
		case bad:
			// the solo run refuted the property by itself (already recorded)
		default:
			r.Inconclusive(fmt.Sprintf("connection %d: %s; not reproduced on the solo re-run", c.l.Spec.Idx, c.what))
		}
	}
	e.mu.Lock()
	for _, s := range e.strays {
		r.Violate("C15:bytes-altered:c2s-header", "a connection made by the bridge backend to the far TCP end did not start with the bytes any client had written: "+s, nil, e.strays)
	}
	r.Max("e1_max_concurrent_bridged_connections", e.maxOpen)
	r.Set("e1_receive_chunk_sizes", e.chunkHist)
	e.mu.Unlock()
	nv := 0
	for _, v := range values {
		if v {
			nv++
		}
	}
	r.Set("e1_distinct_byte_values_carried", nv)
	return []*core.Proc{topo.Front, topo.Back}, finish
}

// ---- passthrough ------------------------------------------------------------------------

func c15IsXFF(n string) bool { return strings.EqualFold(n, "X-Forwarded-For") }

// c15ComparePassthrough is the request fidelity oracle for the bridge
// backend's passthrough. X-Forwarded-For is the one end-to-end field a
// reverse proxy maintains by definition: the sender's values must still be
// there, in order, followed by nothing but the proxy's own client address.
func c15ComparePassthrough(g *genReq, got *rawhttp.Message) []string {
	gg := *g
	gg.Fields = nil
	var sentX, gotX []string
	for _, f := range g.Fields {
		if c15IsXFF(f.Name) {
			sentX = append(sentX, strings.Trim(f.Value, " \t"))
		} else {
			gg.Fields = append(gg.Fields, f)
		}
	}
	g2 := *got
	g2.Fields = nil
	for _, f := range got.Fields {
		if c15IsXFF(f.Name) {
			gotX = append(gotX, f.Value)
		} else {
			g2.Fields = append(g2.Fields, f)
		}
	}
	bad := compareRequest(&gg, &g2)
	if len(sentX) > 0 {
		want, have := strings.Join(sentX, ", "), strings.Join(gotX, ", ")
		okx := have == want
		if !okx && strings.HasPrefix(have, want+", ") {
			okx = net.ParseIP(have[len(want)+2:]) != nil
		}
		if !okx {
			bad = append(bad, fmt.Sprintf("field %q: got %q want %q (optionally followed by the proxy's client address)", "X-Forwarded-For", trunc(gotX), trunc(sentX)))
		}
	}
	return bad
}

// c15UpgradeCases are requests that look like bridge traffic but are not:
// upgrades on other paths, non-upgrade requests on the streaming path.
func c15UpgradeCases(rng *rand.Rand, sp string, n int, seed int64) []*genReq {
	paths := []struct{ p, class string }{
		{"/", "root"}, {"/ws/echo", "other"}, {sp + "/", "streaming+slash"}, {sp + "x", "streaming+suffix"},
		{sp[:len(sp)-1], "streaming-1"}, {strings.ToUpper(sp), "streaming-upper"}, {"/prefix" + sp, "prefix+streaming"},
		{sp + "/../other", "streaming+dotdot"}, {"/" + sp, "slash+streaming"},
	}
	var out []*genReq
	for i := 0; i < n; i++ {
		tok := fmt.Sprintf("u%dn%d", seed, i)
		key := hex.EncodeToString(tokBytes(tok, "wskey", 12))
		g := &genReq{Tok: tok, Method: "GET", Host: "ws-" + tok + ".example"}
		ws := []rawhttp.Field{{Name: "Connection", Value: "Upgrade"}, {Name: "Upgrade", Value: "websocket"},
			{Name: "Sec-WebSocket-Version", Value: "13"}, {Name: "Sec-WebSocket-Key", Value: key}}
		switch i % 4 {
		case 0, 1: // websocket upgrade on a path that is not the streaming path
			p := paths[(i/2)%len(paths)]
			g.Target = p.p
			g.Fields = append(ws, rawhttp.Field{Name: "Origin", Value: "http://" + tok + ".example"})
			if rng.Intn(2) == 0 {
				g.Target += "?a=" + tok
				g.Fields = append(g.Fields, rawhttp.Field{Name: "Sec-WebSocket-Protocol", Value: "p1, p2-" + tok})
			}
			g.Class = "passthrough|ws-upgrade|path:" + p.class
		case 2: // plain request on the streaming path itself
			g.Target = sp
			g.Method = []string{"GET", "POST", "PUT"}[rng.Intn(3)]
			g.Fields = []rawhttp.Field{{Name: "X-Custom", Value: randValue(rng)}}
			if g.Method != "GET" {
				g.BodyLen = []int{1, 1000, 70000}[rng.Intn(3)]
				g.body = tokBytes(tok, "c02body", g.BodyLen)
			}
			g.Class = "passthrough|no-upgrade|path:streaming|" + g.Method
		case 3: // upgrade to another protocol on the streaming path
			g.Target = sp
			g.Fields = []rawhttp.Field{{Name: "Connection", Value: "Upgrade"}, {Name: "Upgrade", Value: "verif-proto-" + tok}}
			g.Class = "passthrough|other-proto-upgrade|path:streaming"
		}
		out = append(out, g)
	}
	return out
}

func c15Passthrough(r *core.Run, bins bridgeBins) []*core.Proc {
	sp, err := bridgeStreamingPath()
	if err != nil {
		r.Broken(err.Error())
		return nil
	}
	rec, err := newRecorder()
	if err != nil {
		r.Broken(err.Error())
		return nil
	}
	defer rec.Srv.Close()
	back, port, err := bridgeStartProc(r, "bridge-backend-pt", bins.Back, func(port int) []string {
		return []string{"-frontend-port", strconv.Itoa(port), "-backend-port", strconv.Itoa(rec.Srv.Port())}
	})
	if err != nil {
		r.Broken(err.Error())
		return nil
	}
	addr := fmt.Sprintf("127.0.0.1:%d", port)
	rng := r.Rand("c15-passthrough")
	var gens []*genReq
	total, nbig := r.Pick(160, 3000), r.Pick(2, 24)
	for i := 0; i < total+nbig; i++ {
		g := genRequest(rng, fmt.Sprintf("p%dn%d", r.Seed, i), i >= total)
		g.Class = "passthrough|" + g.Class
		gens = append(gens, g)
	}
	gens = append(gens, c15UpgradeCases(rng, sp, r.Pick(36, 360), r.Seed)...)
	type res struct {
		g   *genReq
		err error
		st  int
	}
	ch := make(chan *genReq)
	results := make(chan res, len(gens))
	var wg sync.WaitGroup
	for w := 0; w < 4; w++ {
		wg.Add(1)
		go func() {
			defer wg.Done()
			cl := rawhttp.NewClient(addr, 60*time.Second)
			defer cl.Close()
			for g := range ch {
				m, err := cl.Do(g.wire(), g.Method)
				st := 0
				if m != nil {
					st = m.Status
				}
				results <- res{g, err, st}
			}
		}()
	}
	for _, g := range gens {
		ch <- g
	}
	close(ch)
	wg.Wait()
	close(results)
	sampled := 0
	for rs := range results {
		g := rs.g
		r.Case(g.Class)
		r.Add("passthrough_requests", 1)
		got, perr := rec.get(g.Tok)
		if len(got) == 0 {
			r.Violate("C15:passthrough:request-not-delivered", fmt.Sprintf("non-bridge request %s %s did not reach the backend port (client saw status %d, err %v)", g.Method, g.Target, rs.st, rs.err), g, nil)
			continue
		}
		if len(got) != 1 {
			r.Violate("C15:passthrough:delivery-count", fmt.Sprintf("backend port saw request %s %d times", g.Tok, len(got)), g, nil)
		}
		if perr != "" {
			r.Violate("C15:passthrough:backend-parse-error", fmt.Sprintf("the backend port could not parse passed-through request %s: %s", g.Tok, perr), g, nil)
			continue
		}
		if bad := c15ComparePassthrough(g, got[0]); len(bad) > 0 {
			r.Violate("C15:passthrough:"+diffKind(bad[0]), fmt.Sprintf("%s %s: %s", g.Method, g.Target, strings.Join(bad, "; ")), g,
				map[string]interface{}{"received_start": got[0].StartLine, "received_fields": got[0].Fields})
		} else if sampled < 2 && strings.Contains(g.Class, "upgrade") {
			sampled++
			r.Sample(map[string]interface{}{"passthrough_sent": g, "received_start_line": got[0].StartLine, "received_fields": got[0].Fields})
		}
	}
	return []*core.Proc{back}
}

// ---- slow passthrough exchanges ---------------------------------------------------------------

// c15SlowUpload is one non-bridge request whose body takes longer than ten seconds to arrive.
type c15SlowUpload struct {
	Tok     string `json:"tok"`
	Kind    string `json:"kind"` // trickle: 1 KiB per second | pause: half, 10.7 s of silence, half | chunked-trickle
	BodyLen int    `json:"body_len"`
	Chunked bool   `json:"chunked"`
	Class   string `json:"class"`
}

// c15SlowPassthrough starts a second passthrough instance of the backend binary in front of a raw
// backend and, in the background, sends it requests whose bodies arrive slowly (and one request
// whose response is produced slowly). The returned finish function waits for them and judges:
// the backend port must have received each request once, complete and unaltered.
func c15SlowPassthrough(r *core.Run, bins bridgeBins) ([]*core.Proc, func()) {
	type seen struct {
		req *rawhttp.Message
		err string
	}
	var mu sync.Mutex
	got := map[string][]seen{}
	const dlChunks, dlChunk = 14, 1024
	srv, err := rawhttp.NewServer(func(req *rawhttp.Message, reqErr error, conn net.Conn, br *bufio.Reader) bool {
		tok := ""
		if v := req.Get("X-Tok"); len(v) > 0 {
			tok = v[0]
		}
		sn := seen{req: req}
		if reqErr != nil {
			sn.err = reqErr.Error()
		}
		mu.Lock()
		got[tok] = append(got[tok], sn)
		mu.Unlock()
		if reqErr != nil {
			return false
		}
		var w rawhttp.Builder
		if strings.HasPrefix(req.Target, "/slow-download/") {
			// a response that is produced over 14 s
			w.Line("HTTP/1.1 200 OK").Field("Content-Length", strconv.Itoa(dlChunks*dlChunk)).Field("X-Tok", tok).End()
			if _, err := conn.Write(w.Bytes()); err != nil {
				return false
			}
			body := tokBytes(tok, "slowdl", dlChunks*dlChunk)
			for i := 0; i < dlChunks; i++ {
				time.Sleep(time.Second)
				if _, err := conn.Write(body[i*dlChunk : (i+1)*dlChunk]); err != nil {
					return false
				}
			}
			return true
		}
		w.Line("HTTP/1.1 200 OK").Field("Content-Length", "2").Field("X-Tok", tok).End()
		w.WriteString("ok")
		_, err := conn.Write(w.Bytes())
		return err == nil
	})
	if err != nil {
		r.Broken(err.Error())
		return nil, func() {}
	}
	back, port, err := bridgeStartProc(r, "bridge-backend-slowpt", bins.Back, func(port int) []string {
		return []string{"-frontend-port", strconv.Itoa(port), "-backend-port", strconv.Itoa(srv.Port())}
	})
	if err != nil {
		srv.Close()
		r.Broken(err.Error())
		return nil, func() {}
	}
	addr := fmt.Sprintf("127.0.0.1:%d", port)
	ups := []*c15SlowUpload{
		{Kind: "trickle", BodyLen: 14 * 1024},
		{Kind: "pause", BodyLen: 14*1024 + 1},
		{Kind: "chunked-trickle", BodyLen: 13 * 1000, Chunked: true},
	}
	type upRes struct {
		status int
		err    string
		secs   float64
	}
	results := make([]upRes, len(ups))
	var wg sync.WaitGroup
	for i, u := range ups {
		u.Tok = fmt.Sprintf("slow%dn%d", r.Seed, i)
		u.Class = "passthrough|slow-upload|" + u.Kind
		wg.Add(1)
		go func(i int, u *c15SlowUpload) {
			defer wg.Done()
			t0 := time.Now()
			res := &results[i]
			defer func() { res.secs = float64(int(time.Since(t0).Seconds()*10)) / 10 }()
			conn, err := net.DialTimeout("tcp", addr, 5*time.Second)
			if err != nil {
				res.err = err.Error()
				return
			}
			defer conn.Close()
			conn.SetDeadline(time.Now().Add(60 * time.Second))
			body := tokBytes(u.Tok, "slowup", u.BodyLen)
			var w rawhttp.Builder
			w.Line("POST /slow-upload/"+u.Tok+"?k="+u.Kind+" HTTP/1.1").Field("Host", "slow-"+u.Tok+".example").Field("X-Tok", u.Tok).Field("Accept-Encoding", "identity").Field("Content-Type", "application/octet-stream")
			if u.Chunked {
				w.Field("Transfer-Encoding", "chunked")
			} else {
				w.Field("Content-Length", strconv.Itoa(u.BodyLen))
			}
			w.End()
			if _, err := conn.Write(w.Bytes()); err != nil {
				res.err = err.Error()
				return
			}
			send := func(p []byte) bool {
				var b rawhttp.Builder
				if u.Chunked {
					b.Chunk(p)
				} else {
					b.Write(p)
				}
				if _, err := conn.Write(b.Bytes()); err != nil {
					res.err = "writing the body: " + err.Error()
					return false
				}
				return true
			}
			switch u.Kind {
			case "pause":
				if !send(body[:u.BodyLen/2]) {
					break
				}
				time.Sleep(10700 * time.Millisecond)
				send(body[u.BodyLen/2:])
			default:
				step := 1024
				if u.Chunked {
					step = 1000
				}
				for off := 0; off < len(body); off += step {
					if !send(body[off:min(len(body), off+step)]) {
						break
					}
					time.Sleep(time.Second)
				}
			}
			if u.Chunked && res.err == "" {
				var b rawhttp.Builder
				b.LastChunk(nil)
				conn.Write(b.Bytes())
			}
			m, err := rawhttp.ReadResponse(bufio.NewReader(conn), "POST")
			if m != nil {
				res.status = m.Status
			}
			if err != nil && res.err == "" {
				res.err = "reading the response: " + err.Error()
			}
		}(i, u)
	}
	// the slowly produced response (observed only: the property speaks of requests)
	dlTok := fmt.Sprintf("slowdl%d", r.Seed)
	var dlNote string
	wg.Add(1)
	go func() {
		defer wg.Done()
		cl := rawhttp.NewClient(addr, 60*time.Second)
		defer cl.Close()
		var w rawhttp.Builder
		w.Line("GET /slow-download/"+dlTok+" HTTP/1.1").Field("Host", "slow.example").Field("X-Tok", dlTok).End()
		m, err := cl.Do(w.Bytes(), "GET")
		switch {
		case m == nil:
			dlNote = fmt.Sprintf("no response: %v", err)
		case err != nil || rawhttp.SHA(m.Body) != rawhttp.SHA(tokBytes(dlTok, "slowdl", dlChunks*dlChunk)):
			dlNote = fmt.Sprintf("cut or altered: status %d, %d of %d body bytes, err %v", m.Status, len(m.Body), dlChunks*dlChunk, err)
		default:
			dlNote = "complete"
		}
	}()
	finish := func() {
		done := make(chan struct{})
		go func() { wg.Wait(); close(done) }()
		select {
		case <-done:
		case <-time.After(2 * time.Minute):
			r.Broken("slow passthrough exchanges did not end within 2 minutes")
			return
		}
		srv.Close()
		r.Set("passthrough_slow_response_over_14s(observed_only)", dlNote)
		for i, u := range ups {
			r.Case(u.Class)
			r.Add("passthrough_slow_uploads", 1)
			res := results[i]
			mu.Lock()
			sn := got[u.Tok]
			mu.Unlock()
			g := &genReq{Tok: u.Tok, Method: "POST", Target: "/slow-upload/" + u.Tok + "?k=" + u.Kind, Host: "slow-" + u.Tok + ".example",
				Fields: []rawhttp.Field{{Name: "Content-Type", Value: "application/octet-stream"}}, BodyLen: u.BodyLen, Chunked: u.Chunked, Class: u.Class}
			g.body = tokBytes(u.Tok, "slowup", u.BodyLen)
			client := fmt.Sprintf("the client (body sent over %.1f s) saw status %d, err %q", res.secs, res.status, res.err)
			switch {
			case len(sn) == 0:
				r.Violate("C15:passthrough:slow-upload:request-not-delivered", fmt.Sprintf("non-bridge request %s (%s) did not reach the backend port; %s", g.Target, u.Kind, client), u, nil)
			case len(sn) != 1:
				r.Violate("C15:passthrough:slow-upload:delivery-count", fmt.Sprintf("the backend port saw request %s %d times; %s", g.Target, len(sn), client), u, nil)
			case sn[0].err != "":
				r.Violate("C15:passthrough:slow-upload:body-altered", fmt.Sprintf("%s (%s): the backend port received a damaged request: %s (%d of %d body bytes); %s", g.Target, u.Kind, sn[0].err, len(sn[0].req.Body), u.BodyLen, client), u,
					map[string]interface{}{"received_start": sn[0].req.StartLine, "received_fields": sn[0].req.Fields})
			default:
				if bad := c15ComparePassthrough(g, sn[0].req); len(bad) > 0 {
					r.Violate("C15:passthrough:slow-upload:"+diffKind(bad[0]), fmt.Sprintf("%s (%s): %s; %s", g.Target, u.Kind, strings.Join(bad, "; "), client), u,
						map[string]interface{}{"received_start": sn[0].req.StartLine, "received_fields": sn[0].req.Fields})
				} else if i == 0 {
					r.Sample(map[string]interface{}{"slow_upload": u, "client_saw_status": res.status, "upload_seconds": res.secs, "received_body_bytes": len(sn[0].req.Body)})
				}
			}
		}
	}
	return []*core.Proc{back}, finish
}

// ---- backend outage history --------------------------------------------------------------------

type c15OutageResult struct {
	err      error
	problem  string // what the clients after the recovery saw go wrong ("" = all echoed intact)
	kind     string // stream-incomplete | bytes-altered
	attempts int
	after    int
	detail   map[string]interface{}
}

// c15Outage plays one history on fresh processes: the frontend's bridge backend is down while
// `attempts` clients connect (and write a little); the frontend can only drop them. Then the backend
// comes up, and 8 new clients each write 64 KiB through the bridge to an echoing TCP server and must
// read the same 64 KiB back within the progress bound.
func c15Outage(r *core.Run, bins bridgeBins, suffix string, attempts int, count bool) (out c15OutageResult) {
	out.attempts, out.after = attempts, 8
	echo, err := bridgeNewTCPServer(func(c *net.TCPConn, _ int) {
		defer c.Close()
		io.Copy(c, c)
	})
	if err != nil {
		out.err = err
		return
	}
	defer echo.Close()
	backPort := core.FreePort() // nothing listens here during the outage
	front, fp, err := bridgeStartProc(r, "bridge-frontend"+suffix, bins.Front, func(port int) []string {
		return []string{"-frontend-port", strconv.Itoa(port), "-backend", fmt.Sprintf("ws://127.0.0.1:%d", backPort)}
	})
	if err != nil {
		out.err = err
		return
	}
	defer front.Kill()
	faddr := fmt.Sprintf("127.0.0.1:%d", fp)
	// ---- the outage
	var dropped, hung, refused atomic.Int64
	var wg sync.WaitGroup
	sem := make(chan struct{}, 40)
	t0 := time.Now()
	for i := 0; i < attempts; i++ {
		wg.Add(1)
		sem <- struct{}{}
		go func(i int) {
			defer wg.Done()
			defer func() { <-sem }()
			c, err := net.DialTimeout("tcp", faddr, 5*time.Second)
			if err != nil {
				refused.Add(1)
				return
			}
			defer c.Close()
			if i%3 != 2 {
				c.SetWriteDeadline(time.Now().Add(2 * time.Second))
				c.Write(tokBytes("outage", strconv.Itoa(i), 1+i%700))
			}
			if i%5 == 4 {
				return // leaves at once
			}
			c.SetReadDeadline(time.Now().Add(2 * time.Second))
			buf := make([]byte, 256)
			for {
				if _, err := c.Read(buf); err != nil {
					if bridgeIsTimeout(err) {
						hung.Add(1) // observed only
					} else {
						dropped.Add(1)
					}
					return
				}
			}
		}(i)
	}
	wg.Wait()
	outageSecs := time.Since(t0).Seconds()
	// ---- recovery
	back, err := r.StartProc("bridge-backend"+suffix, bins.Back, []string{"-frontend-port", strconv.Itoa(backPort), "-backend-port", strconv.Itoa(echo.Port)})
	if err != nil {
		out.err = err
		return
	}
	defer back.Kill()
	for deadline := time.Now().Add(20 * time.Second); !bridgeListening(back.Cmd.Process.Pid, backPort); time.Sleep(10 * time.Millisecond) {
		if !back.Alive() || time.Now().After(deadline) {
			out.err = fmt.Errorf("backend did not come up on port %d: %s", backPort, core.Trunc(back.Log(), 600))
			return
		}
	}
	// ---- new clients
	const n = 64 << 10
	bound := 15 * time.Second
	problems := make([]string, out.after)
	kinds := make([]string, out.after)
	for i := 0; i < out.after; i++ {
		wg.Add(1)
		go func(i int) {
			defer wg.Done()
			fail := func(kind, f string, a ...interface{}) {
				kinds[i], problems[i] = kind, fmt.Sprintf("client %d: ", i)+fmt.Sprintf(f, a...)
			}
			c, err := net.DialTimeout("tcp", faddr, 5*time.Second)
			if err != nil {
				fail("stream-incomplete", "cannot connect to the frontend: %v", err)
				return
			}
			defer c.Close()
			data := make([]byte, n)
			bridgeNewStream(r.Seed, 5000000+i, 'c', n).Next(data)
			werr := make(chan error, 1)
			go func() {
				c.SetWriteDeadline(time.Now().Add(bound))
				_, err := c.Write(data)
				werr <- err
			}()
			got := make([]byte, 0, n)
			buf := make([]byte, 32<<10)
			for len(got) < n {
				c.SetReadDeadline(time.Now().Add(bound))
				k, err := c.Read(buf)
				got = append(got, buf[:k]...)
				if err != nil {
					fail("stream-incomplete", "%d of %d echoed bytes came back, then %v (its write: %v)", len(got), n, err, <-werr)
					return
				}
			}
			if !bytes.Equal(got, data) {
				off := 0
				for got[off] == data[off] {
					off++
				}
				fail("bytes-altered", "the echo differs from what was written at offset %d", off)
			}
		}(i)
	}
	wg.Wait()
	for i, p := range problems {
		if p != "" && out.problem == "" {
			out.problem, out.kind = p, kinds[i]
		}
	}
	nbad := 0
	for _, p := range problems {
		if p != "" {
			nbad++
		}
	}
	if nbad > 1 {
		out.problem += fmt.Sprintf(" (and %d more of the %d clients likewise)", nbad-1, out.after)
	}
	out.detail = map[string]interface{}{"outage_attempts": attempts, "outage_seconds": float64(int(outageSecs*10)) / 10, "outage_clients_dropped_by_frontend": dropped.Load(),
		"outage_clients_left_hanging_2s(observed_only)": hung.Load(), "outage_clients_refused": refused.Load(), "clients_after_recovery": out.after, "of_those_failed": nbad}
	if count {
		r.Cases("backend-outage|client-dropped", attempts)
		r.Cases("backend-outage|after-recovery|64KiB-echo", out.after)
		r.Set("backend_outage_history", out.detail)
	}
	judgeProcs(r, true, front, back)
	return out
}

// ---- E2: in-process cases (worker) -------------------------------------------------------

type c15E2Case struct {
	ID    string `json:"id"`
	Kind  string `json:"kind"`
	Topo  string `json:"topo"`
	Len   int    `json:"len"`
	Write string `json:"write"`
	Read  []int  `json:"read"`
	Copy  string `json:"copy"`
	Seed  int64  `json:"seed"`
	Class string `json:"class"`
}

type c15E2Result struct {
	ID         string   `json:"id"`
	Class      string   `json:"class"`
	Kind       string   `json:"kind"`
	Problems   []string `json:"problems"`
	Stalled    bool     `json:"stalled"`
	Retried    bool     `json:"retried"`
	BytesAB    int      `json:"bytes_a_to_b"`
	BytesBA    int      `json:"bytes_b_to_a"`
	Reads      int      `json:"reads"`
	Writes     int      `json:"writes"`
	EmptyWr    int      `json:"empty_writes"`
	Skipped    int      `json:"non_text_frames_sent"`
	Panic      string   `json:"panic"`
	DurationMs int64    `json:"duration_ms"`
}

func c15E2Plan(r *core.Run) []c15E2Case {
	rng := r.Rand("c15-e2")
	var out []c15E2Case
	add := func(kind, topo string, n int, write string, read ...int) {
		c := c15E2Case{Kind: kind, Topo: topo, Len: n, Write: write, Read: read, Seed: rng.Int63()}
		c.ID = fmt.Sprintf("e2-%d-%s-%s", len(out), kind, topo)
		rb := 0
		if len(read) > 0 {
			rb = read[0]
		}
		c.Class = fmt.Sprintf("e2|%s|%s|w:%s|r:%d|%s", kind, topo, write, rb, sizeClass(n))
		out = append(out, c)
	}
	addCopy := func(topo string, n int, write, mode string, read ...int) {
		add("prefix-then-"+mode, topo, n, write, read...)
		c := &out[len(out)-1]
		c.Copy = mode
		c.Class += "|" + mode
	}
	reps := r.Pick(1, 6)
	for k := 0; k < reps; k++ {
		jit := 0
		if k > 0 {
			jit = rng.Intn(1000)
		}
		for _, topo := range []string{"handler", "pair"} {
			add("empty-writes", topo, 1+jit, "rand+empty", 4096)
			add("empty-writes", topo, 5000+jit, "rand+empty", 1)
			add("empty-writes", topo, 200000+jit, "rand+empty", 4096)
			add("small-reads", topo, 100000+jit, "rand", 1)
			add("small-reads", topo, 300000+jit, "rand", 1, 2, 3, 7, 1, 1, 512, 513)
			add("small-reads", topo, 70000+jit, "one", 1)
			add("small-reads", topo, 66000+jit, "512", 1) // message size == websocket buffer (512 raw bytes = 1024 hex digits)
			add("small-reads", topo, 66000+jit, "513", 7) // one byte more than the buffer
			add("large-write", topo, 1<<20+1+jit, "one", 65536)
			add("large-write", topo, 4<<20+jit, "one", 1024)
			add("duplex", topo, 2<<20+jit, "rand", 1024)
			// a parser-style reader: a few small Reads (or a bufio.Reader) leave a partly consumed
			// message behind, then io.Copy / WriteTo takes over on the same connection
			addCopy(topo, 200000+jit, "rand", "copy", 4)
			addCopy(topo, 100000+jit, "1000", "copy", 1, 2, 3)
			addCopy(topo, 150000+jit, "rand", "bufio", 5)
			addCopy(topo, 70000+jit, "one", "copy", 7)
		}
		addCopy("rawserver", 100000+jit, "rand", "copy", 4)
		addCopy("rawserver", 100000+jit, "1000", "bufio", 9)
		add("raw-client-frames", "rawclient", 1000+jit, "rand")
		add("raw-client-frames", "rawclient", 100000+jit, "rand")
		add("raw-client-frames", "rawclient", 1<<20+jit, "rand")
		add("raw-client-frames", "rawclient", 3000+jit, "1")
		add("raw-server-frames", "rawserver", 50000+jit, "rand", 1)
		add("raw-server-frames", "rawserver", 300000+jit, "rand", 7, 4096)
		add("raw-server-frames", "rawserver", 1<<20+jit, "rand", 65536)
		add("raw-server-frames", "rawserver", 3000+jit, "1", 1)
	}
	if !r.Quick() {
		add("large-write", "handler", 16<<20+1, "one", 65536)
		add("large-write", "pair", 16<<20+1, "one", 32768)
	}
	return out
}

func c15E2(r *core.Run, bin string) {
	cases := c15E2Plan(r)
	byID := map[string]c15E2Case{}
	for _, c := range cases {
		byID[c.ID] = c
	}
	spec, _ := json.Marshal(map[string]interface{}{"bound_ms": 10000, "cases": cases})
	stdout, logPath, err := r.RunWorker(bin, "c15", spec, 5*time.Minute)
	sc := bufio.NewScanner(bytes.NewReader(stdout))
	sc.Buffer(make([]byte, 1<<20), 1<<26)
	seen := 0
	for sc.Scan() {
		var res c15E2Result
		if json.Unmarshal(sc.Bytes(), &res) != nil || res.ID == "" {
			continue
		}
		seen++
		c := byID[res.ID]
		r.Case(res.Class)
		r.Add("e2_bytes_ws_side_to_far_side", res.BytesAB)
		r.Add("e2_bytes_far_side_to_ws_side", res.BytesBA)
		r.Add("e2_reads_checked", res.Reads)
		r.Add("e2_empty_writes", res.EmptyWr)
		r.Add("e2_non_text_frames_interleaved", res.Skipped)
		if res.Panic != "" {
			r.Violate("C15:e2:panic:"+res.Kind, fmt.Sprintf("case %s panicked: %s", res.ID, res.Panic), c, res)
		}
		for _, p := range res.Problems {
			kind, msg, _ := strings.Cut(p, "|")
			switch kind {
			case "harness":
				r.Broken(fmt.Sprintf("e2 case %s: %s", res.ID, msg))
			case "inconclusive":
				r.Inconclusive(fmt.Sprintf("e2 case %s: %s", res.ID, msg))
			default:
				r.Violate("C15:e2:"+kind+":"+res.Kind, fmt.Sprintf("in-process case %s (%s): %s", res.ID, res.Class, msg), c, res)
			}
		}
		if len(res.Problems) == 0 && (res.Kind == "raw-client-frames" || res.Kind == "empty-writes") && res.BytesAB > 4000 {
			r.Sample(map[string]interface{}{"e2_case": c, "result": res})
		}
	}
	if seen < len(cases) {
		marks := core.CrashMarkers(logPath)
		for _, ex := range marks {
			r.Violate(core.CrashSignature(ex), "worker crashed while running "+fmt.Sprint(core.LastStarted(logPath, 2))+": "+ex, nil, nil)
		}
		if len(marks) == 0 {
			r.Broken(fmt.Sprintf("c15 worker returned %d of %d results (%v), last started %v", seen, len(cases), err, core.LastStarted(logPath, 2)))
		}
	}
}

// C15 — the TCP bridge carries byte streams intact in both directions.
func C15(r *core.Run) {
	r.SetRule("E1: harness TCP clients -> real tcp-bridge-frontend -> real tcp-bridge-backend -> harness TCP server, rounds of 1/4/16/48 concurrent connections, both directions at once, each direction an independent stream header+PRNG(seed,conn,dir) written with sizes {1,2,1023,1024,1025,4096,32768,65537,random} and read with buffers {1,7,1024,65536}; every read is compared with the regenerated stream (prefix), length+SHA-256 at the end; plus one connection per direction whose receiver stalls 13-14 s while 32-48 MiB are pushed at it (flow control must hold the sender, every byte must arrive) and a connection that lives 32 s (thorough: both directions, also 63 s) with a trickling receiver so that data is in flight all the time; and request/response connections (one message at a time, the peer waits for all of it before answering) with message sizes on and around multiples of 32 KiB, including connections on which the server speaks first (greetings of 1, 275, 65536 bytes) while the client only reads; class = (concurrency, who speaks first, per direction write size/read buffer/length class). Passthrough: grammar-generated requests of C02 plus websocket upgrades on other paths / plain and other-protocol requests on the streaming path through the backend binary to a raw recording backend under the request fidelity oracle, plus three uploads whose bodies take 11-14 s to arrive (1 KiB/s, a 10.7 s pause, chunked) and one response produced over 14 s (observed only); a history in which the bridge backend is down during 600 (thorough 2000) client attempts, comes back, and 8 new clients must then echo 64 KiB intact. E2: connection.Handler/DialWebsocket/WebsocketNetConn in-process with empty writes, 1-byte reads, raw gorilla peers interleaving binary/ping/pong frames, small Reads followed by io.Copy / bufio.Reader.WriteTo on the same connection, single writes up to 16 MiB")
	r.Assume("passthrough: well-formed requests only (C02 generator); hop-by-hop fields are legitimately removed, upgrade requests keep Connection/Upgrade; X-Forwarded-For may gain the proxy's client address after the sender's values; only HTTP/1.1 towards the backend binary (h2c not exercised)")
	r.Assume("a stream that stops making progress for 20 s (E1) / 10 s (E2) counts only if the same connection plan stalls again when re-run alone")
	bins := bridgeBuild(r)
	worker := r.MustBuild(r.BuildWorker())

	slowProcs, finishSlow := c15SlowPassthrough(r, bins) // runs in the background for about 15 s
	outageDone := make(chan c15OutageResult, 1)
	go func() { outageDone <- c15Outage(r, bins, "-outage0", r.Pick(600, 2000), true) }() // background, a few seconds
	procs, finishStalled := c15Streams(r, bins)
	procs = append(procs, slowProcs...)
	procs = append(procs, c15Passthrough(r, bins)...)
	c15E2(r, worker)
	finishSlow()
	finishStalled()
	// ---- backend outage, recovery, new clients
	if o := <-outageDone; o.err != nil {
		r.Broken("outage topology: " + o.err.Error())
	} else if o.problem != "" {
		// a missed progress bound: the whole history is repeated alone on fresh processes
		again := c15Outage(r, bins, "-outage1", r.Pick(600, 2000), false)
		switch {
		case again.err != nil:
			r.Broken("outage topology: " + again.err.Error())
		case again.problem == "":
			r.Inconclusive("after-outage clients failed once (" + o.problem + ") but not when the history was repeated alone on fresh processes")
		default:
			r.Violate("C15:"+again.kind+":after-backend-outage", fmt.Sprintf("history: the bridge backend is down while %d clients connect to the frontend (each attempt fails), then the backend is started, then %d new clients each write 64 KiB to an echoing TCP server: %s; first run: %s (repeated alone on fresh processes)",
				again.attempts, again.after, again.problem, o.problem), nil, map[string]interface{}{"first": o.detail, "second": again.detail})
		}
	}

	judgeProcs(r, true, procs...)
	killAll(procs...)
	r.JudgeRaces(core.ParseRaceLogs(filepath.Join(r.WorkDir, "race-")))
	r.Finish(r.Pick(150, 2500))
}
