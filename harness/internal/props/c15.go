package props

import "verif/internal/core"

// C15 — stub, replaced by the real check.
func C15(r *core.Run) {
	r.Broken("check not implemented yet")
	r.Finish(1)
}
