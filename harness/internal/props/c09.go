package props

import "verif/internal/core"

// C09 — stub, replaced by the real check.
func C09(r *core.Run) {
	r.Broken("check not implemented yet")
	r.Finish(1)
}
