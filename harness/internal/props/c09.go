package props

import (
	"bufio"
	"crypto/sha1"
	"encoding/base64"
	"encoding/json"
	"fmt"
	"io"
	"net"
	"net/http"
	"os"
	"path/filepath"
	"strings"
	"sync"
	"time"

	"verif/internal/core"
	"verif/internal/fakes"
	"verif/internal/rawhttp"
)

// c09Backend records plain requests and websocket handshakes by X-Tok.
type c09Backend struct {
	Srv  *rawhttp.Server
	mu   sync.Mutex
	seen map[string][]*rawhttp.Message
	ws   map[string]bool
}

func newC09Backend() (*c09Backend, error) { return newC09BackendOn("127.0.0.1:0") }

func newC09BackendOn(addr string) (*c09Backend, error) {
	b := &c09Backend{seen: map[string][]*rawhttp.Message{}, ws: map[string]bool{}}
	s, err := rawhttp.NewServerOn(addr, func(req *rawhttp.Message, reqErr error, conn net.Conn, br *bufio.Reader) bool {
		if reqErr != nil {
			return false
		}
		tok := ""
		if v := req.Get("X-Tok"); len(v) > 0 {
			tok = v[0]
		}
		isWS := rawhttp.HasToken(req.Get("Upgrade"), "websocket")
		if tok == "" && isWS && strings.HasPrefix(req.Target, "/ws/") {
			// a handshake that arrives without the client's X-Tok field is still attributed to its case by its path
			tok = strings.SplitN(strings.TrimPrefix(req.Target, "/ws/"), "?", 2)[0]
		}
		b.mu.Lock()
		b.seen[tok] = append(b.seen[tok], req)
		if isWS {
			b.ws[tok] = true
		}
		b.mu.Unlock()
		if isWS {
			key := ""
			if v := req.Get("Sec-WebSocket-Key"); len(v) > 0 {
				key = v[0]
			}
			h := sha1.Sum([]byte(key + "258EAFA5-E914-47DA-95CA-C5AB0DC85B11"))
			var w rawhttp.Builder
			hdrBytes := 0
			for _, f := range req.Fields {
				hdrBytes += len(f.Name) + len(f.Value) + 4
			}
			if hdrBytes > 2500 {
				// a backend with a tight limit on the header block turns the handshake down (Node: 431; nginx, Tornado: 400)
				status := []string{"431 Request Header Fields Too Large", "400 Bad Request"}[hdrBytes%2]
				w.Line("HTTP/1.1 "+status).Field("Content-Length", "0").Field("Connection", "close").End()
				conn.Write(w.Bytes())
				return false
			}
			w.Line("HTTP/1.1 101 Switching Protocols").Field("Upgrade", "websocket").Field("Connection", "Upgrade").
				Field("Sec-WebSocket-Accept", base64.StdEncoding.EncodeToString(h[:])).End()
			conn.Write(w.Bytes())
			conn.SetDeadline(time.Now().Add(20 * time.Second))
			io.Copy(io.Discard, br) // until the agent closes
			return false
		}
		var w rawhttp.Builder
		w.Line("HTTP/1.1 200 OK").Field("Content-Length", "2").End()
		w.WriteString("ok")
		_, err := conn.Write(w.Bytes())
		return err == nil
	})
	if err != nil {
		return nil, err
	}
	b.Srv = s
	return b, nil
}

type c09Case struct {
	Tok           string          `json:"tok"`
	URLForm       string          `json:"shim_url_form,omitempty"`
	Shim          bool            `json:"via_shim_open"`
	Identity      string          `json:"asserted_identity"`
	Fields        []rawhttp.Field `json:"client_fields"`
	Class         string          `json:"class"`
	ConnNominated bool            `json:"connection_nominates_field,omitempty"`
	Path          string          `json:"path,omitempty"`
	Trailers      bool            `json:"chunked_upload_with_identity_trailers,omitempty"`
	BadStart      string          `json:"fetch_reply_start_time,omitempty"` // the proxy's fetch reply asserts the identity but its start-time field is missing / not RFC 3339: the request may be dropped, but if it is forwarded it carries the identity
}

// C09 — identity and credential headers are trustworthy.
func C09(r *core.Run) {
	r.SetRule("real agent in configurations of {forward-user-id, strip-credentials, shim, sessions}; fake proxy asserts a unique identity per request; clients plant forged X-Inverting-Proxy-User-ID fields (lower/upper/mixed case, repeated 1-3x) and Authorization fields (Basic/Bearer, repeated, mixed-case names); requests delivered as plain requests and as websocket-shim open requests; raw backend records request and websocket-handshake header lines; class = (config, plain|shim, forged-identity shape, authorization shape, identity kind)")
	r.Assume("nothing is asserted about the identity header when --forward-user-id is off, nor about Authorization when --strip-credentials is off")
	agentBin := r.MustBuild(r.BuildRepoBinary("./agent", "agent"))
	md, err := fakes.NewMetadata()
	if err != nil {
		r.Broken(err.Error())
		r.Finish(1)
	}
	defer md.Close()
	type config struct{ fwd, strip, shim, sess bool }
	var cfgs []config
	for i := 0; i < 16; i++ {
		c := config{i&1 != 0, i&2 != 0, i&4 != 0, i&8 != 0}
		if r.Quick() && !(c.fwd && c.strip) {
			continue
		}
		cfgs = append(cfgs, c)
	}
	per := r.Pick(70, 500)
	var wg sync.WaitGroup
	for ci, cfg := range cfgs {
		wg.Add(1)
		go func(ci int, cfg config) {
			defer wg.Done()
			rng := r.Rand(fmt.Sprintf("c09-%d", ci))
			backend, err := newC09Backend()
			if err != nil {
				r.Broken(err.Error())
				return
			}
			defer backend.Srv.Close()
			px, err := fakes.NewProxy()
			if err != nil {
				r.Broken(err.Error())
				return
			}
			defer px.Close()
			px.ListWait = 50 * time.Millisecond
			type badFetch struct {
				kind, user string
				raw        []byte
			}
			var bmu sync.Mutex
			badStart := map[string]badFetch{}
			px.OnFetch = func(id string, w http.ResponseWriter, req *http.Request) bool {
				bmu.Lock()
				b, ok := badStart[id]
				bmu.Unlock()
				if !ok {
					return false
				}
				w.Header().Set("X-Inverting-Proxy-Request-ID", id)
				w.Header().Set("X-Inverting-Proxy-User-ID", b.user)
				switch b.kind {
				case "unix":
					w.Header().Set("X-Inverting-Proxy-Request-Start-Time", fmt.Sprint(time.Now().Unix()))
				case "garbled":
					w.Header().Set("X-Inverting-Proxy-Request-Start-Time", "yesterday, around noon")
				case "empty":
					w.Header().Set("X-Inverting-Proxy-Request-Start-Time", "")
				}
				w.WriteHeader(200)
				w.Write(b.raw)
				return true
			}
			args := []string{fmt.Sprintf("--forward-user-id=%v", cfg.fwd), fmt.Sprintf("--strip-credentials=%v", cfg.strip)}
			if cfg.shim {
				args = append(args, "--shim-path=shim", "--shim-websockets=true")
			}
			if cfg.sess {
				args = append(args, "--session-cookie-name=SID", "--disable-ssl-for-test=true", "--debug=true")
			}
			agent, err := startAgent(r, agentBin, fmt.Sprintf("agent%d", ci), md, px.URL(), backend.Srv.Addr(), fmt.Sprintf("b9-%d", ci), args...)
			if err != nil {
				r.Broken(err.Error())
				return
			}
			defer agent.Kill()
			cfgName := fmt.Sprintf("fwd=%v,strip=%v,shim=%v,sess=%v", cfg.fwd, cfg.strip, cfg.shim, cfg.sess)
			var cases []c09Case
			for i := 0; i < per; i++ {
				tok := fmt.Sprintf("s%dg%di%d", r.Seed, ci, i)
				c := c09Case{Tok: tok, Shim: cfg.shim && i%3 == 0, Identity: "user-" + tok + "@example.com"}
				idKind := "email"
				switch rng.Intn(10) {
				case 5:
					c.Identity, idKind = "j\u00fcrgen-"+tok+"@ex\u00e4mple.com", "utf8"
				case 0:
					c.Identity, idKind = "", "empty"
				case 1:
					c.Identity, idKind = "allUsers", "word"
				case 2:
					c.Identity, idKind = "first+last-"+tok+"@example.com", "plus"
				case 3:
					c.Identity, idKind = "a%2Bb%40"+tok+"%zz", "percent"
				case 4:
					c.Identity, idKind = "First Last <"+tok+"@example.com>", "spaces"
				case 6:
					c.Identity, idKind = "Dave."+tok+"@Example.COM", "mixed-case-domain"
				}
				// plain requests whose paths merely resemble the shim's own endpoints must be treated like any other
				c.Path = "/plain/" + tok
				if !c.Shim && i%4 == 1 {
					c.Path = []string{"/api/v1/shim/poll", "/x/shim/open", "/shim/pollx", "/app/shim/data", "/shimmy/poll", "/SHIM/poll", "/v2/shim/poll", "/shim.poll", "/a/shim/close"}[(i/4)%9]
					idKind += "+shim-like-path"
				}
				forged := rng.Intn(4)
				fshape := fmt.Sprint(forged)
				for k := 0; k < forged; k++ {
					// (the last three are different header names that merely resemble the trusted one: they may travel on as they are,
					// but must never end up as values of the trusted field)
					name := []string{"X-Inverting-Proxy-User-ID", "x-inverting-proxy-user-id", "X-INVERTING-PROXY-USER-ID", "X-Inverting-Proxy-User-Id", "x-InVerTing-proXy-uSer-id",
						"X_Inverting_Proxy_User_ID", "x_inverting_proxy_user_id", "X-Inverting-Proxy-User_ID",
						"X-Websocket-Shim-Header-X-Inverting-Proxy-User-ID", "X-Forwarded-X-Inverting-Proxy-User-ID", "X-Original-X-Inverting-Proxy-User-ID"}[rng.Intn(11)]
					val := []string{"forged-" + tok + "@evil.example", "admin@example.com", "", c.Identity}[rng.Intn(4)]
					c.Fields = append(c.Fields, rawhttp.Field{Name: name, Value: val})
				}
				auth := rng.Intn(4)
				for k := 0; k < auth; k++ {
					name := []string{"Authorization", "authorization", "AUTHORIZATION", "AuThOrIzAtIoN"}[rng.Intn(4)]
					if k == auth-1 && rng.Intn(4) == 0 {
						// a differently named field that merely ends in the credential field's name: it may travel on under its
						// own name, but nothing may turn it into an Authorization field
						name = []string{"X-Websocket-Shim-Header-Authorization", "X-Forwarded-Authorization", "X-Original-Authorization", "X-Shim-Authorization"}[rng.Intn(4)]
					}
					val := []string{"Basic " + base64.StdEncoding.EncodeToString([]byte("u:"+tok)), "Bearer secret-" + tok, "Negotiate x" + tok}[rng.Intn(3)]
					if k == 0 && auth > 1 && rng.Intn(3) == 0 {
						val = []string{"", " "}[rng.Intn(2)] // an empty first value followed by a real one
					}
					c.Fields = append(c.Fields, rawhttp.Field{Name: name, Value: val})
				}
				emptyAuth := false
				for _, f := range c.Fields {
					if strings.EqualFold(f.Name, "Authorization") && strings.TrimSpace(f.Value) == "" {
						emptyAuth = true
					}
				}
				if !emptyAuth {
					rng.Shuffle(len(c.Fields), func(a, b int) { c.Fields[a], c.Fields[b] = c.Fields[b], c.Fields[a] })
				}
				conn := "none"
				if rng.Intn(5) == 0 {
					// the client nominates the identity (or credential) field as hop-by-hop
					k := rng.Intn(8)
					conn = []string{"user-id", "close+user-id", "keep-alive+user-id", "authorization", "keep-alive,user-id(no-space)", "close,tab,user-id", "two-fields", "user-id+other"}[k]
					c.ConnNominated = true
					// (the legacy Proxy-Connection field is not a nomination; it must not be honoured as one either)
					name := []string{"Connection", "connection", "Connection", "Proxy-Connection"}[rng.Intn(4)]
					if k == 6 {
						c.Fields = append(c.Fields, rawhttp.Field{Name: name, Value: "keep-alive"}, rawhttp.Field{Name: "Connection", Value: "x-inverting-proxy-user-id"})
					} else {
						c.Fields = append(c.Fields, rawhttp.Field{Name: name,
							Value: []string{"X-Inverting-Proxy-User-ID", "close, x-inverting-proxy-user-id", "keep-alive, X-Inverting-Proxy-User-Id", "Authorization",
								"keep-alive,X-Inverting-Proxy-User-ID", "close ,\tX-INVERTING-PROXY-USER-ID", "", "x-inverting-proxy-user-id , X-Other-" + tok}[k]})
					}
				}
				if conn == "none" && (i%9 == 3 || i%9 == 4) {
					// the legacy spelling, on shim opens (i divisible by 3) and plain requests alike
					conn = "proxy-connection+user-id"
					c.ConnNominated = true
					c.Fields = append(c.Fields, rawhttp.Field{Name: []string{"Proxy-Connection", "proxy-connection"}[i%2], Value: []string{"X-Inverting-Proxy-User-ID", "keep-alive, x-inverting-proxy-user-id", "Authorization, X-Inverting-Proxy-User-Id"}[(i/9)%3]})
				}
				if !c.Shim && i%6 == 2 {
					c.Trailers = true
					idKind += "+trailers"
				}
				if c.Shim {
					c.URLForm = []string{"absolute", "absolute", "userinfo", "path-only", "userinfo-no-password"}[rng.Intn(5)]
				}
				if i%11 == 7 {
					c.BadStart = []string{"missing", "unix", "garbled", "empty"}[(i/11)%4]
					idKind += "+fetch-reply-start-time-" + c.BadStart
				}
				if c.Shim && i%12 == 6 {
					// an open request padded beyond the backend's header-block limit: the backend turns the handshake down;
					// whatever the agent does next, a handshake that reaches the backend carries trustworthy fields
					c.Fields = append(c.Fields, rawhttp.Field{Name: "X-Pad-" + tok, Value: strings.Repeat("p", 2600+i)})
					idKind += "+handshake-declined-for-header-size"
				}
				c.Class = fmt.Sprintf("%s|shim=%v%s|forged=%s|auth=%d|id=%s|conn=%s", cfgName, c.Shim, c.URLForm, fshape, auth, idKind, conn)
				cases = append(cases, c)
			}
			// issue the requests, 8 in flight
			sem := make(chan struct{}, 8)
			var cwg sync.WaitGroup
			for _, c := range cases {
				sem <- struct{}{}
				cwg.Add(1)
				go func(c c09Case) {
					defer cwg.Done()
					defer func() { <-sem }()
					var w rawhttp.Builder
					if c.Shim {
						body := "ws://ignored.example/ws/" + c.Tok + "?x=1"
						switch c.URLForm {
						case "userinfo":
							body = "ws://mallory:s3cret-" + c.Tok + "@ignored.example/ws/" + c.Tok + "?x=1"
						case "path-only":
							body = "/ws/" + c.Tok + "?x=1"
						case "userinfo-no-password":
							body = "ws://bearer-" + c.Tok + "@ignored.example/ws/" + c.Tok
						}
						w.Line("POST /shim/open HTTP/1.1").Field("Host", "c09.example").Field("X-Tok", c.Tok).Fields(c.Fields).
							Field("Content-Length", fmt.Sprint(len(body))).End()
						w.WriteString(body)
					} else if c.Trailers {
						// a chunked upload whose trailer section names the identity and credential fields (announced or not):
						// whatever happens to trailers, they must not turn into header fields the backend trusts
						w.Line("POST "+c.Path+" HTTP/1.1").Field("Host", "c09.example").Field("X-Tok", c.Tok).Fields(c.Fields)
						if tokHash(c.Tok)%2 == 0 {
							w.Field("Trailer", "X-Inverting-Proxy-User-ID, Authorization")
						}
						w.Field("Transfer-Encoding", "chunked").End()
						w.Chunk([]byte("body-" + c.Tok))
						w.LastChunk([]rawhttp.Field{{Name: "X-Inverting-Proxy-User-ID", Value: "trailer-forged-" + c.Tok + "@evil.example"}, {Name: "Authorization", Value: "Bearer trailer-" + c.Tok}})
					} else {
						w.Line("GET "+c.Path+" HTTP/1.1").Field("Host", "c09.example").Field("X-Tok", c.Tok).Fields(c.Fields).End()
					}
					wait := 20 * time.Second
					if c.BadStart != "" {
						bmu.Lock()
						badStart[c.Tok] = badFetch{kind: c.BadStart, user: c.Identity, raw: append([]byte(nil), w.Bytes()...)}
						bmu.Unlock()
						wait = 1500 * time.Millisecond // the agent may (and the unchanged one does) drop such a request
					}
					px.Enqueue(c.Tok, w.Bytes(), c.Identity)
					up, ok := px.Wait(c.Tok, wait)
					if ok && c.Shim && up.Resp != nil && up.Resp.Status == 200 {
						// close the shim session again
						var m struct {
							ID string `json:"id"`
						}
						if json.Unmarshal(up.Resp.Body, &m) == nil && m.ID != "" {
							cb := fmt.Sprintf(`{"id":%q}`, m.ID)
							var cw rawhttp.Builder
							cw.Line("POST /shim/close HTTP/1.1").Field("Host", "c09.example").Field("Content-Length", fmt.Sprint(len(cb))).End()
							cw.WriteString(cb)
							px.Enqueue(c.Tok+"-close", cw.Bytes(), c.Identity)
							px.Wait(c.Tok+"-close", 10*time.Second)
						}
					}
				}(c)
			}
			cwg.Wait()
			// oracle
			for _, c := range cases {
				r.Case(c.Class)
				backend.mu.Lock()
				reqs := backend.seen[c.Tok]
				sawWS := backend.ws[c.Tok]
				backend.mu.Unlock()
				userinfo := strings.HasPrefix(c.URLForm, "userinfo")
				if len(reqs) == 0 {
					if c.BadStart != "" {
						r.Add("requests_dropped_for_a_malformed_start_time", 1)
					} else if !userinfo { // a URL with credentials may be refused before anything is dialled
						r.Inconclusive(fmt.Sprintf("request %s (%s) never reached the backend", c.Tok, c.Class))
					} else {
						r.Add("shim_opens_with_userinfo_refused", 1)
					}
					continue
				}
				if c.Shim && !sawWS && !userinfo && c.BadStart == "" {
					r.Inconclusive(fmt.Sprintf("shim open %s did not produce a websocket handshake", c.Tok))
				}
				kind := "plain"
				if c.Shim {
					kind = "shim-open"
				}
				for _, req := range reqs {
					if os.Getenv("VERIF_DEBUG") != "" && !strings.HasPrefix(c.Path, "/plain") && !c.Shim {
						fmt.Fprintf(os.Stderr, "DEBUG %s %s %s -> %v\n", cfgName, c.Tok, c.Path, req.Fields)
					}
					if cfg.fwd {
						var ids []string
						for _, f := range req.Fields {
							if strings.EqualFold(f.Name, "X-Inverting-Proxy-User-ID") {
								ids = append(ids, f.Value)
							}
						}
						if len(ids) != 1 || ids[0] != c.Identity {
							what := "wrong-value"
							if len(ids) > 1 {
								what = "client-value-forwarded"
							} else if len(ids) == 0 {
								what = "missing"
							}
							if c.ConnNominated {
								what += ":connection-nominated"
							}
							r.Violate("C09:user-id:"+what+":"+kind, fmt.Sprintf("%s: backend saw X-Inverting-Proxy-User-ID %q, the proxy asserted %q (client fields %v)", cfgName, ids, c.Identity, c.Fields), c, req.Fields)
						}
					}
					if cfg.strip {
						for _, f := range req.Fields {
							if strings.EqualFold(f.Name, "Authorization") {
								r.Violate("C09:authorization-forwarded:"+kind, fmt.Sprintf("%s: backend saw %s: %s", cfgName, f.Name, f.Value), c, req.Fields)
							}
						}
					}
				}
				if len(c.Fields) > 2 {
					r.Sample(map[string]interface{}{"case": c, "backend_saw": reqs[0].Fields})
				}
			}
			r.Add("websocket_handshakes_observed", len(backend.ws))
			judgeProcs(r, true, agent)
			if cfg.fwd || cfg.strip {
				c09BackendComesUpLate(r, agentBin, md, ci, cfgName, args, cfg.fwd, cfg.strip)
			}
		}(ci, cfg)
	}
	wg.Wait()
	r.Set("agent_configurations", len(cfgs))
	r.JudgeRaces(core.ParseRaceLogs(filepath.Join(r.WorkDir, "race-")))
	r.Finish(r.Pick(200, 4000))
}

// c09BackendComesUpLate: requests with forged identity and credential fields
// arrive while the backend port refuses connections; the backend starts to
// listen a moment later.  A request may fail (502) - but if anything reaches
// the backend, by whatever retry, it must carry trustworthy headers.
func c09BackendComesUpLate(r *core.Run, agentBin string, md *fakes.Metadata, ci int, cfgName string, args []string, fwd, strip bool) {
	px, err := fakes.NewProxy()
	if err != nil {
		r.Broken(err.Error())
		return
	}
	defer px.Close()
	px.ListWait = 30 * time.Millisecond
	addr := fmt.Sprintf("127.0.0.1:%d", core.FreePort())
	agent, err := startAgent(r, agentBin, fmt.Sprintf("agent%d-late", ci), md, px.URL(), addr, fmt.Sprintf("b9l-%d", ci), args...)
	if err != nil {
		r.Broken(err.Error())
		return
	}
	defer agent.Kill()
	for d := time.Now().Add(60 * time.Second); time.Now().Before(d) && px.Lists() == 0 && agent.Alive(); {
		time.Sleep(10 * time.Millisecond)
	}
	if px.Lists() == 0 {
		r.Inconclusive("C09 late-backend scenario: the agent never polled")
		return
	}
	type lc struct{ tok, id string }
	var cs []lc
	for k := 0; k < 8; k++ {
		tok := fmt.Sprintf("s%dg%dlate%d", r.Seed, ci, k)
		id := "user-" + tok + "@example.com"
		var w rawhttp.Builder
		w.Line("GET /late/"+tok+" HTTP/1.1").Field("Host", "c09.example").Field("X-Tok", tok).
			Field("X-Inverting-Proxy-User-ID", "forged-"+tok+"@evil.example").Field("Authorization", "Bearer secret-"+tok).
			Field("x-inverting-proxy-user-id", "admin@example.com").End()
		px.Enqueue(tok, w.Bytes(), id)
		cs = append(cs, lc{tok, id})
		time.Sleep(20 * time.Millisecond)
	}
	backend, err := newC09BackendOn(addr)
	if err != nil {
		r.Inconclusive("C09 late-backend scenario: cannot listen on " + addr + ": " + err.Error())
		return
	}
	defer backend.Srv.Close()
	for _, c := range cs {
		px.Wait(c.tok, 10*time.Second)
	}
	time.Sleep(600 * time.Millisecond) // a late retry, if any, has happened by now
	reached := 0
	for _, c := range cs {
		r.Case(cfgName + "|backend-comes-up-late")
		backend.mu.Lock()
		reqs := backend.seen[c.tok]
		backend.mu.Unlock()
		for _, req := range reqs {
			reached++
			var ids []string
			for _, f := range req.Fields {
				if strings.EqualFold(f.Name, "X-Inverting-Proxy-User-ID") {
					ids = append(ids, f.Value)
				}
				if strip && strings.EqualFold(f.Name, "Authorization") {
					r.Violate("C09:authorization-forwarded:plain:after-backend-came-up", fmt.Sprintf("%s: a request that first met a refused connection reached the backend with %s: %s", cfgName, f.Name, f.Value), nil, req.Fields)
				}
			}
			if fwd && (len(ids) != 1 || ids[0] != c.id) {
				r.Violate("C09:user-id:untrusted:plain:after-backend-came-up", fmt.Sprintf("%s: a request that first met a refused connection reached the backend with X-Inverting-Proxy-User-ID %q, the proxy asserted %q", cfgName, ids, c.id), nil, req.Fields)
			}
		}
	}
	r.Add("late_backend_requests_that_reached_the_backend", reached)
	judgeProcs(r, true, agent)
}
