package props

import (
	"bufio"
	"bytes"
	"encoding/json"
	"fmt"
	"path/filepath"
	"strings"
	"sync"
	"time"

	"verif/internal/core"
)

type c06Fault struct {
	Kind     string `json:"kind"`
	At       int    `json:"at"`
	KeepOpen bool   `json:"keep_open"`
}

type c06Case struct {
	ID       string     `json:"id"`
	BodyLen  int        `json:"body_len"`
	Chunks   int        `json:"chunks"`
	DelayMs  int        `json:"delay_ms"`
	Attempts []c06Fault `json:"attempts"`
	HoldMs   int        `json:"hold_ms"`
	HeaderMs int        `json:"header_ms"`
	Scribble bool       `json:"scribble,omitempty"`
	LockStep bool       `json:"lock_step,omitempty"`
	VMID     bool       `json:"vm_identity,omitempty"`
}

type c06Result struct {
	ID       string `json:"id"`
	Attempts []struct {
		N        int    `json:"n"`
		Kind     string `json:"kind"`
		Received int    `json:"received"`
		Acked    bool   `json:"acked"`
		Problem  string `json:"problem"`
	} `json:"attempts"`
	WriteErr   string   `json:"write_err"`
	CloseErr   string   `json:"close_err"`
	Hang       bool     `json:"hang"`
	Panic      string   `json:"panic"`
	DurationMs int64    `json:"duration_ms"`
	Violations []string `json:"violations"`
	Serialised int      `json:"serialised_len"`
}

func c06Failing() []c06Fault {
	var out []c06Fault
	for _, at := range []int{-2, -3} {
		out = append(out, c06Fault{Kind: "rst", At: at}, c06Fault{Kind: "fin", At: at})
	}
	for _, at := range []int{0, 1, 100, 4095, 4096, 4097, 8192, -1} {
		out = append(out, c06Fault{Kind: "e5xx", At: at}, c06Fault{Kind: "e5xx", At: at, KeepOpen: true},
			c06Fault{Kind: "rst", At: at}, c06Fault{Kind: "fin", At: at})
	}
	out = append(out, c06Fault{Kind: "garbage", At: 0}, c06Fault{Kind: "garbage", At: 100}, c06Fault{Kind: "garbage", At: -1})
	return out
}

func (f c06Fault) String() string {
	s := fmt.Sprintf("%s@%d", f.Kind, f.At)
	if f.KeepOpen {
		s += "+open"
	}
	return s
}

func c06Pattern(fs []c06Fault) string {
	var p []string
	for _, f := range fs {
		p = append(p, f.String())
	}
	return strings.Join(p, ",")
}

// C06 — retried uploads are never corrupted.
func C06(r *core.Run) {
	r.Level = "fault_enumeration"
	r.SetRule("utils.NewResponseForwarder driven in-process (race-built worker) with a real http.Client against a byte-level TCP fault server; enumerated fault scripts: kind {5xx early / after k bytes / after the body, RST, FIN, garbage} x offset k {on accept, inside headers, 0, 1, 100, 4095, 4096, 4097, 8192, end} x attempt patterns of length <=3 x serialised size classes x producer timing (written at once | streamed in chunks with pauses so that the fault lands while the previous attempt's reader is parked); class = (attempt pattern, size class, timing)")
	r.Assume("the fault server de-chunks the upload itself; an attempt counts as acknowledged only when the server replied 200 after reading the terminating chunk")
	bin := r.MustBuild(r.BuildWorker())
	fails := c06Failing()
	rng := r.Rand("c06")
	sizes := []int{0, 10, 3700, 3850, 3900, 3950, 4000, 5000, 65536}
	if !r.Quick() {
		for b := 3600; b <= 4100; b += 8 {
			sizes = append(sizes, b)
		}
		sizes = append(sizes, 1<<20)
	}
	type timing struct{ chunks, delay, hold int }
	timings := []timing{{1, 0, 0}, {6, 2, 15}, {20, 1, 0}}
	var cases []c06Case
	add := func(at []c06Fault, size int, t timing) {
		id := fmt.Sprintf("s%d-%d", r.Seed, len(cases))
		cases = append(cases, c06Case{ID: id, BodyLen: size, Chunks: t.chunks, DelayMs: t.delay, HoldMs: t.hold, Attempts: at})
	}
	// all single-fault scripts [F, ok] x sizes x timings (quick: a seeded third of the product, every F and every size still covered)
	for fi, f := range fails {
		for si, size := range sizes {
			for ti, t := range timings {
				if r.Quick() && (fi+si+ti+int(r.Seed))%3 != 0 && !(f.Kind == "e5xx" && f.At == 0 && ti == 1) {
					continue
				}
				add([]c06Fault{f, {Kind: "ok", At: -1}}, size, t)
			}
		}
	}
	// no-fault baseline
	for _, size := range sizes {
		add([]c06Fault{{Kind: "ok", At: -1}}, size, timings[rng.Intn(3)])
	}
	// two and three faults
	n2 := r.Pick(60, 4000)
	for i := 0; i < n2; i++ {
		f1, f2 := fails[rng.Intn(len(fails))], fails[rng.Intn(len(fails))]
		at := []c06Fault{f1, f2}
		if rng.Intn(2) == 0 {
			at = append(at, fails[rng.Intn(len(fails))])
		} else {
			at = append(at, c06Fault{Kind: "ok", At: -1})
		}
		add(at, sizes[rng.Intn(len(sizes))], timings[rng.Intn(3)])
	}
	// every early fault followed by an early 5xx while the producer is still streaming (both tiers):
	// the second failure is the one whose reader may still be active when the third attempt starts
	for i, f1 := range fails {
		if f1.At > 100 || f1.At == -1 {
			continue
		}
		for j, f2 := range fails {
			if f2.Kind != "e5xx" || f2.At < 0 || f2.At > 100 {
				continue
			}
			add([]c06Fault{f1, f2, {Kind: "ok", At: -1}}, []int{10, 3900, 5000}[(i+j+int(r.Seed))%3], timings[1+(i+j)%2])
		}
	}
	// a slow backend: every attempt fails (or the first two fail) before the handler has produced its response header
	for i, f := range fails {
		if f.At > 0 || f.At == -1 {
			continue
		}
		for _, pat := range [][]c06Fault{{f, f, f}, {f, fails[(i+3)%len(fails)], {Kind: "ok", At: -1}}, {f, {Kind: "ok", At: -1}}} {
			id := fmt.Sprintf("s%d-%d", r.Seed, len(cases))
			cases = append(cases, c06Case{ID: id, BodyLen: []int{10, 3900, 5000}[i%3], Chunks: 1 + i%3, HeaderMs: 400, Attempts: pat})
		}
	}
	// the proxy is unreachable (connection refused on every attempt): with an immediate and with a slow backend
	for i, hm := range []int{0, 0, 300, 300, 800} {
		id := fmt.Sprintf("s%d-%d", r.Seed, len(cases))
		cases = append(cases, c06Case{ID: id, BodyLen: []int{10, 5000, 10, 3900, 65536}[i], Chunks: 1 + i, HeaderMs: hm,
			Attempts: []c06Fault{{Kind: "refused", At: -2}, {Kind: "refused", At: -2}, {Kind: "refused", At: -2}}})
	}
	// rejections that are not 5xx (401 for an expired identity token, 403, 404, 429), with the proxy client wrapped as on a GCE VM and plain
	for i, kind := range []string{"e401", "e401", "e403", "e404", "e429", "e401"} {
		if r.Quick() && i >= 4 {
			break
		}
		id := fmt.Sprintf("s%d-%d", r.Seed, len(cases))
		cases = append(cases, c06Case{ID: id, BodyLen: []int{10, 3000, 65536, 10, 5000, 1 << 20}[i], Chunks: 1 + i%3, VMID: i%2 == 0,
			Attempts: []c06Fault{{Kind: kind, At: []int{-1, 0, 100, -1, -1, 3000}[i]}, {Kind: "ok", At: -1}}})
	}
	// a front end that answers the upload with a 307/308 redirect, early (while the response is still streaming), late, and
	// alternating with 5xx replies
	okF := c06Fault{Kind: "ok", At: -1}
	for i, at := range []int{0, 100, -1, 3000, 0, 100} {
		kind := []string{"e307", "e308"}[i%2]
		id := fmt.Sprintf("s%d-%d", r.Seed, len(cases))
		pat := []c06Fault{{Kind: kind, At: at, KeepOpen: i%3 == 1}, okF}
		if i >= 4 {
			e5 := c06Fault{Kind: "e5xx", At: at}
			pat = []c06Fault{{Kind: kind, At: at}, e5, {Kind: kind, At: at}, e5, {Kind: kind, At: at}, e5, okF}
		}
		cases = append(cases, c06Case{ID: id, BodyLen: []int{3000, 65536, 10, 5000, 2000, 3900}[i], Chunks: 2 + i%3, DelayMs: []int{20, 5, 0, 10, 20, 5}[i], Attempts: pat})
	}
	// a producer that waits for its consumer: the first attempt is turned down after the proxy has received the first part; the
	// handler writes the next part only when a later attempt has delivered the first one again
	// (only replies at HTTP level: after a reset or a close net/http's client does not return before its blocked read of
	// the body does, which no caller can shorten; and only first parts that fit the replay buffer)
	for i, at := range []int{120, 250, 400, 700} {
		id := fmt.Sprintf("s%d-%d", r.Seed, len(cases))
		cases = append(cases, c06Case{ID: id, BodyLen: []int{3000, 900, 6000, 2400}[i], Chunks: 3, LockStep: true,
			Attempts: []c06Fault{{Kind: "e5xx", At: at, KeepOpen: i%2 == 0}, okF}})
	}
	// the transport reads the body through a caller that reuses its read buffer: an early 5xx while the first attempt's reader is
	// blocked on the backend, then a piece that crosses the 4 KiB replay limit arrives in that stale read
	for i, at := range []int{100, 0, 300, 100, 2000, 50} {
		id := fmt.Sprintf("s%d-%d", r.Seed, len(cases))
		cases = append(cases, c06Case{ID: id, BodyLen: []int{5000, 6000, 4500, 9000, 5200, 70000}[i], Chunks: []int{2, 2, 3, 3, 2, 4}[i], HoldMs: 250, Scribble: true,
			Attempts: []c06Fault{{Kind: "e5xx", At: at, KeepOpen: i%2 == 0}, okF}})
	}
	// ... and the same with first parts of every size that lets some piece of the serialised stream (a chunk-size line, a CRLF)
	// straddle the 4096th byte while it is delivered to the stale reader; the 5xx comes when the proxy has received nearly all
	// of the first part, i.e. when the first attempt's reader is blocked waiting for the backend
	for f := r.Pick(3860, 3700); f <= r.Pick(3990, 4100); f++ {
		id := fmt.Sprintf("s%d-%d", r.Seed, len(cases))
		cases = append(cases, c06Case{ID: id, BodyLen: 2 * f, Chunks: 2, HoldMs: 120, Scribble: true,
			Attempts: []c06Fault{{Kind: "e5xx", At: f - 100, KeepOpen: f%2 == 0}, okF}})
	}
	// (which of two neighbouring sizes lines up varies from run to run with the transport's read pattern: the sizes around the
	// computed alignment - the case ID occurs three times in the header block - are repeated)
	for rep := 0; rep < r.Pick(8, 24); rep++ {
		for d := -6; d <= 6; d++ {
			id := fmt.Sprintf("s%d-%d", r.Seed, len(cases))
			f := 3946 - 3*(len(id)-6) + d
			cases = append(cases, c06Case{ID: id, BodyLen: 2 * f, Chunks: 2, HoldMs: 100 + 10*rep, Scribble: true,
				Attempts: []c06Fault{{Kind: "e5xx", At: f - 100 - 40*(rep%3), KeepOpen: rep%2 == 0}, okF}})
		}
	}
	// an early 5xx with a reply body from a proxy that then stops reading without closing, while a response far larger
	// than the socket buffers is streaming: the handler must still be released
	for i, at := range []int{0, 3000, 100, 70000} {
		if r.Quick() && i >= 2 {
			break
		}
		id := fmt.Sprintf("s%d-%d", r.Seed, len(cases))
		cases = append(cases, c06Case{ID: id, BodyLen: []int{16 << 20, 24 << 20, 16<<20 + 1, 32 << 20}[i], Chunks: 16 + i,
			Attempts: []c06Fault{{Kind: "e5xx-body-hold", At: at}, {Kind: "ok", At: -1}}})
	}
	if !r.Quick() {
		// exhaustive pairs of early faults on the sizes around the replay limit
		early := []c06Fault{}
		for _, f := range fails {
			if f.At <= 100 {
				early = append(early, f)
			}
		}
		for _, f1 := range early {
			for _, f2 := range early {
				add([]c06Fault{f1, f2, {Kind: "ok", At: -1}}, []int{10, 3900, 5000}[rng.Intn(3)], timings[1+rng.Intn(2)])
			}
		}
	}
	if r.OnlyCase >= 0 && r.OnlyCase < len(cases) {
		cases = cases[r.OnlyCase : r.OnlyCase+1]
	}

	results := c06RunShards(r, bin, cases, 10000)
	byID := map[string]c06Case{}
	for _, c := range cases {
		byID[c.ID] = c
	}
	// confirm hangs solo with a doubled bound
	var hung []c06Case
	for _, res := range results {
		if res.Hang {
			hung = append(hung, byID[res.ID])
		}
	}
	confirmed := map[string]bool{}
	for _, c := range hung {
		rr := c06RunShards(r, bin, []c06Case{c}, 20000)
		if len(rr) == 1 && rr[0].Hang {
			confirmed[c.ID] = true
		} else {
			r.Inconclusive(fmt.Sprintf("case %s missed the 10s bound once but completed when re-run alone", c.ID))
		}
	}
	// "the retry waited for more output" is a progress verdict (8 s): it counts only when the case, run alone, shows it again
	stallSeen := map[string]bool{}
	for i, res := range results {
		for _, v := range res.Violations {
			if strings.HasPrefix(v, "retry-waited-for-more-output") && !stallSeen[res.ID] {
				stallSeen[res.ID] = true
				rr := c06RunShards(r, bin, []c06Case{byID[res.ID]}, 20000)
				again := false
				if len(rr) == 1 {
					for _, v2 := range rr[0].Violations {
						if strings.HasPrefix(v2, "retry-waited-for-more-output") {
							again = true
						}
					}
				}
				if !again {
					var keep []string
					for _, v3 := range res.Violations {
						if !strings.HasPrefix(v3, "retry-waited-for-more-output") {
							keep = append(keep, v3)
						}
					}
					results[i].Violations = keep
					r.Inconclusive(fmt.Sprintf("case %s: the retry did not move for 8 s once, but did at once when the case was re-run alone", res.ID))
				}
			}
		}
	}
	acked, retried := 0, 0
	maxDur := int64(0)
	seenIDs := map[string]bool{}
	for _, res := range results {
		c := byID[res.ID]
		seenIDs[res.ID] = true
		t := "at-once"
		if c.Chunks > 1 {
			t = fmt.Sprintf("streamed%d", c.Chunks)
		}
		if c.HeaderMs > 0 {
			t += "+late-header"
		}
		r.Case(fmt.Sprintf("%s|%s|%s", c06Pattern(c.Attempts), c06SizeClass(c.BodyLen), t))
		if len(res.Attempts) > 1 {
			retried++
		}
		for _, a := range res.Attempts {
			if a.Acked {
				acked++
			}
		}
		if res.DurationMs > maxDur && !res.Hang {
			maxDur = res.DurationMs
		}
		for _, v := range res.Violations {
			parts := strings.SplitN(v, "|", 3)
			sig := "C06:" + parts[0]
			if len(parts) > 1 && parts[1] != "" {
				sig += ":" + parts[1]
			}
			r.Violate(sig, fmt.Sprintf("script [%s] body=%d chunks=%d: %s", c06Pattern(c.Attempts), c.BodyLen, c.Chunks, parts[len(parts)-1]), c, res)
		}
		if res.Hang && confirmed[res.ID] {
			first := "none"
			if len(c.Attempts) > 0 {
				first = c.Attempts[0].String()
			}
			r.Violate("C06:handler-blocked:first-fault="+first, fmt.Sprintf("script [%s] body=%d chunks=%d: handler Write/Close did not return within 10s (confirmed alone with 20s)", c06Pattern(c.Attempts), c.BodyLen, c.Chunks), c, res)
		}
		if len(res.Attempts) > 1 || len(c.Attempts) > 2 {
			r.Sample(map[string]interface{}{"case": c, "observed_attempts": res.Attempts, "close_err": res.CloseErr, "ms": res.DurationMs})
		}
	}
	for _, c := range cases {
		if !seenIDs[c.ID] {
			r.Inconclusive("no result for case " + c.ID + " (worker died?)")
		}
	}
	r.Set("acknowledged_attempts_checked", acked)
	r.Set("cases_with_retries", retried)
	r.Set("max_case_duration_ms", maxDur)
	r.Set("hangs_confirmed", len(confirmed))
	r.JudgeRaces(core.ParseRaceLogs(filepath.Join(r.WorkDir, "race-")))
	r.Finish(r.Pick(150, 3000))
}

func c06SizeClass(n int) string {
	switch {
	case n < 100:
		return "tiny"
	case n < 3800:
		return "below-limit"
	case n <= 4100:
		return "at-limit"
	case n <= 65536:
		return "64k"
	}
	return "1M"
}

// c06RunShards runs the cases in parallel worker processes.
func c06RunShards(r *core.Run, bin string, cases []c06Case, boundMs int) []c06Result {
	shards := 8
	if len(cases) < 16 {
		shards = 1
	}
	var mu sync.Mutex
	var out []c06Result
	var wg sync.WaitGroup
	for s := 0; s < shards; s++ {
		var part []c06Case
		for i := s; i < len(cases); i += shards {
			part = append(part, cases[i])
		}
		if len(part) == 0 {
			continue
		}
		wg.Add(1)
		go func(part []c06Case) {
			defer wg.Done()
			spec, _ := json.Marshal(map[string]interface{}{"parallel": 6, "bound_ms": boundMs, "cases": part})
			timeout := time.Duration(len(part)/6+1)*time.Duration(boundMs)*time.Millisecond/4 + 2*time.Minute
			stdout, logPath, err := r.RunWorker(bin, "c06", spec, timeout)
			sc := bufio.NewScanner(bytes.NewReader(stdout))
			sc.Buffer(make([]byte, 1<<20), 1<<26)
			var rs []c06Result
			for sc.Scan() {
				var res c06Result
				if json.Unmarshal(sc.Bytes(), &res) == nil && res.ID != "" {
					rs = append(rs, res)
				}
			}
			mu.Lock()
			out = append(out, rs...)
			mu.Unlock()
			if err != nil {
				for _, ex := range core.CrashMarkers(logPath) {
					r.Violate(core.CrashSignature(ex), "worker crashed while running cases "+fmt.Sprint(core.LastStarted(logPath, 8))+": "+ex, nil, nil)
				}
				if len(core.CrashMarkers(logPath)) == 0 {
					r.Broken(fmt.Sprintf("c06 worker failed: %v", err))
				}
			}
		}(part)
	}
	wg.Wait()
	return out
}
