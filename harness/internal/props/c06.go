package props

import "verif/internal/core"

// C06 — stub, replaced by the real check.
func C06(r *core.Run) {
	r.Broken("check not implemented yet")
	r.Finish(1)
}
