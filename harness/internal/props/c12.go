package props

import "verif/internal/core"

// C12 — stub, replaced by the real check.
func C12(r *core.Run) {
	r.Broken("check not implemented yet")
	r.Finish(1)
}
