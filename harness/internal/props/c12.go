package props

import (
	"encoding/base64"
	"encoding/json"
	"fmt"
	"math/rand"
	"path/filepath"
	"strings"
	"sync"
	"time"

	"verif/internal/core"
)

type c12Case struct {
	ID       string   `json:"id"`
	Kind     string   `json:"kind"`
	Ops      []string `json:"ops,omitempty"`
	Pair     string   `json:"pair,omitempty"`
	Sched    string   `json:"sched,omitempty"`
	Rep      int      `json:"rep,omitempty"`
	Seed     int64    `json:"seed,omitempty"`
	G        int      `json:"g,omitempty"`
	Settle   bool     `json:"settle,omitempty"`
	Endpoint string   `json:"endpoint,omitempty"`
	B64      string   `json:"b64,omitempty"`
	Label    string   `json:"label,omitempty"`
	State    string   `json:"state,omitempty"`
}

type c12Result struct {
	ID    string `json:"id"`
	Kind  string `json:"kind"`
	Trace []struct {
		Op     string `json:"op"`
		Target string `json:"target,omitempty"`
		Status int    `json:"status,omitempty"`
		Ms     int64  `json:"ms"`
		Note   string `json:"note,omitempty"`
	} `json:"trace"`
	Calls      int      `json:"calls"`
	Skipped    int      `json:"skipped"`
	Violations []string `json:"violations"`
	NoAnswer   []string `json:"no_answer"`
	Forced     bool     `json:"forced"`
	Order      string   `json:"order"`
	Statuses   string   `json:"statuses"`
	Delivered  int      `json:"delivered"`
	CloseSeen  int      `json:"close_seen"`
	Unjudged   int      `json:"unjudged"`
	Landed     bool     `json:"landed"`
	Ms         int64    `json:"ms"`
}

// The call alphabet of the sequential histories.
var c12Alphabet = []string{
	"ov", "om", "or", // open: valid | malformed URL | backend refuses the upgrade
	"dv", "du", "dc", "dm", "dt", // data: valid session | unknown | closed | malformed JSON | wrong message type
	"pv", "pu", "pc", "pm", // poll
	"cv", "cu", "cc", "cm", // close
	"bs", "bc", // backend sends | backend closes
}

// c12Model is the static session model used to enumerate only histories in
// which every call means what its name says (e.g. "closed" needs a closed
// session, a valid poll needs something pending so that it cannot block 20 s).
type c12Model struct {
	state   []int // per session: 0 live, 1 backend closed, 2 closed
	pending []int
}

func (m c12Model) cur() int {
	for i := len(m.state) - 1; i >= 0; i-- {
		if m.state[i] != 2 {
			return i
		}
	}
	return -1
}

func (m c12Model) enabled(op string) bool {
	c := m.cur()
	switch op {
	case "dv", "dt", "cv":
		return c >= 0
	case "bs", "bc":
		return c >= 0 && m.state[c] == 0
	case "pv":
		return c >= 0 && (m.pending[c] > 0 || m.state[c] == 1)
	case "dc", "pc", "cc":
		for _, s := range m.state {
			if s == 2 {
				return true
			}
		}
		return false
	}
	return true
}

func (m c12Model) apply(op string) c12Model {
	n := c12Model{append([]int(nil), m.state...), append([]int(nil), m.pending...)}
	c := n.cur()
	switch op {
	case "ov":
		n.state = append(n.state, 0)
		n.pending = append(n.pending, 0)
	case "pv":
		n.pending[c] = 0
		if n.state[c] == 1 {
			n.state[c] = 2
		}
	case "cv":
		n.state[c] = 2
	case "bs":
		n.pending[c]++
	case "bc":
		n.state[c] = 1
	}
	return n
}

func c12Enumerate(maxLen int) [][]string {
	var out [][]string
	var rec func(m c12Model, prefix []string)
	rec = func(m c12Model, prefix []string) {
		if len(prefix) > 0 {
			out = append(out, append([]string(nil), prefix...))
		}
		if len(prefix) == maxLen {
			return
		}
		for _, op := range c12Alphabet {
			if m.enabled(op) {
				rec(m.apply(op), append(prefix, op))
			}
		}
	}
	rec(c12Model{}, nil)
	return out
}

// c12Sample draws a history of the given length by a random walk over the
// enabled calls, preferring calls that change the session state.
func c12Sample(rng *rand.Rand, n int) []string {
	m := c12Model{}
	var ops []string
	for len(ops) < n {
		var en []string
		for _, op := range c12Alphabet {
			if m.enabled(op) {
				en = append(en, op)
				if strings.HasSuffix(op, "v") || op[0] == 'b' || strings.HasSuffix(op, "c") {
					en = append(en, op, op)
				}
			}
		}
		op := en[rng.Intn(len(en))]
		ops = append(ops, op)
		m = m.apply(op)
	}
	return ops
}

// C12 — the shim answers every call and survives any call order.
func C12(r *core.Run) {
	r.Level = "exploration"
	r.SetRule("websockets.Proxy driven in-process (race-built worker with the verif hooks, agent's GODEBUG defaults, real gorilla backend). (i) sequential histories over the 18-symbol alphabet {open: valid|malformed URL|upgrade refused; data: valid|unknown|closed|malformed JSON|wrong msg type; poll/close: valid|unknown|closed|malformed; backend-send; backend-close}: bounded-exhaustive: every history up to length 4 that a static session model enables (thorough: plus sampled histories of length 5-7), each followed by a wind-down and a liveness probe on the same handler; (ii) concurrent pairs data‖close, close‖close, poll‖close, data‖backend-close, poll‖backend-close, open‖poll(guessed id) under hook schedules that park one goroutine at a hook until the other has passed a second point (2 s safety timeout), repeated; (iii) unforced stress: 8-16 goroutines issuing data/poll/close on one session while the backend talks and then client or backend closes; (iv) one idle poll that must time out by itself and, at the same time on a second idle session, two overlapping polls that must each be answered; (xiii) the backend closes first and, once the agent has noticed, 50 data calls on that session: after the first 400 none may be answered 200; (xiv) opens with odd X-Websocket-Shim-Version values (2, 7, -1, 01, padded, 1.0, v1, int64 limits, overflow, empty ...) followed by binary traffic both ways: no panic, every call answered, the binary message intact under one of the two encodings; (xii) 2, 3, 5 or 16 open calls in flight at once, the backend holding every upgrade until all handshakes have arrived: returned session ids pairwise distinct, every session carries a message to its own backend connection and one back, every close answered 200 and every backend websocket closed afterwards; (xi, thorough tier only) two sessions whose backend is silent for 33 s (one polled continuously, one left alone) and which must then work as before, a crash of the process in the meantime being read from the worker log; (x, thorough tier only) an open against a backend that accepts the TCP connection and never answers the upgrade must be answered within 60 s (the dialer's handshake time-out is 45 s); (ix) the backend sends n in {1,9,10,11,12,15,40} unpolled messages, dies abruptly 250 ms later, the client posts data until refused and only then polls: the first min(n,11) messages (10 queued + 1 in the reader's hand) must be delivered in order before the session is reported closed; (v) bounded-exhaustive mixed-ID data batches: every composition up to length 3 (thorough 4) of entries naming {open session A, open session B, session closed by the client, session closed by the backend and reported by a poll, unknown id}, judged for the 400 rule, for routing (no message on a backend connection its entry did not name) and, when all entries are valid, delivery; (vii) body alphabet, bounded-exhaustive: every endpoint {open,data,poll,close} x every odd body {null, padded null, true, false, numbers, bare strings, [], {}, [null], [[]], [{}], ids of wrong JSON type, wrong key case, trailing data, deep arrays/objects (100 and 20000 levels), 1 MiB strings, invalid UTF-8, BOM, empty, non-JSON} x {no session, one open, one open and one closed}: answered without panic, 400 when no usable session id is named, bystander session unharmed; (viii) a hung backend that is finally dropped: a 12 MiB message parks the writer goroutine in its TCP write, 10 (or fewer) small data calls fill the client queue, close and/or data are issued without waiting, then the backend resets the connection - every call must be answered within its bound counted from the drop; (vi) a push-only backend that never reads from the websocket (no close handshake is ever answered): every script up to length 3 over {data, poll, wait until more is pushed than the shim queues} followed by close, after which the backend must see the agent tear the connection down. class = history | pair/schedule | stress shape")
	r.Assume("the quick tier does not run the silent-backend open (it takes the dialer's 45 s handshake time-out) nor the 33 s idle-session case; the thorough tier runs both")
	r.Assume("a session counts as closed once a close answered 200 or a poll answered 400 for it; between a backend-initiated close and that poll, data may answer 200 or 400; complete delivery after a backend close is only demanded when no client data/close call on that session intervened")
	bin := r.MustBuild(r.BuildWorker())
	godebug := "GODEBUG=" + shimGodebug(r)

	// forced schedules are listed by the worker (single source of truth)
	listOut, _, err := r.RunWorker(bin, "c12list", []byte("{}"), time.Minute)
	var scheds []struct{ Pair, Name string }
	for _, ln := range strings.Split(string(listOut), "\n") {
		var s struct{ Pair, Name string }
		if json.Unmarshal([]byte(ln), &s) == nil && s.Pair != "" {
			scheds = append(scheds, s)
		}
	}
	if err != nil || len(scheds) == 0 {
		r.Broken(fmt.Sprintf("cannot list forced schedules: %v", err))
		r.Finish(1)
	}

	var hist, forced, stress []c12Case
	for i, ops := range c12Enumerate(4) {
		hist = append(hist, c12Case{ID: fmt.Sprintf("h%d", i), Kind: "hist", Ops: ops})
	}
	exhaustive := len(hist)
	// every history in which the backend closes runs a second time with the other
	// ordering: the calls after the close wait until the agent has noticed it
	for _, h := range hist[:exhaustive] {
		for _, op := range h.Ops {
			if op == "bc" {
				hist = append(hist, c12Case{ID: h.ID + "s", Kind: "hist", Ops: h.Ops, Settle: true})
				break
			}
		}
	}
	settled := len(hist) - exhaustive
	rng := r.Rand("c12")
	if !r.Quick() {
		for i := 0; i < 25000; i++ {
			hist = append(hist, c12Case{ID: fmt.Sprintf("hs%d-%d", r.Seed, i), Kind: "hist", Ops: c12Sample(rng, 5+rng.Intn(3)), Settle: i%2 == 1})
		}
	}
	reps := r.Pick(20, 200)
	for si, s := range scheds { // schedule-major, so that the round-robin sharding gives every worker process every schedule
		for rep := 0; rep < reps; rep++ {
			forced = append(forced, c12Case{ID: fmt.Sprintf("f%d-%d", si, rep), Kind: "forced", Pair: s.Pair, Sched: s.Name, Rep: rep})
		}
	}
	for i := 0; i < r.Pick(120, 1500); i++ {
		stress = append(stress, c12Case{ID: fmt.Sprintf("st%d-%d", r.Seed, i), Kind: "stress", Seed: rng.Int63(), G: 8 + rng.Intn(9)})
	}
	// mixed-ID data batches: every composition up to length 3 (thorough: 4) over
	// A, B = open sessions, C = closed by the client, D = closed by the backend and
	// reported by a poll, U = never existed; plus the empty batch
	var batch, noread []c12Case
	var comps [][]string
	var grow func(prefix []string, max int)
	grow = func(prefix []string, max int) {
		comps = append(comps, append([]string(nil), prefix...))
		if len(prefix) == max {
			return
		}
		for _, k := range []string{"A", "B", "C", "D", "U"} {
			grow(append(prefix, k), max)
		}
	}
	grow(nil, r.Pick(3, 4))
	for i, c := range comps {
		batch = append(batch, c12Case{ID: fmt.Sprintf("b%d", i), Kind: "batch", Ops: c, Rep: i})
	}
	// push-only backend that never reads: every script up to length 3 over
	// {data, poll, wait-until-the-queue-overflows}, then close
	var scripts [][]string
	var growS func(prefix []string)
	growS = func(prefix []string) {
		scripts = append(scripts, append(append([]string(nil), prefix...), "c"))
		if len(prefix) == 3 {
			return
		}
		for _, k := range []string{"d", "p", "w"} {
			growS(append(prefix, k))
		}
	}
	growS(nil)
	periods := []int{5}
	if !r.Quick() {
		periods = []int{1, 5, 20}
	}
	for _, ms := range periods {
		for i, sc := range scripts {
			noread = append(noread, c12Case{ID: fmt.Sprintf("n%d-%d", ms, i), Kind: "noread", Ops: sc, Rep: ms})
		}
	}
	// body alphabet: every endpoint x every odd body x session state
	var bodies []c12Case
	for _, ep := range []string{"open", "data", "poll", "close"} {
		for _, st := range []string{"none", "one-open", "open-and-closed"} {
			for _, b := range c12Bodies() {
				bodies = append(bodies, c12Case{ID: fmt.Sprintf("y%d", len(bodies)), Kind: "body", Endpoint: ep, State: st, Label: b[0], B64: base64.StdEncoding.EncodeToString([]byte(b[1]))})
			}
		}
	}
	// hung backend that is finally dropped (B = 12 MiB message parks the writer, sN = N small data
	// calls, c/d = close/data issued without waiting, X = the backend drops the connection)
	var stall []c12Case
	for i, sc := range [][]string{
		{"B", "s10", "c", "X"}, {"B", "s10", "d", "X"}, {"B", "s10", "c", "d", "X"}, {"B", "s10", "d", "c", "X"},
		{"B", "s10", "X", "c"}, {"B", "s10", "X", "d", "c"}, {"B", "s9", "c", "X"}, {"B", "s3", "c", "d", "X"}, {"B", "c", "X"}, {"B", "X", "d", "c"},
	} {
		for rep := 0; rep < r.Pick(1, 6); rep++ {
			stall = append(stall, c12Case{ID: fmt.Sprintf("z%d-%d", i, rep), Kind: "stall", Ops: sc, Rep: rep})
		}
	}
	// the backend dies with n unpolled messages in the agent's hands, data is refused, then polls
	var dead []c12Case
	for _, n := range []int{1, 9, 10, 11, 12, 15, 40} {
		for rep := 0; rep < r.Pick(2, 8); rep++ {
			dead = append(dead, c12Case{ID: fmt.Sprintf("dd%d-%d", n, rep), Kind: "dead", Rep: n})
		}
	}
	// thorough only (the dialer's handshake time-out is 45 s, twice the whole quick tier): a backend that never answers the upgrade
	var silent []c12Case
	// opens in flight at the same time: the backend holds every upgrade until all handshakes have arrived
	var copen []c12Case
	for _, n := range []int{2, 2, 3, 5, 16} {
		for rep := 0; rep < r.Pick(4, 40); rep++ {
			copen = append(copen, c12Case{ID: fmt.Sprintf("co%d-%d-%d", n, len(copen), rep), Kind: "copen", Rep: n})
		}
	}
	// the backend closes first, then a run of data calls on the dead session; odd X-Websocket-Shim-Version values
	var deadrun, oddver []c12Case
	for i := 0; i < r.Pick(10, 60); i++ {
		deadrun = append(deadrun, c12Case{ID: fmt.Sprintf("dr%d", i), Kind: "deadrun", Rep: i})
	}
	for i, v := range []string{"2", "7", "-1", "01", " 1", "1.0", "v1", "9223372036854775807", "99999999999999999999", "-9223372036854775808", "+1", "0x1", "1e0", "", "0", "1", "3"} {
		oddver = append(oddver, c12Case{ID: fmt.Sprintf("ov%d", i), Kind: "oddver", Label: v})
	}
	var longidle []c12Case
	if !r.Quick() {
		silent = append(silent, c12Case{ID: "silent", Kind: "silent"})
		// also thorough only: 33 s of backend silence is longer than the whole quick tier
		longidle = append(longidle, c12Case{ID: "longidle", Kind: "longidle", Rep: 33})
	}
	all := map[string]c12Case{}
	for _, l := range [][]c12Case{hist, forced, stress, batch, noread, bodies, stall, dead, silent, longidle, copen, deadrun, oddver} {
		for _, c := range l {
			all[c.ID] = c
		}
	}
	idle := c12Case{ID: "idle", Kind: "idle"}
	all[idle.ID] = idle

	hits := map[string]int64{}
	var hmu sync.Mutex
	run := func(cs []c12Case, shards, parallel, scale int) []c12Result {
		gen := make([]interface{}, len(cs))
		for i, c := range cs {
			gen[i] = c
		}
		lines, crashes := shimRun(r, bin, "c12", gen, shards, map[string]interface{}{"parallel": parallel, "scale": scale}, 15*time.Minute, godebug)
		shimJudgeCrashes(r, crashes)
		var out []c12Result
		hmu.Lock()
		defer hmu.Unlock()
		for _, ln := range lines {
			if shimAddHits(hits, ln) {
				continue
			}
			var res c12Result
			if json.Unmarshal(ln, &res) == nil && res.ID != "" {
				out = append(out, res)
			}
		}
		return out
	}
	var results []c12Result
	var rmu sync.Mutex
	var wg sync.WaitGroup
	launch := func(cs []c12Case, shards, parallel int) {
		if len(cs) == 0 {
			return
		}
		wg.Add(1)
		go func() {
			defer wg.Done()
			rs := run(cs, shards, parallel, 1)
			rmu.Lock()
			results = append(results, rs...)
			rmu.Unlock()
		}()
	}
	if r.OnlyCase >= 0 {
		// replay: one case of the concatenated list hist, forced, stress
		var cat []c12Case
		for _, l := range [][]c12Case{hist, forced, stress, batch, noread, bodies, stall, dead, silent, longidle, copen, deadrun, oddver} {
			cat = append(cat, l...)
		}
		if r.OnlyCase < len(cat) {
			launch(cat[r.OnlyCase:r.OnlyCase+1], 1, 1)
		}
	} else {
		launch([]c12Case{idle}, 1, 1)
		launch(silent, 1, 1)
		launch(longidle, 1, 1) // its own process: what it looks for is a crash of the process
		launch(hist, 7, 4)
		launch(forced, 7, 1) // the hook scheduler is process-wide: one forced case at a time per process
		launch(stress, 3, 1)
		launch(append(append([]c12Case{}, batch...), noread...), 2, 4)
		launch(bodies, 2, 4)
		launch(stall, 2, 2)
		launch(dead, 2, 4)
		launch(copen, 2, 2)
		launch(append(append([]c12Case{}, deadrun...), oddver...), 2, 4)
	}
	wg.Wait()

	// a missed progress bound only counts when it is missed again alone, with the bound doubled
	seen := map[string]bool{}
	forcedOrders, observedOrders := map[string]int{}, map[string]bool{}
	unforced := map[string]int{}
	statusMix := map[string]int{}
	var maxMs int64
	samples := 0
	// Each kind of missed bound is re-run alone (bounds doubled) for up to three of its cases.
	kindTried, kindConfirmed := map[string]int{}, map[string]bool{}
	for _, res := range results {
		if len(res.NoAnswer) == 0 {
			continue
		}
		kind := ""
		for _, k := range res.NoAnswer {
			if kindTried[k] < 3 && !kindConfirmed[k] {
				kind = k
				break
			}
		}
		if kind == "" {
			continue
		}
		kindTried[kind]++
		rr := run([]c12Case{all[res.ID]}, 1, 1, 2)
		if len(rr) == 1 {
			for _, k := range rr[0].NoAnswer {
				if k == kind {
					kindConfirmed[kind] = true
				}
			}
		}
	}
	for _, res := range results {
		c := all[res.ID]
		seen[res.ID] = true
		if len(res.NoAnswer) > 0 {
			// keep only the missed bounds of a kind that was missed again alone
			dropped := false
			var keep []string
			for _, v := range res.Violations {
				kind := ""
				if strings.HasPrefix(v, "C12:no-answer:") {
					kind = strings.SplitN(strings.TrimPrefix(v, "C12:no-answer:"), "|", 2)[0]
				} else if strings.HasPrefix(v, "C12:backend-not-closed") {
					kind = "backend-close-observation"
				} else if strings.HasPrefix(v, "C12:after-backend-death:read-messages-lost") {
					kind = "reader-settle"
				}
				if kind != "" && !kindConfirmed[kind] {
					dropped = true
					continue
				}
				keep = append(keep, v)
			}
			res.Violations = keep
			if dropped {
				r.Inconclusive(fmt.Sprintf("case %s missed a progress bound (%v) that was not missed again when such cases were re-run alone", c.ID, res.NoAnswer))
			}
		}
		r.Add("oracle_evaluations_skipped_after_repeated_misses", res.Unjudged)
		switch c.Kind {
		case "hist":
			if c.Settle {
				r.Case("history(polls after the agent noticed the backend close):" + strings.Join(c.Ops, ","))
			} else {
				r.Case("history:" + strings.Join(c.Ops, ","))
			}
			r.Add("history_steps_skipped", res.Skipped)
		case "forced":
			key := c.Pair + "/" + c.Sched
			if res.Forced {
				forcedOrders[key]++
				r.Case("forced:" + key)
			} else {
				unforced[key]++
				r.Case("unforced:" + key)
			}
			observedOrders[c.Pair+":"+res.Order] = true
			if res.Landed {
				r.Add("open_poll_polls_that_found_the_session_before_open_returned", 1)
			}
			statusMix[key+" -> "+res.Statuses]++
		case "stress":
			r.Case(fmt.Sprintf("stress:g=%d:%s", c.G, res.Statuses))
		case "batch":
			r.Case("data-batch:[" + strings.Join(c.Ops, ",") + "]->" + res.Statuses)
			r.Add("mixed_id_data_batches", 1)
		case "deadrun":
			r.Case(fmt.Sprintf("data-run-on-session-whose-backend-closed-first:%s|%s", []string{"graceful", "abrupt"}[c.Rep%2], res.Statuses))
			r.Add("data_runs_on_dead_sessions", 1)
		case "oddver":
			r.Case(fmt.Sprintf("open-with-version:%q|%s", c.Label, res.Statuses))
			r.Add("sessions_with_odd_protocol_version", 1)
		case "copen":
			r.Case(fmt.Sprintf("overlapping-opens:%d|%s", c.Rep, res.Statuses))
			r.Add("opens_overlapping_at_the_backend", c.Rep)
		case "longidle":
			r.Case("sessions-with-a-backend-silent-for-33s-then-used-again")
			r.Set("long_idle", res.Statuses)
		case "silent":
			r.Case("open-against-a-backend-that-never-answers-the-upgrade")
			r.Set("open_against_silent_backend", res.Statuses)
		case "dead":
			r.Case(fmt.Sprintf("backend-dies-with-%d-unpolled-messages,data-until-refused,then-polls|%s", c.Rep, res.Statuses))
			r.Add("backend_death_histories", 1)
		case "stall":
			r.Case(fmt.Sprintf("stalled-backend:%s|%s", strings.Join(c.Ops, ","), res.Statuses))
			r.Add("stalled_backend_scripts", 1)
			if res.Forced {
				r.Add("stalled_backend_scripts_with_a_call_parked_until_the_drop", 1)
			}
		case "body":
			r.Case(fmt.Sprintf("body:%s|%s|sessions=%s->%s", c.Endpoint, c.Label, c.State, res.Statuses))
			r.Add("odd_body_calls", 1)
		case "noread":
			r.Case(fmt.Sprintf("push-only-backend:%s|every %dms", strings.Join(c.Ops, ","), c.Rep))
			r.Add("push_only_backend_scripts", 1)
		case "idle":
			r.Case("idle-poll")
			r.Set("idle_poll", res.Statuses)
		}
		r.Add("calls_answered_and_judged", res.Calls)
		r.Add("backend_close_observed_after_close_200", res.CloseSeen)
		r.Add("messages_delivered_after_backend_close", res.Delivered)
		if res.Ms > maxMs && c.Kind != "idle" {
			maxMs = res.Ms
		}
		for _, v := range res.Violations {
			sig, msg := shimSplit(v)
			r.Violate(sig, fmt.Sprintf("%s %s: %s", c.Kind, c12Describe(c), msg), c, res)
		}
		if (c.Kind == "hist" && len(c.Ops) == 4 && res.Delivered > 0 && samples < 2) || (c.Kind == "forced" && res.Forced && samples >= 2 && samples < 5 && c.Rep == 0 && strings.Contains(c.Sched, "while")) {
			samples++
			r.Sample(map[string]interface{}{"case": c, "trace": res.Trace, "hook_order": res.Order, "statuses": res.Statuses, "forced": res.Forced})
		}
	}
	for id, c := range all {
		if !seen[id] && r.OnlyCase < 0 {
			r.Inconclusive(fmt.Sprintf("no result for %s case %s (worker died?)", c.Kind, id))
		}
	}
	r.Set("histories_exhaustive_up_to_length_4", exhaustive)
	r.Set("exhaustive_part", "sequential histories up to length 4 over the 18-call alphabet (all that the session model enables)")
	r.Set("histories_sampled_length_5_to_7", len(hist)-exhaustive-settled)
	r.Set("histories_repeated_with_calls_after_agent_noticed_backend_close", settled)
	r.Set("forced_schedules_defined", len(scheds))
	r.Set("forced_orders_executed_distinct", len(forcedOrders))
	r.Set("forced_orders_executed", forcedOrders)
	if len(unforced) > 0 {
		r.Set("schedule_runs_not_forced", unforced) // a barrier timed out or a parked hook was never reached (e.g. the poll lost the race with open)
	}
	r.Set("distinct_hook_arrival_orders_observed", len(observedOrders))
	r.Set("forced_outcomes", statusMix)
	r.Set("stress_runs", len(stress))
	r.Set("hook_hits", hits)
	r.Set("max_case_duration_ms", maxMs)
	r.JudgeRaces(core.ParseRaceLogs(filepath.Join(r.WorkDir, "race-")))
	minCases := exhaustive + settled + len(forced) + len(stress) + len(batch) + len(noread) + len(bodies) + len(stall) + len(dead) + len(copen) + len(deadrun) + len(oddver) - 50
	if r.OnlyCase >= 0 {
		minCases = 1
	}
	r.Finish(minCases)
}

func c12Describe(c c12Case) string {
	switch c.Kind {
	case "hist":
		return "[" + strings.Join(c.Ops, " ") + "]"
	case "forced":
		return fmt.Sprintf("%s/%s rep %d", c.Pair, c.Sched, c.Rep)
	case "stress":
		return fmt.Sprintf("seed %d, %d goroutines", c.Seed, c.G)
	case "batch":
		return "data batch [" + strings.Join(c.Ops, ",") + "] (A,B open; C closed by client; D closed by backend; U unknown)"
	case "deadrun":
		return "the backend closes first, the agent notices, then 50 data calls on that session before any poll"
	case "oddver":
		return fmt.Sprintf("open with X-Websocket-Shim-Version %q, then binary traffic both ways", c.Label)
	case "copen":
		return fmt.Sprintf("%d open calls in flight at once (the backend answers no upgrade before all handshakes have arrived), then data, poll and close on every returned session", c.Rep)
	case "longidle":
		return fmt.Sprintf("two sessions (one polled continuously, one left alone) whose backend is silent for %d s, then data, backend message + poll, close", c.Rep)
	case "silent":
		return "open against a backend that accepts the TCP connection and never answers the websocket upgrade"
	case "dead":
		return fmt.Sprintf("backend sends %d unpolled messages, dies abruptly, client posts data until refused, then polls", c.Rep)
	case "stall":
		return "stalled backend script [" + strings.Join(c.Ops, " ") + "] (B 12 MiB message parks the writer, sN small data calls, c/d close/data not awaited, X backend drops the TCP connection)"
	case "body":
		return fmt.Sprintf("%s with body %q [%s], sessions: %s", c.Endpoint, c.Label, core.Trunc(c12Unb64(c.B64), 80), c.State)
	case "noread":
		return fmt.Sprintf("push-only backend (never reads, pushes every %d ms), script [%s]", c.Rep, strings.Join(c.Ops, " "))
	}
	return c.Kind
}

func c12Unb64(s string) string {
	b, _ := base64.StdEncoding.DecodeString(s)
	return string(b)
}

// c12Bodies is the body alphabet (label, bytes). None of them names the id of a live session.
func c12Bodies() [][2]string {
	big := strings.Repeat("a", 1<<20)
	return [][2]string{
		{"null", "null"}, {"null-padded", " null\n"}, {"null-tabs", "\tnull \r\n"}, {"true", "true"}, {"false", "false"},
		{"number", "123"}, {"negative-exponent", "-1.5e3"}, {"huge-number", "1e999"}, {"string", `"str"`}, {"string-that-is-a-session-number", `"1"`}, {"number-that-is-a-session-number", "1"},
		{"empty-array", "[]"}, {"empty-object", "{}"}, {"array-of-null", "[null]"}, {"array-of-array", "[[]]"}, {"array-of-empty-object", "[{}]"}, {"array-of-two-nulls", "[null,null]"},
		{"array-of-number", "[1]"}, {"array-of-string", `["1"]`},
		{"id-null", `{"id":null}`}, {"id-number", `{"id":123}`}, {"id-number-one", `{"id":1}`}, {"id-object", `{"id":{}}`}, {"id-array", `{"id":[]}`}, {"id-true", `{"id":true}`},
		{"id-wrong-case-null", `{"ID":null}`}, {"id-empty-string", `{"id":""}`}, {"msg-only", `{"msg":"x"}`},
		{"batch-id-null", `[{"id":null,"msg":"x"}]`}, {"batch-id-number", `[{"id":123,"msg":"x"}]`}, {"batch-no-id", `[{"msg":"x"}]`}, {"batch-null-then-object", `[null,{"id":null}]`},
		{"two-values", `{"id":"7"}{"id":"8"}`}, {"null-null", "null null"}, {"trailing-comma", `{"id":"7",}`}, {"misspelt-null", "nul"}, {"upper-null", "NULL"},
		{"bom-null", "\xef\xbb\xbfnull"}, {"empty", ""}, {"whitespace-only", " \n\t"}, {"not-json", "id=1&msg=x"},
		{"deep-array-100", strings.Repeat("[", 100) + strings.Repeat("]", 100)}, {"deep-array-20000", strings.Repeat("[", 20000) + strings.Repeat("]", 20000)},
		{"deep-object-100", strings.Repeat(`{"id":`, 100) + "null" + strings.Repeat("}", 100)}, {"deep-unclosed-5000", strings.Repeat("[", 5000)},
		{"string-1MiB", `"` + big + `"`}, {"id-1MiB", `{"id":"` + big + `"}`}, {"batch-id-1MiB", `[{"id":"` + big + `","msg":"x"}]`},
		{"invalid-utf8-string", "\"\xff\xfe\""}, {"id-invalid-utf8", "{\"id\":\"\xff\"}"}, {"invalid-utf8-bare", "\xff\xfe\x00"}, {"nul-bytes", "\x00\x00"},
		{"id-escaped-nul", `{"id":"\u0000"}`}, {"id-lone-surrogate", `{"id":"\ud800"}`},
	}
}
