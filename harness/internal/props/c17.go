package props

import (
	"encoding/json"
	"fmt"
	"math/rand"
	"net/http"
	"net/url"
	"sort"
	"strconv"
	"strings"
	"time"

	"verif/internal/core"
)

// ---- what is sent to the test binary ---------------------------------------

type e3OAuth struct {
	Email string `json:"email"`
	Admin bool   `json:"admin,omitempty"`
}

type e3Call struct {
	Module  string            `json:"module"`
	Method  string            `json:"method"`
	Path    string            `json:"path"`
	Headers map[string]string `json:"headers,omitempty"`
	Body    string            `json:"body,omitempty"`
	OAuth   *e3OAuth          `json:"oauth,omitempty"`
	AEUser  string            `json:"ae_user,omitempty"`
	AEAdmin bool              `json:"ae_admin,omitempty"`
	ReqID   string            `json:"req_id,omitempty"`
	CtxMs   int               `json:"ctx_ms,omitempty"`
	NoUID   bool              `json:"no_user_id,omitempty"` // the Users API knows no user ID for this account
}

type c17BackendRec struct {
	ID           string   `json:"id"`
	BackendUser  string   `json:"backendUser"`
	EndUser      string   `json:"endUser"`
	PathPrefixes []string `json:"pathPrefixes"`
}

type c17Setup struct {
	Op       string         `json:"op"`
	Owner    string         `json:"owner"`
	Backend  *c17BackendRec `json:"backend,omitempty"`
	ID       string         `json:"id,omitempty"`
	RID      string         `json:"rid,omitempty"`
	User     string         `json:"user,omitempty"`
	Contents string         `json:"contents,omitempty"`
}

// c17Meta is the oracle's view of a case (ignored by the test binary).
type c17Meta struct {
	Kind     string `json:"kind"`               // agent | admin | user | cron | wrong-module
	Endpoint string `json:"endpoint,omitempty"` // pending | request | response | admin op
	Ident    string `json:"ident"`              // class of the caller identity
	Email    string `json:"email,omitempty"`    // OAuth / App Engine e-mail of the caller
	IsAdmin  bool   `json:"is_admin,omitempty"`
	Named    string `json:"named,omitempty"`       // backend ID named by the call
	NamedCls string `json:"named_class,omitempty"` // own | other | unknown | empty
	RID      string `json:"rid,omitempty"`
	RIDCls   string `json:"rid_class,omitempty"` // own-pending | own-answered | other-pending | other-answered | unknown | empty | n/a
	RIDOwner string `json:"rid_owner,omitempty"`
	Victim   string `json:"victim,omitempty"` // crafted request ID: the other backend's request it is meant to reach
	Target   string `json:"target,omitempty"` // admin: backend the call is about
	History  bool   `json:"history,omitempty"`
	Fault    string `json:"fault,omitempty"` // the API read call of this handler invocation that fails
}

// c17CollideSpec: the end users of two private backends send requests (carrying agent-protocol header names with
// the same values) at the same time; only backend A's agent lists, fetches and answers.
type c17CollideSpec struct {
	A          e3Call `json:"a"`
	B          e3Call `json:"b"`
	BackendA   string `json:"backend_a"`
	AgentA     string `json:"agent_a"`
	BackendB   string `json:"backend_b"`
	AnswerBody string `json:"answer_body"`
}

// c17CacheXSpec: two extra private backends for the same prefix, one per user; user A's GET is answered with a
// cacheable 200 by backend A's agent; then user B GETs the same URL.
type c17CacheXSpec struct {
	A          e3Call        `json:"a"`
	B          e3Call        `json:"b"`
	RegA       c17BackendRec `json:"rega"`
	RegB       c17BackendRec `json:"regb"`
	AnswerBody string        `json:"answer_body"`
	Revoke     string        `json:"revoke,omitempty"` // before B's request, through the admin API: "delete" RegA | "reassign" RegA to another end user
}

// e3Fault fails the Nth call of service.method made by one handler invocation.
type e3Fault struct {
	Service  string `json:"service"`
	Method   string `json:"method"`
	Nth      int    `json:"nth"` // the Nth call fails; 0 = every call
	Timeout  bool   `json:"timeout,omitempty"`
	UpTo     int    `json:"up_to,omitempty"`    // the first UpTo calls fail
	Conflict bool   `json:"conflict,omitempty"` // datastore Commit: concurrent-transaction conflict, the transaction's writes are rolled back
}

type c17Case struct {
	Faults    []e3Fault       `json:"faults,omitempty"`
	Burst     []e3Call        `json:"burst,omitempty"`       // client requests issued all at once
	SlowGetMs int             `json:"slow_get_ms,omitempty"` // every datastore read takes this long during the burst, so that the calls overlap
	BurstRole []string        `json:"burst_role,omitempty"`  // per call of an agent burst: "rightful" | "stranger"
	Collide   *c17CollideSpec `json:"collide,omitempty"`
	CacheX    *c17CacheXSpec  `json:"cachex,omitempty"`
	I         int             `json:"i"`
	Call      e3Call          `json:"call"`
	Keep      bool            `json:"keep,omitempty"`
	Until     bool            `json:"until,omitempty"`
	Meta      c17Meta         `json:"meta"`
}

type c17Req struct {
	RID, User, Secret, Contents string
	Answered                    bool
	Answer                      string
}

type c17B struct {
	Rec  c17BackendRec
	Reqs []*c17Req
}

type c17World struct {
	ID     string     `json:"id"`
	Setup  []c17Setup `json:"setup"`
	Cases  []*c17Case `json:"cases"`
	Bs     []*c17B    `json:"-"`
	Exotic bool       `json:"-"`
	Sep    string     `json:"-"` // related-ID world: backend i+1 is named <backend i><Sep><word>
	owned  map[string]map[string]bool
	slow   bool
}

const (
	hdrBackend = "X-Inverting-Proxy-Backend-ID"
	hdrRequest = "X-Inverting-Proxy-Request-ID"
	hdrUser    = "X-Inverting-Proxy-User-ID"
)

func escPath(p string) string { return (&url.URL{Path: p}).EscapedPath() }

func c17GenWorld(rng *rand.Rand, w int, quick bool) *c17World {
	wd := &c17World{ID: fmt.Sprintf("w%d", w), owned: map[string]map[string]bool{}}
	wd.Exotic = w%5 == 4
	n := 1 + w%3
	if w%7 == 6 {
		n = 3
	}
	// a shared backend whose agent is down and another user's private backend, live, for the same prefix
	staleShared := w%9 == 5 && w%5 != 2 && w%5 != 4
	if staleShared {
		n = 2
	}
	words := []string{"", "prod", "eu"}
	if w%5 == 2 {
		// IDs related across a separator: "team", "team<sep>prod", "team<sep>prod<sep>eu"
		wd.Sep = c17Seps[(w/5)%len(c17Seps)]
		n = 2 + (w/5/len(c17Seps))%2
	}
	sharedAgent := n >= 2 && w%4 == 1
	for i := 0; i < n; i++ {
		id := fmt.Sprintf("bk%dx%d", w, i)
		if wd.Exotic {
			id = fmt.Sprintf("bk%d\"x:%d q", w, i)
		}
		if wd.Sep != "" {
			id = fmt.Sprintf("team%dz", w)
			for k := 1; k <= i; k++ {
				id += wd.Sep + words[k]
			}
		}
		stem := []string{"agent", "trevor", "inverting-proxy-agent", "service", "user", "steve.account", "Agent"}[(w+2*i)%7]
		b := &c17B{Rec: c17BackendRec{ID: id, BackendUser: fmt.Sprintf("%s%d-w%d@sa.example.com", stem, i, w)}}
		if sharedAgent && i == 1 {
			b.Rec.BackendUser = wd.Bs[0].Rec.BackendUser
		}
		switch (w + i) % 3 {
		case 0:
			b.Rec.EndUser = fmt.Sprintf("user%d-w%d@u.example.com", i, w)
		case 1:
			b.Rec.EndUser = "allUsers"
		default:
			b.Rec.EndUser = fmt.Sprintf("user0-w%d@u.example.com", w) // possibly shared between backends
		}
		switch rng.Intn(3) {
		case 0:
			b.Rec.PathPrefixes = []string{fmt.Sprintf("/s%d/", i)}
		case 1:
			b.Rec.PathPrefixes = []string{"/", fmt.Sprintf("/s%d/", i)}
		default:
			b.Rec.PathPrefixes = []string{fmt.Sprintf("/s%d/", i), fmt.Sprintf("/s%d/deep/", (i+1)%n)}
		}
		if staleShared {
			if i == 0 {
				b.Rec.EndUser, b.Rec.PathPrefixes = "allUsers", []string{"/s0/"}
			} else {
				b.Rec.EndUser, b.Rec.PathPrefixes = fmt.Sprintf("user1-w%d@u.example.com", w), []string{"/s0/", "/s1/"}
			}
		}
		nPending := 1 + rng.Intn(2)
		nAnswered := rng.Intn(2)
		extra := 0
		if wd.Sep != "" && i < n-1 {
			extra = 1 // a pending request whose ID starts with the next backend's suffix
		}
		for k := 0; k < nPending+nAnswered+extra; k++ {
			rid := fmt.Sprintf("rq%dx%dx%d", w, i, k)
			if wd.Exotic {
				rid = fmt.Sprintf("rq%d:%d\"%d", w, i, k)
			}
			if k == nPending+nAnswered {
				rid = words[i+1] + wd.Sep + fmt.Sprintf("cx%dx%d", w, i)
			}
			secret := fmt.Sprintf("sec%dx%dx%d-%08x", w, i, k, rng.Uint32())
			user := b.Rec.EndUser
			if user == "allUsers" {
				user = fmt.Sprintf("visitor%d-w%d@u.example.com", k, w)
			}
			rq := &c17Req{RID: rid, User: user, Secret: secret,
				Contents: fmt.Sprintf("POST %sdoc/%s HTTP/1.1\r\nHost: proxy.example\r\nCookie: session=%s\r\nContent-Length: %d\r\n\r\nbody-%s", b.Rec.PathPrefixes[0], secret, secret, len(secret)+5, secret)}
			if k >= nPending && k < nPending+nAnswered {
				rq.Answered = true
				rq.Answer = fmt.Sprintf("HTTP/1.1 200 OK\r\nX-Answer: ans-%s\r\nContent-Length: 2\r\n\r\nok", secret)
			}
			b.Reqs = append(b.Reqs, rq)
		}
		wd.Bs = append(wd.Bs, b)
	}
	for _, b := range wd.Bs {
		rec := b.Rec
		wd.Setup = append(wd.Setup, c17Setup{Op: "backend", Owner: b.Rec.ID, Backend: &rec, ID: b.Rec.ID})
		if !(staleShared && b == wd.Bs[0]) { // (the shared backend's agent has not polled since registration)
			wd.Setup = append(wd.Setup, c17Setup{Op: "seen", Owner: b.Rec.ID, ID: b.Rec.ID})
		}
		for _, rq := range b.Reqs {
			wd.Setup = append(wd.Setup, c17Setup{Op: "request", Owner: b.Rec.ID, ID: b.Rec.ID, RID: rq.RID, User: rq.User, Contents: rq.Contents})
			if rq.Answered {
				wd.Setup = append(wd.Setup, c17Setup{Op: "answer", Owner: b.Rec.ID, ID: b.Rec.ID, RID: rq.RID, Contents: rq.Answer})
			}
		}
	}
	return wd
}

var c17Seps = []string{":", "/", "|", "\"", " ", ".", "%", "\\"}

type c17Ident struct {
	cls   string
	oauth *e3OAuth
}

func (wd *c17World) add(c *c17Case) *c17Case {
	wd.Cases = append(wd.Cases, c)
	return c
}

func (wd *c17World) agentCall(id c17Ident, endpoint, named, namedCls, rid, ridCls, ridOwner string) *c17Case {
	c := &c17Case{Meta: c17Meta{Kind: "agent", Endpoint: endpoint, Ident: id.cls, Named: named, NamedCls: namedCls, RID: rid, RIDCls: ridCls, RIDOwner: ridOwner}}
	c.Call = e3Call{Module: "agent", Method: "GET", Path: "/agent/" + endpoint, Headers: map[string]string{}, OAuth: id.oauth}
	if id.oauth != nil {
		c.Meta.Email = id.oauth.Email
	}
	if namedCls != "empty" {
		c.Call.Headers[hdrBackend] = named
	}
	if ridCls != "empty" && ridCls != "n/a" {
		c.Call.Headers[hdrRequest] = rid
	}
	if endpoint == "response" {
		c.Call.Method = "POST"
		c.Call.Body = "HTTP/1.1 200 OK\r\nX-From: " + id.cls + "\r\nContent-Length: 5\r\n\r\nhello"
	}
	return c
}

func c17GenCases(rng *rand.Rand, wd *c17World, keepFrac float64, history bool) {
	w := wd.ID
	idents := []c17Ident{{"no-oauth", nil}, {"stranger", &e3OAuth{Email: "stranger-" + w + "@sa.example.com"}},
		{"oauth-admin-not-agent", &e3OAuth{Email: "root-" + w + "@corp.example.com", Admin: true}},
		{"oauth-empty-email", &e3OAuth{Email: ""}}}
	seenAgent := map[string]bool{}
	for _, b := range wd.Bs {
		if !seenAgent[b.Rec.BackendUser] {
			seenAgent[b.Rec.BackendUser] = true
			idents = append(idents, c17Ident{"agent", &e3OAuth{Email: b.Rec.BackendUser}})
		}
	}
	type named struct{ id, cls string }
	nameds := []named{{"ghost-" + w, "unknown"}, {"", "empty"}}
	for _, b := range wd.Bs {
		nameds = append(nameds, named{b.Rec.ID, "registered"})
	}
	type ridT struct{ rid, state, owner string }
	rids := []ridT{{"nosuch-" + w, "unknown", ""}, {"", "empty", ""}}
	for _, b := range wd.Bs {
		doneP, doneA := false, false
		for _, rq := range b.Reqs {
			if !rq.Answered && !doneP {
				rids = append(rids, ridT{rq.RID, "pending", b.Rec.ID})
				doneP = true
			}
			if rq.Answered && !doneA {
				rids = append(rids, ridT{rq.RID, "answered", b.Rec.ID})
				doneA = true
			}
		}
	}
	// agent endpoints: identity x endpoint x named backend x request ID
	for _, id := range idents {
		for _, ep := range []string{"pending", "request", "response"} {
			for _, nm := range nameds {
				authorised := false
				for _, b := range wd.Bs {
					if nm.cls == "registered" && b.Rec.ID == nm.id && id.oauth != nil && id.oauth.Email == b.Rec.BackendUser {
						authorised = true
					}
				}
				rl := rids
				if ep == "pending" {
					rl = []ridT{{"", "n/a", ""}}
					if rng.Intn(3) == 0 && len(rids) > 2 {
						rl = append(rl, rids[2+rng.Intn(len(rids)-2)]) // an irrelevant request ID header
					}
				}
				kept := 0
				for k, rd := range rl {
					last := k == len(rl)-1
					if !authorised && rng.Float64() > keepFrac && !(last && kept == 0) {
						continue
					}
					kept++
					namedCls := nm.cls
					ridCls := rd.state
					if rd.owner != "" {
						if rd.owner == nm.id {
							ridCls = "own-" + rd.state
						} else {
							ridCls = "other-" + rd.state
						}
					}
					if nm.cls == "registered" {
						namedCls = "other"
						if authorised {
							namedCls = "own"
						}
					}
					c := wd.agentCall(id, ep, nm.id, namedCls, rd.rid, ridCls, rd.owner)
					if ep == "pending" && !authorised {
						// must be rejected at once; should it be admitted instead, do not serve the 30 s wait for requests
						c.Call.CtxMs = 500
					}
					wd.add(c)
				}
			}
		}
	}
	// agent-module oddities: App Engine admin user without OAuth; path outside the three endpoints
	b0 := wd.Bs[0]
	c := wd.agentCall(c17Ident{"ae-admin-no-oauth", nil}, "request", b0.Rec.ID, "other", b0.Reqs[0].RID, "other-pending", b0.Rec.ID)
	c.Call.AEUser, c.Call.AEAdmin = "root-"+w+"@corp.example.com", true
	wd.add(c)
	c = wd.agentCall(c17Ident{"stranger", idents[1].oauth}, "requests-of-everybody", b0.Rec.ID, "other", b0.Reqs[0].RID, "other-pending", b0.Rec.ID)
	c.Meta.Kind = "agent-other-path"
	wd.add(c)

	// caller identities derived from the rightful one: each differs from the registered backendUser, so each is a stranger
	for bi, b := range wd.Bs {
		a := b.Rec.BackendUser
		at := strings.Index(a, "@")
		derived := [][2]string{
			{"drop-1", a[1:]}, {"drop-2", a[2:]}, {"drop-3", a[3:]},
			{"replace-1", "s" + a[1:]}, {"replace-2", "te" + a[2:]}, {"replace-4", "vinc" + a[4:]},
			{"prepend", "s" + a}, {"prepend-word", "user" + a},
			{"iam-serviceAccount", "serviceAccount:" + a}, {"iam-user", "user:" + a},
			{"upper-first", strings.ToUpper(a[:1]) + a[1:]}, {"upper-local", strings.ToUpper(a[:at]) + a[at:]}, {"lower", strings.ToLower(a)},
			{"other-domain", a[:at] + "@sa.example.org"}, {"subdomain", a[:at] + "@evil.sa.example.com"}, {"domain-suffix", a + ".evil.example"},
			{"trailing-dot", a + "."}, {"trailing-space", a + " "}, {"leading-space", " " + a}, {"plus-tag", a[:at] + "+x" + a[at:]},
		}
		var pend *c17Req
		for _, rq := range b.Reqs {
			if !rq.Answered && pend == nil {
				pend = rq
			}
		}
		for di, d := range derived {
			if d[1] == a {
				continue // byte-equal to the registered account (e.g. already lower case): not a stranger
			}
			rightful := false
			for _, ob := range wd.Bs {
				rightful = rightful || ob.Rec.BackendUser == d[1]
			}
			if rightful {
				continue
			}
			eps := []string{"request", []string{"pending", "response"}[(di+bi)%2]}
			if keepFrac >= 1 {
				eps = []string{"pending", "request", "response"}
			}
			for _, ep := range eps {
				c := wd.agentCall(c17Ident{"derived:" + d[0], &e3OAuth{Email: d[1]}}, ep, b.Rec.ID, "other", pend.RID, "other-pending", b.Rec.ID)
				if ep == "pending" {
					c = wd.agentCall(c17Ident{"derived:" + d[0], &e3OAuth{Email: d[1]}}, ep, b.Rec.ID, "other", "", "n/a", "")
					c.Call.CtxMs = 500
				}
				wd.add(c)
			}
		}
	}

	// the response cache across users: two users (with and without a user ID in the Users API), each with a private
	// backend of his own for the same prefix; A's GET is answered with a cacheable 200, then B GETs the same URL
	if wn, _ := strconv.Atoi(strings.TrimPrefix(w, "w")); wn%2 == 0 {
		for v := 0; v < 2; v++ {
			ua, ub := fmt.Sprintf("reader-a%d-%s@partner.example.org", v, w), fmt.Sprintf("reader-b%d-%s@partner.example.org", v, w)
			pfx := fmt.Sprintf("/cachex%d/", v)
			url := pfx + "page?x=" + w
			sp := &c17CacheXSpec{AnswerBody: fmt.Sprintf("page-rendered-for-%s", ua),
				RegA: c17BackendRec{ID: fmt.Sprintf("cxa%d-%s", v, w), BackendUser: fmt.Sprintf("cx-agent-a%d-%s@sa.example.com", v, w), EndUser: ua, PathPrefixes: []string{pfx}},
				RegB: c17BackendRec{ID: fmt.Sprintf("cxb%d-%s", v, w), BackendUser: fmt.Sprintf("cx-agent-b%d-%s@sa.example.com", v, w), EndUser: ub, PathPrefixes: []string{pfx}}}
			sp.A = e3Call{Module: "default", Method: "GET", Path: url, AEUser: ua, ReqID: fmt.Sprintf("cl-%s-cx%d-a", w, v), NoUID: v == 0}
			sp.B = e3Call{Module: "default", Method: "GET", Path: url, AEUser: ub, ReqID: fmt.Sprintf("cl-%s-cx%d-b", w, v), NoUID: v == 0}
			wd.add(&c17Case{CacheX: sp, Meta: c17Meta{Kind: "user-cachex", Endpoint: "client", Ident: []string{"users-without-user-id", "users-with-user-id"}[v], Email: ub}})
			// the same user again after his backend's registration was removed (deleted / given to another end user):
			// no backend is registered for him and that path any more, so 404 - never the page cached earlier
			rv := *sp
			rv.Revoke = []string{"delete", "reassign"}[v]
			rv.RegA.ID, rv.RegB.ID = rv.RegA.ID+"r", rv.RegB.ID+"r"
			rv.RegB.PathPrefixes = []string{fmt.Sprintf("/elsewhere%d/", v)}
			rv.B = rv.A
			rv.B.ReqID = fmt.Sprintf("cl-%s-cx%d-again", w, v)
			wd.add(&c17Case{CacheX: &rv, Meta: c17Meta{Kind: "user-cachex", Endpoint: "client", Ident: "same-user-after-registration-" + rv.Revoke, Email: ua}})
		}
	}

	// revocation while the delete transaction runs into conflicts (e.g. with the agent's own "seen" write of a poll):
	// every commit conflicts / only the first one does. A DELETE that answers 2xx must have deleted the backend
	// (not listed, agent refused, no routing); one that could not must answer non-2xx.
	for v, nth := range []int{0, 1} {
		b := wd.Bs[0]
		var pend *c17Req
		for _, rq := range b.Reqs {
			if !rq.Answered && pend == nil {
				pend = rq
			}
		}
		step := 0
		hist := func(c *c17Case) {
			c.Meta.History = true
			c.Keep = step > 0
			step++
			wd.add(c)
		}
		root := "root-" + w + "@corp.example.com"
		del := &c17Case{Meta: c17Meta{Kind: "admin", Endpoint: "delete", Ident: "ae-admin", IsAdmin: true, Target: b.Rec.ID, Email: root,
			Fault: []string{"datastore.Commit#all:conflict", "datastore.Commit#1:conflict"}[v]}}
		del.Call = e3Call{Module: "api", Method: "DELETE", Path: escPath("/api/backends/" + b.Rec.ID), AEUser: root, AEAdmin: true}
		del.Faults = []e3Fault{{Service: "datastore_v3", Method: "Commit", Nth: nth, Conflict: true}}
		hist(del)
		list := &c17Case{Meta: c17Meta{Kind: "admin", Endpoint: "list", Ident: "ae-admin", IsAdmin: true, Email: root}}
		list.Call = e3Call{Module: "api", Method: "GET", Path: "/api/backends", AEUser: root, AEAdmin: true}
		hist(list)
		hist(wd.agentCall(c17Ident{"agent-after-conflicting-delete", &e3OAuth{Email: b.Rec.BackendUser}}, "request", b.Rec.ID, "revoked?", pend.RID, "own-pending", b.Rec.ID))
		cl := &c17Case{Until: true, Meta: c17Meta{Kind: "user", Endpoint: "client", Ident: "end-user-after-conflicting-delete", Email: pend.User}}
		cl.Call = e3Call{Module: "default", Method: "GET", Path: escPath(b.Rec.PathPrefixes[len(b.Rec.PathPrefixes)-1] + "after-delete"), AEUser: pend.User, ReqID: fmt.Sprintf("cl-%s-del%d", w, v)}
		hist(cl)
	}

	// concurrent agent calls for one backend: its rightful agent and strangers at the same moment, while reads of the
	// backend record take a few milliseconds (a check must never be decided with somebody else's identity)
	{
		b := wd.Bs[0]
		var pend *c17Req
		for _, rq := range b.Reqs {
			if !rq.Answered && pend == nil {
				pend = rq
			}
		}
		strangers := []c17Ident{{"stranger", &e3OAuth{Email: "stranger-" + w + "@sa.example.com"}}, {"derived:drop-1", &e3OAuth{Email: b.Rec.BackendUser[1:]}}, {"oauth-empty-email", &e3OAuth{Email: ""}}}
		for _, ob := range wd.Bs[1:] {
			if ob.Rec.BackendUser != b.Rec.BackendUser {
				strangers = append(strangers, c17Ident{"agent-of-another-backend", &e3OAuth{Email: ob.Rec.BackendUser}})
			}
		}
		for k := 0; k < 3; k++ {
			c := &c17Case{SlowGetMs: 3, Meta: c17Meta{Kind: "agent-burst", Endpoint: "concurrent", Ident: "rightful-agent-and-strangers-at-once", Named: b.Rec.ID}}
			for j := 0; j < 16; j++ {
				var ac *c17Case
				if j%2 == 0 {
					ac = wd.agentCall(c17Ident{"agent", &e3OAuth{Email: b.Rec.BackendUser}}, "request", b.Rec.ID, "own", pend.RID, "own-pending", b.Rec.ID)
					c.BurstRole = append(c.BurstRole, "rightful")
				} else {
					ep := []string{"request", "response", "request", "pending"}[(j/2+k)%4]
					ac = wd.agentCall(strangers[(j/2+k)%len(strangers)], ep, b.Rec.ID, "other", pend.RID, "other-pending", b.Rec.ID)
					if ep == "pending" {
						ac.Call.CtxMs = 500
					}
					c.BurstRole = append(c.BurstRole, "stranger")
				}
				c.Burst = append(c.Burst, ac.Call)
			}
			wd.add(c)
		}
	}

	// two end users of different private backends in flight at once, their requests carrying agent-protocol
	// header names with the same values; only the first backend's agent works
	var priv []*c17B
	seenUser := map[string]bool{}
	for _, b := range wd.Bs {
		if b.Rec.EndUser != "allUsers" && !seenUser[b.Rec.EndUser] {
			seenUser[b.Rec.EndUser] = true
			priv = append(priv, b)
		}
	}
	if len(priv) >= 2 {
		for v := 0; v < 2; v++ {
			ba, bb := priv[v%2], priv[(v+1)%2]
			mk := func(b, other *c17B, tag string) e3Call {
				h := map[string]string{hdrRequest: fmt.Sprintf("shared-id-%s-%d", w, v)}
				if v == 1 {
					h[hdrBackend], h[hdrUser] = other.Rec.ID, other.Rec.EndUser
				}
				return e3Call{Module: "default", Method: "GET", Path: escPath(b.Rec.PathPrefixes[len(b.Rec.PathPrefixes)-1] + "collide/" + tag + "-" + w), AEUser: b.Rec.EndUser,
					ReqID: fmt.Sprintf("cl-%s-col%d-%s", w, v, tag), Headers: h}
			}
			c := &c17Case{Meta: c17Meta{Kind: "user-collide", Endpoint: "client", Ident: []string{"same-request-id-header", "same-request-id-and-spoofed-backend-user-headers"}[v]}}
			c.Collide = &c17CollideSpec{A: mk(ba, bb, "ofA"), B: mk(bb, ba, "ofB"), BackendA: ba.Rec.ID, AgentA: ba.Rec.BackendUser, BackendB: bb.Rec.ID,
				AnswerBody: fmt.Sprintf("answer-produced-by-%s-%s-%d", ba.Rec.ID, w, v)}
			c.Meta.Email = ba.Rec.EndUser
			wd.add(c)
		}
	}

	// end users on each other's private prefixes: the owner first, then somebody else on the same path, over and over
	// (a lookup must not be influenced by the lookups that ran before it)
	nAlt := 0
	for _, b := range wd.Bs {
		if b.Rec.EndUser == "allUsers" || nAlt >= 2 {
			continue
		}
		nAlt++
		others := []string{"stranger-" + w + "@u.example.com"}
		for _, ob := range wd.Bs {
			if ob.Rec.EndUser != "allUsers" && ob.Rec.EndUser != b.Rec.EndUser {
				others = append(others, ob.Rec.EndUser)
			}
		}
		short := escPath(b.Rec.PathPrefixes[len(b.Rec.PathPrefixes)-1] + "private/area")
		// also paths of about 300 and 650 bytes (whatever is derived from user and path must still tell users apart)
		paths := []string{short, short + "/" + strings.Repeat("segment-abcdefgh/", 17) + w, short + "/" + strings.Repeat("another-long-segment/", 30) + w}
		path := short
		// ... and at the same time: bursts of concurrent requests by the owner and by others
		for k := 0; k < 4; k++ {
			path = paths[k%3]
			c := &c17Case{Meta: c17Meta{Kind: "user-burst", Endpoint: "client", Ident: "owner-and-others-at-once"}}
			for j := 0; j < 12; j++ {
				u := b.Rec.EndUser
				if j%2 == 1 {
					u = others[(j/2)%len(others)]
				}
				c.Burst = append(c.Burst, e3Call{Module: "default", Method: "GET", Path: path, AEUser: u, ReqID: fmt.Sprintf("cl-%s-burst%d-%d-%d", w, nAlt, k, j), CtxMs: 300})
			}
			wd.add(c)
		}
		// (one history on evolving state: what an earlier request left behind stays in place)
		for k := 0; k < 9; k++ {
			path = paths[k%3]
			for j, u := range []string{b.Rec.EndUser, others[k%len(others)]} {
				c := &c17Case{Until: true, Keep: k+j > 0, Meta: c17Meta{Kind: "user", Endpoint: "client", Ident: []string{"owner-of-private-backend", "other-user-right-after-owner"}[j], Email: u, History: true}}
				c.Call = e3Call{Module: "default", Method: "GET", Path: path, AEUser: u, ReqID: fmt.Sprintf("cl-%s-alt%d-%d-%d", w, nAlt, k, j)}
				wd.add(c)
			}
		}
	}

	// request IDs crafted so that (backend, request ID) read across the separator names another backend's request
	if wd.Sep != "" {
		words := []string{"", "prod", "eu"}
		craft := func(att *c17B, rid string, victim *c17B, vrid string) {
			for _, ep := range []string{"request", "response"} {
				c := wd.agentCall(c17Ident{"agent", &e3OAuth{Email: att.Rec.BackendUser}}, ep, att.Rec.ID, "own", rid, "crafted-collision", victim.Rec.ID)
				c.Meta.Victim = vrid
				wd.add(c)
			}
		}
		for i := 0; i+1 < len(wd.Bs); i++ {
			for j := i + 1; j < len(wd.Bs); j++ {
				lo, hi := wd.Bs[i], wd.Bs[j]
				rest := strings.TrimPrefix(hi.Rec.ID, lo.Rec.ID+wd.Sep) // "prod" or "prod<sep>eu"
				for _, rq := range hi.Reqs {
					craft(lo, rest+wd.Sep+rq.RID, hi, rq.RID) // the shorter-named backend reaching into the longer-named one
				}
				for _, rq := range lo.Reqs {
					if strings.HasPrefix(rq.RID, rest+wd.Sep) {
						craft(hi, strings.TrimPrefix(rq.RID, rest+wd.Sep), lo, rq.RID) // and the reverse
					}
				}
			}
		}
		_ = words
	}

	// scripted history: the same backend ID is registered again for another agent account and end user
	targets := []*c17B{wd.Bs[0]}
	if len(wd.Bs) > 1 {
		targets = append(targets, wd.Bs[len(wd.Bs)-1])
	}
	for ti, bt := range targets {
		var pend *c17Req
		for _, rq := range bt.Reqs {
			if !rq.Answered && pend == nil {
				pend = rq
			}
		}
		oldAgent := c17Ident{"old-agent", &e3OAuth{Email: bt.Rec.BackendUser}}
		newAgent := c17Ident{"new-agent", &e3OAuth{Email: fmt.Sprintf("successor%d-%s@sa.example.com", ti, w)}}
		oldUser := pend.User
		newRec := c17BackendRec{ID: bt.Rec.ID, BackendUser: newAgent.oauth.Email, EndUser: fmt.Sprintf("moved%d-%s@u.example.com", ti, w), PathPrefixes: bt.Rec.PathPrefixes}
		if wn, _ := strconv.Atoi(strings.TrimPrefix(w, "w")); (wn+ti)%2 == 0 {
			newRec.EndUser = bt.Rec.EndUser // only the agent account changes: same end user, same paths
		}
		step := 0
		hist := func(c *c17Case) *c17Case {
			c.Meta.History = true
			c.Keep = step > 0
			step++
			return wd.add(c)
		}
		adminPost := func(op string, rec c17BackendRec) {
			body, _ := json.Marshal(rec)
			c := &c17Case{Meta: c17Meta{Kind: "admin", Endpoint: op, Ident: "ae-admin", IsAdmin: true, Target: rec.ID, Email: "root-" + w + "@corp.example.com"}}
			c.Call = e3Call{Module: "api", Method: "POST", Path: "/api/backends", Body: string(body), AEUser: "root-" + w + "@corp.example.com", AEAdmin: true}
			if (len(wd.Cases)+ti)%2 == 0 {
				c.Meta.Ident, c.Meta.Email = "oauth-admin", "ops-"+w+"@corp.example.com"
				c.Call.AEUser, c.Call.AEAdmin, c.Call.OAuth = "", false, &e3OAuth{Email: c.Meta.Email, Admin: true}
			}
			hist(c)
		}
		agent := func(id c17Ident, ep string) {
			c := wd.agentCall(id, ep, bt.Rec.ID, "reregistered", pend.RID, "own-pending", bt.Rec.ID)
			if ep == "pending" {
				c = wd.agentCall(id, ep, bt.Rec.ID, "reregistered", "", "n/a", "")
			}
			hist(c)
		}
		client := func(user, tag string) {
			c := &c17Case{Until: true, Meta: c17Meta{Kind: "user", Endpoint: "client", Ident: tag, Email: user}}
			c.Call = e3Call{Module: "default", Method: "GET", Path: escPath(bt.Rec.PathPrefixes[len(bt.Rec.PathPrefixes)-1] + "page"), AEUser: user, ReqID: fmt.Sprintf("cl-%s-rr%d-%d", w, ti, step)}
			hist(c)
		}
		agent(oldAgent, "request")
		agent(oldAgent, "pending")
		adminPost("add-reregister", newRec)
		agent(oldAgent, "pending")
		wd.Cases[len(wd.Cases)-1].Call.CtxMs = 500 // must be rejected at once
		agent(oldAgent, "request")
		agent(oldAgent, "response")
		agent(newAgent, "request")
		agent(newAgent, "pending") // also makes the backend live again
		client(oldUser, "former-end-user")
		client(newRec.EndUser, "new-end-user")
		agent(newAgent, "response")
		// unregister, then register the original record again
		del := &c17Case{Meta: c17Meta{Kind: "admin", Endpoint: "delete", Ident: "ae-admin", IsAdmin: true, Target: bt.Rec.ID, Email: "root-" + w + "@corp.example.com"}}
		del.Call = e3Call{Module: "api", Method: "DELETE", Path: escPath("/api/backends/" + bt.Rec.ID), AEUser: "root-" + w + "@corp.example.com", AEAdmin: true}
		hist(del)
		agent(newAgent, "request")
		adminPost("add-restore", bt.Rec)
		agent(newAgent, "request")
		agent(oldAgent, "request")
	}

	// admin API
	admins := []struct {
		cls     string
		oauth   *e3OAuth
		aeUser  string
		aeAdmin bool
		isAdmin bool
	}{
		{"ae-admin", nil, "root-" + w + "@corp.example.com", true, true},
		{"oauth-admin", &e3OAuth{Email: "ops-" + w + "@corp.example.com", Admin: true}, "", false, true},
		{"ae-user-not-admin", nil, b0.Reqs[0].User, false, false},
		{"oauth-agent-not-admin", &e3OAuth{Email: b0.Rec.BackendUser}, "", false, false},
		{"nobody", nil, "", false, false},
		{"oauth-empty-email", &e3OAuth{Email: ""}, "", false, false},
		{"oauth-blank-email", &e3OAuth{Email: " "}, "", false, false},
		{"oauth-comma-email", &e3OAuth{Email: ","}, "", false, false},
	}
	newRec := c17BackendRec{ID: "newbk-" + w, BackendUser: "newagent-" + w + "@sa.example.com", EndUser: "allUsers", PathPrefixes: []string{"/new/"}}
	newJSON, _ := json.Marshal(newRec)
	takeover := c17BackendRec{ID: b0.Rec.ID, BackendUser: "intruder-" + w + "@sa.example.com", EndUser: "allUsers", PathPrefixes: []string{"/"}}
	takeoverJSON, _ := json.Marshal(takeover)
	type adminOp struct {
		op, method, path, body, target string
	}
	ops := []adminOp{
		{"list", "GET", "/api/backends", "", ""},
		{"add", "POST", "/api/backends", string(newJSON), newRec.ID},
		{"add-takeover", "POST", "/api/backends", string(takeoverJSON), b0.Rec.ID},
		{"add-garbage", "POST", "/api/backends", "{not json", ""},
		{"add-incomplete", "POST", "/api/backends", `{"id":"half-` + w + `"}`, ""},
		{"delete", "DELETE", "/api/backends/" + b0.Rec.ID, "", b0.Rec.ID},
		{"delete-unknown", "DELETE", "/api/backends/ghost-" + w, "", ""},
		{"delete-empty", "DELETE", "/api/backends/", "", ""},
		{"put", "PUT", "/api/backends", string(newJSON), ""},
		{"get-one", "GET", "/api/backends/" + b0.Rec.ID, "", ""},
		{"other-path", "GET", "/api/secrets", "", ""},
	}
	for _, a := range admins {
		for _, op := range ops {
			c := &c17Case{Meta: c17Meta{Kind: "admin", Endpoint: op.op, Ident: a.cls, IsAdmin: a.isAdmin, Target: op.target}}
			c.Call = e3Call{Module: "api", Method: op.method, Path: escPath(op.path), Body: op.body, OAuth: a.oauth, AEUser: a.aeUser, AEAdmin: a.aeAdmin}
			if a.oauth != nil {
				c.Meta.Email = a.oauth.Email
			} else {
				c.Meta.Email = a.aeUser
			}
			wd.add(c)
			// follow-ups on the state the call left behind
			switch op.op {
			case "add":
				f := wd.agentCall(c17Ident{"agent-of-added", &e3OAuth{Email: newRec.BackendUser}}, "request", newRec.ID, "added", "nosuch-"+w, "unknown", "")
				f.Keep, f.Meta.Kind = true, "followup-add"
				f.Meta.IsAdmin = a.isAdmin
				wd.add(f)
			case "add-takeover":
				f := wd.agentCall(c17Ident{"intruder", &e3OAuth{Email: takeover.BackendUser}}, "request", b0.Rec.ID, "taken-over", b0.Reqs[0].RID, "other-pending", b0.Rec.ID)
				f.Keep, f.Meta.Kind = true, "followup-takeover"
				f.Meta.IsAdmin = a.isAdmin
				wd.add(f)
			case "delete":
				f := wd.agentCall(c17Ident{"agent-of-deleted", &e3OAuth{Email: b0.Rec.BackendUser}}, "request", b0.Rec.ID, "deleted", b0.Reqs[0].RID, "own-pending", b0.Rec.ID)
				f.Keep, f.Meta.Kind = true, "followup-delete"
				f.Meta.IsAdmin = a.isAdmin
				wd.add(f)
			}
		}
	}
	// an agent (no administrator) that carries its own backend ID in the agent-protocol header calls the admin API,
	// the URL naming another backend (or its own): 403 and no effect, whatever the method
	{
		other := "ghost-" + w
		if len(wd.Bs) > 1 {
			other = wd.Bs[len(wd.Bs)-1].Rec.ID
		}
		type op struct{ name, method, path, body, target string }
		for _, o := range []op{
			{"delete-other-as-agent", "DELETE", "/api/backends/" + other, "", other},
			{"delete-own-as-agent", "DELETE", "/api/backends/" + b0.Rec.ID, "", b0.Rec.ID},
			{"list-as-agent", "GET", "/api/backends", "", ""},
			{"add-as-agent", "POST", "/api/backends", string(newJSON), ""},
			{"takeover-as-agent", "POST", "/api/backends", string(takeoverJSON), ""},
			{"put-as-agent", "PUT", "/api/backends/" + other, string(newJSON), ""},
		} {
			c := &c17Case{Meta: c17Meta{Kind: "admin", Endpoint: o.name, Ident: "agent-with-own-backend-header", IsAdmin: false, Target: o.target, Email: b0.Rec.BackendUser}}
			c.Call = e3Call{Module: "api", Method: o.method, Path: escPath(o.path), Body: o.body, OAuth: &e3OAuth{Email: b0.Rec.BackendUser},
				Headers: map[string]string{hdrBackend: b0.Rec.ID}}
			wd.add(c)
			if o.method == "DELETE" && len(wd.Bs) > 1 {
				// the backend named in the URL must still be there: its agent keeps working
				tb := wd.Bs[len(wd.Bs)-1]
				if o.target == b0.Rec.ID {
					tb = b0
				}
				var pend *c17Req
				for _, rq := range tb.Reqs {
					if !rq.Answered && pend == nil {
						pend = rq
					}
				}
				f := wd.agentCall(c17Ident{"agent-after-foreign-delete-attempt", &e3OAuth{Email: tb.Rec.BackendUser}}, "request", tb.Rec.ID, "own", pend.RID, "own-pending", tb.Rec.ID)
				f.Keep = true
				wd.add(f)
			}
		}
	}

	// /cron/delete is documented as unchecked (restricted by app.yaml): executed, not judged
	wd.add(&c17Case{Meta: c17Meta{Kind: "cron", Endpoint: "cron-delete", Ident: "nobody"}, Call: e3Call{Module: "api", Method: "GET", Path: "/cron/delete"}})

	// end users
	users := map[string]bool{"stranger-" + w + "@u.example.com": true, "": true}
	for _, b := range wd.Bs {
		if b.Rec.EndUser != "allUsers" {
			users[b.Rec.EndUser] = true
		}
	}
	var ul []string
	for u := range users {
		ul = append(ul, u)
	}
	sort.Strings(ul)
	paths := map[string]bool{"/nomatch/" + w: true}
	for _, b := range wd.Bs {
		for _, p := range b.Rec.PathPrefixes {
			paths[p+"page"] = true
		}
	}
	var pl []string
	for p := range paths {
		pl = append(pl, p)
	}
	sort.Strings(pl)
	n := 0
	for _, u := range ul {
		for _, p := range pl {
			if rng.Float64() > keepFrac*2 && u != "" {
				continue
			}
			n++
			c := &c17Case{Until: true, Meta: c17Meta{Kind: "user", Endpoint: "client", Ident: "end-user", Email: u}}
			if u == "" {
				c.Meta.Ident = "anonymous"
			}
			c.Call = e3Call{Module: "default", Method: "GET", Path: escPath(p), AEUser: u, ReqID: fmt.Sprintf("cl-%s-%d", w, n),
				Headers: map[string]string{hdrBackend: wd.Bs[len(wd.Bs)-1].Rec.ID, hdrUser: "somebody-else@u.example.com"}}
			wd.add(c)
		}
	}
	// an agent call sent to the default module is an (anonymous) end-user request
	c = wd.agentCall(c17Ident{"agent", &e3OAuth{Email: b0.Rec.BackendUser}}, "request", b0.Rec.ID, "own", b0.Reqs[0].RID, "own-pending", b0.Rec.ID)
	c.Call.Module, c.Meta.Kind, c.Until = "default", "wrong-module", true
	c.Call.ReqID = "cl-" + w + "-wm"
	wd.add(c)

	// histories: the same kinds of calls in random order on an evolving state
	if history {
		pool := append([]*c17Case(nil), wd.Cases...)
		for h := 0; h < 2; h++ {
			first := true
			st := wd.baseState() // the specified effect of each step, to avoid asking for an empty pending list (30 s wait)
			for k := 0; k < 14; k++ {
				src := pool[rng.Intn(len(pool))]
				if src.Meta.Kind != "agent" && src.Meta.Kind != "admin" {
					continue
				}
				cp := *src
				pred := 401
				if cp.Meta.Kind == "agent" {
					rec, ok := st.reg[cp.Meta.Named]
					authd := ok && cp.Call.OAuth != nil && cp.Call.OAuth.Email == rec.BackendUser && cp.Meta.NamedCls != "empty"
					if authd && cp.Meta.Endpoint == "pending" && len(st.pending[cp.Meta.Named]) == 0 {
						continue
					}
					if authd && cp.Meta.Endpoint == "response" && st.reqOf[cp.Meta.RID] == cp.Meta.Named && st.pending[cp.Meta.Named][cp.Meta.RID] {
						pred = 200
					}
				} else if cp.Meta.IsAdmin {
					pred = 200
				}
				st.apply(&cp, &c17Result{Status: pred})
				cp.Meta.History = true
				cp.Keep = !first
				first = false
				wd.add(&cp)
			}
		}
	}
	// the same agent calls with one failing store read each: a transient error must never turn a cross-backend
	// or unauthorised call into an accepted one
	variants := []e3Fault{{"datastore_v3", "Get", 1, false, 0, false}, {"datastore_v3", "Get", 2, true, 0, false}, {"datastore_v3", "Get", 3, false, 0, false},
		{"memcache", "Get", 1, false, 0, false}, {"memcache", "Get", 2, false, 0, false}, {"datastore_v3", "RunQuery", 1, true, 0, false}}
	// outages: the first two, the first three, every datastore read of the call fails (memcache stays up)
	outages := []e3Fault{{Service: "datastore_v3", Method: "Get", UpTo: 2}, {Service: "datastore_v3", Method: "Get", UpTo: 3}, {Service: "datastore_v3", Method: "Get", Nth: 0}}
	base := append([]*c17Case(nil), wd.Cases...)
	for _, src := range base {
		m := src.Meta
		if m.Kind != "agent" || m.History || src.Keep {
			continue
		}
		var use []e3Fault
		switch {
		case m.NamedCls == "own" && m.Endpoint != "pending" && (strings.HasPrefix(m.RIDCls, "other-") || m.RIDCls == "unknown" || m.RIDCls == "crafted-collision"):
			use = append(append([]e3Fault{}, variants...), outages...)
		case m.NamedCls == "own" && m.Endpoint == "pending":
			use = []e3Fault{variants[0], variants[5]}
		case m.NamedCls == "own":
			use = []e3Fault{variants[rng.Intn(len(variants))]}
		default:
			if rng.Float64() < keepFrac {
				use = []e3Fault{variants[rng.Intn(len(variants))]}
			}
			// a caller that is not the backend's agent, naming a registered backend and one of its requests,
			// while the backend record cannot be read: must stay locked out
			if m.NamedCls == "other" && m.Endpoint != "pending" && strings.HasSuffix(m.RIDCls, "-pending") && rng.Float64() < 2*keepFrac {
				use = append(use, outages[rng.Intn(len(outages))])
			}
		}
		for _, fv := range use {
			fv.Timeout = fv.Timeout != (len(wd.Cases)%2 == 0)
			cp := *src
			cp.Faults = []e3Fault{fv}
			cp.Meta.Fault = fmt.Sprintf("%s.%s#%d", map[string]string{"datastore_v3": "datastore", "memcache": "memcache"}[fv.Service], fv.Method, fv.Nth)
			if fv.UpTo > 0 {
				cp.Meta.Fault = fmt.Sprintf("datastore.%s#1-%d", fv.Method, fv.UpTo)
			} else if fv.Nth == 0 {
				cp.Meta.Fault = fmt.Sprintf("datastore.%s#all", fv.Method)
			}
			wd.add(&cp)
		}
	}
	for i, c := range wd.Cases {
		c.I = i
	}
}

// ---- results and oracle -----------------------------------------------------

type c17Result struct {
	World    string              `json:"world"`
	I        int                 `json:"i"`
	Status   int                 `json:"status"`
	Hdr      map[string][]string `json:"hdr"`
	Body     string              `json:"body"`
	BodyLen  int                 `json:"body_len"`
	Ops      []string            `json:"ops"`
	Diff     []string            `json:"diff"`
	Ms       int                 `json:"ms"`
	Hung     bool                `json:"hung"`
	ListedIn []string            `json:"listed_in"`
	Fired    int                 `json:"fault_fired"`
	Collide  bool                `json:"collide"`
	CacheX   bool                `json:"cachex"`
	SetupErr string              `json:"setup_err"`
	APosted  int                 `json:"a_posted"`
	AListed  []string            `json:"a_listed"`
	AAgent   []struct {
		ID          string `json:"id"`
		FetchStatus int    `json:"fetch_status"`
		FetchUser   string `json:"fetch_user"`
		FetchBody   string `json:"fetch_body"`
		PostStatus  int    `json:"post_status"`
	} `json:"a_agent"`
	AStatus  int      `json:"a_status"`
	ABody    string   `json:"a_body"`
	AHung    bool     `json:"a_hung"`
	BStatus  int      `json:"b_status"`
	BBody    string   `json:"b_body"`
	BHung    bool     `json:"b_hung"`
	BPending []string `json:"b_pending"`
	Burst    []struct {
		ReqID    string   `json:"req_id"`
		User     string   `json:"user"`
		Status   int      `json:"status"`
		Hung     bool     `json:"hung"`
		ListedIn []string `json:"listed_in"`
		Body     string   `json:"body"`
		Ops      []string `json:"ops"`
	} `json:"burst"`
}

func mentions(s, tok string) bool {
	if tok == "" {
		return false
	}
	if strings.Contains(s, tok) {
		return true
	}
	q := strconv.Quote(tok)
	return strings.Contains(s, q[1:len(q)-1])
}

// namedBackends returns the backend IDs a key names. IDs may contain one
// another ("team", "team:prod"), so longer IDs are matched first and their
// occurrences removed before shorter ones are looked for.
func (wd *c17World) namedBackends(k string) map[string]bool {
	ids := make([]string, 0, len(wd.Bs))
	for _, b := range wd.Bs {
		ids = append(ids, b.Rec.ID)
	}
	sort.Slice(ids, func(i, j int) bool { return len(ids[i]) > len(ids[j]) })
	out := map[string]bool{}
	for _, id := range ids {
		if mentions(k, id) {
			out[id] = true
			k = stripMentions(k, id)
		}
	}
	return out
}

// stripMentions removes every mention of tok (raw or %q-quoted) from s, so
// that an ID that merely begins with another ID is not mistaken for it.
func stripMentions(s, tok string) string {
	if tok == "" {
		return s
	}
	q := strconv.Quote(tok)
	s = strings.ReplaceAll(s, q[1:len(q)-1], "\x00")
	return strings.ReplaceAll(s, tok, "\x00")
}

// c17State is the oracle's model of who is registered (evolves in histories).
type c17State struct {
	reg     map[string]c17BackendRec
	pending map[string]map[string]bool // backend -> request IDs still pending
	reqOf   map[string]string          // request ID -> backend
	stale   map[string]bool            // requests of a backend that was deleted since: nothing is expected of them
}

func (wd *c17World) baseState() *c17State {
	st := &c17State{reg: map[string]c17BackendRec{}, pending: map[string]map[string]bool{}, reqOf: map[string]string{}, stale: map[string]bool{}}
	for _, b := range wd.Bs {
		st.reg[b.Rec.ID] = b.Rec
		st.pending[b.Rec.ID] = map[string]bool{}
		for _, rq := range b.Reqs {
			st.reqOf[rq.RID] = b.Rec.ID
			if !rq.Answered {
				st.pending[b.Rec.ID][rq.RID] = true
			}
		}
	}
	return st
}

// secrets returns every planted string the caller did not itself supply.
func (wd *c17World) secrets(c *c17Case) []string {
	supplied := c.Call.Path + "\n" + c.Call.Body + "\n" + c.Meta.Email + "\n" + c.Call.AEUser
	for _, v := range c.Call.Headers {
		supplied += "\n" + v
	}
	var out []string
	add := func(s string) {
		if s != "" && s != "allUsers" && !strings.Contains(supplied, s) {
			out = append(out, s)
		}
	}
	for _, b := range wd.Bs {
		add(b.Rec.ID)
		add(b.Rec.BackendUser)
		add(b.Rec.EndUser)
		for _, rq := range b.Reqs {
			add(rq.RID)
			add(rq.Secret)
			add(rq.User)
		}
	}
	return out
}

func (wd *c17World) leaks(c *c17Case, res *c17Result) []string {
	hay := res.Body
	for k, vs := range res.Hdr {
		hay += "\n" + k + ": " + strings.Join(vs, ",")
	}
	var out []string
	for _, s := range wd.secrets(c) {
		if mentions(hay, s) {
			out = append(out, s)
		}
	}
	return out
}

func opMutating(op string) bool {
	f := strings.Fields(op)
	return len(f) > 0 && strings.HasSuffix(f[0], "!")
}

// foreign reports the keys (touched or changed) that belong to a backend
// other than x: exactly-owned keys from the setup, keys naming another
// backend's ID, keys naming another backend's request without x's ID, and
// whole-kind queries that do not name x.
func (wd *c17World) foreign(x string, keys []string) []string {
	var bad []string
	for _, k := range keys {
		k = strings.TrimLeft(k, "+-~")
		isBad := false
		named := wd.namedBackends(k)
		for _, b := range wd.Bs {
			y := b.Rec.ID
			if y == x {
				continue
			}
			if wd.owned[y][k] && !wd.owned[x][k] {
				isBad = true
			}
			if named[y] {
				isBad = true
			}
			for _, rq := range b.Reqs {
				if mentions(k, rq.RID) && !mentions(k, x) {
					isBad = true
				}
			}
		}
		if strings.HasSuffix(k, "|*") && !mentions(k, x) {
			isBad = true
		}
		if isBad {
			bad = append(bad, k)
		}
	}
	return bad
}

func opKeysOf(ops []string, mutatingOnly bool) []string {
	var out []string
	for _, op := range ops {
		f := strings.SplitN(op, " ", 2)
		if strings.HasPrefix(f[0], "user.") || len(f) < 2 {
			continue
		}
		if mutatingOnly && !strings.HasSuffix(f[0], "!") {
			continue
		}
		rest := strings.TrimSuffix(f[1], " ERR")
		// keys are separated by " ds:" / " mc:" markers (keys themselves may contain spaces)
		cur := ""
		for _, part := range strings.Split(rest, " ") {
			if strings.HasPrefix(part, "ds:") || strings.HasPrefix(part, "mc:") {
				if cur != "" {
					out = append(out, cur)
				}
				cur = part
			} else {
				cur += " " + part
			}
		}
		if cur != "" {
			out = append(out, cur)
		}
	}
	return out
}

func (wd *c17World) judge(r *core.Run, c *c17Case, res *c17Result, st *c17State) {
	m := c.Meta
	cs := map[string]interface{}{"world": wd.ID, "backends": wd.backendRecs(), "case": c}
	detail := map[string]interface{}{"status": res.Status, "body": core.Trunc(res.Body, 600), "headers": res.Hdr, "api_calls": res.Ops, "state_changes": res.Diff, "listed_in": res.ListedIn}
	viol := func(sig, msg string) { r.Violate("C17:"+sig, msg, cs, detail) }
	faulted := res.Fired > 0 // an injected read failure actually hit this call: error statuses are then admissible, acceptance is not
	if res.Hung {
		viol("handler-hangs:"+m.Kind+":"+m.Endpoint, "the handler did not return within 45 s")
		return
	}
	noMutation := func(who string) {
		var muts []string
		for _, op := range res.Ops {
			if opMutating(op) {
				muts = append(muts, op)
			}
		}
		if len(muts) > 0 || len(res.Diff) > 0 {
			viol(who+"-mutates:"+m.Endpoint, fmt.Sprintf("%s call (%s, identity %s) made mutating API calls %v / changed state %v", who, m.Endpoint, m.Ident, muts, res.Diff))
		}
	}
	noLeak := func(who string) {
		if l := wd.leaks(c, res); len(l) > 0 {
			viol(who+"-learns:"+m.Endpoint, fmt.Sprintf("%s call (%s, identity %s) was told planted data it did not supply: %v", who, m.Endpoint, m.Ident, l))
		}
	}
	switch m.Kind {
	case "cron":
		return
	case "agent", "followup-add", "followup-takeover", "followup-delete", "agent-other-path":
		rec, registered := st.reg[m.Named]
		authorised := registered && c.Call.OAuth != nil && c.Call.OAuth.Email == rec.BackendUser && c.Call.Headers[hdrBackend] == m.Named && m.NamedCls != "empty"
		if m.Kind == "agent-other-path" {
			noMutation("unauthorised")
			noLeak("unauthorised")
			if res.Status/100 == 2 {
				viol("unknown-agent-path-succeeds", fmt.Sprintf("path %s answered %d", c.Call.Path, res.Status))
			}
			return
		}
		if !authorised {
			if res.Status != 401 && !(faulted && res.Status/100 == 5) {
				viol("unauthorised-not-401:"+m.Endpoint, fmt.Sprintf("%s by identity %s (%s) naming backend %q (%s): status %d, want 401", m.Endpoint, m.Ident, m.Email, m.Named, m.NamedCls, res.Status))
			}
			noMutation("unauthorised")
			noLeak("unauthorised")
			return
		}
		// authorised for backend m.Named
		if res.Status == 401 || res.Status == 403 {
			if faulted {
				noMutation("rejected-under-fault") // the backend record could not be read: rejecting is fine, writing is not
			} else {
				viol("authorised-rejected:"+m.Endpoint, fmt.Sprintf("%s by the registered agent %s of backend %q was rejected with %d", m.Endpoint, m.Email, m.Named, res.Status))
			}
			return
		}
		if bad := wd.foreign(m.Named, append(opKeysOf(res.Ops, false), res.Diff...)); len(bad) > 0 {
			viol("touches-other-backend:"+m.Endpoint, fmt.Sprintf("%s authorised for backend %q (request ID %s) touched entities of another backend: %v", m.Endpoint, m.Named, m.RIDCls, bad))
		}
		if m.RIDCls == "crafted-collision" {
			// the ID names nothing in the caller's own backend; read across the separator it would name m.Victim of m.RIDOwner
			what := map[string]string{"request": "served", "response": "answered"}[m.Endpoint]
			if res.Status/100 == 2 {
				viol("other-backends-request-"+what+":id-boundary-confusion", fmt.Sprintf("backend %q sent request ID %q and thereby reached request %q of backend %q (status %d)", m.Named, m.RID, m.Victim, m.RIDOwner, res.Status))
			} else if res.Status != 404 && !m.History && !faulted {
				viol("nonexistent-request-not-404:"+m.Endpoint, fmt.Sprintf("backend %q, request ID %q: status %d, want 404", m.Named, m.RID, res.Status))
			}
			for _, d := range res.Diff {
				if wd.owned[m.RIDOwner][strings.TrimLeft(d, "+-~")] {
					viol("other-backends-request-modified:id-boundary-confusion", fmt.Sprintf("backend %q with request ID %q changed %s, which belongs to backend %q", m.Named, m.RID, d, m.RIDOwner))
				}
			}
			noLeak("cross-backend")
			return
		}
		owner, known := st.reqOf[m.RID]
		ridOwn := known && owner == m.Named && c.Call.Headers[hdrRequest] != ""
		ridOther := known && owner != m.Named
		switch m.Endpoint {
		case "pending":
			if len(st.pending[m.Named]) == 0 {
				return // nothing pending: the call legitimately waits; only reached in the dedicated slow case
			}
			if res.Status != 200 {
				if !faulted {
					viol("authorised-pending-fails", fmt.Sprintf("pending list of %q: status %d", m.Named, res.Status))
				}
				return
			}
			var ids []string
			if err := json.Unmarshal([]byte(res.Body), &ids); err != nil {
				viol("pending-list-unparsable", "body is not a JSON list of IDs: "+err.Error())
				return
			}
			if len(ids) == 0 {
				viol("pending-list-empty", fmt.Sprintf("backend %q has pending requests %v but the list is empty", m.Named, st.pending[m.Named]))
			}
			for _, id := range ids {
				if st.reqOf[id] != m.Named {
					viol("pending-list-foreign-id", fmt.Sprintf("pending list of %q contains %q, which is not one of its requests", m.Named, id))
				}
			}
		case "request":
			switch {
			case st.stale[m.RID]:
				// the backend was deleted and registered again since: only the ownership rule applies
			case ridOwn && st.registeredStill(m.Named):
				want := wd.req(m.RID)
				if faulted && res.Status/100 != 2 {
					// own request not served because the store failed: admissible
				} else if res.Status != 200 || res.Body != want.Contents {
					viol("authorised-fetch-wrong", fmt.Sprintf("fetch of own request %q: status %d, body matches planted request: %v", m.RID, res.Status, res.Body == want.Contents))
				} else if got := strings.Join(res.Hdr[http.CanonicalHeaderKey(hdrUser)], ","); got != want.User {
					viol("fetch-wrong-user-header", fmt.Sprintf("fetch of %q reports end user %q, the request was issued by %q", m.RID, got, want.User))
				}
			case ridOther:
				if res.Status != 404 && !m.History && !faulted {
					viol("other-backends-request-not-404:request", fmt.Sprintf("fetch by backend %q of request %q belonging to %q: status %d, want 404", m.Named, m.RID, owner, res.Status))
				}
				if res.Status/100 == 2 {
					viol("other-backends-request-served", fmt.Sprintf("fetch by backend %q of request %q belonging to %q succeeded (%d)", m.Named, m.RID, owner, res.Status))
				}
				noLeak("cross-backend")
			default:
				if res.Status/100 != 4 && !ridOwn && !(faulted && res.Status/100 == 5) {
					viol("fetch-of-nonexistent-request-not-4xx", fmt.Sprintf("fetch of request ID %q (%s): status %d", m.RID, m.RIDCls, res.Status))
				}
				noLeak("authorised-unknown-request")
			}
		case "response":
			switch {
			case st.stale[m.RID]:
			case ridOther:
				if res.Status != 404 && !m.History && !faulted {
					viol("other-backends-request-not-404:response", fmt.Sprintf("response post by backend %q for request %q belonging to %q: status %d, want 404", m.Named, m.RID, owner, res.Status))
				}
				if res.Status/100 == 2 {
					viol("other-backends-request-answered", fmt.Sprintf("response post by backend %q for request %q belonging to %q succeeded (%d)", m.Named, m.RID, owner, res.Status))
				}
				for _, d := range res.Diff {
					if mentions(d, m.RID) {
						viol("other-backends-request-modified", fmt.Sprintf("response post by backend %q changed state of request %q of %q: %s", m.Named, m.RID, owner, d))
					}
				}
			case ridOwn && st.pending[m.Named][m.RID]:
				if res.Status != 200 && !faulted {
					viol("authorised-response-rejected", fmt.Sprintf("response post for own pending request %q: status %d", m.RID, res.Status))
				}
			case !ridOwn:
				if res.Status/100 == 2 {
					viol("response-for-nonexistent-request-accepted", fmt.Sprintf("response post for request ID %q (%s): status %d", m.RID, m.RIDCls, res.Status))
				}
			}
		}
		return
	case "admin":
		if !m.IsAdmin {
			if res.Status != 403 {
				viol("non-admin-not-403:"+m.Endpoint, fmt.Sprintf("admin API %s %s by %s: status %d, want 403", c.Call.Method, c.Call.Path, m.Ident, res.Status))
			}
			noMutation("non-admin")
			noLeak("non-admin")
			return
		}
		if res.Status == 403 || res.Status == 401 {
			viol("admin-rejected:"+m.Endpoint, fmt.Sprintf("admin API %s %s by administrator (%s): status %d", c.Call.Method, c.Call.Path, m.Ident, res.Status))
			return
		}
		switch m.Endpoint {
		case "list":
			var got []c17BackendRec
			if res.Status != 200 || json.Unmarshal([]byte(res.Body), &got) != nil {
				viol("admin-list-fails", fmt.Sprintf("status %d", res.Status))
				return
			}
			gm := map[string]c17BackendRec{}
			for _, g := range got {
				gm[g.ID] = g
			}
			for id, want := range st.reg {
				g, ok := gm[id]
				if !ok || g.BackendUser != want.BackendUser || g.EndUser != want.EndUser {
					viol("admin-list-wrong", fmt.Sprintf("backend %q registered as %+v, listed as %+v (present: %v)", id, want, g, ok))
				}
			}
			if len(gm) != len(st.reg) {
				viol("admin-list-wrong", fmt.Sprintf("%d backends listed, %d registered", len(gm), len(st.reg)))
			}
		case "add", "add-takeover", "add-reregister", "add-restore", "delete":
			if res.Status != 200 && !(faulted && res.Status/100 == 5) {
				viol("admin-"+m.Endpoint+"-fails", fmt.Sprintf("status %d", res.Status))
			}
		}
	case "user-cachex":
		sp := c.CacheX
		if res.SetupErr != "" {
			r.Broken(fmt.Sprintf("C17 %s/%d: %s", wd.ID, c.I, res.SetupErr))
			return
		}
		if res.AHung || res.BHung {
			viol("handler-hangs:user:client", "a client handler did not return")
		}
		if res.APosted > 0 && (res.AStatus != 200 || res.ABody != sp.AnswerBody) {
			viol("end-user-did-not-receive-own-backends-response", fmt.Sprintf("backend %q's agent answered; its end user got %d %q", sp.RegA.ID, res.AStatus, core.Trunc(res.ABody, 80)))
		}
		if sp.Revoke != "" {
			// (judged only where no shared backend of the world matches the path: with one, a backend is still
			// registered for the user and the documented GET cache may answer)
			stillServed := false
			for _, ob := range wd.Bs {
				for _, pf := range ob.Rec.PathPrefixes {
					if ob.Rec.EndUser == "allUsers" && strings.HasPrefix(strings.SplitN(sp.B.Path, "?", 2)[0], pf) {
						stillServed = true
					}
				}
			}
			if !stillServed && (strings.Contains(res.BBody, sp.AnswerBody) || res.BStatus/100 == 2) {
				viol("end-user-served-after-registration-removed:"+sp.Revoke, fmt.Sprintf("end user %q: backend %q was %s through the admin API, no backend is registered for him and this path any more, yet the same GET got status %d %q (cached page: %v)", sp.A.AEUser, sp.RegA.ID, map[string]string{"delete": "deleted", "reassign": "registered for another end user"}[sp.Revoke], res.BStatus, core.Trunc(res.BBody, 80), strings.Contains(res.BBody, sp.AnswerBody)))
			}
			return
		}
		if strings.Contains(res.BBody, sp.AnswerBody) || res.BStatus/100 == 2 {
			viol("end-user-received-another-users-cached-response", fmt.Sprintf("end user %q (entitled to backend %q only, which did not answer) got status %d %q for the URL that %q had fetched from backend %q before", sp.B.AEUser, sp.RegB.ID, res.BStatus, core.Trunc(res.BBody, 80), sp.A.AEUser, sp.RegA.ID))
		}
		found := false
		for _, id := range res.BPending {
			found = found || id == sp.B.ReqID
		}
		if !found && res.BStatus != 404 && !strings.Contains(res.BBody, sp.AnswerBody) {
			viol("user-request-not-queued-for-own-backend", fmt.Sprintf("end user %q: status %d, request not pending for backend %q", sp.B.AEUser, res.BStatus, sp.RegB.ID))
		}
	case "user-collide":
		sp := c.Collide
		if res.AHung || res.BHung {
			viol("handler-hangs:user:client", "a client handler did not return")
		}
		if strings.Contains(res.BBody, sp.AnswerBody) || res.BStatus/100 == 2 {
			viol("end-user-received-another-backends-response", fmt.Sprintf("end user %q (backend %q, whose agent never ran) received status %d %q - the answer backend %q's agent produced for %q", sp.B.AEUser, sp.BackendB, res.BStatus, core.Trunc(res.BBody, 80), sp.BackendA, sp.A.AEUser))
		}
		answered := len(res.AAgent) > 0
		for _, a := range res.AAgent {
			if a.FetchStatus == 200 {
				if strings.Contains(a.FetchBody, "ofB-"+wd.ID) { // (the agent also sees its backend's planted requests: those are its own)
					viol("agent-fetched-another-backends-request", fmt.Sprintf("backend %q's agent was handed %q", sp.BackendA, core.Trunc(a.FetchBody, 120)))
				}
				if strings.Contains(a.FetchBody, "ofA-"+wd.ID) && a.FetchUser != sp.A.AEUser {
					viol("fetch-wrong-user-header", fmt.Sprintf("request of %q reported to the agent as issued by %q", sp.A.AEUser, a.FetchUser))
				}
			}
			answered = answered && a.FetchStatus == 200 && a.PostStatus == 200
		}
		for _, id := range res.BPending {
			for _, a := range res.AListed {
				if id == a && !answered {
					_ = id // the same ID pending for two backends is C01/C19 territory; judged here only through its effects
				}
			}
		}
		if answered && (res.AStatus != 200 || res.ABody != sp.AnswerBody) {
			viol("end-user-did-not-receive-own-backends-response", fmt.Sprintf("backend %q's agent answered %v; its end user got %d %q", sp.BackendA, res.AListed, res.AStatus, core.Trunc(res.ABody, 80)))
		}
	case "agent-burst":
		for i, b := range res.Burst {
			if i >= len(c.BurstRole) {
				break
			}
			call := c.Burst[i]
			ep := strings.TrimPrefix(call.Path, "/agent/")
			who := ""
			if call.OAuth != nil {
				who = call.OAuth.Email
			}
			if b.Hung {
				viol("handler-hangs:agent:"+ep, "an agent handler of the burst did not return")
				continue
			}
			if c.BurstRole[i] == "rightful" {
				if b.Status == 401 || b.Status == 403 {
					viol("authorised-rejected:"+ep+":concurrent", fmt.Sprintf("%s by the registered agent of backend %q, issued while other callers' checks for the same backend were in flight, was rejected with %d", ep, m.Named, b.Status))
				}
				continue
			}
			if b.Status != 401 {
				viol("unauthorised-not-401:"+ep+":concurrent", fmt.Sprintf("%s by %q naming backend %q, issued while the rightful agent's calls were in flight: status %d, want 401", ep, who, m.Named, b.Status))
			}
			var muts []string
			for _, op := range b.Ops {
				if opMutating(op) {
					muts = append(muts, op)
				}
			}
			if len(muts) > 0 {
				viol("unauthorised-mutates:"+ep+":concurrent", fmt.Sprintf("%s by %q naming backend %q made mutating API calls %v", ep, who, m.Named, muts))
			}
			tmp := &c17Case{Call: call, Meta: c17Meta{Email: who}}
			var leaked []string
			for _, sec := range wd.secrets(tmp) {
				if mentions(b.Body, sec) {
					leaked = append(leaked, sec)
				}
			}
			if len(leaked) > 0 {
				viol("unauthorised-learns:"+ep+":concurrent", fmt.Sprintf("%s by %q naming backend %q was told %v", ep, who, m.Named, leaked))
			}
		}
	case "user-burst":
		for _, b := range res.Burst {
			if b.Hung {
				viol("handler-hangs:user:client", "a client handler of the burst did not return")
			}
			for _, id := range b.ListedIn {
				rec, ok := st.reg[id]
				if !ok || (rec.EndUser != b.User && rec.EndUser != "allUsers") {
					viol("user-routed-to-foreign-backend", fmt.Sprintf("end user %q (path %s, issued while other users' requests were in flight) was routed to backend %q registered for %q", b.User, c.Burst[0].Path, id, rec.EndUser))
				}
			}
			if len(b.ListedIn) == 0 && b.Status/100 == 2 {
				viol("unrouted-user-served", fmt.Sprintf("status %d without the request being queued for any backend", b.Status))
			}
		}
	case "user", "wrong-module":
		user := c.Call.AEUser
		if user == "" {
			if len(res.ListedIn) > 0 {
				viol("anonymous-user-routed", fmt.Sprintf("a request without end-user identity was queued for %v", res.ListedIn))
			}
			noMutation("anonymous")
			noLeak("anonymous")
			if res.Status/100 == 2 {
				viol("anonymous-user-served", fmt.Sprintf("status %d", res.Status))
			}
			return
		}
		for _, id := range res.ListedIn {
			rec, ok := st.reg[id]
			if !ok || (rec.EndUser != user && rec.EndUser != "allUsers") {
				viol("user-routed-to-foreign-backend", fmt.Sprintf("end user %q (path %s) was routed to backend %q registered for %q", user, c.Call.Path, id, rec.EndUser))
			}
		}
		for _, d := range res.Diff {
			named := wd.namedBackends(d)
			for id, rec := range st.reg {
				if rec.EndUser != user && rec.EndUser != "allUsers" && named[id] {
					viol("user-request-stored-under-foreign-backend", fmt.Sprintf("end user %q: state change %s names backend %q registered for %q", user, d, id, rec.EndUser))
				}
			}
		}
		if len(res.ListedIn) == 0 && res.Status/100 == 2 {
			viol("unrouted-user-served", fmt.Sprintf("status %d without the request being queued for any backend", res.Status))
		}
		if len(res.ListedIn) == 0 {
			noLeak("unrouted-user")
		}
	}
}

func (st *c17State) registeredStill(id string) bool { _, ok := st.reg[id]; return ok }

// apply advances the model after a case that keeps its effects.
func (st *c17State) apply(c *c17Case, res *c17Result) {
	m := c.Meta
	switch {
	case m.Kind == "admin" && res.Status == 200 && (m.Endpoint == "add" || m.Endpoint == "add-takeover" || m.Endpoint == "add-reregister" || m.Endpoint == "add-restore"):
		var rec c17BackendRec
		if json.Unmarshal([]byte(c.Call.Body), &rec) == nil {
			st.reg[rec.ID] = rec
			if st.pending[rec.ID] == nil {
				st.pending[rec.ID] = map[string]bool{}
			}
		}
	case m.Kind == "admin" && res.Status == 200 && m.Endpoint == "delete":
		delete(st.reg, m.Target)
		for rid, b := range st.reqOf {
			if b == m.Target {
				st.stale[rid] = true
			}
		}
		st.pending[m.Target] = map[string]bool{}
	case m.Kind == "agent" && m.Endpoint == "response" && res.Status == 200:
		if st.reqOf[m.RID] == m.Named {
			delete(st.pending[m.Named], m.RID)
		}
	}
}

func (wd *c17World) req(rid string) *c17Req {
	for _, b := range wd.Bs {
		for _, rq := range b.Reqs {
			if rq.RID == rid {
				return rq
			}
		}
	}
	return &c17Req{}
}

func (wd *c17World) backendRecs() []c17BackendRec {
	var out []c17BackendRec
	for _, b := range wd.Bs {
		out = append(out, b.Rec)
	}
	return out
}

func (c *c17Case) class() string {
	m := c.Meta
	h := ""
	if m.History {
		h = "|history"
	}
	switch m.Kind {
	case "agent":
		if m.Fault != "" {
			h += "|fails:" + m.Fault
		}
		return fmt.Sprintf("agent|%s|id:%s|named:%s|rid:%s%s", m.Endpoint, m.Ident, m.NamedCls, m.RIDCls, h)
	case "admin":
		return fmt.Sprintf("admin|%s|id:%s%s", m.Endpoint, m.Ident, h)
	case "user":
		return fmt.Sprintf("user|%s", m.Ident)
	}
	return m.Kind + "|" + m.Ident + "|admin:" + strconv.FormatBool(m.IsAdmin) + h
}

// C17 — who may act as agent, user and admin.
func C17(r *core.Run) {
	r.SetRule("worlds of 1-3 registered backends (some with a shared backend whose agent is down next to another user's live private backend for the same prefix; distinct/shared agent accounts, per-user/shared end users, plain and exotic IDs, IDs related across a separator (B2 = B1<sep>word for sep in : / | \" space . % \\) with request IDs crafted so that (backend, request ID) read across the separator names another backend's request, pending and answered requests with planted secrets) x caller identity {no OAuth, a token whose account has an empty e-mail address, stranger, OAuth admin that is no agent, each agent} x endpoint {pending, request, response} x named backend {each, unknown, absent} x request ID {pending/answered of each backend, unknown, absent}; admin API {list, add, takeover, garbage, delete, other methods/paths} x {App Engine admin, OAuth admin, plain user, agent, an agent carrying its own backend ID in the agent-protocol header while the URL names another backend, nobody, OAuth accounts with an empty / blank / \",\" e-mail address} with follow-up calls on the resulting state; end users x paths through the client handler (also: owner/other-user alternations and concurrent bursts on private prefixes; two users of different private backends in flight with client-supplied X-Inverting-Proxy-Request-ID / -Backend-ID / -User-ID headers of equal values while only one backend's agent answers - the other user must not receive that answer; bursts of concurrent agent calls for one backend by its rightful agent and by strangers while datastore reads take a few milliseconds; the response cache across users with and without a user ID in the Users API); scripted histories (agent works, the same backend ID is registered again for another agent account and end user, old and new agent on every endpoint, former and new end user through the client handler, unregister, original registration restored) and revocation while the delete transaction's commit conflicts (always / once), and random-order histories, all judged against an evolving model of who is registered; the cross-backend, unknown-ID and unauthorised agent calls repeated with one failing store read each (k-th datastore Get / memcache Get / RunQuery of that handler invocation, or the first two / first three / all datastore Gets, internal error or timeout: acceptance and foreign writes stay forbidden, 4xx/5xx are admissible); every call goes through appengine's handleHTTP and the app's routing closure; class = (kind, endpoint, identity class, named-backend class, request-ID class, history?)")
	r.Assume("/cron/delete is executed but not judged (documented as restricted by app.yaml); an authorised call reading or writing keys in its own backend's namespace that merely contain a caller-supplied foreign request ID is not counted as touching the other backend; status codes for unknown/absent request IDs are only required to be 4xx; client requests are cut short once queued (incoming context cancelled) instead of waiting 30 s")
	bin := r.MustBuild(e3Build(r))
	rng := r.Rand("c17")
	nWorlds := r.Pick(45, 380)
	keep := 0.5
	if !r.Quick() {
		keep = 1.0
	}
	var worlds []*c17World
	total := 0
	for w := 0; w < nWorlds; w++ {
		wd := c17GenWorld(rng, w, r.Quick())
		c17GenCases(rng, wd, keep, true)
		total += len(wd.Cases)
		worlds = append(worlds, wd)
	}
	if !r.Quick() {
		// one authorised pending call on a backend with nothing pending: waits 30 s by design, then an empty list
		wd := c17GenWorld(rng, nWorlds*3, false) // index multiple of 3 and not 4 mod 5 ... plain single backend
		for _, b := range wd.Bs {
			for _, rq := range b.Reqs {
				if !rq.Answered {
					rq.Answered, rq.Answer = true, "HTTP/1.1 204 No Content\r\n\r\n"
				}
			}
		}
		wd.Setup = nil
		for _, b := range wd.Bs {
			rec := b.Rec
			wd.Setup = append(wd.Setup, c17Setup{Op: "backend", Owner: b.Rec.ID, Backend: &rec, ID: b.Rec.ID}, c17Setup{Op: "seen", Owner: b.Rec.ID, ID: b.Rec.ID})
			for _, rq := range b.Reqs {
				wd.Setup = append(wd.Setup, c17Setup{Op: "request", Owner: b.Rec.ID, ID: b.Rec.ID, RID: rq.RID, User: rq.User, Contents: rq.Contents},
					c17Setup{Op: "answer", Owner: b.Rec.ID, ID: b.Rec.ID, RID: rq.RID, Contents: rq.Answer})
			}
		}
		b := wd.Bs[0]
		c := wd.agentCall(c17Ident{"agent", &e3OAuth{Email: b.Rec.BackendUser}}, "pending", b.Rec.ID, "own", "", "n/a", "")
		c.Meta.Kind = "agent-empty-pending"
		wd.add(c)
		wd.slow = true
		worlds = append([]*c17World{wd}, worlds...)
	}
	spec := map[string]interface{}{"mode": "c17", "workers": 16, "worlds": worlds}
	res := e3Run(r, bin, "c17", spec, time.Duration(r.Pick(200, 900))*time.Second)

	byWorld := map[string]*c17World{}
	for _, wd := range worlds {
		byWorld[wd.ID] = wd
	}
	results := map[string]map[int]*c17Result{}
	for _, ln := range res.Lines {
		var probe struct {
			World string `json:"world"`
			Setup []struct {
				Owner string   `json:"owner"`
				Op    string   `json:"op"`
				Keys  []string `json:"keys"`
				Err   string   `json:"err"`
			} `json:"setup"`
		}
		if err := json.Unmarshal(ln, &probe); err != nil || byWorld[probe.World] == nil {
			r.Broken("unreadable C17 result line: " + core.Trunc(string(ln), 200))
			continue
		}
		wd := byWorld[probe.World]
		if probe.Setup != nil {
			for _, s := range probe.Setup {
				if s.Err != "" {
					r.Broken(fmt.Sprintf("C17 world %s: setup step %s for %s failed: %s", wd.ID, s.Op, s.Owner, s.Err))
				}
				if wd.owned[s.Owner] == nil {
					wd.owned[s.Owner] = map[string]bool{}
				}
				for _, k := range s.Keys {
					wd.owned[s.Owner][k] = true
				}
			}
			continue
		}
		var cr c17Result
		if err := json.Unmarshal(ln, &cr); err != nil {
			r.Broken("unreadable C17 case result: " + core.Trunc(string(ln), 200))
			continue
		}
		if results[cr.World] == nil {
			results[cr.World] = map[int]*c17Result{}
		}
		results[cr.World][cr.I] = &cr
	}
	executed, unauth, auth, samples, withFault, faultFired := 0, 0, 0, 0, 0, 0
	for _, wd := range worlds {
		if len(wd.owned) == 0 && res.SawEnd {
			r.Broken("C17 world " + wd.ID + " reported no setup")
			continue
		}
		var st *c17State
		for _, c := range wd.Cases {
			cr := results[wd.ID][c.I]
			if cr == nil {
				if res.SawEnd {
					r.Broken(fmt.Sprintf("C17 case %s/%d was not reported", wd.ID, c.I))
				}
				continue
			}
			if !c.Keep || st == nil {
				st = wd.baseState()
			}
			executed++
			r.Case(c.class())
			if c.Meta.Kind == "agent-empty-pending" {
				if cr.Hung || cr.Status != 200 || strings.TrimSpace(cr.Body) != "[]" {
					r.Violate("C17:empty-pending-list-wrong", fmt.Sprintf("authorised pending call with nothing pending: hung=%v status=%d body=%q after %d ms", cr.Hung, cr.Status, core.Trunc(cr.Body, 100), cr.Ms), c, cr)
				}
				r.Set("empty_pending_wait_ms", cr.Ms)
				continue
			}
			wd.judge(r, c, cr, st)
			st.apply(c, cr)
			if len(c.Faults) > 0 {
				withFault++
				if cr.Fired > 0 {
					faultFired++
				}
			}
			if cr.Status == 401 || cr.Status == 403 {
				unauth++
			} else if c.Meta.Kind == "agent" {
				auth++
			}
			if samples < 6 && (c.Meta.Kind == "agent" && c.Meta.NamedCls == "own" && c.Meta.RIDCls == "other-pending" || c.Meta.Kind == "followup-delete" && c.Meta.IsAdmin) {
				samples++
				r.Sample(map[string]interface{}{"backends": wd.backendRecs(), "case": c, "status": cr.Status, "body": core.Trunc(cr.Body, 200), "api_calls": cr.Ops, "state_changes": cr.Diff})
			}
		}
	}
	r.Set("worlds", len(worlds))
	r.Set("cases_with_a_failing_store_read", withFault)
	r.Set("cases_where_the_failure_was_reached", faultFired)
	r.Set("cases_generated", total)
	r.Set("answered_401_or_403", unauth)
	r.Set("agent_calls_not_rejected", auth)
	e3Finish(r, res, r.Pick(15000, 200000))
}
