package props

import "verif/internal/core"

// C17 — stub, replaced by the real check.
func C17(r *core.Run) {
	r.Broken("check not implemented yet")
	r.Finish(1)
}
