package props

import (
	"bufio"
	"bytes"
	"encoding/json"
	"fmt"
	"io"
	"net"
	"net/http"
	"path/filepath"
	"sort"
	"strings"
	"sync"
	"sync/atomic"
	"syscall"
	"time"

	"verif/internal/core"
	"verif/internal/fakes"
	"verif/internal/rawhttp"
)

// c04History is one scripted sequence of pending-list replies.
type c04History struct {
	Name    string     `json:"name"`
	IDs     []string   `json:"-"`
	NumIDs  int        `json:"num_ids"`
	Replies [][]string `json:"-"`
	Shape   string     `json:"shape"`
	Sample  [][]string `json:"first_replies"`
	SlowPct int        `json:"slow_pct"`
}

func c04Gen(r *core.Run, idx int, kind string, n int) *c04History {
	rng := r.Rand(fmt.Sprintf("c04-%d", idx))
	h := &c04History{Name: fmt.Sprintf("h%d-%s", idx, kind), Shape: kind, NumIDs: n, SlowPct: []int{0, 30, 100}[rng.Intn(3)]}
	for i := 0; i < n; i++ {
		h.IDs = append(h.IDs, fmt.Sprintf("s%dh%di%d", r.Seed, idx, i))
	}
	if kind == "big-reply-long-ids" {
		// IDs as long as the stand-alone proxy's (64 hex digits): a reply listing 1000 of them is about 67 KB of JSON
		for i := range h.IDs {
			h.IDs[i] = fmt.Sprintf("%016x%016x%016x%016x", tokHash(h.IDs[i]+"a"), tokHash(h.IDs[i]+"b"), tokHash(h.IDs[i]+"c"), tokHash(h.IDs[i]+"d"))
		}
	}
	ids := h.IDs
	switch kind {
	case "big-reply-long-ids":
		h.Replies = append(h.Replies, append([]string(nil), ids...), append([]string(nil), ids...))
		h.SlowPct = 0
	case "long-lived-relisted":
		// ids[0] is reported in every reply while more than 1000 other IDs come and go, never more than 51 outstanding at once
		rest := ids[1:]
		for len(rest) > 0 {
			k := 50
			if k > len(rest) {
				k = len(rest)
			}
			h.Replies = append(h.Replies, append([]string{ids[0]}, rest[:k]...), nil)
			rest = rest[k:]
		}
		h.Replies = append(h.Replies, []string{ids[0]}, []string{ids[0]})
		h.SlowPct = 0
	case "repeat-same-reply":
		for k := 0; k < 2+rng.Intn(4); k++ {
			h.Replies = append(h.Replies, append([]string(nil), ids...))
		}
	case "dup-within-reply":
		var rep []string
		for _, id := range ids {
			for k := 0; k < 1+rng.Intn(3); k++ {
				rep = append(rep, id)
			}
		}
		rng.Shuffle(len(rep), func(i, j int) { rep[i], rep[j] = rep[j], rep[i] })
		h.Replies = append(h.Replies, rep)
	case "permutations":
		for k := 0; k < 3; k++ {
			p := append([]string(nil), ids...)
			rng.Shuffle(len(p), func(i, j int) { p[i], p[j] = p[j], p[i] })
			h.Replies = append(h.Replies, p)
		}
	case "overlapping-subsets":
		w := 1 + n/3
		for s := 0; s < n; s += 1 + rng.Intn(w) {
			e := s + w + rng.Intn(w)
			if e > n {
				e = n
			}
			h.Replies = append(h.Replies, append([]string(nil), ids[s:e]...))
		}
		h.Replies = append(h.Replies, append([]string(nil), ids...))
	case "relist-until-done": // App Engine style: handled by the fake proxy's Relist mode
		h.Replies = nil
	case "backend-drops-connection":
		// every ID is listed twice; the backend reads the (body-less POST) request and drops the connection
		h.Replies = [][]string{append([]string(nil), ids...), nil, append([]string(nil), ids...)}
		h.SlowPct = 0
	case "list-faults-while-relisting":
		h.Replies = nil // App Engine style re-listing with failing list calls in between
		h.SlowPct = 0
	case "upload-fails-then-relisted", "fetch-fails-then-relisted":
		// driven specially: list once, let every upload (or fetch) attempt fail at connection level, then re-list twice
		h.Replies = nil
		h.SlowPct = 0
	case "relist-after-completion":
		h.Replies = append(h.Replies, append([]string(nil), ids...), nil) // nil = wait for completion, then relist
		h.Replies = append(h.Replies, append([]string(nil), ids...))
	case "one-by-one-then-all":
		for _, id := range ids {
			h.Replies = append(h.Replies, []string{id})
		}
		h.Replies = append(h.Replies, append([]string(nil), ids...))
	case "window-edge":
		// ids[0] listed, then n-1 others (<= 999 distinct), then ids[0] again
		h.Replies = append(h.Replies, []string{ids[0]})
		rest := ids[1:]
		for len(rest) > 0 {
			k := 50 + rng.Intn(50)
			if k > len(rest) {
				k = len(rest)
			}
			h.Replies = append(h.Replies, append([]string(nil), rest[:k]...))
			rest = rest[k:]
		}
		h.Replies = append(h.Replies, nil, []string{ids[0]}, []string{ids[0], ids[len(ids)-1]})
		h.SlowPct = 0
	}
	for i := 0; i < len(h.Replies) && i < 3; i++ {
		rep := h.Replies[i]
		if len(rep) > 6 {
			rep = rep[:6]
		}
		h.Sample = append(h.Sample, rep)
	}
	return h
}

var c04Kinds = []string{"backend-drops-connection", "list-faults-while-relisting", "upload-fails-then-relisted", "fetch-fails-then-relisted", "repeat-same-reply", "dup-within-reply", "permutations", "overlapping-subsets", "relist-until-done", "relist-after-completion", "one-by-one-then-all"}

// C04 — each client request is forwarded at most once.
func C04(r *core.Run) {
	r.SetRule("(a) real agent vs scripted fake proxy: generated histories of pending-list replies (repeats, duplicates within a reply, permutations, overlapping subsets, re-listing until done, re-listing after completion, window-edge histories with up to 999 other IDs between two listings) with delayed fetch/upload; counting backend; (b) real stand-alone proxy with N raw clients and M concurrent pollers speaking the agent protocol; class = history shape x size class x delay profile, or (clients, pollers)")
	r.Assume("fault-free transport between agent, fake proxy and backend (so Go's transparent retry of idempotent requests cannot occur); nothing is asserted once >= 1000 distinct IDs separate two listings")
	agentBin := r.MustBuild(r.BuildRepoBinary("./agent", "agent"))
	serverBin := r.MustBuild(r.BuildRepoBinary("./server", "server"))
	md, err := fakes.NewMetadata()
	if err != nil {
		r.Broken(err.Error())
		r.Finish(1)
	}
	defer md.Close()

	cDone := make(chan struct{})
	go func() {
		defer close(cDone)
		c04PartC(r, agentBin, md)
	}()
	dDone := make(chan struct{})
	go func() {
		defer close(dDone)
		c04PartD(r, serverBin)
	}()
	c04PartA(r, agentBin, md)
	c04PartB(r, serverBin)
	<-cDone
	<-dDone
	r.JudgeRaces(core.ParseRaceLogs(filepath.Join(r.WorkDir, "race-")))
	r.Finish(r.Pick(30, 600))
}

func c04PartA(r *core.Run, agentBin string, md *fakes.Metadata) {
	nh := r.Pick(42, 1100)
	edges := r.Pick(2, 20)
	lanes := r.Pick(3, 8) // independent agent+proxy+backend triples working through the histories in parallel
	var hs []*c04History
	for i := 0; i < nh; i++ {
		n := []int{1, 2, 5, 20, 50, 120}[i%6]
		hs = append(hs, c04Gen(r, i, c04Kinds[i%len(c04Kinds)], n))
	}
	for i := 0; i < edges; i++ {
		n := []int{1000, 999, 500, 2}[i%4]
		hs = append(hs, c04Gen(r, nh+i, "window-edge", n))
	}
	hs = append(hs, c04Gen(r, nh+edges, "big-reply-long-ids", 1000), c04Gen(r, nh+edges+1, "long-lived-relisted", 1101))
	if !r.Quick() {
		hs = append(hs, c04Gen(r, nh+edges+2, "big-reply-long-ids", 990), c04Gen(r, nh+edges+3, "long-lived-relisted", 1501), c04Gen(r, nh+edges+4, "long-lived-relisted", 1002))
	}
	var wg sync.WaitGroup
	ch := make(chan *c04History, len(hs))
	for _, h := range hs {
		ch <- h
	}
	close(ch)
	var mu sync.Mutex
	overlapSigs := map[string]struct{}{}
	for lane := 0; lane < lanes; lane++ {
		wg.Add(1)
		go func(lane int) {
			defer wg.Done()
			backend, err := newTokBackend()
			if err != nil {
				r.Broken(err.Error())
				return
			}
			defer backend.Srv.Close()
			var dmu sync.Mutex
			dropTok := map[string]bool{}
			slowTok := map[string]bool{}
			backend.Override = func(req *rawhttp.Message, conn net.Conn, br *bufio.Reader) (bool, bool) {
				tok, _, _, ok := parseTokPath(req.Target)
				if !ok {
					return false, false
				}
				dmu.Lock()
				drop, slow := dropTok[tok], slowTok[tok]
				dmu.Unlock()
				if drop {
					return true, false // request fully read, connection closed without a single response byte
				}
				if slow {
					time.Sleep(120 * time.Millisecond) // keep the request in flight across several list calls
				}
				return false, false
			}
			px, err := fakes.NewProxy()
			if err != nil {
				r.Broken(err.Error())
				return
			}
			defer px.Close()
			px.ListWait = 50 * time.Millisecond
			var listFaults int64
			// scripted list replies
			var smu sync.Mutex
			var script [][]string
			var waitFor []string
			slow := map[string]bool{}
			px.OnList = func(w http.ResponseWriter, req *http.Request) bool {
				if atomic.LoadInt64(&listFaults) > 0 && px.Lists()%2 == 0 {
					atomic.AddInt64(&listFaults, -1)
					http.Error(w, "scripted list failure", 503)
					return true
				}
				smu.Lock()
				if len(script) == 0 {
					smu.Unlock()
					return false // default behaviour (pending queue / Relist mode)
				}
				rep := script[0]
				if rep == nil {
					// barrier: hold this position until the IDs listed so far are complete
					ids := append([]string(nil), waitFor...)
					smu.Unlock()
					for _, id := range ids {
						px.Wait(id, 20*time.Second)
					}
					smu.Lock()
					if len(script) > 0 && script[0] == nil {
						script = script[1:]
					}
					smu.Unlock()
					w.WriteHeader(200)
					w.Write([]byte("[]"))
					return true
				}
				script = script[1:]
				waitFor = append(waitFor, rep...)
				smu.Unlock()
				b, _ := json.Marshal(rep)
				w.WriteHeader(200)
				w.Write(b)
				return true
			}
			failUp := map[string]bool{}
			failFetch := map[string]bool{}
			attempts := map[string]int{}
			reset := func(w http.ResponseWriter) {
				if hj, ok := w.(http.Hijacker); ok {
					if c, _, err := hj.Hijack(); err == nil {
						if tc, ok := c.(*net.TCPConn); ok {
							tc.SetLinger(0)
						}
						c.Close()
					}
				}
			}
			px.OnResponse = func(id string, w http.ResponseWriter, req *http.Request) bool {
				smu.Lock()
				f := failUp[id]
				if f {
					attempts[id]++
				}
				smu.Unlock()
				if !f {
					return false
				}
				io.CopyN(io.Discard, req.Body, 64)
				reset(w)
				return true
			}
			px.OnFetch = func(id string, w http.ResponseWriter, req *http.Request) bool {
				smu.Lock()
				ff := failFetch[id]
				if ff {
					attempts[id]++
				}
				smu.Unlock()
				if ff {
					reset(w)
					return true
				}
				smu.Lock()
				s := slow[id]
				smu.Unlock()
				if s {
					time.Sleep(time.Duration(5+tokHash(id)%40) * time.Millisecond)
				}
				return false
			}
			agent, err := startAgent(r, agentBin, fmt.Sprintf("agentA%d", lane), md, px.URL(), backend.Srv.Addr(), fmt.Sprintf("bA%d", lane))
			if err != nil {
				r.Broken(err.Error())
				return
			}
			defer agent.Kill()
			// the bounds of the histories are for requests, not for the start-up of the agent process
			for d := time.Now().Add(60 * time.Second); time.Now().Before(d) && px.Lists() == 0 && agent.Alive(); {
				time.Sleep(10 * time.Millisecond)
			}
			for h := range ch {
				if r.Violations() >= 10 {
					continue // refuted already: the remaining histories would only add witnesses (and sit out their waits)
				}
				if !agent.Alive() {
					judgeProcs(r, true, agent)
					return
				}
				// register requests
				for i, id := range h.IDs {
					raw := tokRequest("POST", id, 20, 0, "c04.example", tokBytes(id, "req", 64), nil)
					if h.Shape == "backend-drops-connection" {
						raw = tokRequest([]string{"POST", "PUT", "DELETE"}[i%3], id, 20, 0, "c04.example", []byte{}, nil) // Content-Length: 0
						dmu.Lock()
						dropTok[id] = true
						dmu.Unlock()
					}
					if h.Shape == "relist-until-done" || h.Shape == "list-faults-while-relisting" {
						continue
					}
					px.Store(id, raw, "")
					if (int(tokHash(id))%100+100)%100 < h.SlowPct {
						smu.Lock()
						slow[id] = true
						smu.Unlock()
					}
					_ = i
				}
				if h.Shape == "upload-fails-then-relisted" || h.Shape == "fetch-fails-then-relisted" {
					smu.Lock()
					for _, id := range h.IDs {
						if h.Shape == "upload-fails-then-relisted" {
							failUp[id] = true
						} else {
							failFetch[id] = true
						}
					}
					waitFor = nil
					script = [][]string{append([]string(nil), h.IDs...)}
					smu.Unlock()
					// wait until all three attempts of every ID have failed (bounded)
					for i := 0; i < 1500; i++ {
						smu.Lock()
						done := true
						for _, id := range h.IDs {
							if attempts[id] < 3 {
								done = false
							}
						}
						smu.Unlock()
						if done {
							break
						}
						time.Sleep(10 * time.Millisecond)
					}
					time.Sleep(100 * time.Millisecond)
					smu.Lock()
					script = [][]string{append([]string(nil), h.IDs...), append([]string(nil), h.IDs...)}
					smu.Unlock()
					for i := 0; i < 400; i++ {
						smu.Lock()
						n := len(script)
						smu.Unlock()
						if n == 0 {
							break
						}
						time.Sleep(10 * time.Millisecond)
					}
					time.Sleep(400 * time.Millisecond)
					count := map[string]int{}
					for _, sn := range backend.Seen() {
						count[sn.Tok]++
					}
					for _, id := range h.IDs {
						if c := count[id]; c > 1 {
							r.Violate("C04:forwarded-more-than-once:"+h.Shape, fmt.Sprintf("history %s: request %s reached the backend %d times (it was re-listed after all of its %s attempts had failed at connection level)", h.Name, id, c, strings.SplitN(h.Shape, "-", 2)[0]), h, map[string]interface{}{"fetches": px.Fetches(id)})
						}
					}
					r.Case(fmt.Sprintf("A|%s|n=%s", h.Shape, c04SizeClass(len(h.IDs))))
					r.Add("ids_listed_part_a", len(h.IDs))
					continue
				}
				if h.Shape == "relist-until-done" || h.Shape == "list-faults-while-relisting" {
					px.Relist = true
					if h.Shape == "list-faults-while-relisting" {
						dmu.Lock()
						for _, id := range h.IDs {
							slowTok[id] = true
						}
						dmu.Unlock()
						atomic.StoreInt64(&listFaults, 6)
					}
					for _, id := range h.IDs {
						px.Enqueue(id, tokRequest("POST", id, 20, 0, "c04.example", tokBytes(id, "req", 64), nil), "")
					}
				} else {
					smu.Lock()
					waitFor = nil
					script = append([][]string(nil), h.Replies...)
					smu.Unlock()
				}
				// wait for completion of every ID
				missing := 0
				deadline := 30 * time.Second
				if len(h.IDs) > 500 {
					deadline = 90 * time.Second
				}
				start := time.Now()
				for _, id := range h.IDs {
					rem := deadline - time.Since(start)
					if rem < time.Second {
						rem = time.Second
					}
					if missing > 0 {
						rem = 300 * time.Millisecond // something is lost already: do not sit out the bound for every further ID
					}
					if _, ok := px.Wait(id, rem); !ok {
						missing++
						if missing >= 20 {
							break // refuted: the oracle below reports what is missing without waiting for each ID in turn
						}
					}
				}
				// let the script run out (re-listings after completion) and settle
				for i := 0; i < 400; i++ {
					smu.Lock()
					n := len(script)
					smu.Unlock()
					if n == 0 {
						break
					}
					time.Sleep(10 * time.Millisecond)
				}
				if h.Shape == "relist-until-done" || h.Shape == "list-faults-while-relisting" {
					time.Sleep(150 * time.Millisecond)
					px.Relist = false
					atomic.StoreInt64(&listFaults, 0)
				}
				time.Sleep(120 * time.Millisecond)
				// oracle
				count := map[string]int{}
				for _, s := range backend.Seen() {
					count[s.Tok]++
				}
				bad := 0
				for _, id := range h.IDs {
					c := count[id]
					switch {
					case c > 1:
						bad++
						r.Violate("C04:forwarded-more-than-once:"+h.Shape, fmt.Sprintf("history %s: request %s reached the backend %d times", h.Name, id, c), h, map[string]interface{}{"fetches": px.Fetches(id), "uploads": len(px.Uploads(id))})
					case c == 0:
						bad++
						r.Violate("C04:never-forwarded:"+h.Shape, fmt.Sprintf("history %s: request %s was listed and served without error but never reached the backend (fetches=%d)", h.Name, id, px.Fetches(id)), h, nil)
					}
					if ups := px.Uploads(id); len(ups) > 1 {
						bad++
						r.Violate("C04:answered-more-than-once:"+h.Shape, fmt.Sprintf("history %s: %d responses uploaded for request %s", h.Name, len(ups), id), h, nil)
					}
				}
				_ = missing
				r.Case(fmt.Sprintf("A|%s|n=%s|slow=%d", h.Shape, c04SizeClass(len(h.IDs)), h.SlowPct))
				r.Add("ids_listed_part_a", len(h.IDs))
				if len(h.IDs) > 1 && len(h.IDs) < 30 {
					r.Sample(h)
				}
				mu.Lock()
				overlapSigs[fmt.Sprintf("%s/%d/%d", h.Shape, len(h.IDs), h.SlowPct)] = struct{}{}
				mu.Unlock()
			}
			judgeProcs(r, true, agent)
		}(lane)
	}
	wg.Wait()
	r.Set("history_shapes_executed", len(overlapSigs))
}

func c04SizeClass(n int) string {
	switch {
	case n <= 2:
		return "1-2"
	case n <= 20:
		return "3-20"
	case n <= 200:
		return "21-200"
	}
	return ">200"
}

// c04PartB: stand-alone proxy hand-off under concurrent pollers.
func c04PartB(r *core.Run, serverBin string) {
	// half: how many of the pollers half-close their connection (shut down the
	// write side) as soon as the poll request is sent, and still read the reply
	type cfg struct{ clients, pollers, perClient, half int }
	var cfgs []cfg
	for _, m := range []int{1, 2, 4, 8} {
		cfgs = append(cfgs, cfg{16, m, r.Pick(6, 20), 0})
	}
	cfgs = append(cfgs, cfg{64, 4, r.Pick(4, 10), 0}, cfg{64, 8, r.Pick(4, 10), 0})
	// more than 100 requests queued before the first poll arrives (pollers start late)
	cfgs = append(cfgs, cfg{170, 1, 1, 0}, cfg{230, 3, 1, 0})
	cfgs = append(cfgs, cfg{16, 4, r.Pick(6, 20), 2}, cfg{150, 3, 1, 3})
	if !r.Quick() {
		for i := 0; i < 54; i++ {
			cfgs = append(cfgs, cfg{[]int{4, 16, 32, 64}[i%4], []int{1, 2, 3, 4, 8, 16}[i%6], 10, []int{0, 0, 1}[i%3]})
		}
		cfgs = append(cfgs, cfg{200, 4, 1, 4}, cfg{120, 2, 2, 1})
	}
	batchSigs := map[string]struct{}{}
	for ci, c := range cfgs {
		server, addr, err := startServer(r, serverBin, fmt.Sprintf("serverB%d", ci))
		if err != nil {
			r.Broken(err.Error())
			return
		}
		var mu sync.Mutex
		listed := map[string]int{}     // ID -> times listed
		idTok := map[string]string{}   // ID -> token found in the fetched request
		pollerOf := map[string][]int{} // ID -> pollers that received it
		var batches []string
		halfPolls, halfWithIDs := 0, 0
		stop := make(chan struct{})
		var pwg sync.WaitGroup
		hc := &http.Client{Timeout: 40 * time.Second, Transport: &http.Transport{MaxIdleConnsPerHost: 64}}
		for p := 0; p < c.pollers; p++ {
			pwg.Add(1)
			go func(p int) {
				defer pwg.Done()
				if c.clients > 100 {
					time.Sleep(400 * time.Millisecond) // let the whole burst queue up first
				}
				for {
					select {
					case <-stop:
						return
					default:
					}
					var b []byte
					if p < c.half {
						// raw poller: send the poll, shut down the write side, read the reply
						conn, err := net.DialTimeout("tcp", addr, 5*time.Second)
						if err != nil {
							time.Sleep(5 * time.Millisecond)
							continue
						}
						var w rawhttp.Builder
						w.Line("GET /agent/pending HTTP/1.1").Field("Host", addr).Field("X-Inverting-Proxy-Backend-ID", "bB").End()
						conn.Write(w.Bytes())
						conn.(*net.TCPConn).CloseWrite()
						conn.SetReadDeadline(time.Now().Add(40 * time.Second))
						m, err := rawhttp.ReadResponse(bufio.NewReader(conn), "GET")
						conn.Close()
						mu.Lock()
						halfPolls++
						mu.Unlock()
						if err != nil || m == nil {
							time.Sleep(2 * time.Millisecond)
							continue
						}
						b = m.Body
						time.Sleep(2 * time.Millisecond)
					} else {
						req, _ := http.NewRequest("GET", "http://"+addr+"/agent/pending", nil)
						req.Header.Set("X-Inverting-Proxy-Backend-ID", "bB")
						ctxDone := make(chan struct{})
						go func() {
							select {
							case <-stop:
								hc.CloseIdleConnections()
							case <-ctxDone:
							}
						}()
						resp, err := hc.Do(req)
						close(ctxDone)
						if err != nil {
							select {
							case <-stop:
								return
							default:
							}
							time.Sleep(5 * time.Millisecond)
							continue
						}
						b, _ = io.ReadAll(resp.Body)
						resp.Body.Close()
					}
					var ids []string
					json.Unmarshal(b, &ids)
					if p < c.half && len(ids) > 0 {
						mu.Lock()
						halfWithIDs++
						mu.Unlock()
					}
					mu.Lock()
					batches = append(batches, fmt.Sprintf("p%d:%d", p, len(ids)))
					for _, id := range ids {
						listed[id]++
						pollerOf[id] = append(pollerOf[id], p)
					}
					mu.Unlock()
					for _, id := range ids {
						go func(id string) {
							rq, _ := http.NewRequest("GET", "http://"+addr+"/agent/request", nil)
							rq.Header.Set("X-Inverting-Proxy-Backend-ID", "bB")
							rq.Header.Set("X-Inverting-Proxy-Request-ID", id)
							rs, err := hc.Do(rq)
							if err != nil {
								return
							}
							fb, _ := io.ReadAll(rs.Body)
							rs.Body.Close()
							if rs.StatusCode != 200 {
								// the proxy listed this ID itself a moment ago: it must be able to serve the request
								r.Violate("C04:listed-id-not-fetchable", fmt.Sprintf("%d clients / %d pollers: the proxy listed request ID %s but answered the fetch for it with %d", c.clients, c.pollers, id, rs.StatusCode), nil, nil)
							}
							m, _ := rawhttp.ReadRequest(bufio.NewReader(bytes.NewReader(fb)))
							tok := ""
							if m != nil {
								if v := m.Get("X-Tok"); len(v) > 0 {
									tok = v[0]
								}
							}
							mu.Lock()
							idTok[id] = tok
							mu.Unlock()
							body := "resp-for-" + tok
							var w rawhttp.Builder
							w.Line("HTTP/1.1 200 OK").Field("X-Tok", tok).Field("Content-Length", fmt.Sprint(len(body))).End()
							w.WriteString(body)
							pq, _ := http.NewRequest("POST", "http://"+addr+"/agent/response", bytes.NewReader(w.Bytes()))
							pq.Header.Set("X-Inverting-Proxy-Backend-ID", "bB")
							pq.Header.Set("X-Inverting-Proxy-Request-ID", id)
							if ps, err := hc.Do(pq); err == nil {
								io.Copy(io.Discard, ps.Body)
								ps.Body.Close()
							}
						}(id)
					}
				}
			}(p)
		}
		// clients
		var cwg sync.WaitGroup
		okTok := map[string]bool{}
		for k := 0; k < c.clients; k++ {
			cwg.Add(1)
			go func(k int) {
				defer cwg.Done()
				cl := rawhttp.NewClient(addr, 30*time.Second)
				defer cl.Close()
				for i := 0; i < c.perClient; i++ {
					tok := fmt.Sprintf("s%dB%dk%di%d", r.Seed, ci, k, i)
					var w rawhttp.Builder
					w.Line("GET /b/"+tok+" HTTP/1.1").Field("Host", "c04b.example").Field("X-Tok", tok).End()
					m, err := cl.Do(w.Bytes(), "GET")
					mu.Lock()
					if err == nil && m.Status == 200 && string(m.Body) == "resp-for-"+tok {
						okTok[tok] = true
					} else if err == nil {
						r.Violate("C04:client-got-wrong-response", fmt.Sprintf("client %s got status %d body %q", tok, m.Status, core.Trunc(string(m.Body), 60)), nil, nil)
					}
					mu.Unlock()
				}
			}(k)
		}
		cwg.Wait()
		close(stop)
		hc.CloseIdleConnections()
		server.Kill()
		pwg.Wait()
		// oracle
		mu.Lock()
		issued := map[string]bool{}
		for _, m := range newIDRe.FindAllStringSubmatch(server.Log(), -1) {
			issued[m[1]] = true
		}
		perTok := map[string][]string{}
		for id, n := range listed {
			if n != 1 {
				r.Violate("C04:id-handed-out-more-than-once", fmt.Sprintf("%d clients / %d pollers: request ID %s appeared in %d pending-list replies (pollers %v)", c.clients, c.pollers, id, n, pollerOf[id]), nil, nil)
			}
			if !issued[id] {
				r.Violate("C04:unknown-id-listed", fmt.Sprintf("request ID %s was listed but never issued", id), nil, nil)
			}
			perTok[idTok[id]] = append(perTok[idTok[id]], id)
		}
		total := c.clients * c.perClient
		for k := 0; k < c.clients; k++ {
			for i := 0; i < c.perClient; i++ {
				tok := fmt.Sprintf("s%dB%dk%di%d", r.Seed, ci, k, i)
				if n := len(perTok[tok]); n != 1 {
					if n == 0 && !okTok[tok] {
						// the client stayed connected for its whole 30 s wait while pollers kept polling
						r.Violate("C04:client-request-never-listed", fmt.Sprintf("%d clients / %d pollers: client request %s was waiting but its ID never appeared in any pending-list reply", c.clients, c.pollers, tok), nil, nil)
						continue
					}
					r.Violate("C04:client-request-listed-not-exactly-once", fmt.Sprintf("client request %s corresponds to %d listed IDs %v", tok, n, perTok[tok]), nil, nil)
				}
			}
		}
		sort.Strings(batches)
		multi := 0
		for _, b := range batches {
			if !strings.HasSuffix(b, ":1") && !strings.HasSuffix(b, ":0") {
				multi++
			}
		}
		batchSigs[strings.Join(batches, ",")] = struct{}{}
		mu.Unlock()
		r.Cases(fmt.Sprintf("B|clients=%d|pollers=%d|half-closing=%d", c.clients, c.pollers, c.half), 1)
		r.Add("half_closed_polls_part_b", halfPolls)
		r.Add("half_closed_polls_that_received_ids_part_b", halfWithIDs)
		r.Add("ids_handed_out_part_b", len(listed))
		r.Add("client_requests_part_b", total)
		r.Add("multi_id_batches_part_b", multi)
		if ci == 0 {
			r.Sample(map[string]interface{}{"part": "B", "clients": c.clients, "pollers": c.pollers, "ids": len(listed), "first_batches": batches[:min(8, len(batches))]})
		}
		judgeProcs(r, false, server)
	}
	r.Set("poller_batch_signatures", len(batchSigs))
}

// c04PartC: a re-listing proxy (it reports every unanswered ID on every poll,
// as the App Engine proxy does) while the agent shuts down gracefully with
// requests in flight: whatever the agent does with its last list replies, no
// request may reach the backend twice.
func c04PartC(r *core.Run, agentBin string, md *fakes.Metadata) {
	type sc struct {
		sig    syscall.Signal
		name   string
		n      int
		delay  int
		graceS int
	}
	scs := []sc{{syscall.SIGTERM, "TERM", 3, 1500, 3}, {syscall.SIGINT, "INT", 6, 900, 2}}
	if !r.Quick() {
		scs = append(scs, sc{syscall.SIGTERM, "TERM", 12, 2500, 2}, sc{syscall.SIGINT, "INT", 1, 1500, 4}, sc{syscall.SIGTERM, "TERM", 20, 600, 3})
	}
	var wg sync.WaitGroup
	for si, c := range scs {
		wg.Add(1)
		go func(si int, c sc) {
			defer wg.Done()
			backend, err := newTokBackend()
			if err != nil {
				r.Broken(err.Error())
				return
			}
			defer backend.Srv.Close()
			px, err := fakes.NewProxy()
			if err != nil {
				r.Broken(err.Error())
				return
			}
			defer px.Close()
			px.Relist = true
			px.ListWait = 50 * time.Millisecond
			agent, err := startAgent(r, agentBin, fmt.Sprintf("agentC%d", si), md, px.URL(), backend.Srv.Addr(), fmt.Sprintf("bC%d", si), fmt.Sprintf("--graceful-shutdown-timeout=%ds", c.graceS))
			if err != nil {
				r.Broken(err.Error())
				return
			}
			defer agent.Kill()
			var toks []string
			for i := 0; i < c.n; i++ {
				tok := fmt.Sprintf("s%dC%di%d", r.Seed, si, i)
				toks = append(toks, tok)
				px.Enqueue(tok, tokRequest("GET", tok, 50, c.delay, "c04c.example", nil, nil), "")
			}
			// wait until every request is at the backend, then signal
			deadline := time.Now().Add(20 * time.Second)
			for time.Now().Before(deadline) {
				seen := map[string]bool{}
				for _, sn := range backend.Seen() {
					seen[sn.Tok] = true
				}
				if len(seen) >= c.n {
					break
				}
				time.Sleep(5 * time.Millisecond)
			}
			agent.Signal(c.sig)
			select {
			case <-agent.Done():
			case <-time.After(time.Duration(c.graceS)*time.Second + 15*time.Second):
			}
			count := map[string]int{}
			for _, sn := range backend.Seen() {
				count[sn.Tok]++
			}
			r.Cases(fmt.Sprintf("C|relisting-proxy|graceful-shutdown|SIG%s|in-flight=%d", c.name, c.n), 1)
			reached := 0
			for _, tok := range toks {
				if count[tok] >= 1 {
					reached++
				}
				if count[tok] > 1 {
					r.Violate("C04:forwarded-more-than-once:relisted-during-graceful-shutdown", fmt.Sprintf("SIG%s with %d requests in flight and a re-listing proxy: request %s reached the backend %d times", c.name, c.n, tok, count[tok]), nil, nil)
				}
			}
			if reached < c.n {
				r.Inconclusive(fmt.Sprintf("part C scenario %d: only %d of %d requests were at the backend when the signal was sent", si, reached, c.n))
			}
			r.Add("requests_in_flight_at_shutdown_part_c", reached)
			for _, ex := range core.CrashMarkers(agent.LogPath) {
				r.Violate(core.CrashSignature(ex), "agent crashed: "+ex, nil, nil)
			}
		}(si, c)
	}
	wg.Wait()
}

// c04PartD: pollers that have been waiting for a long time.  Two pollers hold
// their long polls against the stand-alone proxy through a quiet period; client
// requests arriving 22-27 s into those polls (and later, after the polls have
// been renewed) must each be handed to exactly one pending-list response.
func c04PartD(r *core.Run, serverBin string) {
	server, addr, err := startServer(r, serverBin, "serverD")
	if err != nil {
		r.Broken(err.Error())
		return
	}
	defer server.Kill()
	var mu sync.Mutex
	listed := map[string]int{}
	idTok := map[string]string{}
	stop := make(chan struct{})
	hc := &http.Client{Timeout: 45 * time.Second, Transport: &http.Transport{MaxIdleConnsPerHost: 8}}
	var pwg sync.WaitGroup
	polls := 0
	for p := 0; p < 2; p++ {
		pwg.Add(1)
		go func(p int) {
			defer pwg.Done()
			for {
				select {
				case <-stop:
					return
				default:
				}
				req, _ := http.NewRequest("GET", "http://"+addr+"/agent/pending", nil)
				req.Header.Set("X-Inverting-Proxy-Backend-ID", "bD")
				resp, err := hc.Do(req)
				if err != nil {
					select {
					case <-stop:
						return
					default:
					}
					time.Sleep(20 * time.Millisecond)
					continue
				}
				b, _ := io.ReadAll(resp.Body)
				resp.Body.Close()
				var ids []string
				json.Unmarshal(b, &ids)
				mu.Lock()
				polls++
				for _, id := range ids {
					listed[id]++
				}
				mu.Unlock()
				for _, id := range ids {
					go func(id string) {
						rq, _ := http.NewRequest("GET", "http://"+addr+"/agent/request", nil)
						rq.Header.Set("X-Inverting-Proxy-Backend-ID", "bD")
						rq.Header.Set("X-Inverting-Proxy-Request-ID", id)
						rs, err := hc.Do(rq)
						if err != nil {
							return
						}
						fb, _ := io.ReadAll(rs.Body)
						rs.Body.Close()
						m, _ := rawhttp.ReadRequest(bufio.NewReader(bytes.NewReader(fb)))
						tok := ""
						if m != nil {
							if v := m.Get("X-Tok"); len(v) > 0 {
								tok = v[0]
							}
						}
						mu.Lock()
						idTok[id] = tok
						mu.Unlock()
						body := "resp-for-" + tok
						var w rawhttp.Builder
						w.Line("HTTP/1.1 200 OK").Field("X-Tok", tok).Field("Content-Length", fmt.Sprint(len(body))).End()
						w.WriteString(body)
						pq, _ := http.NewRequest("POST", "http://"+addr+"/agent/response", bytes.NewReader(w.Bytes()))
						pq.Header.Set("X-Inverting-Proxy-Backend-ID", "bD")
						pq.Header.Set("X-Inverting-Proxy-Request-ID", id)
						if ps, err := hc.Do(pq); err == nil {
							io.Copy(io.Discard, ps.Body)
							ps.Body.Close()
						}
					}(id)
				}
			}
		}(p)
	}
	// client requests at the given times after the pollers started
	at := []float64{0.5, 22, 24, 26, 27.5}
	if !r.Quick() {
		at = append(at, 33, 52, 55, 58)
	}
	var cwg sync.WaitGroup
	ok := map[string]bool{}
	t0 := time.Now()
	for k, sec := range at {
		cwg.Add(1)
		go func(k int, sec float64) {
			defer cwg.Done()
			time.Sleep(time.Until(t0.Add(time.Duration(sec * float64(time.Second)))))
			tok := fmt.Sprintf("s%dD%d", r.Seed, k)
			cl := rawhttp.NewClient(addr, 30*time.Second)
			defer cl.Close()
			var w rawhttp.Builder
			w.Line("GET /d/"+tok+" HTTP/1.1").Field("Host", "c04d.example").Field("X-Tok", tok).End()
			m, err := cl.Do(w.Bytes(), "GET")
			mu.Lock()
			ok[tok] = err == nil && m.Status == 200 && string(m.Body) == "resp-for-"+tok
			mu.Unlock()
		}(k, sec)
	}
	cwg.Wait()
	close(stop)
	hc.CloseIdleConnections()
	server.Kill()
	pwg.Wait()
	mu.Lock()
	defer mu.Unlock()
	perTok := map[string]int{}
	for id, n := range listed {
		if n != 1 {
			r.Violate("C04:id-handed-out-more-than-once:long-waiting-pollers", fmt.Sprintf("request ID %s appeared in %d pending-list replies", id, n), nil, nil)
		}
		perTok[idTok[id]]++
	}
	for k, sec := range at {
		tok := fmt.Sprintf("s%dD%d", r.Seed, k)
		r.Cases("D|long-waiting-pollers", 1)
		if perTok[tok] == 0 && !ok[tok] {
			r.Violate("C04:client-request-never-listed:long-waiting-pollers", fmt.Sprintf("a client request arriving %.1f s after two pollers began their long polls was waiting for 30 s but its ID never appeared in any pending-list reply", sec), nil, nil)
		}
	}
	r.Add("long_polls_completed_part_d", polls)
	judgeProcs(r, false, server)
}
