package props

import "verif/internal/core"

// C04 — stub, replaced by the real check.
func C04(r *core.Run) {
	r.Broken("check not implemented yet")
	r.Finish(1)
}
