package props

// Orchestrator-side helpers shared by the websocket-shim checks C11, C12, C13.

import (
	"bufio"
	"bytes"
	"encoding/json"
	"fmt"
	"os/exec"
	"strings"
	"sync"
	"time"

	"verif/internal/core"
)

// shimGodebug returns the GODEBUG defaults the real agent binary is built
// with (they follow the `go` line of the repository's go.mod, e.g. the
// pre-1.22 ServeMux), so that the in-process worker — whose main module is
// the harness — runs the same library behaviour as the agent.
func shimGodebug(r *core.Run) string {
	cmd := exec.Command("go", "list", "-f", "{{.DefaultGODEBUG}}", "./agent")
	cmd.Dir = core.RepoDir
	cmd.Env = core.GoEnv()
	out, err := cmd.Output()
	if err != nil {
		r.Broken(fmt.Sprintf("cannot determine the agent's default GODEBUG: %v", err))
		return ""
	}
	return strings.TrimSpace(string(out))
}

type shimCrash struct {
	Excerpt string
	Last    []string // cases running when the worker died
}

// shimRun distributes cases over worker processes. Every shard gets the
// spec {extra..., "cases": part}. It returns the JSONL result lines and the
// crashes found in worker logs. A worker failure without a crash marker is
// a broken check.
func shimRun(r *core.Run, bin, mode string, cases []interface{}, shards int, extra map[string]interface{}, timeout time.Duration, env ...string) (lines [][]byte, crashes []shimCrash) {
	if shards < 1 {
		shards = 1
	}
	if len(cases) < 2*shards {
		shards = (len(cases) + 1) / 2
		if shards < 1 {
			shards = 1
		}
	}
	var mu sync.Mutex
	var wg sync.WaitGroup
	for s := 0; s < shards; s++ {
		var part []interface{}
		for i := s; i < len(cases); i += shards {
			part = append(part, cases[i])
		}
		if len(part) == 0 {
			continue
		}
		wg.Add(1)
		go func(part []interface{}) {
			defer wg.Done()
			m := map[string]interface{}{"cases": part}
			for k, v := range extra {
				m[k] = v
			}
			spec, _ := json.Marshal(m)
			stdout, logPath, err := r.RunWorker(bin, mode, spec, timeout, env...)
			sc := bufio.NewScanner(bytes.NewReader(stdout))
			sc.Buffer(make([]byte, 1<<20), 1<<27)
			var ls [][]byte
			for sc.Scan() {
				ls = append(ls, append([]byte(nil), sc.Bytes()...))
			}
			mu.Lock()
			defer mu.Unlock()
			lines = append(lines, ls...)
			if err != nil {
				marks := core.CrashMarkers(logPath)
				for _, ex := range marks {
					crashes = append(crashes, shimCrash{Excerpt: ex, Last: core.LastStarted(logPath, 6)})
				}
				if len(marks) == 0 {
					r.Broken(fmt.Sprintf("%s worker failed: %v (last started: %v)", mode, err, core.LastStarted(logPath, 4)))
				}
			}
		}(part)
	}
	wg.Wait()
	return lines, crashes
}

// shimJudgeCrashes turns worker crashes (a panic on a goroutine the harness
// does not own, a runtime fatal error) into violations: in the agent they
// terminate the process.
func shimJudgeCrashes(r *core.Run, crashes []shimCrash) {
	for _, c := range crashes {
		r.Violate(core.CrashSignature(c.Excerpt), fmt.Sprintf("the worker process died (in the agent: the agent terminates) while running cases %v: %s", c.Last, core.Trunc(c.Excerpt, 1500)), map[string]interface{}{"running": c.Last}, nil)
	}
	r.Add("worker_crashes", len(crashes))
}

// shimSplit splits "signature|message".
func shimSplit(v string) (sig, msg string) {
	p := strings.SplitN(v, "|", 2)
	if len(p) == 1 {
		return p[0], p[0]
	}
	return p[0], p[1]
}

// shimAddHits accumulates hook hit counters reported by a worker.
func shimAddHits(total map[string]int64, line []byte) bool {
	var h struct {
		ID   string           `json:"id"`
		Hits map[string]int64 `json:"hits"`
	}
	if json.Unmarshal(line, &h) != nil || h.ID != "_hits" {
		return false
	}
	for k, v := range h.Hits {
		if strings.HasPrefix(k, "shim.") || strings.HasPrefix(k, "conn.") {
			total[k] += v
		}
	}
	return true
}
