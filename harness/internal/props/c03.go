package props

import (
	"bufio"
	"fmt"
	"math/rand"
	"net"
	"net/http"
	"path/filepath"
	"sort"
	"strconv"
	"strings"
	"sync"
	"sync/atomic"
	"time"

	"golang.org/x/net/http2"
	"golang.org/x/net/http2/h2c"

	"verif/internal/core"
	"verif/internal/fakes"
	"verif/internal/rawhttp"
)

// respScript is one scripted backend response.
type respScript struct {
	Tok       string
	Method    string // request method the client uses
	Status    int
	Fields    []rawhttp.Field // end-to-end fields as sent
	Hop       []rawhttp.Field // planted hop-by-hop fields
	Framing   string          // "cl", "chunked", "close"
	BodyLen   int
	Chunks    []int
	Declared  []rawhttp.Field // trailers announced in Trailer:
	Undecl    []rawhttp.Field // trailers not announced
	Interim   []int           // 1xx codes sent first
	DelayHdr  int             // ms before the header block
	DelayBody int             // ms between header block and first body byte
	DelayRest int             // ms before the rest of the body
	DelayTrl  int             // ms before the trailer section
	OneByte   bool            // first body write is a single byte
	SameName  string          // non-empty: this declared trailer name is also used as a header field name
	Class     string
	body      []byte
}

var c03Names = []string{"Proxy-Status", "Upgrade-Insecure-Requests", "Connection-Id", "Keep-Alive-Hint", "Trailer-Info", "Te-Extension", "Transfer-Encoding-Hint", "Proxy-Features",
	"Content-Type", "Set-Cookie", "Vary", "Link", "Warning", "X-Custom", "ETag", "Cache-Control", "Location", "X-a_B.c", "Server", "Date", "Content-Language", "Accept-Ranges", "WWW-Authenticate", "X-Frame-Options", "Last-Modified"}
var c03TrailerNames = []string{"Proxy-Trace", "X-Checksum", "Server-Timing", "X-Trailer-A", "X-Trailer-B", "Digest", "X-Long-Trailer-Name-For-Good-Measure", "Grpc-Status", "X-T",
	// names across the alphabet, in particular ones that begin with the letters of "Trailer:" itself
	"Trace-Id", "Traceparent", "Timing-Allow", "Total-Count", "Tier", "Tail", "Retry-Stats", "Age-At-End", "Etag-Final", "Link-Next", "Irrelevant", "Lease", "e-tag-lower"}
var c03BodySizes = []int{0, 1, 2, 100, 4095, 4096, 4097, 32767, 32768, 32769, 100000}

func genResp(rng *rand.Rand, tok string, status int, big bool) *respScript {
	s := &respScript{Tok: tok, Status: status, Method: []string{"GET", "GET", "GET", "POST", "HEAD"}[rng.Intn(5)]}
	used := map[string]bool{}
	nf := 1 + rng.Intn(8)
	rep := false
	for i := 0; i < nf; i++ {
		name := c03Names[rng.Intn(len(c03Names))]
		if used[name] {
			continue
		}
		used[name] = true
		reps := 1
		if name == "Set-Cookie" {
			reps = 1 + rng.Intn(5)
		} else if rng.Intn(4) == 0 && name != "Content-Type" && name != "Date" && name != "Location" && name != "ETag" && name != "Last-Modified" {
			reps = 2 + rng.Intn(2)
		}
		if reps > 1 {
			rep = true
		}
		for k := 0; k < reps; k++ {
			var v string
			switch name {
			case "Set-Cookie":
				v = fmt.Sprintf("c%d=%s-%d; Path=/p%d; HttpOnly", k, tok, k, k)
			case "Content-Type":
				v = []string{"text/plain; charset=utf-8", "application/json", "application/octet-stream", "text/html", "image/png", "application/x-" + tok}[rng.Intn(6)]
			case "Date":
				v = "Tue, 15 Nov 1994 08:12:31 GMT"
			case "Last-Modified":
				v = "Wed, 21 Oct 2015 07:28:00 GMT"
			case "Location":
				v = "http://other.example/" + tok + "?a=b"
			default:
				v = randValue(rng)
				if v == "" && rng.Intn(2) == 0 {
					v = tok
				}
			}
			wire := name
			if rng.Intn(3) == 0 {
				wire = mixCase(rng, name)
			}
			s.Fields = append(s.Fields, rawhttp.Field{Name: wire, Value: v})
		}
	}
	// now and then a header block far beyond the usual few hundred bytes (17, 40 or 120 cookies of about 1 KiB, or one 20 KiB value)
	hdrBig := ""
	if rng.Intn(40) == 0 {
		n := []int{17, 40, 120, 1}[rng.Intn(4)]
		hdrBig = fmt.Sprintf("|hdr:%dKiB", n)
		for k := 0; k < n; k++ {
			sz := 1000
			if n == 1 {
				sz, hdrBig = 20000, "|hdr:one-20KiB-value"
			}
			s.Fields = append(s.Fields, rawhttp.Field{Name: "Set-Cookie", Value: fmt.Sprintf("big%d=%s; Path=/", k, strings.Repeat("abcdefghij", sz/10)+tok)})
		}
	}
	s.Fields = append(s.Fields, rawhttp.Field{Name: "X-Tok", Value: tok})
	noBody := s.Method == "HEAD" || status == 204 || status == 304
	// hop-by-hop fields with tokens
	hopShape := 0
	for i, h := range []string{"Keep-Alive", "Proxy-Authenticate", "Proxy-Authorization", "Te", "Upgrade", "Connection"} {
		if rng.Intn(3) != 0 {
			continue
		}
		v := "hop" + strconv.Itoa(i) + "-" + tok
		if h == "Connection" {
			v = "X-Nominated-" + tok
		}
		hopShape |= 1 << i
		s.Hop = append(s.Hop, rawhttp.Field{Name: h, Value: v})
		if h == "Connection" && rng.Intn(2) == 0 {
			// the field that the backend nominates as hop-by-hop is really sent
			hopShape |= 1 << 6
			s.Hop = append(s.Hop, rawhttp.Field{Name: "x-nominated-" + strings.ToLower(tok), Value: "nominated-" + tok})
		}
	}
	// framing and body
	s.Framing = []string{"cl", "chunked", "chunked", "close"}[rng.Intn(4)]
	if !noBody {
		s.BodyLen = c03BodySizes[rng.Intn(len(c03BodySizes))]
		if rng.Intn(4) == 0 {
			s.BodyLen = rng.Intn(70000)
		}
		if big {
			s.BodyLen = []int{1 << 20, 1<<20 + 1, 4<<20 + 3, 16 << 20}[rng.Intn(4)]
		}
	} else {
		s.Framing = []string{"cl", "none"}[rng.Intn(2)]
		if s.Method == "HEAD" && rng.Intn(2) == 0 {
			s.BodyLen = c03BodySizes[rng.Intn(len(c03BodySizes))] // advertised by Content-Length only
		}
		if s.Method != "HEAD" && status == 304 && rng.Intn(3) != 0 {
			// a 304 may state the length of the representation it did not send (RFC 9110, 15.4.5)
			s.Framing, s.BodyLen = "cl", 1+c03BodySizes[rng.Intn(len(c03BodySizes))]
		}
	}
	s.body = tokBytes(tok, "c03", s.BodyLen)
	if s.Framing == "chunked" {
		rest := s.BodyLen
		first := true
		for rest > 0 {
			n := 1 + rng.Intn(40000)
			if first && rng.Intn(3) == 0 {
				n = 1
			}
			first = false
			if n > rest {
				n = rest
			}
			s.Chunks = append(s.Chunks, n)
			rest -= n
		}
		nd := []int{0, 0, 1, 2, 3, 5}[rng.Intn(6)]
		nu := []int{0, 0, 0, 1, 3}[rng.Intn(5)]
		names := rng.Perm(len(c03TrailerNames))
		for i := 0; i < nd; i++ {
			s.Declared = append(s.Declared, rawhttp.Field{Name: c03TrailerNames[names[i]], Value: fmt.Sprintf("d%d-%s", i, tok)})
			if rng.Intn(5) == 0 {
				s.Declared = append(s.Declared, rawhttp.Field{Name: c03TrailerNames[names[i]], Value: fmt.Sprintf("d%d-%s-second", i, tok)})
			}
		}
		for i := 0; i < nu; i++ {
			s.Undecl = append(s.Undecl, rawhttp.Field{Name: c03TrailerNames[names[nd+i]], Value: fmt.Sprintf("u%d-%s", i, tok)})
		}
		if nd > 0 && rng.Intn(25) == 0 {
			// legal but unusual: a field name used both in the header block and as a (declared) trailer
			for _, f := range s.Fields {
				switch strings.ToLower(f.Name) {
				case "x-custom", "proxy-status", "link", "warning", "x-a_b.c":
					s.SameName = f.Name
				}
			}
			if s.SameName != "" {
				old := s.Declared[0].Name
				for i := range s.Declared {
					if s.Declared[i].Name == old {
						s.Declared[i].Name = s.SameName
					}
				}
			}
		}
	}
	switch rng.Intn(6) {
	case 0:
		s.Interim = []int{103}
	case 1:
		s.Interim = []int{[]int{100, 102, 103}[rng.Intn(3)], 103}[:1+rng.Intn(2)]
	}
	d := []int{0, 0, 1, 20}
	s.DelayHdr, s.DelayBody, s.DelayRest, s.DelayTrl = d[rng.Intn(4)], d[rng.Intn(4)], d[rng.Intn(4)], d[rng.Intn(4)]
	s.OneByte = rng.Intn(3) == 0
	tr := fmt.Sprintf("d%du%d", len(s.Declared), len(s.Undecl))
	s.Class = fmt.Sprintf("%s|%dxx|%s|body:%s|tr:%s|1xx:%d|rep:%v|hop:%x|1b:%v", s.Method, status/100, s.Framing, sizeClass(s.BodyLen), tr, len(s.Interim), rep, hopShape, s.OneByte && s.BodyLen > 0) + hdrBig
	return s
}

func ms(n int) {
	if n > 0 {
		time.Sleep(time.Duration(n) * time.Millisecond)
	}
}

// serve writes the scripted response on conn; returns whether the
// connection can be kept.
func (s *respScript) serve(conn net.Conn, method string) bool {
	for i, code := range s.Interim {
		var w rawhttp.Builder
		w.Line(fmt.Sprintf("HTTP/1.1 %d Interim", code))
		if code == 103 {
			w.Field("Link", fmt.Sprintf("</early-%d-%s>; rel=preload", i, s.Tok))
		}
		w.End()
		conn.Write(w.Bytes())
		ms(1)
	}
	ms(s.DelayHdr)
	noBody := method == "HEAD" || s.Status == 204 || s.Status == 304
	var w rawhttp.Builder
	w.Line(fmt.Sprintf("HTTP/1.1 %d Scripted", s.Status))
	for i, h := range s.Hop {
		if i%2 == 0 && h.Name != "Connection" {
			w.Field(h.Name, h.Value)
		}
	}
	w.Fields(s.Fields)
	for i, h := range s.Hop {
		if i%2 == 1 && h.Name != "Connection" {
			w.Field(h.Name, h.Value)
		}
	}
	conn_close := false
	connVals := []string{}
	for _, h := range s.Hop {
		if h.Name == "Connection" {
			connVals = append(connVals, h.Value)
		}
	}
	switch s.Framing {
	case "cl":
		w.Field("Content-Length", strconv.Itoa(s.BodyLen))
	case "chunked":
		if len(s.Declared) > 0 {
			seen := map[string]bool{}
			var names []string
			for _, t := range s.Declared {
				if !seen[t.Name] {
					seen[t.Name] = true
					names = append(names, t.Name)
				}
			}
			w.Field("Trailer", strings.Join(names, ", "))
		}
		w.Field("Transfer-Encoding", "chunked")
	case "close":
		conn_close = true
		connVals = append(connVals, "close")
	}
	if len(connVals) > 0 {
		w.Field("Connection", strings.Join(connVals, ", "))
	}
	w.End()
	if _, err := conn.Write(w.Bytes()); err != nil {
		return false
	}
	if noBody {
		return !conn_close
	}
	ms(s.DelayBody)
	switch s.Framing {
	case "cl", "close":
		b := s.body
		if s.OneByte && len(b) > 1 {
			conn.Write(b[:1])
			b = b[1:]
			ms(s.DelayRest)
		}
		conn.Write(b)
	case "chunked":
		off := 0
		for i, n := range s.Chunks {
			var c rawhttp.Builder
			c.Chunk(s.body[off : off+n])
			off += n
			conn.Write(c.Bytes())
			if i == 0 {
				ms(s.DelayRest)
			}
		}
		ms(s.DelayTrl)
		var c rawhttp.Builder
		all := append(append([]rawhttp.Field{}, s.Declared...), s.Undecl...)
		c.LastChunk(all)
		conn.Write(c.Bytes())
	}
	return !conn_close
}

func fieldMap(fs []rawhttp.Field) map[string][]string {
	m := map[string][]string{}
	for _, f := range fs {
		k := strings.ToLower(f.Name)
		m[k] = append(m[k], strings.Trim(f.Value, " \t"))
	}
	return m
}

func isEntityHeader(n string) bool {
	n = strings.ToLower(n)
	return strings.HasPrefix(n, "content-") || n == "last-modified" || n == "etag" || n == "accept-ranges"
}

// compareResponse is the response fidelity oracle. Returns (kind, details).
func compareResponse(s *respScript, got *rawhttp.Message) (string, []string) {
	var bad []string
	kind := ""
	add := func(k, msg string) {
		if kind == "" {
			kind = k
		}
		bad = append(bad, msg)
	}
	if got.Status != s.Status {
		k := "status-altered"
		if len(s.Interim) > 0 {
			k = "interim-1xx:final-status-lost"
		}
		add(k, fmt.Sprintf("status %d want %d", got.Status, s.Status))
	}
	noBody := s.Method == "HEAD" || s.Status == 204 || s.Status == 304
	want := fieldMap(s.Fields)
	gotm := fieldMap(got.Fields)
	var names []string
	for k := range want {
		names = append(names, k)
	}
	sort.Strings(names)
	for _, n := range names {
		if noBody && isEntityHeader(n) {
			if g, ok := gotm[n]; ok && strings.Join(g, "\x00") != strings.Join(want[n], "\x00") {
				add("header-altered", fmt.Sprintf("entity field %q present but altered: got %q want %q", n, trunc(g), trunc(want[n])))
			}
			continue
		}
		if strings.Join(gotm[n], "\x00") != strings.Join(want[n], "\x00") || len(gotm[n]) != len(want[n]) {
			k := "header-altered"
			if len(s.Interim) > 0 && got.Status != s.Status {
				k = "interim-1xx:final-status-lost"
			}
			add(k, fmt.Sprintf("field %q: got %q want %q", n, trunc(gotm[n]), trunc(want[n])))
		}
	}
	// hop-by-hop tokens absent
	// (known finding: a response framed by connection close carries "Connection: <name>, close"; net/http's
	// response parser deletes the whole Connection field when it holds "close", before the agent's reverse proxy
	// could act on the nomination, so the nominated field is forwarded; reported under its own signature and
	// only when nothing else is wrong with the response)
	var besideClose []string
	for _, h := range s.Hop {
		for _, f := range append(append([]rawhttp.Field{}, got.Fields...), got.Trailers...) {
			if strings.Contains(f.Value, h.Value) || strings.EqualFold(f.Name, h.Value) {
				msg := fmt.Sprintf("hop-by-hop %s: %s reached the client as %s: %s", h.Name, h.Value, f.Name, f.Value)
				if s.Framing == "close" && (h.Name == "Connection" || strings.HasPrefix(h.Name, "x-nominated-")) && strings.HasPrefix(strings.ToLower(f.Name), "x-nominated-") {
					besideClose = append(besideClose, msg)
					continue
				}
				add("hop-by-hop-forwarded", msg)
			}
		}
	}
	if noBody {
		if len(got.Body) != 0 {
			add("body-on-bodyless", fmt.Sprintf("%d body bytes on a %s/%d response", len(got.Body), s.Method, s.Status))
		}
		if kind == "" && len(besideClose) > 0 {
			kind = "hop-by-hop-forwarded:nominated-beside-close"
		}
		return kind, append(bad, besideClose...)
	}
	if len(got.Body) != s.BodyLen || rawhttp.SHA(got.Body) != rawhttp.SHA(s.body) {
		off := 0
		for off < len(got.Body) && off < len(s.body) && got.Body[off] == s.body[off] {
			off++
		}
		k := "body-altered"
		if len(s.Interim) > 0 && got.Status != s.Status {
			k = "interim-1xx:final-status-lost"
		}
		add(k, fmt.Sprintf("body len %d want %d, first difference at %d (%s)", len(got.Body), s.BodyLen, off, got.BodyErr))
	}
	// trailers
	wantT := fieldMap(append(append([]rawhttp.Field{}, s.Declared...), s.Undecl...))
	gotT := fieldMap(got.Trailers)
	var tn []string
	for k := range wantT {
		tn = append(tn, k)
	}
	sort.Strings(tn)
	for _, n := range tn {
		if strings.Join(gotT[n], "\x00") != strings.Join(wantT[n], "\x00") {
			k := "trailer-altered"
			nd := map[string]bool{}
			for _, d := range s.Declared {
				nd[d.Name] = true
			}
			if len(gotT[n]) == 0 {
				k = "trailer-dropped"
				if len(nd) >= 2 {
					k = "declared-trailers>=2:dropped"
				}
			}
			if len(s.Interim) > 0 && got.Status != s.Status {
				k = "interim-1xx:final-status-lost"
			}
			if s.SameName != "" && (kind == "" || kind == "trailer-altered:same-name-as-header") {
				// the header values of the shared name are repeated in the trailer section; when that makes the
				// section exceed net/http's 4 KiB trailer look-ahead the whole section is dropped: one finding
				k = "trailer-altered:same-name-as-header"
			}
			add(k, fmt.Sprintf("trailer %q: got %q want %q", n, gotT[n], wantT[n]))
		}
		if _, inHdr := want[n]; !inHdr {
			if v, ok := gotm[n]; ok {
				add("trailer-in-header-block", fmt.Sprintf("trailer %q appears in the header block as %q", n, v))
			}
		}
	}
	for n, v := range gotT {
		if _, ok := wantT[n]; !ok {
			add("trailer-added", fmt.Sprintf("client received trailer %q: %q the backend never sent", n, v))
		}
	}
	if kind == "" && len(besideClose) > 0 {
		kind = "hop-by-hop-forwarded:nominated-beside-close"
	}
	return kind, append(bad, besideClose...)
}

// C03 — the client receives the backend's response unaltered.
func C03(r *core.Run) {
	r.SetRule("scripted raw-TCP backend responses: every final status 200-599, repeated/unknown/mixed-case fields, hop-by-hop fields with unique tokens, CL/chunked/close framing, bodies at buffer boundaries, declared (0-5) and undeclared (0-3) trailers, 1xx interim responses, delays between header/first byte/rest/trailers; fetched by raw-TCP clients (GET/HEAD/POST) through real server+agent; class = (method, status class, framing, body-size class, trailer shape, #interim, repeated?, hop set, 1-byte first write)")
	r.Assume("relaying of interim 1xx responses is not judged; fields added under names the backend did not use are not judged; clients send Accept-Encoding: identity; default agent configuration (no sessions/banner/shim)")
	serverBin := r.MustBuild(r.BuildRepoBinary("./server", "server"))
	agentBin := r.MustBuild(r.BuildRepoBinary("./agent", "agent"))
	md, err := fakes.NewMetadata()
	if err != nil {
		r.Broken(err.Error())
		r.Finish(1)
	}
	defer md.Close()

	var mu sync.Mutex
	scripts := map[string]*respScript{}
	backend, err := rawhttp.NewServer(func(req *rawhttp.Message, reqErr error, conn net.Conn, br *bufio.Reader) bool {
		if reqErr != nil {
			return false
		}
		tok := ""
		if v := req.Get("X-Tok"); len(v) > 0 {
			tok = v[0]
		}
		mu.Lock()
		s := scripts[tok]
		mu.Unlock()
		if s == nil {
			var w rawhttp.Builder
			w.Line("HTTP/1.1 200 OK").Field("Content-Length", "2").End()
			w.WriteString("ok")
			conn.Write(w.Bytes())
			return true
		}
		return s.serve(conn, req.Method)
	})
	if err != nil {
		r.Broken(err.Error())
		r.Finish(1)
	}
	defer backend.Close()
	server, addr, err := startServer(r, serverBin, "server")
	if err != nil {
		r.Broken(err.Error())
		r.Finish(1)
	}
	defer server.Kill()
	agent, err := startAgent(r, agentBin, "agent", md, "http://"+addr+"/", backend.Addr(), "b1")
	if err != nil {
		r.Broken(err.Error())
		r.Finish(1)
	}
	defer agent.Kill()
	if err := waitReady(addr, agent, server); err != nil {
		r.Broken(err.Error())
		r.Finish(1)
	}

	rng := r.Rand("c03")
	perStatus := r.Pick(3, 60)
	nbig := r.Pick(4, 80)
	var list []*respScript
	for st := 200; st <= 599; st++ {
		for k := 0; k < perStatus; k++ {
			list = append(list, genResp(rng, fmt.Sprintf("s%dc%dk%d", r.Seed, st, k), st, false))
		}
	}
	for i := 0; i < nbig; i++ {
		list = append(list, genResp(rng, fmt.Sprintf("s%dbig%d", r.Seed, i), []int{200, 206, 404, 500}[i%4], true))
	}
	// downloads beyond any round limit an intermediary might put on message bodies (32 MiB + 1, thorough also 64 MiB + 7)
	for i, n := range []int{32<<20 + 1, 64<<20 + 7}[:r.Pick(1, 2)] {
		hs := genResp(rng, fmt.Sprintf("s%dhuge%d", r.Seed, i), 200, true)
		for k := 0; hs.Method == "HEAD"; k++ {
			hs = genResp(rng, fmt.Sprintf("s%dhuge%dx%d", r.Seed, i, k), 200, true)
		}
		hs.BodyLen = n
		hs.body = tokBytes(hs.Tok, "c03body", n)
		hs.Chunks = nil
		for rest := n; rest > 0; {
			k := 1 << 20
			if k > rest {
				k = rest
			}
			hs.Chunks = append(hs.Chunks, k)
			rest -= k
		}
		hs.Class += "|huge"
		list = append(list, hs)
	}
	rng.Shuffle(len(list), func(i, j int) { list[i], list[j] = list[j], list[i] })
	// two slow responses, issued first: one whose header block takes 17 s to come, one that pauses for 17 s in the middle of
	// its body (longer than any read deadline a hop might put on "a request", shorter than the agent's own 60 s time-out)
	for i := 0; i < 2; i++ {
		ss := genResp(rng, fmt.Sprintf("s%dslow%d", r.Seed, i), []int{200, 404}[i], false)
		for k := 0; ss.Method != "GET" || len(ss.Interim) > 0; k++ {
			ss = genResp(rng, fmt.Sprintf("s%dslow%dx%d", r.Seed, i, k), []int{200, 404}[i], false)
		}
		ss.Framing, ss.BodyLen, ss.Chunks, ss.OneByte = "chunked", 300, []int{100, 200}, false
		ss.body = tokBytes(ss.Tok, "c03", ss.BodyLen)
		ss.DelayHdr, ss.DelayBody, ss.DelayRest, ss.DelayTrl = 0, 0, 0, 0
		if i == 0 {
			ss.DelayHdr = 17000
			ss.Class += "|header-after-17s"
		} else {
			ss.DelayRest = 17000
			ss.Class += "|17s-pause-mid-body"
		}
		list = append([]*respScript{ss}, list...)
	}
	mu.Lock()
	for _, s := range list {
		scripts[s.Tok] = s
	}
	mu.Unlock()
	c03NonInjecting(r, agentBin, md)
	// second flavour: an h2c backend behind an agent started with --force-http2
	h2done := make(chan struct{})
	go func() {
		defer close(h2done)
		c03H2(r, md, serverBin, agentBin)
	}()
	type res struct {
		s   *respScript
		m   *rawhttp.Message
		err error
	}
	results := make(chan res, len(list))
	ch := make(chan *respScript)
	var wg sync.WaitGroup
	var failures int64
	for wkr := 0; wkr < 12; wkr++ {
		wg.Add(1)
		go func() {
			defer wg.Done()
			cl := rawhttp.NewClient(addr, 30*time.Second)
			defer cl.Close()
			for s := range ch {
				if atomic.LoadInt64(&failures) >= 24 {
					results <- res{s, nil, errSkipped}
					continue
				}
				var w rawhttp.Builder
				w.Line(s.Method+" /c03/"+s.Tok+" HTTP/1.1").Field("Host", "c03.example").Field("X-Tok", s.Tok).Field("Accept-Encoding", "identity")
				if s.Method == "POST" {
					w.Field("Content-Length", "3").End()
					w.WriteString("abc")
				} else {
					w.End()
				}
				m, err := cl.Do(w.Bytes(), s.Method)
				if m == nil {
					atomic.AddInt64(&failures, 1)
				}
				results <- res{s, m, err}
			}
		}()
	}
	for _, s := range list {
		ch <- s
	}
	close(ch)
	wg.Wait()
	close(results)
	statuses := map[int]bool{}
	added := map[string]int{}
	for rs := range results {
		s := rs.s
		if rs.err == errSkipped {
			continue
		}
		r.Case(s.Class)
		statuses[s.Status] = true
		if rs.m == nil {
			r.Violate("C03:no-response", fmt.Sprintf("client got no response for %s status %d: %v", s.Tok, s.Status, rs.err), s, nil)
			continue
		}
		kind, bad := compareResponse(s, rs.m)
		if rs.err != nil && kind == "" {
			kind, bad = "response-unparsable", []string{rs.err.Error()}
		}
		if kind != "" {
			r.Violate("C03:"+kind, fmt.Sprintf("status %d %s framing=%s body=%d declared=%d undeclared=%d interim=%v: %s", s.Status, s.Method, s.Framing, s.BodyLen, len(s.Declared), len(s.Undecl), s.Interim, strings.Join(bad, "; ")), s,
				map[string]interface{}{"client_status": rs.m.Status, "client_fields": rs.m.Fields, "client_trailers": rs.m.Trailers, "client_body_len": len(rs.m.Body)})
		}
		wantm := fieldMap(s.Fields)
		for _, f := range rs.m.Fields {
			if _, ok := wantm[strings.ToLower(f.Name)]; !ok {
				added[strings.ToLower(f.Name)]++
			}
		}
		if len(s.Declared) >= 2 || len(s.Interim) > 0 {
			r.Sample(map[string]interface{}{"script": s, "client_status": rs.m.Status, "client_trailers": rs.m.Trailers})
		}
	}
	<-h2done
	r.Set("final_statuses_covered", len(statuses))
	r.Set("fields_added_on_the_path", added)
	judgeProcs(r, true, server, agent)
	killAll(agent, server)
	r.JudgeRaces(core.ParseRaceLogs(filepath.Join(r.WorkDir, "race-")))
	r.Finish(r.Pick(400, 10000))
}

// c03H2 is the HTTP/2 flavour: handler-level scripts served by an h2c backend
// behind an agent started with --force-http2.
func c03H2(r *core.Run, md *fakes.Metadata, serverBin, agentBin string) {
	var mu sync.Mutex
	scripts := map[string]*respScript{}
	l, err := net.Listen("tcp", "127.0.0.1:0")
	if err != nil {
		r.Broken(err.Error())
		return
	}
	defer l.Close()
	handler := http.HandlerFunc(func(w http.ResponseWriter, req *http.Request) {
		mu.Lock()
		s := scripts[req.Header.Get("X-Tok")]
		mu.Unlock()
		if s == nil {
			w.Write([]byte("ok"))
			return
		}
		for i, code := range s.Interim {
			if code == 103 {
				w.Header().Set("Link", fmt.Sprintf("</early-%d-%s>; rel=preload", i, s.Tok))
				w.WriteHeader(103)
				w.Header().Del("Link")
			}
		}
		ms(s.DelayHdr)
		for _, f := range s.Fields {
			w.Header().Add(f.Name, f.Value)
		}
		seen := map[string]bool{}
		for _, t := range s.Declared {
			if !seen[t.Name] {
				seen[t.Name] = true
				w.Header().Add("Trailer", t.Name)
			}
		}
		w.WriteHeader(s.Status)
		if req.Method == "HEAD" || s.Status == 204 || s.Status == 304 {
			return
		}
		ms(s.DelayBody)
		b := s.body
		if s.OneByte && len(b) > 1 {
			w.Write(b[:1])
			if fl, ok := w.(http.Flusher); ok {
				fl.Flush()
			}
			b = b[1:]
			ms(s.DelayRest)
		}
		w.Write(b)
		ms(s.DelayTrl)
		for _, t := range s.Declared {
			w.Header().Add(t.Name, t.Value)
		}
		for _, t := range s.Undecl {
			w.Header().Add(http.TrailerPrefix+t.Name, t.Value)
		}
	})
	srv := &http.Server{Handler: h2c.NewHandler(handler, &http2.Server{})}
	go srv.Serve(l)
	defer srv.Close()
	server, addr, err := startServer(r, serverBin, "server-h2")
	if err != nil {
		r.Broken(err.Error())
		return
	}
	defer server.Kill()
	agent, err := startAgent(r, agentBin, "agent-h2", md, "http://"+addr+"/", l.Addr().String(), "bh2", "--force-http2=true")
	if err != nil {
		r.Broken(err.Error())
		return
	}
	defer agent.Kill()
	if err := waitReady(addr, agent, server); err != nil {
		r.Broken("h2 flavour: " + err.Error())
		return
	}
	rng := r.Rand("c03h2")
	n := r.Pick(150, 4000)
	var list []*respScript
	for i := 0; i < n; i++ {
		st := 200 + rng.Intn(400)
		s := genResp(rng, fmt.Sprintf("s%dh2n%d", r.Seed, i), st, false)
		if s.SameName != "" {
			// the h2c backend is scripted at handler level, where a declared trailer name that already has a
			// header value is not expressible unambiguously: this input class is exercised on the raw HTTP/1.1 backend only
			for i := range s.Declared {
				if s.Declared[i].Name == s.SameName {
					s.Declared[i].Name = "X-Renamed-Trailer"
				}
			}
			s.SameName = ""
		}
		s.Hop = nil      // hop-by-hop fields do not exist in HTTP/2
		s.Framing = "h2" // framing is not a dimension here
		if s.Method == "HEAD" {
			s.BodyLen, s.body = 0, nil
		}
		var in []int
		for _, c := range s.Interim {
			if c == 103 {
				in = append(in, c)
			}
		}
		s.Interim = in
		// canonical names: the h2 layer lower-cases field names anyway
		s.Class = "h2|" + s.Class
		list = append(list, s)
		scripts[s.Tok] = s
	}
	var wg sync.WaitGroup
	ch := make(chan *respScript)
	type res struct {
		s   *respScript
		m   *rawhttp.Message
		err error
	}
	results := make(chan res, len(list))
	for wkr := 0; wkr < 6; wkr++ {
		wg.Add(1)
		go func() {
			defer wg.Done()
			cl := rawhttp.NewClient(addr, 30*time.Second)
			defer cl.Close()
			for s := range ch {
				var w rawhttp.Builder
				w.Line(s.Method+" /c03h2/"+s.Tok+" HTTP/1.1").Field("Host", "c03.example").Field("X-Tok", s.Tok).Field("Accept-Encoding", "identity")
				if s.Method == "POST" {
					w.Field("Content-Length", "3").End()
					w.WriteString("abc")
				} else {
					w.End()
				}
				m, err := cl.Do(w.Bytes(), s.Method)
				results <- res{s, m, err}
			}
		}()
	}
	for _, s := range list {
		ch <- s
	}
	close(ch)
	wg.Wait()
	close(results)
	for rs := range results {
		s := rs.s
		r.Case(s.Class)
		if rs.m == nil {
			r.Violate("C03:h2:no-response", fmt.Sprintf("client got no response for %s status %d: %v", s.Tok, s.Status, rs.err), s, nil)
			continue
		}
		kind, bad := compareResponse(s, rs.m)
		if rs.err != nil && kind == "" {
			kind, bad = "response-unparsable", []string{rs.err.Error()}
		}
		if kind != "" {
			r.Violate("C03:h2:"+kind, fmt.Sprintf("h2c backend: status %d %s body=%d declared=%d undeclared=%d interim=%v: %s", s.Status, s.Method, s.BodyLen, len(s.Declared), len(s.Undecl), s.Interim, strings.Join(bad, "; ")), s,
				map[string]interface{}{"client_status": rs.m.Status, "client_fields": rs.m.Fields, "client_trailers": rs.m.Trailers, "client_body_len": len(rs.m.Body)})
		}
	}
	r.Add("h2_backend_responses", len(list))
	judgeProcs(r, true, server, agent)
}

// c03NonInjecting: agent configurations that touch the websocket shim's flags
// without enabling its script injection (and without banner or sessions):
// HTML documents, with <head> in every position, must come through unaltered.
func c03NonInjecting(r *core.Run, agentBin string, md *fakes.Metadata) {
	configs := [][]string{
		{"--shim-path=shim"},
		{"--shim-path=shim", "--enable-websockets-injection=true"},
		{"--shim-path=/shim/", "--rewrite-websocket-host=true", "--enable-websockets-injection=true"},
		{"--enable-websockets-injection=true"},
	}
	docs := []string{
		"<html><head><title>t</title></head><body>one</body></html>",
		"<!doctype html>\n<HTML><head>\n<meta charset=utf-8></head><body><head>two</head></body></html>",
		"<html>" + strings.Repeat(" ", 1500) + "<head></head><body>three</body></html>",
		"<p>no head at all</p>",
		"<html><head",
		"",
	}
	backend, err := rawhttp.NewServer(func(req *rawhttp.Message, reqErr error, conn net.Conn, br *bufio.Reader) bool {
		if reqErr != nil {
			return false
		}
		k := 0
		fmt.Sscanf(req.Target, "/doc/%d", &k)
		body := docs[k%len(docs)]
		var w rawhttp.Builder
		w.Line("HTTP/1.1 200 OK").Field("Content-Type", []string{"text/html; charset=utf-8", "text/html", "application/xhtml+xml"}[k%3])
		if k%2 == 0 {
			w.Field("Content-Length", strconv.Itoa(len(body))).End()
			w.WriteString(body)
		} else {
			w.Field("Transfer-Encoding", "chunked").End()
			if len(body) > 3 {
				w.Chunk([]byte(body[:3]))
				w.Chunk([]byte(body[3:]))
			} else if len(body) > 0 {
				w.Chunk([]byte(body))
			}
			w.LastChunk(nil)
		}
		_, err := conn.Write(w.Bytes())
		return err == nil
	})
	if err != nil {
		r.Broken(err.Error())
		return
	}
	defer backend.Close()
	var wg sync.WaitGroup
	for ci, cfg := range configs {
		wg.Add(1)
		go func(ci int, cfg []string) {
			defer wg.Done()
			px, err := fakes.NewProxy()
			if err != nil {
				r.Broken(err.Error())
				return
			}
			defer px.Close()
			px.ListWait = 30 * time.Millisecond
			agent, err := startAgent(r, agentBin, fmt.Sprintf("agent-noninj%d", ci), md, px.URL(), backend.Addr(), fmt.Sprintf("b3n%d", ci), cfg...)
			if err != nil {
				r.Broken(err.Error())
				return
			}
			defer agent.Kill()
			for k := 0; k < 2*len(docs); k++ {
				id := fmt.Sprintf("s%dnoninj%d-%d", r.Seed, ci, k)
				var w rawhttp.Builder
				w.Line(fmt.Sprintf("GET /doc/%d HTTP/1.1", k)).Field("Host", "c03.example").Field("Accept", "text/html").Field("Accept-Encoding", "identity").End()
				px.Enqueue(id, w.Bytes(), "")
				up, ok := px.Wait(id, 30*time.Second)
				r.Case(fmt.Sprintf("non-injecting-config=%d|doc=%d|cl=%v", ci, k%len(docs), k%2 == 0))
				if !ok || up.Resp == nil {
					r.Inconclusive(fmt.Sprintf("non-injecting configuration %v: no response for document %d", cfg, k))
					continue
				}
				if want := docs[k%len(docs)]; up.Resp.Status != 200 || string(up.Resp.Body) != want {
					r.Violate("C03:body-altered:html-without-injection-enabled", fmt.Sprintf("agent flags %v enable neither banner nor shim-script injection, yet the HTML document %q reached the client as status %d, %d bytes (first difference at offset %d)", cfg, core.Trunc(want, 60), up.Resp.Status, len(up.Resp.Body), firstDiff([]byte(want), up.Resp.Body)), nil, nil)
				}
			}
			judgeProcs(r, true, agent)
		}(ci, cfg)
	}
	wg.Wait()
}

func firstDiff(a, b []byte) int {
	i := 0
	for i < len(a) && i < len(b) && a[i] == b[i] {
		i++
	}
	return i
}
