package props

import "verif/internal/core"

// C13 — stub, replaced by the real check.
func C13(r *core.Run) {
	r.Broken("check not implemented yet")
	r.Finish(1)
}
