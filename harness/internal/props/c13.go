package props

import (
	"encoding/base64"
	"encoding/json"
	"fmt"
	"math/rand"
	"path/filepath"
	"strings"
	"time"

	"verif/internal/core"
)

type c13Case struct {
	ID       string      `json:"id"`
	Kind     string      `json:"kind"`
	Class    string      `json:"class"`
	B64      string      `json:"b64"`
	Rewrite  bool        `json:"rewrite"`
	Host     string      `json:"host"`
	Method   string      `json:"method,omitempty"`
	Target   string      `json:"target,omitempty"`
	Headers  [][2]string `json:"headers,omitempty"`
	ShimPath string      `json:"shim_path,omitempty"`
	Status   int         `json:"status,omitempty"`
	Seed     int64       `json:"seed,omitempty"`
	Redirect string      `json:"redirect,omitempty"`
	Then     string      `json:"then,omitempty"`
	Decline  int         `json:"decline,omitempty"`
	Origin   string      `json:"origin,omitempty"`
	Cancel   bool        `json:"cancel,omitempty"`
	BodyLen  int         `json:"body_len,omitempty"`
	Chunked  bool        `json:"chunked,omitempty"`
	N        int         `json:"n,omitempty"`
	M        int         `json:"m,omitempty"`
	Info     bool        `json:"info,omitempty"`
}

type c13Result struct {
	ID         string   `json:"id"`
	Status     int      `json:"status"`
	Dials      []string `json:"dials"`
	URI        string   `json:"uri"`
	Want       []string `json:"want"`
	ParseErr   bool     `json:"parse_err"`
	Connected  bool     `json:"connected"`
	Redirects  int      `json:"redirects"`
	Opens      int      `json:"opens"`
	Shakes     int      `json:"shakes"`
	Later      []string `json:"later"`
	Reached    bool     `json:"reached"`
	Violations []string `json:"violations"`
	Note       string   `json:"note"`
}

type c13Entry struct{ class, url string }

// c13Corpus enumerates the URL syntax classes. "evil" hosts never resolve
// here; the harness refuses any dial that is not the backend anyway.
func c13Corpus() []c13Entry {
	long := strings.Repeat("a", 70000)
	var out []c13Entry
	add := func(class string, urls ...string) {
		for _, u := range urls {
			out = append(out, c13Entry{class, u})
		}
	}
	add("absolute-ws", "ws://evil.example/a/b?x=1", "ws://evil.example", "ws://evil.example/", "WS://EVIL.EXAMPLE/Upper")
	add("absolute-wss", "wss://evil.example/a", "wss://evil.example:443/a?b=c")
	add("absolute-http", "http://evil.example/", "https://evil.example:8443/p?q", "http://evil.example/a%2Fb/c?d=%2F")
	add("absolute-other-scheme", "ftp://evil.example/f", "gopher://evil.example/1", "foo+bar-1.0://evil.example/x", "file:///etc/passwd", "unix:///var/run/docker.sock")
	add("scheme-relative", "//evil.example/x", "//evil.example:81/x?y", "//evil.example", "//evil.example//double")
	add("path-only", "/", "/socket", "/a/b/c?x=1&y=2", "/a%2Fb/c", "/a b", "/ä/ö?ü=ß", "/a/../b", "/./a", "/a//b", "/*", "*", "relative/path", "../up", "?only=query", "/x?", "/x?a=b?c=d", "/x?a=%zz", "/api/kernels/1234/channels?session_id=abc", "/x;params=1", "/%E4%B8%AD", "/a+b?c+d", "/a:b", "a:80/b")
	add("opaque", "x:y", "mailto:a@b", "javascript:alert(1)", "urn:isbn:123", "x:y?q=1", "ws:evil.example/x", "http:evil.example", "data:text/plain,hi", "tel:+1-555", "wss:evil.example:443", "x:y#frag", "a.b+c-d:opaque/with/slashes?and=query")
	add("empty", "")
	add("userinfo", "ws://user:pw@evil.example/", "ws://user@evil.example/x", "//u:p@evil.example/x", "http://evil.example@127.0.0.1/x", "ws://127.0.0.1:1@evil.example/", "ws://:@evil.example/", "ws://u:p%40x@evil.example/")
	add("ip-literal", "ws://10.1.2.3/x", "ws://169.254.169.254/computeMetadata/v1/", "ws://[::1]/x", "ws://[::1]:81/x", "ws://[fe80::1%25eth0]/x", "ws://0/x", "ws://0x7f.1/x", "ws://2130706433/x", "ws://127.0.0.1:22/x", "ws://[::ffff:10.0.0.1]/x", "ws://localhost:6379/x")
	add("port", "ws://evil.example:0/x", "ws://evil.example:65535/x", "ws://evil.example:99999/x", "ws://evil.example:/x", "ws://evil.example:080/x", "ws://evil.example:-1/x", "ws://evil.example:8o/x")
	add("percent-host", "ws://evil%2Eexample/x", "ws://%65vil.example/x", "ws://evil.example%2F@x/", "ws://%00/x", "ws://evil.example%3A81/x", "ws://%5B::1%5D/x")
	add("backslash", "ws://evil.example\\@127.0.0.1/x", "\\\\evil.example\\x", "/\\evil.example/x", "ws:\\\\evil.example\\x", "ws://evil.example\\.other/x", "/a\\..\\b")
	add("odd-slashes", "http:/x", "http:///x", "http:////evil.example/x", "ws:///x", "://x", ":", "ws:/", "ws://", "///x", "////evil.example")
	add("fragment", "/x#frag", "ws://evil.example/x#@127.0.0.1", "/x?y#z?w", "#only", "/x#", "//evil.example#/x")
	add("crlf", "/x\r\nHost: evil.example", "/x%0d%0aHost:%20evil", "ws://evil.example/\r\n\r\nGET /admin", "/x\ny", "/x?q=1\r\nX-Injected: 1", "/x%0D%0A%0D%0AGET%20/admin")
	add("very-long", "/"+long, "ws://"+strings.Repeat("e", 5000)+".example/x", "/x?"+long, "ws://evil.example/"+long+"?"+long[:1000])
	add("unicode-host", "ws://évil.example/x", "ws://evil。example/x", "ws://xn--vil-9la.example/x", "ws://evil.example /x")
	add("whitespace", " /x", "/x ", "\t/x", "ws://evil.example /x", "/x y?z w", "ws:// evil.example/x")
	add("query-tricks", "/x?url=ws://evil.example/", "/x?@evil.example", "/x?#", "/?", "/x?a=1&a=2&=&", "/x?%00", "/x??")
	return out
}

var c13Specials = []string{":", "/", "?", "#", "[", "]", "@", "!", "$", "&", "'", "(", ")", "*", "+", ",", ";", "=", "%", "\\", " ", "\t", "\r", "\n", "\x00",
	"%2f", "%2F", "%00", "%25", "%zz", "..", "//", "://", "@evil.example", "evil.example", ":80", "ws:", "\xff", " ", "?#", "[::1]"}

func c13Mutate(rng *rand.Rand, corpus []c13Entry) c13Entry {
	base := corpus[rng.Intn(len(corpus))]
	s := base.url
	if len(s) > 300 {
		s = s[:150] + s[len(s)-100:]
	}
	for n := 1 + rng.Intn(3); n > 0; n-- {
		switch rng.Intn(5) {
		case 0: // splice with another entry
			o := corpus[rng.Intn(len(corpus))].url
			if len(o) > 200 {
				o = o[:200]
			}
			s = s[:rng.Intn(len(s)+1)] + o[rng.Intn(len(o)+1):]
		case 1, 2: // insert a special
			at := rng.Intn(len(s) + 1)
			s = s[:at] + c13Specials[rng.Intn(len(c13Specials))] + s[at:]
		case 3: // delete a byte
			if len(s) > 0 {
				at := rng.Intn(len(s))
				s = s[:at] + s[at+1:]
			}
		case 4: // duplicate a slice
			if len(s) > 1 {
				a := rng.Intn(len(s))
				b := a + rng.Intn(len(s)-a)
				s = s[:b] + s[a:b] + s[b:]
			}
		}
	}
	return c13Entry{"mutated:" + base.class, s}
}

// c13NonShim builds the pass-through requests: ordinary paths and near
// misses of the shim prefix. Only clean paths (ServeMux redirects the others
// by itself).
func c13NonShim(rng *rand.Rand, n int, seed int64) []c13Case {
	type tgt struct {
		class, shimPath, target string
		info                    bool
	}
	var tgts []tgt
	for _, sp := range []string{"shim", "ws-shim/v1"} {
		p := "/" + sp
		tgts = append(tgts,
			tgt{"ordinary", sp, "/", false}, tgt{"ordinary", sp, "/index.html", false}, tgt{"ordinary", sp, "/api/kernels?x=1&y=%2F", false},
			tgt{"ordinary", sp, "/a/b/c.d;e=f", false}, tgt{"ordinary", sp, "/a%20b/%E4%B8%AD?q=a+b", false},
			tgt{"near-miss:suffix", sp, p + "x/open", false}, tgt{"near-miss:suffix", sp, p + "-open", false}, tgt{"near-miss:suffix", sp, p + "open", false}, tgt{"near-miss:suffix", sp, p + ".d/open", false},
			tgt{"near-miss:truncated", sp, p[:len(p)-1] + "/open", false},
			tgt{"near-miss:nested", sp, "/a" + p + "/open", false}, tgt{"near-miss:nested", sp, "/x" + p + "/data", false}, tgt{"near-miss:nested", sp, "/api" + p, false},
			tgt{"near-miss:case", sp, strings.ToUpper(p) + "/open", false}, tgt{"near-miss:case", sp, "/" + strings.ToUpper(sp[:1]) + sp[1:] + "/poll", false},
			tgt{"near-miss:endpoint-without-prefix", sp, "/open", false}, tgt{"near-miss:endpoint-without-prefix", sp, "/data", false}, tgt{"near-miss:endpoint-without-prefix", sp, "/poll", false}, tgt{"near-miss:endpoint-without-prefix", sp, "/close", false},
			tgt{"near-miss:in-query", sp, "/x?" + p + "/open", false}, tgt{"near-miss:in-query", sp, "/?next=" + p + "/close", false},
			// how an encoded prefix is routed is ServeMux's business (and differs between its two generations): observed, not judged
			tgt{"encoded-prefix", sp, p + "%2Fopen", true}, tgt{"encoded-prefix", sp, "/%73" + p[2:] + "/open", true}, tgt{"encoded-prefix", sp, p + "%2fdata", true},
		)
		if sp == "ws-shim/v1" {
			tgts = append(tgts, tgt{"near-miss:parent", sp, "/ws-shim", false}, tgt{"near-miss:parent", sp, "/ws-shim/open", false}, tgt{"near-miss:parent", sp, "/ws-shim/v2/open", false}, tgt{"near-miss:parent", sp, "/ws-shim/v1x/open", false}, tgt{"near-miss:parent", sp, "/ws-shim/v/1/open", false})
		}
	}
	methods := []string{"GET", "POST", "PUT", "DELETE", "PATCH", "OPTIONS", "HEAD"}
	statuses := []int{200, 201, 204, 301, 304, 400, 404, 500, 503}
	hdrPool := [][2]string{{"Accept", "text/html,*/*;q=0.8"}, {"Cookie", "a=b; c=d"}, {"X-Websocket-Shim-Version", "1"}, {"Upgrade", "websocket"}, {"Connection", "Upgrade"},
		{"X-Multi", "one"}, {"X-Multi", "two"}, {"x-lower", "v"}, {"Content-Type", "application/json"}, {"Origin", "https://client.example"}, {"Sec-Websocket-Key", "dGhlIHNhbXBsZSBub25jZQ=="}}
	var out []c13Case
	for i := 0; i < n; i++ {
		t := tgts[i%len(tgts)]
		c := c13Case{ID: fmt.Sprintf("n%d-%d", seed, i), Kind: "nonshim", Class: t.class, ShimPath: t.shimPath, Target: t.target, Info: t.info,
			Method: methods[rng.Intn(len(methods))], Status: statuses[rng.Intn(len(statuses))], Host: []string{"client.example", "app.internal:8080"}[rng.Intn(2)],
			Rewrite: rng.Intn(2) == 0, Seed: rng.Int63()}
		if i < len(tgts) {
			c.Method = []string{"POST", "GET"}[i%2] // every target at least once with the shim's own method
		}
		for _, kv := range hdrPool {
			if rng.Intn(3) == 0 {
				c.Headers = append(c.Headers, kv)
			}
		}
		body := make([]byte, []int{0, 0, 5, 300, 5000}[rng.Intn(5)])
		rng.Read(body)
		if rng.Intn(3) == 0 {
			body = []byte("ws://evil.example/looks/like/an/open/body")
		}
		c.B64 = base64.StdEncoding.EncodeToString(body)
		c.Cancel = i%4 == 2 // the client abandons every fourth request while the normal path is serving it
		out = append(out, c)
	}
	// browsers' navigation requests: Accept mentioning html (any case, any q) with every kind of Accept-Encoding
	k := 0
	for _, accept := range []string{"text/html", "text/HTML;q=0.1, */*", "application/xhtml+xml,text/html;q=0.9,*/*;q=0.8", "TEXT/HTML"} {
		for _, ae := range []string{"br", "zstd", "identity", "gzip, deflate, br", "gzip;q=1.0, *;q=0"} {
			for _, method := range []string{"GET", "POST"} {
				if n < 1000 && (k/2)%3 != 0 && !(accept == "text/HTML;q=0.1, */*") { // quick: a third of the product plus the odd-case row
					k++
					continue
				}
				body := ""
				if method == "POST" {
					body = "a=b"
				}
				out = append(out, c13Case{ID: fmt.Sprintf("nh%d-%d", seed, k), Kind: "nonshim", Class: "html-navigation", ShimPath: []string{"shim", "ws-shim/v1"}[k%2], Target: []string{"/", "/lab/tree/x.ipynb", "/index.html?a=1"}[k%3],
					Method: method, Status: 200, Host: "client.example", Seed: rng.Int63(), Headers: [][2]string{{"Accept", accept}, {"Accept-Encoding", ae}, {"Accept-Language", "en"}, {"User-Agent", "Mozilla/5.0"}},
					B64: base64.StdEncoding.EncodeToString([]byte(body))})
				k++
			}
		}
	}
	return out
}

// C13 — the websocket shim only ever connects to the configured backend.
func C13(r *core.Run) {
	r.Level = "exploration"
	r.SetRule("websockets.Proxy driven in-process (race-built worker, agent's GODEBUG defaults, real gorilla backend, one case at a time per process); observation: every (network,address) handed to websocket.DefaultDialer.NetDialContext, plus request URI and Host the backend's websocket server received. Open bodies: an enumerated corpus of URL syntax classes (absolute ws/wss/http/other, scheme-relative, path-only, opaque, empty, userinfo, IP literals, ports, percent-encoded hosts, back-slashes, odd slashes, fragments, CR/LF, very long, unicode hosts, whitespace, query tricks), seeded mutations (splice, insert special, delete, duplicate) and random byte / ASCII strings, each with rewriteWebsocketHost on and off, a third of them with an Origin header (which must reach the backend as sent; no handshake header may contain the host of the body URL); every pass-through request carries its own context (a value the wrapped handler must see; every fourth is cancelled by the client while the wrapped handler runs, which must see ctx.Done() within 5 s); browser navigation requests (Accept mentioning html in any case and q-value x Accept-Encoding br, zstd, identity, gzip/deflate/br, q-values x GET/POST) compared header for header; plus pass-through uploads of 8 MiB+1 to 20 MiB (Content-Length and chunked) compared byte for byte at the wrapped handler; plus whole-session histories (open with an absolute / scheme-relative / IP-literal / odd-port URL, the backend drops the websocket abruptly or gracefully, the client goes on with data, poll, data, close, data - the dial observer stays on for all of it); plus bursts of 16 goroutines opening concurrently on one handler, every body naming its own foreign host, port, path and query (dial addresses and per-connection request URI checked; race detector on); plus a backend that turns the first handshake of an open down (403, 404 or a 200 page) and would accept a second one, with Host and request URI of every handshake request it receives judged; plus a backend that answers the handshake with a redirect: statuses {301,302,307,308} x Location {absolute foreign ws, absolute foreign http, scheme-relative foreign, path-only, absolute to the backend, request path plus a trailing slash} x 8 URL shapes incl. paths beginning with //host. Pass-through: requests for ordinary paths and near misses of the shim prefix (two shim paths), random methods/headers/bodies/scripted responses; class = URL syntax class | near-miss class")
	r.Assume("expected request URI = net/url's escaped path (\"/\" prefixed when missing) + \"?\" + raw query of the supplied URL; how a percent-encoded spelling of the prefix (/shim%2Fopen, /%73him/open) is routed is left to ServeMux and only recorded; paths ServeMux redirects by itself are not generated; the syscall-level (strace) sample of DESIGN.md is not run: the dial hook sees every address before the socket is created")
	bin := r.MustBuild(r.BuildWorker())
	godebug := "GODEBUG=" + shimGodebug(r)
	corpus := c13Corpus()
	rng := r.Rand("c13")
	var entries []c13Entry
	entries = append(entries, corpus...)
	nURL := r.Pick(400, 30000)
	for len(entries) < nURL {
		switch k := rng.Intn(10); {
		case k < 8:
			entries = append(entries, c13Mutate(rng, corpus))
		case k == 8:
			b := make([]byte, rng.Intn(40))
			rng.Read(b)
			entries = append(entries, c13Entry{"random-bytes", string(b)})
		default:
			const abc = "abcwsx:/?#[]@%.0123456789-_~!$&'()*+,;= \\"
			b := make([]byte, rng.Intn(40))
			for i := range b {
				b[i] = abc[rng.Intn(len(abc))]
			}
			entries = append(entries, c13Entry{"random-ascii", string(b)})
		}
	}
	var cases []c13Case
	byID := map[string]c13Case{}
	bodyOf := map[string]string{}
	for i, e := range entries {
		c := c13Case{ID: fmt.Sprintf("u%d-%d", r.Seed, i), Kind: "url", Class: e.class, B64: base64.StdEncoding.EncodeToString([]byte(e.url)),
			Rewrite: i%2 == 1, Host: []string{"client.example", "evil-host.example:8080"}[(i/2)%2]}
		if i%3 == 0 {
			c.Origin = []string{"https://client.example", "http://client.example:8080", "null"}[(i/3)%3]
		}
		cases = append(cases, c)
		bodyOf[c.ID] = e.url
	}
	for i, u := range []string{"wss://trusted.example/ws", "//trusted.example:444/ws", "ws://trusted.example:444/ws?x=1", "https://[2001:db8::1]:8443/ws", "ws://10.1.2.3/ws"} {
		for j, origin := range []string{"https://client.example", "https://attacker.example"} {
			c := c13Case{ID: fmt.Sprintf("o%d-%d-%d", r.Seed, i, j), Kind: "url", Class: "origin-and-foreign-body-host", B64: base64.StdEncoding.EncodeToString([]byte(u)), Rewrite: (i+j)%2 == 1, Host: "client.example", Origin: origin}
			cases = append(cases, c)
			bodyOf[c.ID] = u
		}
	}
	// a backend that answers the handshake with a redirect: every status x Location kind x URL shape
	// (incl. paths that start with //host, which a trailing-slash redirect turns into a scheme-relative Location)
	redirBodies := []string{"/redir/a", "ws://public.example.com/redir/x?y=1", "ws://public.example.com//evil.example:9/echo", "ws:////evil.example:9/echo",
		"//public.example.com//evil.example:9/echo", "/redir//evil.example:9/x", "/a//b?c=d", "x:y//evil.example:9/opaque"}
	nRedir := 0
	for _, body := range redirBodies {
		for _, status := range []int{301, 302, 307, 308} {
			for _, kind := range []string{"absolute-foreign", "http-foreign", "scheme-relative", "path-only", "absolute-backend", "trailing-slash"} {
				c := c13Case{ID: fmt.Sprintf("r%d-%d", r.Seed, nRedir), Kind: "url", Class: "redirect:" + kind, B64: base64.StdEncoding.EncodeToString([]byte(body)),
					Rewrite: nRedir%2 == 1, Host: "client.example", Redirect: fmt.Sprintf("%d;%s", status, kind)}
				cases = append(cases, c)
				bodyOf[c.ID] = body
				nRedir++
			}
		}
	}
	// whole-session histories: open with an absolute / scheme-relative / IP-literal URL, the backend drops
	// the websocket, the client goes on using the session (data, poll, data, close, data)
	nThen := 0
	for _, e := range corpus {
		switch e.class {
		case "absolute-ws", "absolute-wss", "absolute-http", "scheme-relative", "ip-literal", "port", "unicode-host":
			for _, then := range []string{"drop-abrupt", "drop-graceful"} {
				c := c13Case{ID: fmt.Sprintf("t%d-%d", r.Seed, nThen), Kind: "url", Class: "then-" + then + ":" + e.class, B64: base64.StdEncoding.EncodeToString([]byte(e.url)),
					Rewrite: nThen%4 >= 2, Host: "client.example", Then: then}
				cases = append(cases, c)
				bodyOf[c.ID] = e.url
				nThen++
			}
		}
	}
	// a backend that turns the first handshake of an open down (403 / 404 / a 200 page) and would accept a second:
	// every handshake request it receives is judged (Host and request URI)
	nDecline := 0
	for _, e := range corpus {
		switch e.class {
		case "absolute-ws", "absolute-wss", "absolute-http", "scheme-relative", "ip-literal", "port", "path-only", "opaque":
			if (e.class == "path-only" || e.class == "opaque") && nDecline%3 != 0 {
				nDecline++
				continue
			}
			c := c13Case{ID: fmt.Sprintf("d%d-%d", r.Seed, nDecline), Kind: "url", Class: "declined-first-handshake:" + e.class, B64: base64.StdEncoding.EncodeToString([]byte(e.url)),
				Rewrite: nDecline%4 == 3, Host: "client.example", Decline: []int{403, 404, 200}[nDecline%3]}
			cases = append(cases, c)
			bodyOf[c.ID] = e.url
			nDecline++
		}
	}
	// concurrent opens, every body naming its own foreign host: one burst per worker process (thorough: 6)
	nBurst := r.Pick(8, 48)
	for i := 0; i < nBurst; i++ {
		cases = append(cases, c13Case{ID: fmt.Sprintf("burst%d-%d", r.Seed, i), Kind: "burst", Class: "concurrent-opens", Host: "client.example", Rewrite: i%2 == 1, N: 16, M: r.Pick(25, 60)})
	}
	cases = append(cases, c13NonShim(rng, r.Pick(100, 3000), r.Seed)...)
	// large uploads on the normal path: nothing in the shim may cap or truncate them
	for i, n := range []int{8<<20 + 1, 9 << 20, 12<<20 + 345, 20 << 20} {
		for j, chunked := range []bool{false, true} {
			if r.Quick() && (i+j)%2 == 1 {
				continue // quick: every size once, alternating framing
			}
			cases = append(cases, c13Case{ID: fmt.Sprintf("big%d-%d-%v", r.Seed, n, chunked), Kind: "nonshim", Class: "large-body", ShimPath: []string{"shim", "ws-shim/v1"}[(i+j)%2],
				Target: []string{"/upload", "/api/contents/big.bin?x=1"}[j], Method: []string{"POST", "PUT"}[i%2], Status: 201, Host: "client.example", Seed: rng.Int63(), BodyLen: n, Chunked: chunked,
				B64: "", Headers: [][2]string{{"Content-Type", "application/octet-stream"}}})
		}
	}
	if r.OnlyCase >= 0 && r.OnlyCase < len(cases) {
		cases = cases[r.OnlyCase : r.OnlyCase+1]
	}
	var generic []interface{}
	for _, c := range cases {
		byID[c.ID] = c
		generic = append(generic, c)
	}
	lines, crashes := shimRun(r, bin, "c13", generic, 8, nil, 10*time.Minute, godebug)
	shimJudgeCrashes(r, crashes)

	hits := map[string]int64{}
	dialAddrs := map[string]int{}
	statusMix := map[string]int{}
	seen := map[string]bool{}
	connected, parseErr, noDial, reached, infoShim, blind := 0, 0, 0, 0, 0, 0
	samples := map[string]int{}
	for _, ln := range lines {
		if shimAddHits(hits, ln) {
			continue
		}
		var res c13Result
		if json.Unmarshal(ln, &res) != nil || res.ID == "" {
			continue
		}
		c := byID[res.ID]
		seen[res.ID] = true
		if res.Note != "" && strings.HasPrefix(res.Note, "harness") {
			r.Inconclusive(res.ID + ": " + res.Note)
			continue
		}
		if c.Kind == "burst" {
			r.Cases(fmt.Sprintf("concurrent-opens:%dx%d|rewrite=%v", c.N, c.M, c.Rewrite), res.Opens)
			r.Add("concurrent_opens", res.Opens)
			for _, d := range res.Dials {
				dialAddrs[d]++
			}
		} else if c.Kind == "url" {
			outcome := fmt.Sprintf("%d", res.Status)
			if c.Then != "" && res.Connected {
				outcome += "|then " + strings.Join(res.Later, ",")
				r.Add("sessions_used_after_the_backend_dropped_them", 1)
			}
			if res.Connected {
				outcome += "+connected"
				connected++
			}
			if len(res.Dials) == 0 {
				noDial++
				if res.Connected {
					blind++
				}
			}
			if res.ParseErr {
				parseErr++
			}
			if c.Decline > 0 {
				r.Case(fmt.Sprintf("url:%s|first handshake answered %d|rewrite=%v|handshakes=%d|%s", c.Class, c.Decline, c.Rewrite, res.Shakes, outcome))
				r.Add("handshake_requests_judged_at_a_declining_backend", res.Shakes)
			} else if c.Redirect != "" {
				r.Case(fmt.Sprintf("url:%s|%s|%s|redirect-answers=%d|%s", c.Class, c.Redirect, core.Trunc(bodyOf[c.ID], 60), res.Redirects, outcome))
				r.Add("handshakes_answered_with_a_redirect", res.Redirects)
				if res.Connected {
					r.Add("redirect_cases_that_ended_connected_to_the_backend", 1)
				}
			} else {
				r.Case(fmt.Sprintf("url:%s|rewrite=%v|%s", c.Class, c.Rewrite, outcome))
			}
			statusMix[outcome]++
			for _, d := range res.Dials {
				dialAddrs[d]++
			}
			if res.Status == 0 {
				r.Inconclusive(fmt.Sprintf("%s: %s", res.ID, res.Note))
			}
			if samples[c.Class] == 0 && len(samples) < 6 && res.Connected && !strings.HasPrefix(c.Class, "mutated") {
				samples[c.Class]++
				r.Sample(map[string]interface{}{"class": c.Class, "open_body": core.Trunc(bodyOf[c.ID], 120), "rewrite_host": c.Rewrite, "status": res.Status, "dialled": res.Dials, "backend_saw_uri": core.Trunc(res.URI, 120), "expected_uri": res.Want})
			}
		} else {
			how := "forwarded"
			if !res.Reached {
				how = "not-forwarded"
			}
			if res.Reached {
				reached++
			} else if c.Info {
				infoShim++
				how = "handled-by-shim"
			}
			if c.BodyLen > 0 {
				r.Case(fmt.Sprintf("pass-through:%s|%d bytes|chunked=%v|shim=%s|%s", c.Class, c.BodyLen, c.Chunked, c.ShimPath, how))
				r.Add("large_pass_through_bodies_bytes", c.BodyLen)
			} else {
				r.Case(fmt.Sprintf("pass-through:%s|shim=%s|%s", c.Class, c.ShimPath, how))
			}
		}
		for _, v := range res.Violations {
			sig, msg := shimSplit(v)
			r.Violate(sig, msg, map[string]interface{}{"case": c, "open_body": core.Trunc(bodyOf[c.ID], 400)}, res)
		}
	}
	for _, c := range cases {
		if !seen[c.ID] {
			r.Inconclusive("no result for case " + c.ID + " (worker died?)")
		}
	}
	if blind > 0 {
		r.Broken(fmt.Sprintf("%d opens reached the backend although the dial observer saw no dial: the tree under test no longer dials through websocket.DefaultDialer, the observation point of this check is blind", blind))
	}
	r.Set("urls_tried", len(entries))
	r.Set("corpus_entries", len(corpus))
	r.Set("opens_connected_to_backend", connected)
	r.Set("opens_rejected_by_url_parser", parseErr)
	r.Set("opens_without_any_dial", noDial)
	r.Set("distinct_dial_addresses", len(dialAddrs))
	r.Set("dial_addresses", dialAddrs)
	r.Set("open_outcomes", statusMix)
	r.Set("pass_through_requests_forwarded", reached)
	r.Set("encoded_prefix_requests_handled_by_shim", infoShim)
	r.Set("hook_hits", hits)
	r.Set("strace_sample", "skipped")
	r.JudgeRaces(core.ParseRaceLogs(filepath.Join(r.WorkDir, "race-")))
	minCases := r.Pick(480, 32000) + nRedir + nThen - 10
	if r.OnlyCase >= 0 {
		minCases = 1
	}
	r.Finish(minCases)
}
