package props

import (
	"bufio"
	"fmt"
	"golang.org/x/net/http2"
	"golang.org/x/net/http2/h2c"
	"net"
	"net/http"
	"os"
	"path/filepath"
	"sort"
	"strings"
	"sync"
	"sync/atomic"
	"time"

	"verif/internal/core"
	"verif/internal/fakes"
	"verif/internal/rawhttp"
)

// c05Inner incrementally parses the serialised inner response arriving in
// an upload and counts the inner body bytes seen so far.
type c05Inner struct {
	mu       sync.Mutex
	state    int // 0 header, 1 chunk-size line, 2 chunk data, 3 CRLF after data, 4 trailer/end
	line     []byte
	remain   int64
	body     int64 // inner body bytes observed
	hdrDone  bool
	finished bool
	bad      string
	cond     *sync.Cond
	hdrTail  []byte
}

func newC05Inner() *c05Inner {
	p := &c05Inner{}
	p.cond = sync.NewCond(&p.mu)
	return p
}

func (p *c05Inner) feed(b []byte) {
	p.mu.Lock()
	defer p.mu.Unlock()
	for len(b) > 0 && p.bad == "" {
		switch p.state {
		case 0:
			p.hdrTail = append(p.hdrTail, b[0])
			b = b[1:]
			if n := len(p.hdrTail); n >= 4 && string(p.hdrTail[n-4:]) == "\r\n\r\n" {
				p.hdrDone = true
				p.state = 1
				p.line = p.line[:0]
			}
		case 1:
			c := b[0]
			b = b[1:]
			if c == '\n' {
				var sz int64
				s := strings.TrimSpace(string(p.line))
				if _, err := fmt.Sscanf(s, "%x", &sz); err != nil {
					p.bad = "bad inner chunk size " + s
					break
				}
				p.line = p.line[:0]
				if sz == 0 {
					p.state = 4
				} else {
					p.remain = sz
					p.state = 2
				}
			} else {
				p.line = append(p.line, c)
			}
		case 2:
			n := int64(len(b))
			if n > p.remain {
				n = p.remain
			}
			p.body += n
			p.remain -= n
			b = b[n:]
			if p.remain == 0 {
				p.state = 3
				p.remain = 2
			}
		case 3:
			b = b[1:]
			p.remain--
			if p.remain == 0 {
				p.state = 1
			}
		case 4:
			b = nil
		}
	}
	p.cond.Broadcast()
}

func (p *c05Inner) finish() {
	p.mu.Lock()
	p.finished = true
	p.cond.Broadcast()
	p.mu.Unlock()
}

// waitBody waits until at least n inner body bytes were observed.
func (p *c05Inner) waitBody(n int64, d time.Duration) (ok bool, got int64) {
	deadline := time.Now().Add(d)
	t := time.AfterFunc(d+10*time.Millisecond, func() { p.mu.Lock(); p.cond.Broadcast(); p.mu.Unlock() })
	defer t.Stop()
	p.mu.Lock()
	defer p.mu.Unlock()
	for p.body < n && !p.finished && p.bad == "" && time.Now().Before(deadline) {
		p.cond.Wait()
	}
	return p.body >= n, p.body
}

type c05Case struct {
	ID             string `json:"id"`
	Chunks         []int  `json:"chunks"`
	PauseMs        int    `json:"pause_ms"`
	SSE            bool   `json:"sse"`
	CL             bool   `json:"declared_content_length"` // body framed by Content-Length but still produced piece by piece
	HTML           bool   `json:"html"`                    // text/html response through the agent configured with the websocket shim
	Wrapped        bool   `json:"wrapped"`                 // through the agent with session tracking and the banner (wrapping response writers); request is a page navigation
	PaceMs         int    `json:"pace_ms"`                 // > 0: free-running producer, one chunk every PaceMs without waiting for the observer
	Status         int    `json:"status,omitempty"`        // response status (0: 200)
	Group          string `json:"group,omitempty"`         // concurrent-streams group: after its first chunk every stream of the group waits until all GroupN streams have had theirs observed
	GroupN         int    `json:"group_size,omitempty"`
	ListBlip       bool   `json:"pending_list_blip,omitempty"`             // after the second chunk the proxy fails six pending-list calls in a row (a blip of a few milliseconds)
	NoCT           bool   `json:"no_content_type,omitempty"`               // the backend declares no Content-Type at all
	Health         bool   `json:"health_checked_busy_backend,omitempty"`   // through an agent that health-checks (1 s interval, threshold 2) a backend which answers its health path only between responses
	FirstPostFails bool   `json:"first_upload_attempt_rejected,omitempty"` // the proxy answers the first upload attempt of this response with 503 at once; the retry is accepted
	VMID           bool   `json:"vm_identity,omitempty"`                   // through an agent that runs "on GCE" (fake metadata server) and stamps its calls with the VM identity token
	Trailers       bool   `json:"announced_trailers,omitempty"`            // chunked response that announces trailer fields in its header and sends them after the last chunk
	Stall          bool   `json:"stalled_upload,omitempty"`                // a large free-running response whose upload the proxy does not read until released (its own progress is not judged)
	Class          string `json:"class"`
}

type c05Outcome struct {
	c         c05Case
	missedAt  int // chunk index whose observation missed the bound (-1 none)
	observed  int64
	latencies []time.Duration
	completed bool
	err       string
}

// C05 — responses stream through the agent chunk by chunk.
func C05(r *core.Run) {
	r.SetRule("real agent + fake proxy that de-chunks the upload incrementally and parses the inner serialised response on the fly + lock-step raw backend: chunk i+1 is emitted only after the proxy-side observer has seen all bytes of chunk i; bounded restatement: every chunk observed within T=5s of being flushed (measured latencies are reported), response completes; class = (chunk-count class, chunk-size class, pause class, content type)")
	r.Assume("progress bound T=5s (>= 20x the latency measured on the unchanged tree); a miss is confirmed by re-running the case alone with T=10s before it is reported")
	agentBin := r.MustBuild(r.BuildRepoBinary("./agent", "agent"))
	md, err := fakes.NewMetadata()
	if err != nil {
		r.Broken(err.Error())
		r.Finish(1)
	}
	defer md.Close()
	px, err := fakes.NewProxy()
	if err != nil {
		r.Broken(err.Error())
		r.Finish(1)
	}
	defer px.Close()
	px.ListWait = 100 * time.Millisecond
	var listBlip int64
	px.OnList = func(w http.ResponseWriter, req *http.Request) bool {
		if atomic.LoadInt64(&listBlip) > 0 {
			atomic.AddInt64(&listBlip, -1)
			http.Error(w, "scripted blip", 503)
			return true
		}
		return false
	}
	var mu sync.Mutex
	inners := map[string]*c05Inner{}
	scripts := map[string]c05Case{}
	outcomes := map[string]*c05Outcome{}
	bound := map[string]time.Duration{}
	groupSeen := map[string]int{}
	stallCh := map[string]chan struct{}{}
	stallArrived := map[string]bool{}
	stallWritten := map[string]int64{} // bytes of a stalled response the backend has been able to write so far
	waitStall := func(id string) {
		mu.Lock()
		ch := stallCh[id]
		if ch != nil {
			stallArrived[id] = true
		}
		mu.Unlock()
		if ch != nil {
			select {
			case <-ch:
			case <-time.After(60 * time.Second):
			}
		}
	}
	var busyStreams, healthReplies int64
	var pxFor func(c c05Case) *fakes.Proxy
	getInner := func(id string) *c05Inner {
		mu.Lock()
		defer mu.Unlock()
		if inners[id] == nil {
			inners[id] = newC05Inner()
		}
		return inners[id]
	}
	postAttempts := map[string]int{}
	scripts0 := func(id string) int {
		mu.Lock()
		defer mu.Unlock()
		if c := scripts[id]; len(c.Chunks) > 0 {
			return c.Chunks[0]
		}
		return 1
	}
	px.OnResponse = func(id string, w http.ResponseWriter, req *http.Request) bool {
		mu.Lock()
		postAttempts[id]++
		n, fp := postAttempts[id], scripts[id].FirstPostFails
		mu.Unlock()
		if os.Getenv("VERIF_DEBUG") != "" && fp {
			fmt.Fprintf(os.Stderr, "DEBUG c05 upload attempt %d for %s\n", n, id)
		}
		if fp && n == 1 {
			// read until the first chunk of the response has arrived, then turn the upload down the way a hop in front of
			// the proxy does: at once, without draining the rest (a Go handler that simply returned would first wait for
			// more of the body), and leave the connection open for a moment
			tmp := newC05Inner()
			first := int64(scripts0(id))
			buf := make([]byte, 4096)
			for {
				if _, got := tmp.waitBody(0, 0); got >= first {
					break
				}
				k, err := req.Body.Read(buf)
				tmp.feed(buf[:k])
				if err != nil {
					break
				}
			}
			time.Sleep(30 * time.Millisecond)
			if hj, ok := w.(http.Hijacker); ok {
				if c, _, err := hj.Hijack(); err == nil {
					c.Write([]byte("HTTP/1.1 503 Service Unavailable\r\nContent-Type: text/plain\r\nContent-Length: 10\r\nConnection: close\r\n\r\ntry again\n"))
					go func() { time.Sleep(300 * time.Millisecond); c.Close() }()
				}
			}
			return true
		}
		in := getInner(id)
		waitStall(id)
		px.AcceptUpload(id, w, req, in.feed)
		in.finish()
		return true
	}
	backend, err := rawhttp.NewServer(func(req *rawhttp.Message, reqErr error, conn net.Conn, br *bufio.Reader) bool {
		if reqErr != nil {
			return false
		}
		if req.Target == "/healthz" {
			// a backend that serves its health path only between responses: the check waits while a health-lane stream is open
			for d := time.Now().Add(60 * time.Second); time.Now().Before(d) && atomic.LoadInt64(&busyStreams) > 0; {
				time.Sleep(5 * time.Millisecond)
			}
			var w rawhttp.Builder
			w.Line("HTTP/1.1 200 OK").Field("Content-Length", "2").End()
			w.WriteString("ok")
			conn.Write(w.Bytes())
			atomic.AddInt64(&healthReplies, 1)
			return true
		}
		id := strings.TrimPrefix(req.Target, "/c05/")
		mu.Lock()
		c, ok := scripts[id]
		T := bound[id]
		mu.Unlock()
		if !ok {
			var w rawhttp.Builder
			w.Line("HTTP/1.1 200 OK").Field("Content-Length", "2").End()
			w.WriteString("ok")
			conn.Write(w.Bytes())
			return true
		}
		if c.Stall {
			var w rawhttp.Builder
			w.Line("HTTP/1.1 200 OK").Field("Content-Type", "application/octet-stream").Field("Transfer-Encoding", "chunked").End()
			conn.Write(w.Bytes())
			conn.SetWriteDeadline(time.Now().Add(90 * time.Second))
			for i, n := range c.Chunks {
				var cw rawhttp.Builder
				cw.Chunk(tokBytes(id, fmt.Sprint(i), n))
				if _, err := conn.Write(cw.Bytes()); err != nil {
					return false
				}
				mu.Lock()
				stallWritten[id] += int64(n)
				mu.Unlock()
			}
			var cw rawhttp.Builder
			cw.LastChunk(nil)
			conn.Write(cw.Bytes())
			mu.Lock()
			outcomes[id] = &c05Outcome{c: c, missedAt: -1, completed: true}
			mu.Unlock()
			return true
		}
		if c.Health {
			atomic.AddInt64(&busyStreams, 1)
			defer atomic.AddInt64(&busyStreams, -1)
		}
		in := getInner(id)
		out := &c05Outcome{c: c, missedAt: -1}
		var w rawhttp.Builder
		if c.Status == 0 || c.Status == 200 {
			w.Line("HTTP/1.1 200 OK")
		} else {
			w.Line(fmt.Sprintf("HTTP/1.1 %d Status %d", c.Status, c.Status))
		}
		switch {
		case c.NoCT:
		case c.HTML:
			w.Field("Content-Type", "text/html; charset=utf-8")
		case c.SSE:
			w.Field("Content-Type", "text/event-stream")
		default:
			w.Field("Content-Type", "application/octet-stream")
		}
		if c.CL {
			tot := 0
			for _, n := range c.Chunks {
				tot += n
			}
			w.Field("Content-Length", fmt.Sprint(tot)).End()
		} else {
			if c.Trailers {
				w.Field("Trailer", "X-Checksum, Server-Timing")
			}
			w.Field("Transfer-Encoding", "chunked").End()
		}
		conn.Write(w.Bytes())
		if c.PaceMs > 0 {
			// free-running producer: never waits for the observer; each chunk must still be seen within T of its flush
			flushed := make([]time.Time, len(c.Chunks))
			var cum []int64
			var tot int64
			var lateAt = -1
			var worst time.Duration
			for i, n := range c.Chunks {
				var cw rawhttp.Builder
				cw.Chunk(tokBytes(id, fmt.Sprint(i), n))
				if _, err := conn.Write(cw.Bytes()); err != nil {
					out.err = err.Error()
					break
				}
				tot += int64(n)
				mu.Lock()
				flushed[i] = time.Now()
				cum = append(cum, tot)
				mu.Unlock()
				time.Sleep(time.Duration(c.PaceMs) * time.Millisecond)
				// check lateness of everything flushed more than T ago
				_, got := in.waitBody(0, 0)
				for k := 0; k <= i; k++ {
					if got < cum[k] && time.Since(flushed[k]) > T {
						lateAt = k
						break
					}
				}
				if lateAt >= 0 {
					break
				}
			}
			if lateAt < 0 && out.err == "" {
				// the last chunks get their full bound
				if ok, _ := in.waitBody(tot, T); !ok {
					lateAt = len(c.Chunks) - 1
				}
			}
			if lateAt >= 0 {
				out.missedAt = lateAt
				_, out.observed = in.waitBody(0, 0)
			} else if out.err == "" {
				var cw rawhttp.Builder
				cw.LastChunk(nil)
				conn.Write(cw.Bytes())
				if _, ok := pxFor(c).Wait(id, T); ok {
					out.completed = true
				}
				out.latencies = append(out.latencies, worst)
			}
			mu.Lock()
			outcomes[id] = out
			mu.Unlock()
			return out.completed
		}
		var sent int64
		for i, n := range c.Chunks {
			var cw rawhttp.Builder
			piece := tokBytes(id, fmt.Sprint(i), n)
			if c.HTML {
				for k := range piece { // printable filler without a <head> tag
					piece[k] = "abcdefghij klmnop<>/"[int(piece[k])%20]
				}
			}
			if c.CL {
				cw.Write(piece)
			} else {
				cw.Chunk(piece)
			}
			t0 := time.Now()
			if _, err := conn.Write(cw.Bytes()); err != nil {
				out.err = err.Error()
				break
			}
			sent += int64(n)
			ok, got := in.waitBody(sent, T)
			out.observed = got
			if !ok {
				out.missedAt = i
				break
			}
			out.latencies = append(out.latencies, time.Since(t0))
			if i == 1 && c.ListBlip {
				atomic.StoreInt64(&listBlip, 6)
				for d := time.Now().Add(3 * time.Second); time.Now().Before(d) && atomic.LoadInt64(&listBlip) > 0; {
					time.Sleep(time.Millisecond)
				}
				time.Sleep(30 * time.Millisecond)
			}
			if i == 0 && c.GroupN > 0 {
				// all streams of the group are open at once: none continues before every one had its first chunk observed
				mu.Lock()
				groupSeen[c.Group]++
				mu.Unlock()
				for d := time.Now().Add(T); time.Now().Before(d); time.Sleep(time.Millisecond) {
					mu.Lock()
					all := groupSeen[c.Group] >= c.GroupN
					mu.Unlock()
					if all {
						break
					}
				}
			}
			if c.PauseMs > 0 {
				time.Sleep(time.Duration(c.PauseMs) * time.Millisecond)
			}
		}
		if out.missedAt < 0 && out.err == "" {
			if !c.CL {
				var cw rawhttp.Builder
				if c.Trailers {
					cw.LastChunk([]rawhttp.Field{{Name: "X-Checksum", Value: "sum-" + id}, {Name: "Server-Timing", Value: "total;dur=12.5"}})
				} else {
					cw.LastChunk(nil)
				}
				conn.Write(cw.Bytes())
			}
			if _, ok := pxFor(c).Wait(id, T); ok {
				out.completed = true
			}
		}
		mu.Lock()
		outcomes[id] = out
		mu.Unlock()
		return out.completed
	})
	if err != nil {
		r.Broken(err.Error())
		r.Finish(1)
	}
	defer backend.Close()
	agent, err := startAgent(r, agentBin, "agent", md, px.URL(), backend.Addr(), "b5")
	if err != nil {
		r.Broken(err.Error())
		r.Finish(1)
	}
	defer agent.Kill()
	// a second agent configured with the websocket shim (its ModifyResponse hook touches HTML responses)
	px2, err := fakes.NewProxy()
	if err != nil {
		r.Broken(err.Error())
		r.Finish(1)
	}
	defer px2.Close()
	px2.ListWait = 100 * time.Millisecond
	px2.OnResponse = func(id string, w http.ResponseWriter, req *http.Request) bool {
		in := getInner(id)
		waitStall(id)
		px2.AcceptUpload(id, w, req, in.feed)
		in.finish()
		return true
	}
	agent2, err := startAgent(r, agentBin, "agent-shim", md, px2.URL(), backend.Addr(), "b5s", "--shim-websockets=true", "--shim-path=shim")
	if err != nil {
		r.Broken(err.Error())
		r.Finish(1)
	}
	defer agent2.Kill()
	px3, err := fakes.NewProxy()
	if err != nil {
		r.Broken(err.Error())
		r.Finish(1)
	}
	defer px3.Close()
	px3.ListWait = 100 * time.Millisecond
	px3.OnResponse = func(id string, w http.ResponseWriter, req *http.Request) bool {
		in := getInner(id)
		waitStall(id)
		px3.AcceptUpload(id, w, req, in.feed)
		in.finish()
		return true
	}
	agent3, err := startAgent(r, agentBin, "agent-wrapped", md, px3.URL(), backend.Addr(), "b5w", "--session-cookie-name=SIDC05", "--disable-ssl-for-test=true", "--inject-banner=<b>banner</b>")
	if err != nil {
		r.Broken(err.Error())
		r.Finish(1)
	}
	defer agent3.Kill()
	// a fourth agent that believes it runs on a GCE VM with a service account: every call to the proxy goes through the
	// round tripper that adds the VM identity token
	px4, err := fakes.NewProxy()
	if err != nil {
		r.Broken(err.Error())
		r.Finish(1)
	}
	defer px4.Close()
	px4.ListWait = 100 * time.Millisecond
	var vmStamped int64
	px4.OnResponse = func(id string, w http.ResponseWriter, req *http.Request) bool {
		if req.Header.Get("X-Inverting-Proxy-VM-ID") != "" {
			atomic.AddInt64(&vmStamped, 1)
		}
		in := getInner(id)
		waitStall(id)
		px4.AcceptUpload(id, w, req, in.feed)
		in.finish()
		return true
	}
	agent4, err := startAgent(r, agentBin, "agent-vmid", md, px4.URL(), backend.Addr(), "b5v", "--disable-gce-vm-header=false")
	if err != nil {
		r.Broken(err.Error())
		r.Finish(1)
	}
	defer agent4.Kill()
	// a fifth agent with health checks on (1 s interval, threshold 2)
	px5, err := fakes.NewProxy()
	if err != nil {
		r.Broken(err.Error())
		r.Finish(1)
	}
	defer px5.Close()
	px5.ListWait = 100 * time.Millisecond
	px5.OnResponse = func(id string, w http.ResponseWriter, req *http.Request) bool {
		in := getInner(id)
		waitStall(id)
		px5.AcceptUpload(id, w, req, in.feed)
		in.finish()
		return true
	}
	agent5, err := startAgent(r, agentBin, "agent-health", md, px5.URL(), backend.Addr(), "b5h", "--health-check-path=/healthz", "--health-check-interval-seconds=1", "--health-check-unhealthy-threshold=2")
	if err != nil {
		r.Broken(err.Error())
		r.Finish(1)
	}
	defer agent5.Kill()
	pxFor = func(c c05Case) *fakes.Proxy {
		switch {
		case c.Health:
			return px5
		case c.VMID:
			return px4
		case c.HTML:
			return px2
		case c.Wrapped:
			return px3
		}
		return px
	}

	// the progress bounds below are for chunks, not for the start-up of three agent processes on a busy machine
	for d := time.Now().Add(60 * time.Second); time.Now().Before(d) && (px.Lists() == 0 || px2.Lists() == 0 || px3.Lists() == 0 || px4.Lists() == 0 || px5.Lists() == 0); {
		time.Sleep(10 * time.Millisecond)
	}
	if px.Lists() == 0 || px2.Lists() == 0 || px3.Lists() == 0 || px4.Lists() == 0 || px5.Lists() == 0 {
		r.Broken("C05: an agent made no pending-list call within 60 s of its start")
		r.Finish(1)
	}
	h2Done := make(chan struct{})
	go func() {
		defer close(h2Done)
		c05H2(r, agentBin, md)
	}()
	defer func() { <-h2Done }()
	rng := r.Rand("c05")
	n := r.Pick(48, 640)
	sizes := []int{1, 2, 100, 4095, 4096, 4097, 32 << 10, 1 << 20}
	var cases []c05Case
	for i := 0; i < n; i++ {
		c := c05Case{ID: fmt.Sprintf("s%dc%d", r.Seed, i), SSE: i%3 == 0, PauseMs: []int{0, 0, 1, 10, 50}[rng.Intn(5)]}
		cnt := []int{1, 2, 3, 8, 20, 50}[rng.Intn(6)]
		szClass := rng.Intn(len(sizes) + 2)
		maxSz := 0
		for k := 0; k < cnt; k++ {
			var s int
			switch {
			case szClass < len(sizes):
				s = sizes[szClass]
			case szClass == len(sizes):
				s = 1 + rng.Intn(70000)
			default:
				s = sizes[rng.Intn(len(sizes))]
			}
			if s >= 1<<20 && (cnt > 8 || r.Quick() && cnt > 3) {
				s = 32 << 10
			}
			if s > maxSz {
				maxSz = s
			}
			c.Chunks = append(c.Chunks, s)
		}
		switch i % 5 {
		case 1:
			c.CL, c.SSE = true, false
			if i%10 == 1 {
				// a small declared length produced in several pieces (total <= 2 KiB)
				c.Chunks = nil
				maxSz = 0
				for k, tot := 0, 0; k < 2+rng.Intn(7); k++ {
					n := []int{1, 20, 64, 100, 256}[rng.Intn(5)]
					if tot+n > 2000 {
						break
					}
					tot += n
					if n > maxSz {
						maxSz = n
					}
					c.Chunks = append(c.Chunks, n)
				}
				cnt = len(c.Chunks)
			}
		case 3:
			c.HTML, c.SSE = true, false
			c.CL = i%10 == 3
		}
		if i%5 == 4 {
			c.Wrapped = true
			c.NoCT = i%10 == 9
		}
		if i%15 == 0 {
			c.NoCT = true
		}
		c.Status = []int{200, 200, 200, 201, 206, 404, 500, 502, 503}[rng.Intn(9)]
		if i == 2 || i == 7 || (!r.Quick() && i%40 == 2) {
			// a long free-running stream of small chunks (~6.5 s): coalescing that waits for a pause shows up here
			c.CL, c.HTML, c.SSE = false, false, i == 7
			c.PaceMs = []int{5, 10}[i%2]
			c.Chunks = nil
			for k := 0; k < 6500/c.PaceMs; k++ {
				c.Chunks = append(c.Chunks, 8)
			}
			cnt, maxSz = len(c.Chunks), 8
		}
		c.VMID = i%9 == 8 && !c.HTML && !c.Wrapped
		c.Trailers = i%7 == 5 && !c.CL && c.PaceMs == 0
		c.Class = fmt.Sprintf("n=%d|max=%s|mix=%v|pause=%d|sse=%v|cl=%v|shim-html=%v|wrapped=%v|pace=%d|status=%d|no-ct=%v", cnt, sizeClass(maxSz), szClass >= len(sizes), c.PauseMs, c.SSE, c.CL, c.HTML, c.Wrapped, c.PaceMs, c.Status, c.NoCT)
		if c.Trailers {
			c.Class += "|announced-trailers"
		}
		if c.VMID {
			c.Class += "|vm-identity"
		}
		cases = append(cases, c)
	}
	// fixed cases: a 200 response that declares no Content-Type and starts with small pieces, fetched as a page navigation
	// through the banner-wrapped agent and as a plain request through the default one
	for k, wrapped := range []bool{true, false, true} {
		c := c05Case{ID: fmt.Sprintf("s%dnoct%d", r.Seed, k), Chunks: []int{100, 1, 300, 4097, 20}[:3+k], Wrapped: wrapped, NoCT: true, Status: 200, PauseMs: k * 10}
		c.Class = fmt.Sprintf("fixed|no-content-type|wrapped=%v|n=%d", wrapped, len(c.Chunks))
		cases = append(cases, c)
	}
	// fixed cases: a blip of the pending-list endpoint in the middle of a stream (plain agent), and a backend that falls
	// silent for 11.5 s between two chunks of a response that is already streaming
	cases = append(cases,
		c05Case{ID: fmt.Sprintf("s%dblip", r.Seed), Chunks: []int{100, 100, 100, 4097, 100, 1}, ListBlip: true, PauseMs: 20, Class: "fixed|pending-list-blip-mid-stream"},
		c05Case{ID: fmt.Sprintf("s%dquiet", r.Seed), Chunks: []int{100, 100}, PauseMs: 11500, SSE: true, Class: "fixed|backend-silent-11.5s-mid-stream"})
	// fixed cases: a 5 s stream from a backend that cannot answer its health path meanwhile (agent with health checks on); a
	// response whose first upload attempt the proxy turns down at once
	{
		hc := c05Case{ID: fmt.Sprintf("s%dbusy", r.Seed), Chunks: []int{100, 100, 100, 100, 100, 100, 100}, PauseMs: 800, Health: true, Class: "fixed|health-checked-backend-busy-for-5s"}
		cases = append(cases, hc)
		for k, ch := range [][]int{{100, 100, 100}, {1, 2000, 100, 4097}, {300, 70000}} {
			cases = append(cases, c05Case{ID: fmt.Sprintf("s%dfp%d", r.Seed, k), Chunks: ch, PauseMs: k * 10, SSE: k == 1, FirstPostFails: true, Class: fmt.Sprintf("fixed|first-upload-attempt-rejected|n=%d", len(ch))})
		}
	}
	run := func(cs []c05Case, T time.Duration, par int) {
		sem := make(chan struct{}, par)
		var wg sync.WaitGroup
		for _, c := range cs {
			mu.Lock()
			scripts[c.ID] = c
			bound[c.ID] = T
			delete(outcomes, c.ID)
			delete(inners, c.ID)
			mu.Unlock()
			sem <- struct{}{}
			wg.Add(1)
			go func(c c05Case) {
				defer wg.Done()
				defer func() { <-sem }()
				var w rawhttp.Builder
				w.Line("GET /c05/"+c.ID+" HTTP/1.1").Field("Host", "c05.example").Field("Accept-Encoding", "identity")
				if c.Wrapped {
					w.Field("Accept", "text/html,*/*;q=0.8") // goes through the banner's response writer (the response itself is not HTML)
				}
				w.End()
				pxFor(c).Enqueue(c.ID, w.Bytes(), "")
				// wait for the backend side to finish the script
				deadline := time.Now().Add(T*time.Duration(len(c.Chunks)+2) + 10*time.Second)
				for time.Now().Before(deadline) {
					mu.Lock()
					_, done := outcomes[c.ID]
					mu.Unlock()
					if done {
						return
					}
					time.Sleep(2 * time.Millisecond)
				}
			}(c)
		}
		wg.Wait()
	}
	run(cases, 5*time.Second, 8)
	var lat []time.Duration
	var total int64
	confirmedMisses := 0
	for _, c := range cases {
		mu.Lock()
		out := outcomes[c.ID]
		mu.Unlock()
		r.Case(c.Class)
		if out == nil || out.missedAt >= 0 || !out.completed {
			if confirmedMisses >= 4 {
				// enough confirmed witnesses; further misses of the first run are not re-run (each costs >= 10 s)
				r.Inconclusive(fmt.Sprintf("case %s missed the 5s bound; not re-confirmed because 4 misses were already confirmed", c.ID))
				continue
			}
			// confirm alone with a doubled bound
			c2 := c
			c2.ID = c.ID + "-solo"
			if c.PaceMs > 0 {
				// the doubled bound needs a stream that lasts longer than the bound
				c2.Chunks = nil
				for k := 0; k < 13000/c.PaceMs; k++ {
					c2.Chunks = append(c2.Chunks, 8)
				}
			}
			run([]c05Case{c2}, 10*time.Second, 1)
			mu.Lock()
			o2 := outcomes[c2.ID]
			mu.Unlock()
			switch {
			case o2 == nil:
				r.Violate("C05:request-never-reached-backend", fmt.Sprintf("case %v: the request was listed but the backend script never ran or finished", c.Chunks), c, nil)
			case o2.missedAt >= 0:
				first := "later"
				if o2.missedAt == 0 {
					first = "first"
				}
				r.Violate("C05:chunk-not-relayed:"+first+"-chunk:"+sizeClass(c2.Chunks[o2.missedAt]), fmt.Sprintf("chunk %d (%d bytes) of %v was flushed by the backend but the proxy had observed only %d body bytes 10s later (and 5s in the first run)", o2.missedAt, c2.Chunks[o2.missedAt], trimInts(c2.Chunks), o2.observed), c, nil)
			case !o2.completed:
				r.Violate("C05:response-did-not-complete", fmt.Sprintf("all chunks %v observed but the upload did not complete within 10s", c.Chunks), c, nil)
			default:
				r.Inconclusive(fmt.Sprintf("case %s missed the 5s bound once but passed alone", c.ID))
				out = o2
			}
			if o2 == nil || o2.missedAt >= 0 || !o2.completed {
				confirmedMisses++
				continue
			}
		}
		lat = append(lat, out.latencies...)
		for _, s := range c.Chunks {
			total += int64(s)
		}
		// totals equal
		ups := pxFor(c).Uploads(out.c.ID)
		if len(ups) > 0 && ups[len(ups)-1].Resp != nil {
			var want int
			for _, s := range c.Chunks {
				want += s
			}
			if got := len(ups[len(ups)-1].Resp.Body); got != want {
				r.Violate("C05:streamed-body-length", fmt.Sprintf("uploaded body has %d bytes, backend sent %d", got, want), c, nil)
			}
		}
		if len(c.Chunks) > 1 && len(c.Chunks) < 10 {
			r.Sample(map[string]interface{}{"case": c, "chunk_latencies_us": durUs(out.latencies)})
		}
	}
	// concurrent streams: N responses open at once, each in lock-step, none continuing before all had their first chunk observed
	groupSizes := []int{24}
	if !r.Quick() {
		groupSizes = []int{24, 40, 100}
	}
	for gi, gn := range groupSizes {
		mk := func(tag string) []c05Case {
			var cs []c05Case
			for k := 0; k < gn; k++ {
				cs = append(cs, c05Case{ID: fmt.Sprintf("s%dg%d%sk%d", r.Seed, gi, tag, k), Chunks: []int{100, 1, 4097}, Group: fmt.Sprintf("g%d%s", gi, tag), GroupN: gn,
					SSE: k%2 == 0, Class: fmt.Sprintf("concurrent-streams=%d", gn)})
			}
			return cs
		}
		missed := func(cs []c05Case) (int, *c05Outcome) {
			n := 0
			var first *c05Outcome
			for _, c := range cs {
				mu.Lock()
				out := outcomes[c.ID]
				mu.Unlock()
				if out == nil || out.missedAt >= 0 || !out.completed {
					n++
					if first == nil && out != nil {
						first = out
					}
				} else {
					lat = append(lat, out.latencies...)
				}
			}
			return n, first
		}
		cs := mk("a")
		run(cs, 5*time.Second, gn)
		r.Cases(cs[0].Class, gn)
		if n, _ := missed(cs); n > 0 {
			// confirm with the whole group again (the streams only interfere with each other) and a doubled bound
			cs2 := mk("b")
			run(cs2, 10*time.Second, gn)
			if n2, first := missed(cs2); n2 > 0 {
				obs := int64(-1)
				at := -1
				if first != nil {
					obs, at = first.observed, first.missedAt
				}
				r.Violate("C05:chunk-not-relayed:concurrent-streams", fmt.Sprintf("%d of %d concurrently open responses made no progress within 10s (and %d within 5s in the first run): e.g. chunk %d flushed by the backend, proxy had observed %d body bytes", n2, gn, n, at, obs), cs2[0], nil)
			} else {
				r.Inconclusive(fmt.Sprintf("%d of %d concurrent streams missed the 5s bound once, none on the re-run", n, gn))
			}
		}
	}
	// neighbours of a stalled upload: while the proxy does not read one large response (so that its relay is blocked
	// mid-write inside the agent), other responses through the same agent must keep streaming in lock-step
	for wi, wrapped := range []bool{false, true} {
		scenario := func(tag string, T time.Duration) (missed int, first *c05Outcome, stalled bool) {
			idA := fmt.Sprintf("s%dstall%d%s", r.Seed, wi, tag)
			a := c05Case{ID: idA, Stall: true, Wrapped: wrapped}
			for k := 0; k < 96; k++ {
				a.Chunks = append(a.Chunks, 1<<20)
			}
			rel := make(chan struct{})
			mu.Lock()
			stallCh[idA] = rel
			scripts[idA] = a
			bound[idA] = T
			mu.Unlock()
			var w rawhttp.Builder
			w.Line("GET /c05/"+idA+" HTTP/1.1").Field("Host", "c05.example").Field("Accept-Encoding", "identity").End()
			pxFor(a).Enqueue(idA, w.Bytes(), "")
			// wait until the upload of A has reached the proxy (which then does not read it) and the backend has had time to fill every buffer on the way
			for d := time.Now().Add(10 * time.Second); time.Now().Before(d); time.Sleep(5 * time.Millisecond) {
				mu.Lock()
				ok := stallArrived[idA]
				mu.Unlock()
				if ok {
					stalled = true
					break
				}
			}
			// ... i.e. until the backend's writes have come to a halt (no progress for 600 ms, after at least 4 MiB)
			for d, last, since := time.Now().Add(30*time.Second), int64(-1), time.Now(); time.Now().Before(d); time.Sleep(20 * time.Millisecond) {
				mu.Lock()
				wr := stallWritten[idA]
				mu.Unlock()
				if wr != last {
					last, since = wr, time.Now()
				} else if wr >= 4<<20 && time.Since(since) > 600*time.Millisecond {
					break
				}
			}
			if os.Getenv("VERIF_DEBUG") != "" {
				mu.Lock()
				fmt.Fprintf(os.Stderr, "DEBUG neighbour %s: backend wrote %d bytes of the stalled response before the neighbours start\n", idA, stallWritten[idA])
				mu.Unlock()
			}
			var cs []c05Case
			for k := 0; k < 4; k++ {
				cs = append(cs, c05Case{ID: fmt.Sprintf("s%dnb%d%sk%d", r.Seed, wi, tag, k), Chunks: []int{100, 4097, 1, 100}, Wrapped: wrapped, SSE: k%2 == 0,
					Class: fmt.Sprintf("neighbour-of-stalled-upload|wrapped=%v", wrapped)})
			}
			t0 := time.Now()
			run(cs, T, 4)
			// (these exchanges take milliseconds; one that needs longer than the bound from request to completion made no
			// progress for that long, wherever inside the agent it was held up)
			slow := time.Since(t0) > T
			for _, c := range cs {
				mu.Lock()
				out := outcomes[c.ID]
				mu.Unlock()
				if out == nil || out.missedAt >= 0 || !out.completed || slow {
					missed++
					if first == nil && out != nil {
						first = out
					}
				} else {
					lat = append(lat, out.latencies...)
					if os.Getenv("VERIF_DEBUG") != "" {
						fmt.Fprintf(os.Stderr, "DEBUG neighbour %s latencies %v\n", c.ID, out.latencies)
					}
				}
			}
			close(rel)
			pxFor(a).Wait(idA, 30*time.Second)
			return
		}
		n, _, stalled := scenario("a", 5*time.Second)
		if os.Getenv("VERIF_DEBUG") != "" {
			fmt.Fprintf(os.Stderr, "DEBUG neighbour wrapped=%v first run: missed=%d stalled=%v\n", wrapped, n, stalled)
		}
		r.Cases(fmt.Sprintf("neighbour-of-stalled-upload|wrapped=%v", wrapped), 4)
		if !stalled {
			r.Inconclusive("neighbour scenario: the large response never started uploading")
		}
		if n > 0 {
			n2, first, st2 := scenario("b", 10*time.Second)
			if os.Getenv("VERIF_DEBUG") != "" {
				fmt.Fprintf(os.Stderr, "DEBUG neighbour wrapped=%v second run: missed=%d stalled=%v\n", wrapped, n2, st2)
			}
			if n2 > 0 {
				obs, at := int64(-1), -1
				if first != nil {
					obs, at = first.observed, first.missedAt
				}
				r.Violate("C05:chunk-not-relayed:neighbour-of-stalled-upload", fmt.Sprintf("while the upload of a 96 MiB response was not being read by the proxy (agent wrapped=%v), %d of 4 other responses made no progress within 10s (and %d within 5s in the first run; a flushed chunk not relayed, or the exchange held up before it reached the backend): e.g. chunk %d flushed, %d body bytes observed", wrapped, n2, n, at, obs), nil, nil)
			} else {
				r.Inconclusive(fmt.Sprintf("%d neighbour responses missed the 5s bound once, none on the re-run", n))
			}
		}
	}
	sort.Slice(lat, func(i, j int) bool { return lat[i] < lat[j] })
	if len(lat) > 0 {
		r.Set("chunk_latency_us", map[string]int64{"p50": lat[len(lat)/2].Microseconds(), "p99": lat[len(lat)*99/100].Microseconds(), "max": lat[len(lat)-1].Microseconds()})
	}
	r.Set("chunks_observed_in_lock_step", len(lat))
	r.Set("body_bytes_streamed", total)
	<-h2Done
	r.Set("uploads_stamped_with_vm_identity", atomic.LoadInt64(&vmStamped))
	r.Set("health_checks_answered_by_the_busy_backend", atomic.LoadInt64(&healthReplies))
	judgeProcs(r, true, agent, agent2, agent3, agent4, agent5)
	agent.Kill()
	agent2.Kill()
	agent3.Kill()
	agent4.Kill()
	agent5.Kill()
	r.JudgeRaces(core.ParseRaceLogs(filepath.Join(r.WorkDir, "race-")))
	r.Finish(r.Pick(30, 400))
}

func durUs(ds []time.Duration) []int64 {
	out := make([]int64, len(ds))
	for i, d := range ds {
		out[i] = d.Microseconds()
	}
	return out
}

var _ = atomic.AddInt64

// trimInts shortens a long chunk list for messages.
func trimInts(v []int) []int {
	if len(v) > 24 {
		return append(append([]int{}, v[:24]...), -len(v))
	}
	return v
}

// c05H2: an agent started with --force-http2 in front of an h2c backend.  Two
// responses stream in lock-step over the one shared HTTP/2 connection, one of
// them for longer than 12 s (16 chunks, 800 ms apart), the other one briefly
// right at the start: every chunk must be observed at the proxy within the bound.
func c05H2(r *core.Run, agentBin string, md *fakes.Metadata) {
	px, err := fakes.NewProxy()
	if err != nil {
		r.Broken(err.Error())
		return
	}
	defer px.Close()
	px.ListWait = 100 * time.Millisecond
	var mu sync.Mutex
	inners := map[string]*c05Inner{}
	getInner := func(id string) *c05Inner {
		mu.Lock()
		defer mu.Unlock()
		if inners[id] == nil {
			inners[id] = newC05Inner()
		}
		return inners[id]
	}
	px.OnResponse = func(id string, w http.ResponseWriter, req *http.Request) bool {
		in := getInner(id)
		px.AcceptUpload(id, w, req, in.feed)
		in.finish()
		return true
	}
	type outcome struct {
		missedAt int
		observed int64
		done     bool
	}
	outs := map[string]*outcome{}
	const T = 5 * time.Second
	handler := http.HandlerFunc(func(w http.ResponseWriter, req *http.Request) {
		id := strings.TrimPrefix(req.URL.Path, "/h2/")
		n, pause := 16, 800*time.Millisecond
		if strings.HasSuffix(id, "short") {
			n, pause = 4, 10*time.Millisecond
		}
		in := getInner(id)
		out := &outcome{missedAt: -1}
		w.Header().Set("Content-Type", "text/event-stream")
		w.WriteHeader(200)
		var sent int64
		for i := 0; i < n; i++ {
			piece := tokBytes(id, fmt.Sprint(i), 200+i)
			if _, err := w.Write(piece); err != nil {
				out.missedAt = i
				break
			}
			w.(http.Flusher).Flush()
			sent += int64(len(piece))
			ok, got := in.waitBody(sent, T)
			out.observed = got
			if !ok {
				out.missedAt = i
				break
			}
			time.Sleep(pause)
		}
		out.done = true
		mu.Lock()
		outs[id] = out
		mu.Unlock()
	})
	l, err := net.Listen("tcp", "127.0.0.1:0")
	if err != nil {
		r.Broken(err.Error())
		return
	}
	srv := &http.Server{Handler: h2c.NewHandler(handler, &http2.Server{})}
	go srv.Serve(l)
	defer srv.Close()
	agent, err := startAgent(r, agentBin, "agent-h2", md, px.URL(), l.Addr().String(), "b5h2", "--force-http2=true")
	if err != nil {
		r.Broken(err.Error())
		return
	}
	defer agent.Kill()
	for d := time.Now().Add(60 * time.Second); time.Now().Before(d) && px.Lists() == 0 && agent.Alive(); {
		time.Sleep(10 * time.Millisecond)
	}
	ids := []string{fmt.Sprintf("s%dh2long", r.Seed), fmt.Sprintf("s%dh2short", r.Seed)}
	for _, id := range ids {
		var w rawhttp.Builder
		w.Line("GET /h2/"+id+" HTTP/1.1").Field("Host", "c05.example").Field("Accept-Encoding", "identity").End()
		px.Enqueue(id, w.Bytes(), "")
	}
	for d := time.Now().Add(16*800*time.Millisecond + T + 20*time.Second); time.Now().Before(d); time.Sleep(20 * time.Millisecond) {
		mu.Lock()
		n := len(outs)
		mu.Unlock()
		if n == len(ids) {
			break
		}
	}
	for _, id := range ids {
		r.Case("h2c-backend|" + strings.TrimPrefix(id, fmt.Sprintf("s%dh2", r.Seed)))
		mu.Lock()
		out := outs[id]
		mu.Unlock()
		switch {
		case out == nil:
			r.Inconclusive("h2c lane: the request " + id + " never finished at the backend")
		case out.missedAt >= 0:
			r.Violate("C05:h2:chunk-not-relayed", fmt.Sprintf("h2c backend behind --force-http2: chunk %d of the %s stream was flushed by the backend but not observed at the proxy within %v (%d body bytes observed; the stream had been running for about %.1f s)", out.missedAt, strings.TrimPrefix(id, fmt.Sprintf("s%dh2", r.Seed)), T, out.observed, float64(out.missedAt)*0.8), nil, nil)
		}
	}
	judgeProcs(r, true, agent)
}
