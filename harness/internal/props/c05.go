package props

import "verif/internal/core"

// C05 — stub, replaced by the real check.
func C05(r *core.Run) {
	r.Broken("check not implemented yet")
	r.Finish(1)
}
