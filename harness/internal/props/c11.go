package props

import (
	"encoding/json"
	"fmt"
	"path/filepath"
	"sync"
	"time"

	"verif/internal/core"
)

type c11Case struct {
	ID        string `json:"id"`
	Seed      int64  `json:"seed"`
	Inject    bool   `json:"inject"`
	Version   int    `json:"version"`
	Sessions  int    `json:"sessions"`
	Sizes     string `json:"sizes"`
	Kinds     string `json:"kinds"`
	C2S       int    `json:"c2s"`
	S2C       int    `json:"s2c"`
	Batch     string `json:"batch"`
	Poll      string `json:"poll"`
	Tail      int    `json:"tail,omitempty"`
	TailData  bool   `json:"tail_data,omitempty"`
	CloseRace bool   `json:"close_race,omitempty"`
	SlowMs    int    `json:"slow_ms,omitempty"`
	Reopen    string `json:"reopen,omitempty"`
	Quiet     int    `json:"quiet,omitempty"`
	PauseMs   int    `json:"pause_ms,omitempty"`
	PingUs    int    `json:"ping_us,omitempty"`
	Rewrite   bool   `json:"rewrite,omitempty"`
}

func (c c11Case) class() string {
	if c.CloseRace {
		return fmt.Sprintf("close-behind-data|sizes=%s|kinds=%s|batch=%s|n=%s|backend reads 1 msg per %dms", c.Sizes, c.Kinds, c.Batch, c11Bucket(c.C2S), c.SlowMs)
	}
	if c.PingUs > 0 {
		return fmt.Sprintf("%d messages of 0.5-1 MiB uploaded while the backend pings every %d us", c.C2S, c.PingUs)
	}
	if c.PauseMs > 0 {
		return fmt.Sprintf("backend busy (not reading) for %d ms then resumes, client keeps posting", c.PauseMs)
	}
	if c.Quiet > 0 {
		return fmt.Sprintf("%d quiet sessions polled like the browser shim, backend speaks at 16 s and 20.6 s", c.Quiet)
	}
	if c.Reopen != "" {
		return fmt.Sprintf("open-A,open-B,A-ends(%s),open-C,traffic-on-B-and-C|inject=%v|v%d|sizes=%s|kinds=%s|batch=%s|poll=%s", c.Reopen, c.Inject, c.Version, c.Sizes, c.Kinds, c.Batch, c.Poll)
	}
	if c.Tail > 0 {
		return fmt.Sprintf("inject=%v|v%d|sessions=%d|sizes=%s|kinds=%s|batch=%s|poll=%s|final-burst=%s+backend-close%s", c.Inject, c.Version, c.Sessions, c.Sizes, c.Kinds, c.Batch, c.Poll, c11Bucket(c.Tail), map[bool]string{true: "+data-post-before-first-poll", false: ""}[c.TailData])
	}
	return fmt.Sprintf("inject=%v|rewriteHost=%v|v%d|sessions=%d|sizes=%s|kinds=%s|batch=%s|poll=%s", c.Inject, c.Rewrite, c.Version, c.Sessions, c.Sizes, c.Kinds, c.Batch, c.Poll)
}

type c11Result struct {
	ID            string            `json:"id"`
	C2S           int               `json:"c2s"`
	S2C           int               `json:"s2c"`
	Bytes         int64             `json:"bytes"`
	Posts         int               `json:"posts"`
	MaxPost       int               `json:"max_post"`
	PostsOver10   int               `json:"posts_over10"`
	SpanningPosts int               `json:"spanning_posts"`
	Polls         int               `json:"polls"`
	MaxPollBatch  int               `json:"max_poll_batch"`
	PollsOver10   int               `json:"polls_over10"`
	Bursts        int               `json:"bursts"`
	MaxBurst      int               `json:"max_burst"`
	PollShape     string            `json:"poll_shape"`
	SizeClasses   map[string]int    `json:"size_classes"`
	JSONClasses   map[string]int    `json:"json_classes"`
	TailCarried   int               `json:"tail_carried"`
	TailPolls     int               `json:"tail_polls"`
	TailDataPosts int               `json:"tail_data_posts"`
	CloseRaceMsgs int               `json:"close_race_msgs"`
	Injected      int               `json:"injected"`
	KeysAdded     int               `json:"keys_added"`
	Unchanged     int               `json:"unchanged"`
	Violations    []string          `json:"violations"`
	Timeout       bool              `json:"timeout"`
	Panic         string            `json:"panic"`
	Ms            int64             `json:"ms"`
	Detail        map[string]string `json:"detail"`
}

func c11Bucket(n int) string {
	switch {
	case n <= 1:
		return fmt.Sprint(n)
	case n <= 9:
		return "2-9"
	case n == 10 || n == 11:
		return fmt.Sprint(n)
	case n <= 30:
		return "12-30"
	}
	return ">30"
}

func c11Cases(r *core.Run) []c11Case {
	rng := r.Rand("c11")
	n := r.Pick(150, 4000)
	sizes := []string{"small", "edges", "mixed", "big"}
	kinds := []string{"text", "binary", "mixed"}
	batches := []string{"ones", "small", "over10", "mixed"}
	polls := []string{"before", "while", "trickle", "mixed"}
	weighted := func(ws []int) int {
		t := 0
		for _, w := range ws {
			t += w
		}
		k := rng.Intn(t)
		for i, w := range ws {
			if k < w {
				return i
			}
			k -= w
		}
		return 0
	}
	var out []c11Case
	// first, so that its 21 s of mostly waiting overlap everything else
	out = append(out, c11Case{ID: fmt.Sprintf("c11-s%d-quiet", r.Seed), Seed: r.Seed, Quiet: 6, Version: 1, Sessions: 6})
	// uploads of large multi-frame messages to a backend that keeps pinging (own worker process: see C11)
	for i := 0; i < r.Pick(2, 8); i++ {
		out = append(out, c11Case{ID: fmt.Sprintf("c11-s%d-ping%d", r.Seed, i), Seed: r.Seed*100 + int64(i), PingUs: []int{1500, 1000, 2000, 500}[i%4], C2S: r.Pick(14, 40), Version: 1, Sessions: 1, Rewrite: i%2 == 1})
	}
	// also mostly waiting, overlapping the quiet history: a backend that is busy for several seconds
	for i, ms := range []int{7000, 6000, 9000, 12000}[:r.Pick(1, 4)] {
		out = append(out, c11Case{ID: fmt.Sprintf("c11-s%d-pause%d", r.Seed, i), Seed: r.Seed + int64(i), PauseMs: ms, Version: 1, Sessions: 1})
	}
	for i := 0; i < n; i++ {
		c := c11Case{ID: fmt.Sprintf("c11-s%d-%d", r.Seed, i), Seed: rng.Int63()}
		// the first cases walk every value of every dimension, the rest are drawn
		if i < 16 {
			c.Sizes, c.Kinds, c.Batch, c.Poll = sizes[i%4], kinds[i%3], batches[(i/2)%4], polls[(i/4)%4]
			c.Inject, c.Version, c.Sessions = i%4 == 3, []int{1, 1, 0, -1}[(i/3)%4], 1+(i/5)%2
		} else {
			c.Sizes = sizes[weighted([]int{35, 30, 25, 10})]
			c.Kinds = kinds[rng.Intn(3)]
			c.Batch = batches[rng.Intn(4)]
			c.Poll = polls[rng.Intn(4)]
			c.Inject = rng.Intn(5) < 2
			c.Version = []int{1, 0, -1}[weighted([]int{80, 10, 10})]
			c.Sessions = 1 + weighted([]int{75, 25})
		}
		if c.Inject && rng.Intn(5) != 0 {
			c.Kinds = "json"
		} else if rng.Intn(12) == 0 {
			c.Kinds = "json" // JSON traffic with injection disabled must pass untouched
		}
		// rewriteWebsocketHost is an independent setting: all four combinations with injection occur;
		// with injection off and rewriting on, a third of the histories carry resource.headers traffic
		c.Rewrite = i%2 == 1
		if c.Rewrite && !c.Inject && i%3 == 0 {
			c.Kinds = "json"
		}
		maxC, maxS := 150, 250
		switch c.Sizes {
		case "edges", "mixed":
			maxC, maxS = 60, 80
		case "big":
			maxC, maxS = 25, 25
		}
		c.C2S, c.S2C = rng.Intn(maxC+1), rng.Intn(maxS+1)
		if rng.Intn(20) == 0 {
			c.C2S = 0
		}
		if rng.Intn(20) == 0 {
			c.S2C = 0
		}
		// every third history ends with a burst the backend sends while nobody polls, then closes
		if i%3 == 1 {
			c.Tail = []int{1, 2, 9, 10, 11, 12, 30, 1 + rng.Intn(30)}[rng.Intn(8)]
			c.TailData = i%6 == 1 // every other one: a data post slips in between the backend's close and the first poll
		}
		out = append(out, c)
	}
	// a session ends while another stays open, then a third is opened: B and C must not get mixed up
	nReopen := r.Pick(20, 400)
	for i := 0; i < nReopen; i++ {
		c := c11Case{ID: fmt.Sprintf("c11-s%d-ro%d", r.Seed, i), Seed: rng.Int63(), Sessions: 2, Version: []int{1, 1, 1, 0}[rng.Intn(4)],
			Reopen: []string{"client-close", "backend-close"}[i%2], Sizes: []string{"small", "edges"}[rng.Intn(2)], Kinds: kinds[rng.Intn(3)],
			Batch: batches[rng.Intn(4)], Poll: polls[rng.Intn(4)], C2S: 2 + rng.Intn(60), S2C: 2 + rng.Intn(80), Inject: rng.Intn(6) == 0}
		if c.Inject {
			c.Kinds = "json"
		}
		out = append(out, c)
	}
	// close right behind data posts, backend reading slowly
	nRace := r.Pick(24, 600)
	for i := 0; i < nRace; i++ {
		c := c11Case{ID: fmt.Sprintf("c11-s%d-cr%d", r.Seed, i), Seed: rng.Int63(), CloseRace: true, Version: 1, Sessions: 1,
			Kinds: kinds[rng.Intn(3)], Batch: batches[rng.Intn(4)], SlowMs: []int{5, 10, 20}[rng.Intn(3)]}
		switch i % 3 {
		case 0: // more than the 10-slot queue, small messages
			c.Sizes, c.C2S = "small", 11+rng.Intn(25)
		case 1: // 1 MiB messages: the writer is still busy with them when the close is posted
			c.Sizes, c.C2S = "big", 1+rng.Intn(4)
		default:
			c.Sizes, c.C2S = "edges", 1+rng.Intn(20)
		}
		out = append(out, c)
	}
	return out
}

// C11 — shimmed websockets deliver every message once, in order, unchanged.
func C11(r *core.Run) {
	r.Level = "exploration"
	r.SetRule("websockets.Proxy driven in-process (race-built worker, agent's GODEBUG defaults) against a real gorilla websocket backend; one case = one seeded message history over 1-2 shim sessions: text (valid UTF-8 incl. NUL, quotes, <>&, U+2028, 4-byte runes) and binary (all byte values, protocol v1) messages of sizes {0,1,125,126,127,65535,65536,65537,1 MiB,random}, client messages partitioned into data posts of 1-40 (some >10 = queue capacity, some spanning two sessions), backend bursts of 1-100 sent before / while / trickling during polls, one data post and one poll outstanding per session; every third history ends with a final backend burst of 1-30 messages (incl. 10, 11, 12, 30) sent while no poll is outstanding followed by a graceful backend close (in half of them a client data post arrives before the first poll), after which polls must deliver the burst and then report the session closed; plus one quiet history: 6 idle sessions polled the way the browser shim polls (one poll outstanding, re-poll on every answer) while the backend is silent for 16 s, speaks, and speaks again at 20.6 s (around the 20 s poll time-out), every message to be delivered exactly once; plus uploads of 14 (thorough 40) messages of 0.5-1 MiB (hundreds of frames each) to a backend that sends a keep-alive ping every 0.5-2 ms, run in a worker process of their own so that a panic on a connection goroutine is attributed; rewriteWebsocketHost varied independently of injection (all four combinations, resource.headers traffic in each); plus a busy-backend history: the backend does not read for 7 s (thorough also 6, 9, 12 s) and then resumes, while the client posts a 12 MiB message, ten small ones and further posts that have to wait for room, and goes on posting whatever the answers are; what the backend receives must be a gap-free prefix of what was posted and contain every post answered 200; plus reopen histories: open A, open B, traffic on A, A ends (client close | backend close reported by a poll), open C, then interleaved two-session traffic (posts spanning B and C) with every backend connection and every session's polls checked for exactly their own messages; plus close-behind-data histories: 1-35 messages (more than the queue, or 1 MiB each) posted to a backend that reads one message per 5-20 ms, close posted right behind the last data post, all messages must arrive in order followed by a normal closure; with injection enabled JSON messages of 13 shapes around resource.headers; class = (injection, protocol version, sessions, size profile, kinds, post batching, poll timing)")
	r.Assume("binary messages are only generated under shim protocol version 1 (version 0 carries text only); JSON numbers in injected messages are float64-exact; injection is judged as safety only (an unchanged message is always acceptable)")
	bin := r.MustBuild(r.BuildWorker())
	godebug := shimGodebug(r)
	cases := c11Cases(r)
	if r.OnlyCase >= 0 && r.OnlyCase < len(cases) {
		cases = cases[r.OnlyCase : r.OnlyCase+1]
	}
	byID := map[string]c11Case{}
	var generic []interface{}
	for _, c := range cases {
		byID[c.ID] = c
		generic = append(generic, c)
	}
	hits := map[string]int64{}
	var hmu sync.Mutex
	run := func(cs []interface{}, shards, parallel int) ([]c11Result, []shimCrash) {
		lines, crashes := shimRun(r, bin, "c11", cs, shards, map[string]interface{}{"parallel": parallel}, 12*time.Minute, "GODEBUG="+godebug)
		var out []c11Result
		for _, ln := range lines {
			hmu.Lock()
			isHits := shimAddHits(hits, ln)
			hmu.Unlock()
			if isHits {
				continue
			}
			var res c11Result
			if json.Unmarshal(ln, &res) == nil && res.ID != "" {
				out = append(out, res)
			}
		}
		return out, crashes
	}
	// the ping uploads get a worker process of their own: what they may provoke is a panic on one of
	// the connection's goroutines, which takes the process (in the agent: the agent) down
	var pingCases, otherCases []interface{}
	for _, c := range cases {
		if c.PingUs > 0 {
			pingCases = append(pingCases, c)
		} else {
			otherCases = append(otherCases, c)
		}
	}
	var results []c11Result
	var crashes []shimCrash
	var pwg sync.WaitGroup
	if len(pingCases) > 0 {
		pwg.Add(1)
		go func() {
			defer pwg.Done()
			rs, cr := run(pingCases, 1, 2)
			hmu.Lock()
			results = append(results, rs...)
			crashes = append(crashes, cr...)
			hmu.Unlock()
		}()
	}
	if len(otherCases) > 0 {
		rs, cr := run(otherCases, 8, 4)
		hmu.Lock()
		results = append(results, rs...)
		crashes = append(crashes, cr...)
		hmu.Unlock()
	}
	pwg.Wait()
	shimJudgeCrashes(r, crashes)

	seen := map[string]bool{}
	shapes := map[string]bool{}
	sizeHist, jsonHist := map[string]int{}, map[string]int{}
	var maxMs int64
	for _, res := range results {
		c := byID[res.ID]
		seen[res.ID] = true
		r.Case(c.class())
		r.Add("messages_client_to_server", res.C2S)
		r.Add("messages_server_to_client", res.S2C)
		r.Add("payload_bytes_carried", int(res.Bytes))
		r.Add("data_posts", res.Posts)
		r.Add("data_posts_over_10_messages", res.PostsOver10)
		r.Add("data_posts_spanning_two_sessions", res.SpanningPosts)
		r.Add("polls", res.Polls)
		r.Add("poll_replies_over_10_messages", res.PollsOver10)
		r.Add("backend_bursts", res.Bursts)
		r.Max("max_messages_in_one_post", res.MaxPost)
		r.Max("max_messages_in_one_poll_reply", res.MaxPollBatch)
		r.Max("max_backend_burst", res.MaxBurst)
		r.Add("messages_delivered_after_final_burst_and_backend_close", res.TailCarried)
		r.Add("polls_after_backend_close", res.TailPolls)
		r.Add("data_posts_between_backend_close_and_first_poll", res.TailDataPosts)
		r.Add("messages_delivered_ahead_of_close_to_slow_backend", res.CloseRaceMsgs)
		if c.PingUs > 0 {
			r.Add("large_message_uploads_under_backend_pings", 1)
		}
		if c.Reopen != "" {
			r.Add("histories_opening_a_session_after_another_ended_while_a_third_is_live", 1)
		}
		if c.CloseRace {
			r.Add("close_behind_data_histories", 1)
		} else if c.Tail > 0 {
			r.Add("histories_ending_with_burst_and_backend_close", 1)
		}
		r.Add("injection_messages_extended", res.Injected)
		r.Add("injection_keys_added", res.KeysAdded)
		r.Add("injection_messages_left_identical", res.Unchanged)
		shapes[res.PollShape] = true
		for k, v := range res.SizeClasses {
			sizeHist[k] += v
		}
		for k, v := range res.JSONClasses {
			jsonHist[k] += v
		}
		if res.Ms > maxMs {
			maxMs = res.Ms
		}
		if len(res.Violations) > 0 {
			confirmed := res
			if res.Timeout {
				// a harness wait expired: only counts if it happens again when the case runs alone
				rr, cr := run([]interface{}{c}, 1, 1)
				shimJudgeCrashes(r, cr)
				if len(rr) != 1 || len(rr[0].Violations) == 0 {
					r.Inconclusive(fmt.Sprintf("case %s missed a progress bound once (%s) but passed when re-run alone", c.ID, res.Violations[0]))
					continue
				}
				confirmed = rr[0]
			}
			for _, v := range confirmed.Violations {
				sig, msg := shimSplit(v)
				r.Violate(sig, fmt.Sprintf("%s [%s]: %s", c.ID, c.class(), msg), c, map[string]interface{}{"poll_shape": res.PollShape, "posts": res.Posts, "max_post": res.MaxPost})
			}
		}
		if res.C2S > 20 && res.S2C > 20 {
			r.Sample(map[string]interface{}{"case": c, "carried_c2s": res.C2S, "carried_s2c": res.S2C, "posts": res.Posts, "max_post": res.MaxPost,
				"poll_reply_sizes": res.PollShape, "bursts": res.Bursts, "max_burst": res.MaxBurst, "injected": res.Injected, "keys_added": res.KeysAdded, "ms": res.Ms})
		}
	}
	for _, c := range cases {
		if !seen[c.ID] {
			r.Inconclusive("no result for case " + c.ID + " (worker died?)")
		}
	}
	r.Set("distinct_poll_batch_signatures", len(shapes))
	r.Set("message_size_classes", sizeHist)
	if len(jsonHist) > 0 {
		r.Set("injection_message_shapes", jsonHist)
	}
	r.Set("hook_hits", hits)
	r.Set("max_case_duration_ms", maxMs)
	r.Set("worker_godebug", godebug)
	r.JudgeRaces(core.ParseRaceLogs(filepath.Join(r.WorkDir, "race-")))
	r.Finish(r.Pick(185, 4800))
}
