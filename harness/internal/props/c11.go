package props

import "verif/internal/core"

// C11 — stub, replaced by the real check.
func C11(r *core.Run) {
	r.Broken("check not implemented yet")
	r.Finish(1)
}
