package props

// Engine E3: the App Engine proxy (<repo>/app, package main) driven in-package.
// The test sources in harness/appoverlay/*.go.src are added to the package
// with `go test -c -overlay`, so nothing under the repository is touched; the
// module file is redirected to a copy (-modfile) because the go command would
// otherwise rewrite <repo>/go.mod (the test file imports protobuf directly).

import (
	"bufio"
	"bytes"
	"encoding/json"
	"fmt"
	"os"
	"os/exec"
	"path/filepath"
	"regexp"
	"strings"
	"syscall"
	"time"

	"verif/internal/core"
)

// e3Build builds the test binary from the current working tree of the
// repository under test. A failure means CHECK-BROKEN, never a violation.
func e3Build(r *core.Run) (string, error) {
	srcs, _ := filepath.Glob(filepath.Join(core.VerifDir, "harness", "appoverlay", "*.go.src"))
	if len(srcs) == 0 {
		return "", fmt.Errorf("no overlay sources in harness/appoverlay")
	}
	appDir := filepath.Join(core.RepoDir, "app")
	repl := map[string]string{}
	for _, s := range srcs {
		repl[filepath.Join(appDir, strings.TrimSuffix(filepath.Base(s), ".src"))] = s
	}
	ov, _ := json.MarshalIndent(map[string]interface{}{"Replace": repl}, "", " ")
	ovPath := filepath.Join(r.WorkDir, "e3-overlay.json")
	if err := os.WriteFile(ovPath, ov, 0o644); err != nil {
		return "", err
	}
	modDir := filepath.Join(r.WorkDir, "e3mod")
	os.MkdirAll(modDir, 0o755)
	for _, n := range []string{"go.mod", "go.sum"} {
		b, err := os.ReadFile(filepath.Join(core.RepoDir, n))
		if err != nil {
			return "", err
		}
		if err := os.WriteFile(filepath.Join(modDir, n), b, 0o644); err != nil {
			return "", err
		}
	}
	bin := filepath.Join(r.WorkDir, "app.test")
	cmd := exec.Command("go", "test", "-c", "-race", "-tags", "verif", "-vet=off",
		"-modfile="+filepath.Join(modDir, "go.mod"), "-overlay", ovPath, "-o", bin, ".")
	cmd.Dir = appDir
	cmd.Env = core.GoEnv()
	b, err := cmd.CombinedOutput()
	if err != nil {
		return "", fmt.Errorf("go test -c (app + overlay): %v\n%s", err, b)
	}
	if _, err := os.Stat(bin); err != nil {
		return "", fmt.Errorf("go test -c produced no binary: %s", b)
	}
	return bin, nil
}

// e3Result is what one run of the test binary produced.
type e3Result struct {
	Lines   []json.RawMessage
	LogPath string
	SawEnd  bool
	Err     error // exit error or watchdog
	Broken  []string
}

// e3Run runs the test binary with the given spec (own process group, race
// reports to <work>/race-app.<pid>, watchdog).
func e3Run(r *core.Run, bin, name string, spec interface{}, timeout time.Duration, env ...string) *e3Result {
	res := &e3Result{}
	sb, err := json.Marshal(spec)
	if err != nil {
		res.Err = err
		return res
	}
	specPath := filepath.Join(r.WorkDir, name+".spec.json")
	outPath := filepath.Join(r.WorkDir, name+".out.jsonl")
	res.LogPath = filepath.Join(r.WorkDir, name+".log")
	os.Remove(outPath)
	if err := os.WriteFile(specPath, sb, 0o644); err != nil {
		res.Err = err
		return res
	}
	lf, err := os.Create(res.LogPath)
	if err != nil {
		res.Err = err
		return res
	}
	defer lf.Close()
	cmd := exec.Command(bin)
	cmd.Dir = r.WorkDir
	cmd.Stdout = lf
	cmd.Stderr = lf
	cmd.Env = append(os.Environ(),
		"GORACE=halt_on_error=0 log_path="+filepath.Join(r.WorkDir, "race-app"),
		"VERIF_SPEC="+specPath, "VERIF_OUT="+outPath, "VERIF_WORK="+r.WorkDir,
		"GAE_APPLICATION=s~verif-app", "GAE_MODULE_NAME=default", "GAE_ENV=", "GAE_SERVICE=")
	cmd.Env = append(cmd.Env, env...)
	cmd.SysProcAttr = &syscall.SysProcAttr{Setpgid: true, Pdeathsig: syscall.SIGKILL}
	if err := cmd.Start(); err != nil {
		res.Err = err
		return res
	}
	done := make(chan error, 1)
	go func() { done <- cmd.Wait() }()
	select {
	case res.Err = <-done:
	case <-time.After(timeout):
		syscall.Kill(-cmd.Process.Pid, syscall.SIGQUIT)
		select {
		case <-done:
		case <-time.After(5 * time.Second):
			syscall.Kill(-cmd.Process.Pid, syscall.SIGKILL)
			<-done
		}
		res.Err = fmt.Errorf("E3 watchdog fired after %s", timeout)
	}
	f, err := os.Open(outPath)
	if err != nil {
		if res.Err == nil {
			res.Err = err
		}
		return res
	}
	defer f.Close()
	rd := bufio.NewReaderSize(f, 1<<20)
	for {
		ln, err := rd.ReadBytes('\n')
		if t := bytes.TrimSpace(ln); len(t) > 0 {
			var probe struct {
				End    bool   `json:"end"`
				Broken string `json:"broken"`
			}
			if json.Unmarshal(t, &probe) == nil && (probe.End || probe.Broken != "") {
				if probe.End {
					res.SawEnd = true
				} else {
					res.Broken = append(res.Broken, probe.Broken)
				}
			} else {
				res.Lines = append(res.Lines, json.RawMessage(append([]byte(nil), t...)))
			}
		}
		if err != nil {
			break
		}
	}
	return res
}

var e3HandlerPanicRe = regexp.MustCompile(`(?m)^.*CRITICAL: panic: .*$`)

// e3Judge applies the process-level monitors to a finished run: crash
// markers in the child's output (including handler panics that the App Engine
// runtime recovers and turns into a 500), harness-side failures of the fake,
// an incomplete run.
func e3Judge(r *core.Run, res *e3Result) {
	for _, b := range res.Broken {
		r.Broken("E3: " + core.Trunc(b, 600))
	}
	crashed := false
	for _, ex := range core.CrashMarkers(res.LogPath) {
		crashed = true
		r.Violate(core.CrashSignature(ex), "the App Engine proxy process crashed; last cases started: "+strings.Join(core.LastStarted(res.LogPath, 4), ", "), nil, core.Trunc(ex, 3000))
	}
	if b, err := os.ReadFile(res.LogPath); err == nil {
		for i, loc := range e3HandlerPanicRe.FindAllIndex(b, 3) {
			end := loc[0] + 2500
			if end > len(b) {
				end = len(b)
			}
			ex := string(b[loc[0]:end])
			sig := core.CrashSignature(ex[strings.Index(ex, "panic: "):])
			r.Violate("handler-"+sig, "a request handler of the App Engine proxy panicked (recovered by the runtime, answered 500)", nil, ex)
			_ = i
		}
	}
	if !res.SawEnd && !crashed {
		r.Broken(fmt.Sprintf("E3 run did not complete (%v); last cases started: %s; log tail: %s", res.Err,
			strings.Join(core.LastStarted(res.LogPath, 4), ", "), tail(readFileStr(res.LogPath), 1500)))
	}
}

func readFileStr(p string) string {
	b, _ := os.ReadFile(p)
	return string(b)
}

// e3Finish runs the end-of-check monitors shared by C17-C19.
func e3Finish(r *core.Run, res *e3Result, minCases int) {
	e3Judge(r, res)
	r.JudgeRaces(core.ParseRaceLogs(filepath.Join(r.WorkDir, "race-")))
	r.Finish(minCases)
}

// e3Bytes is the payload generator shared with the test binary (same
// function there): n bytes determined by the token.
func e3Bytes(tok string, n int) []byte {
	x := uint64(1469598103934665603)
	for _, c := range []byte(tok) {
		x ^= uint64(c)
		x *= 1099511628211
	}
	if x == 0 {
		x = 1
	}
	b := make([]byte, n)
	for i := 0; i < n; i += 8 {
		x ^= x << 13
		x ^= x >> 7
		x ^= x << 17
		v := x
		for j := i; j < i+8 && j < n; j++ {
			b[j] = byte(v)
			v >>= 8
		}
	}
	return b
}
