package props

// bridge.go — helpers shared by the TCP-over-websocket bridge checks (C15,
// C16): building and supervising the two bridge binaries, a harness TCP
// server that plays the far TCP peer, deterministic tagged byte streams, and
// the socket census of a bridge process (/proc/<pid>/fd).

import (
	"bufio"
	"crypto/sha256"
	"encoding/binary"
	"encoding/hex"
	"fmt"
	"net"
	"os"
	"path/filepath"
	"regexp"
	"strconv"
	"strings"
	"sync"
	"syscall"
	"time"
	"unsafe"

	"verif/internal/core"
)

// bridgeBins are the race-built binaries of the tree under test.
type bridgeBins struct{ Front, Back string }

func bridgeBuild(r *core.Run) bridgeBins {
	return bridgeBins{
		Front: r.MustBuild(r.BuildRepoBinary("./utils/tcpbridge/tcp-bridge-frontend", "tcp-bridge-frontend")),
		Back:  r.MustBuild(r.BuildRepoBinary("./utils/tcpbridge/tcp-bridge-backend", "tcp-bridge-backend")),
	}
}

var bridgeStreamingPathRe = regexp.MustCompile(`(?m)^const\s+StreamingPath\s*=\s*"([^"]+)"`)

// bridgeStreamingPath reads connection.StreamingPath from the tree under test
// (the orchestrator must not link repo packages).
func bridgeStreamingPath() (string, error) {
	b, err := os.ReadFile(filepath.Join(core.RepoDir, "utils/tcpbridge/connection/connection.go"))
	if err != nil {
		return "", err
	}
	m := bridgeStreamingPathRe.FindSubmatch(b)
	if m == nil {
		return "", fmt.Errorf("const StreamingPath not found in connection.go")
	}
	return string(m[1]), nil
}

// bridgeSocketInodes returns the inodes of the sockets held by pid.
func bridgeSocketInodes(pid int) (map[string]bool, error) {
	dir := fmt.Sprintf("/proc/%d/fd", pid)
	ents, err := os.ReadDir(dir)
	if err != nil {
		return nil, err
	}
	out := map[string]bool{}
	for _, e := range ents {
		l, err := os.Readlink(filepath.Join(dir, e.Name()))
		if err != nil {
			continue
		}
		if strings.HasPrefix(l, "socket:[") {
			out[strings.TrimSuffix(strings.TrimPrefix(l, "socket:["), "]")] = true
		}
	}
	return out, nil
}

// bridgeSockets counts the sockets held by pid (-1 if the process is gone).
func bridgeSockets(pid int) int {
	m, err := bridgeSocketInodes(pid)
	if err != nil {
		return -1
	}
	return len(m)
}

// bridgeListening reports whether pid itself holds a listening TCP socket on
// port. Unlike a connect probe this creates no connection (a probe of the
// bridge frontend would itself be bridged to the far end).
func bridgeListening(pid, port int) bool {
	inodes, err := bridgeSocketInodes(pid)
	if err != nil {
		return false
	}
	want := fmt.Sprintf("%04X", port)
	for _, f := range []string{"/proc/net/tcp", "/proc/net/tcp6"} {
		fh, err := os.Open(f)
		if err != nil {
			continue
		}
		sc := bufio.NewScanner(fh)
		for sc.Scan() {
			fs := strings.Fields(sc.Text())
			if len(fs) < 10 || fs[3] != "0A" {
				continue
			}
			i := strings.LastIndexByte(fs[1], ':')
			if i < 0 || fs[1][i+1:] != want {
				continue
			}
			if inodes[fs[9]] {
				fh.Close()
				return true
			}
		}
		fh.Close()
	}
	return false
}

// bridgeStartProc starts one bridge binary on a freshly reserved port and
// waits until that process listens on it; a lost port race ("address already
// in use") is retried with another port.
func bridgeStartProc(r *core.Run, name, bin string, args func(port int) []string) (*core.Proc, int, error) {
	var last string
	for attempt := 0; attempt < 6; attempt++ {
		port := core.FreePort()
		if port == 0 {
			return nil, 0, fmt.Errorf("no free port")
		}
		p, err := r.StartProc(name, bin, args(port))
		if err != nil {
			return nil, 0, err
		}
		deadline := time.Now().Add(20 * time.Second)
		for p.Alive() && time.Now().Before(deadline) {
			if bridgeListening(p.Cmd.Process.Pid, port) {
				return p, port, nil
			}
			time.Sleep(10 * time.Millisecond)
		}
		last = core.Trunc(p.Log(), 1500)
		alive := p.Alive()
		p.Kill()
		if !alive && strings.Contains(last, "address already in use") {
			continue
		}
		return nil, 0, fmt.Errorf("%s did not start listening on port %d (alive=%v): %s", name, port, alive, last)
	}
	return nil, 0, fmt.Errorf("%s: no usable port after 6 attempts: %s", name, last)
}

// bridgeTopo is one frontend -> backend pair in front of a harness TCP port.
type bridgeTopo struct {
	Front, Back         *core.Proc
	FrontAddr, BackAddr string
	FrontBase, BackBase int // idle socket census right after start-up
}

// bridgeStartTopo starts tcp-bridge-backend (forwarding to tcpPort) and
// tcp-bridge-frontend (dialling that backend). suffix keeps log names unique.
func bridgeStartTopo(r *core.Run, bins bridgeBins, suffix string, tcpPort int) (*bridgeTopo, error) {
	back, bp, err := bridgeStartProc(r, "bridge-backend"+suffix, bins.Back, func(port int) []string {
		return []string{"-frontend-port", strconv.Itoa(port), "-backend-port", strconv.Itoa(tcpPort)}
	})
	if err != nil {
		return nil, err
	}
	front, fp, err := bridgeStartProc(r, "bridge-frontend"+suffix, bins.Front, func(port int) []string {
		return []string{"-frontend-port", strconv.Itoa(port), "-backend", fmt.Sprintf("ws://127.0.0.1:%d", bp)}
	})
	if err != nil {
		back.Kill()
		return nil, err
	}
	t := &bridgeTopo{Front: front, Back: back,
		FrontAddr: fmt.Sprintf("127.0.0.1:%d", fp), BackAddr: fmt.Sprintf("127.0.0.1:%d", bp)}
	t.FrontBase = bridgeSockets(front.Cmd.Process.Pid)
	t.BackBase = bridgeSockets(back.Cmd.Process.Pid)
	return t, nil
}

func (t *bridgeTopo) Kill() {
	if t != nil {
		killAll(t.Front, t.Back)
	}
}

// Census returns the current socket counts (frontend, backend).
func (t *bridgeTopo) Census() (int, int) {
	return bridgeSockets(t.Front.Cmd.Process.Pid), bridgeSockets(t.Back.Cmd.Process.Pid)
}

// bridgeTCPServer is the harness' far TCP peer: it accepts on
// 127.0.0.1:<port> (and [::1]:<port> when available, because the bridge
// backend dials "localhost") and hands every connection to Handler.
type bridgeTCPServer struct {
	ls      []net.Listener
	Port    int
	Handler func(c *net.TCPConn, acceptSeq int)
	mu      sync.Mutex
	seq     int
}

func bridgeNewTCPServer(h func(c *net.TCPConn, acceptSeq int)) (*bridgeTCPServer, error) {
	l, err := net.Listen("tcp", "127.0.0.1:0")
	if err != nil {
		return nil, err
	}
	s := &bridgeTCPServer{ls: []net.Listener{l}, Port: l.Addr().(*net.TCPAddr).Port, Handler: h}
	if l6, err := net.Listen("tcp", fmt.Sprintf("[::1]:%d", s.Port)); err == nil {
		s.ls = append(s.ls, l6)
	}
	for _, l := range s.ls {
		go func(l net.Listener) {
			for {
				c, err := l.Accept()
				if err != nil {
					return
				}
				s.mu.Lock()
				n := s.seq
				s.seq++
				s.mu.Unlock()
				go s.Handler(c.(*net.TCPConn), n)
			}
		}(l)
	}
	return s, nil
}

func (s *bridgeTCPServer) Close() {
	for _, l := range s.ls {
		l.Close()
	}
}

// ---- deterministic tagged streams ------------------------------------------------

const bridgeHdrLen = 16

// bridgeStream generates the byte stream of (seed, connection, direction):
// a 16-byte header {'V','B',dir,0, conn uint32, total length uint64} followed
// by the output of a 64-bit PRNG keyed by (seed, conn, dir). Streams of
// different connections/directions differ from the first bytes on, so bytes
// that cross connections cannot match the expectation.
type bridgeStream struct {
	hdr   [bridgeHdrLen]byte
	pos   int64
	total int64
	state uint64
	word  [8]byte
	have  int
}

func bridgeMix(x uint64) uint64 {
	x += 0x9E3779B97F4A7C15
	x = (x ^ (x >> 30)) * 0xBF58476D1CE4E5B9
	x = (x ^ (x >> 27)) * 0x94D049BB133111EB
	return x ^ (x >> 31)
}

func bridgeNewStream(seed int64, conn int, dir byte, total int64) *bridgeStream {
	s := &bridgeStream{total: total}
	s.hdr[0], s.hdr[1], s.hdr[2] = 'V', 'B', dir
	binary.BigEndian.PutUint32(s.hdr[4:], uint32(conn))
	binary.BigEndian.PutUint64(s.hdr[8:], uint64(total))
	s.state = bridgeMix(bridgeMix(uint64(seed))^uint64(conn)<<8^uint64(dir)) | 1
	return s
}

// Next fills p with the next len(p) bytes of the stream.
func (s *bridgeStream) Next(p []byte) {
	i := 0
	for s.pos < bridgeHdrLen && i < len(p) {
		p[i] = s.hdr[s.pos]
		i++
		s.pos++
	}
	for i < len(p) {
		if s.have == 0 {
			if len(p)-i >= 8 {
				x := s.state
				x ^= x << 13
				x ^= x >> 7
				x ^= x << 17
				s.state = x
				binary.LittleEndian.PutUint64(p[i:], x*0x2545F4914F6CDD1D)
				i += 8
				s.pos += 8
				continue
			}
			x := s.state
			x ^= x << 13
			x ^= x >> 7
			x ^= x << 17
			s.state = x
			binary.LittleEndian.PutUint64(s.word[:], x*0x2545F4914F6CDD1D)
			s.have = 8
		}
		p[i] = s.word[8-s.have]
		s.have--
		i++
		s.pos++
	}
}

// bridgeParseHdr decodes a stream header.
func bridgeParseHdr(h []byte) (dir byte, conn int, total int64, ok bool) {
	if len(h) < bridgeHdrLen || h[0] != 'V' || h[1] != 'B' || h[3] != 0 {
		return 0, 0, 0, false
	}
	return h[2], int(binary.BigEndian.Uint32(h[4:])), int64(binary.BigEndian.Uint64(h[8:])), true
}

// bridgeVerifier checks received bytes against the regenerated stream: every
// call of Check is one checkpoint of the prefix property.
type bridgeVerifier struct {
	exp         *bridgeStream
	scratch     []byte
	Received    int64
	Checkpoints int
	BadOffset   int64 // -1: no mismatch so far
	BadGot      string
	BadWant     string
	sum         interface {
		Write([]byte) (int, error)
		Sum([]byte) []byte
	}
	Values [256]bool
}

func bridgeNewVerifier(exp *bridgeStream) *bridgeVerifier {
	return &bridgeVerifier{exp: exp, BadOffset: -1, sum: sha256.New()}
}

// Check consumes one received chunk; false once the stream has diverged
// (including bytes beyond the announced length).
func (v *bridgeVerifier) Check(p []byte) bool {
	if v.BadOffset >= 0 {
		return false
	}
	v.Checkpoints++
	v.sum.Write(p)
	if v.Received+int64(len(p)) > v.exp.total {
		keep := v.exp.total - v.Received
		if keep < 0 {
			keep = 0
		}
		if !v.cmp(p[:keep]) {
			return false
		}
		v.BadOffset = v.exp.total
		v.BadGot = hex.EncodeToString(p[keep:min(len(p), int(keep)+16)])
		v.BadWant = "(end of stream)"
		v.Received += int64(len(p)) - keep
		return false
	}
	return v.cmp(p)
}

func (v *bridgeVerifier) cmp(p []byte) bool {
	if cap(v.scratch) < len(p) {
		v.scratch = make([]byte, len(p))
	}
	w := v.scratch[:len(p)]
	v.exp.Next(w)
	for i := range p {
		if p[i] != w[i] {
			v.BadOffset = v.Received + int64(i)
			v.BadGot = hex.EncodeToString(p[i:min(len(p), i+16)])
			v.BadWant = hex.EncodeToString(w[i:min(len(w), i+16)])
			v.Received += int64(len(p))
			return false
		}
	}
	if v.Received < 1<<16 {
		for _, b := range p {
			v.Values[b] = true
		}
	}
	v.Received += int64(len(p))
	return true
}

// SHA returns the hex SHA-256 of everything received.
func (v *bridgeVerifier) SHA() string { return hex.EncodeToString(v.sum.Sum(nil)) }

// bridgeIsTimeout reports whether err is a deadline expiry.
func bridgeIsTimeout(err error) bool {
	ne, ok := err.(net.Error)
	return ok && ne.Timeout()
}

// bridgeUnread returns the number of received bytes not yet read from c
// (FIONREAD), or -1.
func bridgeUnread(c *net.TCPConn) int {
	rc, err := c.SyscallConn()
	if err != nil {
		return -1
	}
	n := int32(-1)
	rc.Control(func(fd uintptr) {
		if _, _, e := syscall.Syscall(syscall.SYS_IOCTL, fd, 0x541B /* FIONREAD */, uintptr(unsafe.Pointer(&n))); e != 0 {
			n = -1
		}
	})
	return int(n)
}
