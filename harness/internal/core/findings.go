package core

import (
	"bufio"
	"encoding/json"
	"os"
	"path/filepath"
	"strings"
)

// Finding is one entry of /verif/known_findings.json.
type Finding struct {
	Property  string `json:"property"`
	Signature string `json:"signature"`
	What      string `json:"what"`
	Status    string `json:"status"` // "known" suppresses; "fixed" suppresses nothing
	Commit    string `json:"commit,omitempty"`
	Record    string `json:"record,omitempty"`
}

// Findings is the committed list. It is never written at run time.
type Findings struct {
	Entries []Finding `json:"findings"`
}

func LoadFindings(path string) (*Findings, error) {
	b, err := os.ReadFile(path)
	if os.IsNotExist(err) {
		return &Findings{}, nil
	}
	if err != nil {
		return nil, err
	}
	var f Findings
	if err := json.Unmarshal(b, &f); err != nil {
		return nil, err
	}
	return &f, nil
}

// Known reports whether (prop, sig) is listed with status "known". A
// signature ending in '*' in the file matches by prefix.
func (f *Findings) Known(prop, sig string) (string, bool) {
	for _, e := range f.Entries {
		if e.Property != prop || e.Status != "known" {
			continue
		}
		if e.Signature == sig {
			return e.What, true
		}
		if strings.HasSuffix(e.Signature, "*") && strings.HasPrefix(sig, strings.TrimSuffix(e.Signature, "*")) {
			return e.What, true
		}
	}
	return "", false
}

// LoadAnchors returns anchors.files of the property from properties.jsonl.
func LoadAnchors(prop string) []string {
	f, err := os.Open(filepath.Join(VerifDir, "properties.jsonl"))
	if err != nil {
		return nil
	}
	defer f.Close()
	sc := bufio.NewScanner(f)
	sc.Buffer(make([]byte, 1<<20), 1<<24)
	for sc.Scan() {
		var p struct {
			ID      string `json:"id"`
			Anchors struct {
				Files []string `json:"files"`
			} `json:"anchors"`
		}
		if json.Unmarshal(sc.Bytes(), &p) == nil && p.ID == prop {
			return p.Anchors.Files
		}
	}
	return nil
}
