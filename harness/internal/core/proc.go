package core

import (
	"bufio"
	"bytes"
	"fmt"
	"io"
	"net"
	"os"
	"os/exec"
	"path/filepath"
	"regexp"
	"strings"
	"sync"
	"syscall"
	"time"
)

// GoEnv is the environment every go invocation needs in this sandbox.
func GoEnv() []string {
	env := os.Environ()
	env = append(env, "GOFLAGS=-mod=mod", "GOPROXY=off", "GOSUMDB=off", "GOTOOLCHAIN=local", "CGO_ENABLED=1")
	return env
}

// BuildRepoBinary builds package pkg (relative to /repo, e.g. "./server")
// from the current working tree with -race -tags verif into the work dir.
func (r *Run) BuildRepoBinary(pkg, name string) (string, error) {
	out := filepath.Join(r.WorkDir, "bin", name)
	os.MkdirAll(filepath.Dir(out), 0o755)
	cmd := exec.Command("go", "build", "-race", "-tags", "verif", "-o", out, pkg)
	cmd.Dir = RepoDir
	cmd.Env = GoEnv()
	b, err := cmd.CombinedOutput()
	if err != nil {
		return "", fmt.Errorf("go build %s: %v\n%s", pkg, err, b)
	}
	return out, nil
}

// BuildWorker builds the in-process worker (links /repo packages through the
// replace directive) with -race -tags verif.
func (r *Run) BuildWorker() (string, error) {
	out := filepath.Join(r.WorkDir, "bin", "vworker")
	os.MkdirAll(filepath.Dir(out), 0o755)
	args := []string{"build", "-race", "-tags", "verif", "-o", out}
	if RepoDir != "/repo" {
		// development run against a scratch worktree: same module file with the replace redirected
		mod, err := os.ReadFile(filepath.Join(VerifDir, "harness", "go.mod"))
		if err != nil {
			return "", err
		}
		alt := filepath.Join(r.WorkDir, "alt.mod")
		os.WriteFile(alt, []byte(strings.Replace(string(mod), "=> /repo", "=> "+RepoDir, 1)), 0o644)
		sum, _ := os.ReadFile(filepath.Join(VerifDir, "harness", "go.sum"))
		os.WriteFile(filepath.Join(r.WorkDir, "alt.sum"), sum, 0o644)
		args = append(args, "-modfile="+alt)
	}
	args = append(args, "./cmd/vworker")
	cmd := exec.Command("go", args...)
	cmd.Dir = filepath.Join(VerifDir, "harness")
	cmd.Env = GoEnv()
	b, err := cmd.CombinedOutput()
	if err != nil {
		return "", fmt.Errorf("go build vworker: %v\n%s", err, b)
	}
	return out, nil
}

// MustBuild aborts the check as broken (exit 2) when a build fails: a tree
// that does not compile says nothing about the property.
func (r *Run) MustBuild(path string, err error) string {
	if err != nil {
		fmt.Printf("CHECK-BROKEN property=%s build failed: %v\n", r.Prop, err)
		os.RemoveAll(r.WorkDir)
		os.Exit(2)
	}
	return path
}

// Proc is a supervised child process.
type Proc struct {
	Name    string
	Cmd     *exec.Cmd
	LogPath string
	done    chan struct{}
	err     error
	mu      sync.Mutex
}

// StartProc starts bin with args in its own process group, stdout+stderr
// captured to <work>/<name>.log, race reports to <work>/race-<name>.<pid>.
func (r *Run) StartProc(name, bin string, args []string, env ...string) (*Proc, error) {
	logPath := filepath.Join(r.WorkDir, name+".log")
	f, err := os.Create(logPath)
	if err != nil {
		return nil, err
	}
	cmd := exec.Command(bin, args...)
	cmd.Stdout = f
	cmd.Stderr = f
	cmd.Env = append(os.Environ(),
		"GORACE=halt_on_error=0 log_path="+filepath.Join(r.WorkDir, "race-"+name))
	cmd.Env = append(cmd.Env, env...)
	cmd.SysProcAttr = &syscall.SysProcAttr{Setpgid: true, Pdeathsig: syscall.SIGKILL}
	if err := cmd.Start(); err != nil {
		f.Close()
		return nil, err
	}
	p := &Proc{Name: name, Cmd: cmd, LogPath: logPath, done: make(chan struct{})}
	go func() {
		p.err = cmd.Wait()
		f.Close()
		close(p.done)
	}()
	return p, nil
}

// Alive reports whether the process is still running.
func (p *Proc) Alive() bool {
	select {
	case <-p.done:
		return false
	default:
		return true
	}
}

// Done is closed when the process has exited.
func (p *Proc) Done() <-chan struct{} { return p.done }

// ExitErr returns the Wait error (nil if exited 0 or still running).
func (p *Proc) ExitErr() error {
	select {
	case <-p.done:
		return p.err
	default:
		return nil
	}
}

// Signal sends sig to the process (not the group).
func (p *Proc) Signal(sig syscall.Signal) { p.Cmd.Process.Signal(sig) }

// Kill terminates the whole process group and waits.
func (p *Proc) Kill() {
	if p == nil || p.Cmd.Process == nil {
		return
	}
	syscall.Kill(-p.Cmd.Process.Pid, syscall.SIGKILL)
	select {
	case <-p.done:
	case <-time.After(5 * time.Second):
	}
}

// Stop asks the process to dump goroutines? No: plain SIGTERM then kill; used
// for processes whose race log must be flushed (the race runtime writes
// reports as they occur, so SIGKILL loses nothing).
func (p *Proc) Stop() { p.Kill() }

// Log returns the captured output so far.
func (p *Proc) Log() string {
	b, _ := os.ReadFile(p.LogPath)
	return string(b)
}

// WaitLog waits until the log matches re and returns the first submatch.
func (p *Proc) WaitLog(re *regexp.Regexp, timeout time.Duration) (string, error) {
	deadline := time.Now().Add(timeout)
	for {
		if m := re.FindStringSubmatch(p.Log()); m != nil {
			if len(m) > 1 {
				return m[1], nil
			}
			return m[0], nil
		}
		if !p.Alive() {
			return "", fmt.Errorf("%s exited before logging %q: %s", p.Name, re, Trunc(p.Log(), 2000))
		}
		if time.Now().After(deadline) {
			return "", fmt.Errorf("%s did not log %q within %s", p.Name, re, timeout)
		}
		time.Sleep(20 * time.Millisecond)
	}
}

// FreePort reserves and releases a loopback port.
func FreePort() int {
	l, err := net.Listen("tcp", "127.0.0.1:0")
	if err != nil {
		return 0
	}
	defer l.Close()
	return l.Addr().(*net.TCPAddr).Port
}

// WaitPort waits until something accepts on addr.
func WaitPort(addr string, timeout time.Duration) error {
	deadline := time.Now().Add(timeout)
	for time.Now().Before(deadline) {
		c, err := net.DialTimeout("tcp", addr, time.Second)
		if err == nil {
			c.Close()
			return nil
		}
		time.Sleep(20 * time.Millisecond)
	}
	return fmt.Errorf("nothing listening on %s after %s", addr, timeout)
}

// RunWorker runs the worker binary in the given mode with a JSON spec on
// stdin; returns stdout lines (JSONL results), the stderr log path and the
// exit error. The worker writes "START <case>" lines to stderr before each
// case so a fatal report is attributable.
func (r *Run) RunWorker(bin, mode string, spec []byte, timeout time.Duration, env ...string) (stdout []byte, logPath string, err error) {
	r.mu.Lock()
	n := len(r.extra) // unique-ish suffix
	r.mu.Unlock()
	logPath = filepath.Join(r.WorkDir, fmt.Sprintf("worker-%s-%d-%d.log", mode, n, time.Now().UnixNano()%1e9))
	lf, e := os.Create(logPath)
	if e != nil {
		return nil, "", e
	}
	defer lf.Close()
	cmd := exec.Command(bin, "-mode", mode)
	cmd.Stdin = bytes.NewReader(spec)
	var out bytes.Buffer
	cmd.Stdout = &out
	cmd.Stderr = lf
	cmd.Env = append(os.Environ(), "GORACE=halt_on_error=0 log_path="+filepath.Join(r.WorkDir, "race-worker-"+mode))
	cmd.Env = append(cmd.Env, env...)
	cmd.SysProcAttr = &syscall.SysProcAttr{Setpgid: true, Pdeathsig: syscall.SIGKILL}
	if e := cmd.Start(); e != nil {
		return nil, logPath, e
	}
	done := make(chan error, 1)
	go func() { done <- cmd.Wait() }()
	select {
	case err = <-done:
		if ee, ok := err.(*exec.ExitError); ok && ee.ExitCode() == 66 {
			err = nil // the race runtime's exit code when reports were written; they are judged from the log
		}
	case <-time.After(timeout):
		syscall.Kill(-cmd.Process.Pid, syscall.SIGQUIT)
		select {
		case <-done:
		case <-time.After(5 * time.Second):
			syscall.Kill(-cmd.Process.Pid, syscall.SIGKILL)
			<-done
		}
		err = fmt.Errorf("worker watchdog fired after %s", timeout)
	}
	return out.Bytes(), logPath, err
}

// LastStarted returns the last "START <x>" markers from a worker log: the
// cases that were running when the worker died.
func LastStarted(logPath string, n int) []string {
	f, err := os.Open(logPath)
	if err != nil {
		return nil
	}
	defer f.Close()
	var all []string
	rd := bufio.NewReaderSize(f, 1<<20)
	for {
		ln, err := rd.ReadString('\n')
		if strings.HasPrefix(ln, "START ") {
			all = append(all, strings.TrimSpace(ln[6:]))
		}
		if err == io.EOF || err != nil {
			break
		}
	}
	if len(all) > n {
		all = all[len(all)-n:]
	}
	return all
}
