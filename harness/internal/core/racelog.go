package core

import (
	"fmt"
	"os"
	"path/filepath"
	"regexp"
	"sort"
	"strings"
)

// RaceReport is one parsed "WARNING: DATA RACE" block.
type RaceReport struct {
	Stacks    [2][]Frame // the two conflicting accesses
	Signature string     // unordered pair of innermost repo frames (func@file), line numbers stripped
	RepoFiles []string   // repo-relative files appearing in either access stack
	Text      string
	// HarnessOnly: both conflicting accesses were made by the harness' own overlay files
	HarnessOnly bool
}

type Frame struct {
	Func string
	File string // repo-relative if under /repo, else absolute
	Line string
}

var frameFileRe = regexp.MustCompile(`^\s+(/\S+):(\d+)`)

// ParseRaceLogs reads every file matching prefix* (GORACE log_path=prefix
// writes prefix.<pid>) plus the given extra files (stderr captures) and
// returns the reports found.
func ParseRaceLogs(prefix string, extra ...string) []RaceReport {
	files, _ := filepath.Glob(prefix + "*")
	files = append(files, extra...)
	var out []RaceReport
	for _, f := range files {
		b, err := os.ReadFile(f)
		if err != nil {
			continue
		}
		out = append(out, ParseRaceText(string(b))...)
	}
	return out
}

func ParseRaceText(s string) []RaceReport {
	var out []RaceReport
	parts := strings.Split(s, "WARNING: DATA RACE")
	for _, p := range parts[1:] {
		if i := strings.Index(p, "=================="); i >= 0 {
			p = p[:i]
		}
		out = append(out, parseOne(p))
	}
	return out
}

func parseOne(block string) RaceReport {
	r := RaceReport{Text: Trunc(block, 6000)}
	lines := strings.Split(block, "\n")
	sec := -1
	var curFunc string
	for _, ln := range lines {
		if ln == "" {
			continue
		}
		if !strings.HasPrefix(ln, " ") {
			// section header: "Read at", "Previous write at", "Goroutine N created at"
			low := strings.ToLower(ln)
			if strings.Contains(low, " at 0x") && !strings.HasPrefix(low, "goroutine") {
				sec++
			} else {
				sec = 99
			}
			continue
		}
		if sec < 0 || sec > 1 {
			continue
		}
		if m := frameFileRe.FindStringSubmatch(ln); m != nil {
			file := m[1]
			if strings.HasPrefix(file, RepoDir+"/") {
				file = strings.TrimPrefix(file, RepoDir+"/")
			}
			r.Stacks[sec] = append(r.Stacks[sec], Frame{Func: curFunc, File: file, Line: m[2]})
			continue
		}
		curFunc = strings.TrimSpace(ln)
		if i := strings.Index(curFunc, "("); i > 0 && strings.HasSuffix(curFunc, ")") {
			// strip the argument list "pkg.f(...)" -> "pkg.f"; keep method receivers "(*T)"
			if j := strings.LastIndex(curFunc, "("); j > 0 && !strings.HasPrefix(curFunc[j:], "(*") {
				curFunc = curFunc[:j]
			}
		}
	}
	seen := map[string]bool{}
	var inner [2]string
	for i := 0; i < 2; i++ {
		for _, f := range r.Stacks[i] {
			if !strings.HasPrefix(f.File, "/") {
				if !seen[f.File] {
					seen[f.File] = true
					r.RepoFiles = append(r.RepoFiles, f.File)
				}
				if inner[i] == "" {
					fn := f.Func
					if k := strings.LastIndex(fn, "/"); k >= 0 {
						fn = fn[k+1:]
					}
					inner[i] = fn + "@" + f.File
				}
			}
		}
		if inner[i] == "" && len(r.Stacks[i]) > 0 {
			inner[i] = r.Stacks[i][0].Func
		}
	}
	// both accesses made by the harness' own overlay files (App Engine engine: app/zz_verif*_test.go): a race of the
	// harness with itself, whatever real code lies further up the stacks
	r.HarnessOnly = strings.Contains(inner[0], "@") && strings.Contains(inner[1], "@") &&
		strings.Contains(inner[0][strings.Index(inner[0], "@"):], "/zz_verif") && strings.Contains(inner[1][strings.Index(inner[1], "@"):], "/zz_verif")
	pair := []string{inner[0], inner[1]}
	sort.Strings(pair)
	r.Signature = "race:" + pair[0] + "|" + pair[1]
	sort.Strings(r.RepoFiles)
	return r
}

// Attributed reports whether some frame of either access stack lies in one
// of the anchored files.
func (r RaceReport) Attributed(anchors []string) bool {
	if r.HarnessOnly {
		return false
	}
	for _, f := range r.RepoFiles {
		for _, a := range anchors {
			if f == a {
				return true
			}
		}
	}
	return false
}

// JudgeRaces attributes the reports to the run's property: attributed ones
// are violations (signature = frame pair), the rest are only listed.
func (r *Run) JudgeRaces(reports []RaceReport) {
	attributed, other := 0, map[string]int{}
	sigs := map[string]int{}
	for _, rep := range reports {
		if rep.Attributed(r.anchors) {
			attributed++
			sigs[rep.Signature]++
			r.Violate(rep.Signature, "data race on state anchored by this property: "+rep.Signature, nil, rep.Text)
		} else {
			other[rep.Signature]++
		}
	}
	r.Add("race_reports_total", len(reports))
	r.Add("race_reports_attributed", attributed)
	if len(other) > 0 {
		r.Set("race_reports_unattributed", other)
	}
	if len(sigs) > 0 {
		r.Set("race_signatures_attributed", sigs)
	}
}

// CrashMarkers scans a stderr capture for process-fatal markers and returns
// a short excerpt for each.
func CrashMarkers(path string) []string {
	b, err := os.ReadFile(path)
	if err != nil {
		return nil
	}
	return CrashMarkersText(string(b))
}

var crashRe = regexp.MustCompile(`(?m)^(panic: .*|fatal error: .*|unexpected signal .*|.*checkptr: .*)$`)

func CrashMarkersText(s string) []string {
	var out []string
	for _, loc := range crashRe.FindAllStringIndex(s, 5) {
		end := loc[0] + 3000
		if end > len(s) {
			end = len(s)
		}
		out = append(out, s[loc[0]:end])
	}
	return out
}

// CrashSignature turns a crash excerpt into a signature: the marker line
// plus the innermost repo frame.
func CrashSignature(excerpt string) string {
	first := excerpt
	if i := strings.Index(first, "\n"); i >= 0 {
		first = first[:i]
	}
	first = regexp.MustCompile(`0x[0-9a-f]+`).ReplaceAllString(first, "0x?")
	first = regexp.MustCompile(`\[recovered\].*`).ReplaceAllString(first, "")
	fn := ""
	lines := strings.Split(excerpt, "\n")
	for i, ln := range lines {
		if strings.Contains(ln, RepoDir+"/") && i > 0 {
			fn = strings.TrimSpace(lines[i-1])
			if j := strings.LastIndex(fn, "("); j > 0 {
				fn = fn[:j]
			}
			if k := strings.LastIndex(fn, "/"); k >= 0 {
				fn = fn[k+1:]
			}
			break
		}
	}
	return fmt.Sprintf("crash:%s@%s", Trunc(strings.TrimSpace(first), 120), fn)
}
