// Package core holds what every check shares: the run context (seed, tier,
// work directory), verdict bookkeeping (violations, known findings,
// inconclusive cases), evidence and replay files, and exit codes.
package core

import (
	"encoding/json"
	"fmt"
	"math/rand"
	"os"
	"path/filepath"
	"sort"
	"strconv"
	"strings"
	"sync"
	"time"
)

const VerifDir = "/verif"

// RepoDir is the tree under test: /repo, unless VERIF_REPO points a
// development run at a scratch worktree (registered checks never set it).
var RepoDir = func() string {
	if d := os.Getenv("VERIF_REPO"); d != "" {
		return d
	}
	return "/repo"
}()

// Violation is one refuted case.
type Violation struct {
	Signature string      `json:"signature"`
	Message   string      `json:"message"`
	Case      interface{} `json:"case,omitempty"`
	Detail    interface{} `json:"detail,omitempty"`
}

// Run is the context of one check invocation.
type Run struct {
	Prop     string
	Tier     string
	Seed     int64
	Level    string // evidence level
	WorkDir  string
	Start    time.Time
	OnlyCase int // -1: all; otherwise only this case index (replay)

	mu           sync.Mutex
	violations   []Violation
	knownHit     map[string]string
	inconclusive []string
	broken       []string
	extra        map[string]interface{}
	samples      []interface{}
	classes      map[string]struct{}
	evaluations  int
	rule         string
	assumptions  []string
	findings     *Findings
	anchors      []string
}

// NewRun builds the run context from argv-style parameters and environment.
func NewRun(prop, tier string) *Run {
	seed := int64(1)
	if s := os.Getenv("VERIF_SEED"); s != "" {
		if v, err := strconv.ParseInt(s, 10, 64); err == nil {
			seed = v
		}
	}
	if tier == "" {
		tier = os.Getenv("VERIF_TIER")
	}
	if tier != "thorough" {
		tier = "quick"
	}
	work := filepath.Join(VerifDir, ".work", fmt.Sprintf("%s-%d", prop, os.Getpid()))
	os.RemoveAll(work)
	if err := os.MkdirAll(work, 0o755); err != nil {
		fmt.Fprintf(os.Stderr, "CHECK-BROKEN cannot create work dir: %v\n", err)
		os.Exit(2)
	}
	r := &Run{
		Prop: prop, Tier: tier, Seed: seed, Level: "exploration", WorkDir: work,
		Start: time.Now(), OnlyCase: -1,
		knownHit: map[string]string{}, extra: map[string]interface{}{},
		classes: map[string]struct{}{},
	}
	if s := os.Getenv("VERIF_ONLY_CASE"); s != "" {
		if v, err := strconv.Atoi(s); err == nil {
			r.OnlyCase = v
		}
	}
	f, err := LoadFindings(filepath.Join(VerifDir, "known_findings.json"))
	if err != nil {
		fmt.Fprintf(os.Stderr, "CHECK-BROKEN cannot load known findings: %v\n", err)
		os.Exit(2)
	}
	r.findings = f
	r.anchors = LoadAnchors(prop)
	return r
}

// Quick reports whether this is the quick tier.
func (r *Run) Quick() bool { return r.Tier != "thorough" }

// Pick returns q in the quick tier and t in the thorough tier.
func (r *Run) Pick(q, t int) int {
	if r.Quick() {
		return q
	}
	return t
}

// Rand returns a PRNG derived from the seed and a label, so that independent
// parts of a check do not perturb each other's case lists.
func (r *Run) Rand(label string) *rand.Rand {
	h := uint64(1469598103934665603)
	for _, b := range []byte(r.Prop + "/" + label) {
		h ^= uint64(b)
		h *= 1099511628211
	}
	return rand.New(rand.NewSource(int64(h) ^ (r.Seed * 0x9E3779B97F4A7C)))
}

// Anchors are the repo files the property is anchored in.
func (r *Run) Anchors() []string { return r.anchors }

func (r *Run) SetRule(rule string)         { r.rule = rule }
func (r *Run) Assume(a string)             { r.mu.Lock(); r.assumptions = append(r.assumptions, a); r.mu.Unlock() }
func (r *Run) Set(k string, v interface{}) { r.mu.Lock(); r.extra[k] = v; r.mu.Unlock() }

// Add adds n to the integer counter k in the evidence.
func (r *Run) Add(k string, n int) {
	r.mu.Lock()
	defer r.mu.Unlock()
	if v, ok := r.extra[k].(int); ok {
		r.extra[k] = v + n
	} else {
		r.extra[k] = n
	}
}

// Max raises the integer gauge k to at least n.
func (r *Run) Max(k string, n int) {
	r.mu.Lock()
	defer r.mu.Unlock()
	if v, ok := r.extra[k].(int); !ok || n > v {
		r.extra[k] = n
	}
}

// Case records one executed case and the class it belongs to (class "" means
// trivial, not counted as distinct non-trivial).
func (r *Run) Case(class string) {
	r.mu.Lock()
	r.evaluations++
	if class != "" {
		r.classes[class] = struct{}{}
	}
	r.mu.Unlock()
}

// Cases records n executed cases of one class.
func (r *Run) Cases(class string, n int) {
	r.mu.Lock()
	r.evaluations += n
	if class != "" && n > 0 {
		r.classes[class] = struct{}{}
	}
	r.mu.Unlock()
}

// Sample keeps up to 6 written-out cases for the evidence file.
func (r *Run) Sample(s interface{}) {
	r.mu.Lock()
	if len(r.samples) < 6 {
		r.samples = append(r.samples, s)
	}
	r.mu.Unlock()
}

// Evaluations returns the number of cases recorded so far.
func (r *Run) Evaluations() int { r.mu.Lock(); defer r.mu.Unlock(); return r.evaluations }

// Violate records a refutation. If the signature is a listed known finding
// the check prints KNOWN-FINDING for it and does not fail.
func (r *Run) Violate(sig, msg string, cs, detail interface{}) {
	r.mu.Lock()
	defer r.mu.Unlock()
	if what, ok := r.findings.Known(r.Prop, sig); ok {
		if _, seen := r.knownHit[sig]; !seen {
			r.knownHit[sig] = what
		}
		return
	}
	for _, v := range r.violations {
		if v.Signature == sig && len(r.violations) > 40 {
			return // enough witnesses of this signature
		}
	}
	if len(r.violations) < 200 {
		r.violations = append(r.violations, Violation{sig, msg, cs, detail})
	}
}

// Inconclusive records a case that decided nothing.
func (r *Run) Inconclusive(what string) {
	r.mu.Lock()
	r.inconclusive = append(r.inconclusive, what)
	r.mu.Unlock()
}

// Broken records that the check itself failed (not a statement about the property).
func (r *Run) Broken(what string) {
	r.mu.Lock()
	r.broken = append(r.broken, what)
	r.mu.Unlock()
}

// Violations returns how many unlisted violations were recorded.
func (r *Run) Violations() int { r.mu.Lock(); defer r.mu.Unlock(); return len(r.violations) }

// Finish writes evidence and replay files, prints verdict lines and exits.
// minEvents is the sanity gate: a run that observed fewer cases is broken.
func (r *Run) Finish(minEvents int) {
	r.mu.Lock()
	defer r.mu.Unlock()
	wall := time.Since(r.Start).Seconds()

	if r.evaluations < minEvents && len(r.violations) == 0 {
		// (a refuted run stops early on purpose and may have seen fewer cases)
		r.broken = append(r.broken, fmt.Sprintf("observed only %d cases (< %d)", r.evaluations, minEvents))
	}

	// group violations by signature -> one replay file per signature
	bySig := map[string][]Violation{}
	sigs := []string{}
	for _, v := range r.violations {
		if _, ok := bySig[v.Signature]; !ok {
			sigs = append(sigs, v.Signature)
		}
		bySig[v.Signature] = append(bySig[v.Signature], v)
	}
	sort.Strings(sigs)
	evDir := filepath.Join(VerifDir, "evidence")
	if RepoDir != "/repo" {
		// development run against a scratch tree: what it finds says nothing about /repo
		evDir = filepath.Join(VerifDir, ".work", "dev-evidence")
	}
	replayDir := filepath.Join(evDir, "replays")
	os.MkdirAll(replayDir, 0o755)
	for i, sig := range sigs {
		vs := bySig[sig]
		if len(vs) > 5 {
			vs = vs[:5]
		}
		path := filepath.Join(replayDir, fmt.Sprintf("%s-s%d-%s-%d.json", r.Prop, r.Seed, r.Tier, i))
		b, _ := json.MarshalIndent(map[string]interface{}{
			"property": r.Prop, "seed": r.Seed, "tier": r.Tier, "signature": sig,
			"count": len(bySig[sig]), "witnesses": vs,
		}, "", " ")
		os.WriteFile(path, b, 0o644)
		fmt.Printf("VIOLATION property=%s replay=%s\n", r.Prop, path)
		fmt.Printf("  signature: %s\n  %s\n", sig, oneLine(vs[0].Message, 400))
	}
	known := []string{}
	for sig := range r.knownHit {
		known = append(known, sig)
	}
	sort.Strings(known)
	for _, sig := range known {
		fmt.Printf("KNOWN-FINDING: property=%s %s [%s]\n", r.Prop, r.knownHit[sig], sig)
	}
	for _, b := range r.broken {
		fmt.Printf("CHECK-BROKEN property=%s %s\n", r.Prop, b)
	}

	cov := map[string]interface{}{}
	for k, v := range r.extra {
		cov[k] = v
	}
	cov["evaluations"] = r.evaluations
	cov["distinct_nontrivial"] = len(r.classes)
	cov["rule"] = r.rule
	if len(r.samples) == 0 {
		r.samples = append(r.samples, "no sample recorded")
	}
	cov["samples"] = r.samples
	cov["inconclusive"] = len(r.inconclusive)
	if len(r.inconclusive) > 0 {
		n := r.inconclusive
		if len(n) > 10 {
			n = n[:10]
		}
		cov["inconclusive_cases"] = n
	}
	cov["known_findings_hit"] = known
	cov["violation_signatures"] = sigs
	if len(r.broken) > 0 {
		cov["check_broken"] = r.broken
	}
	ev := map[string]interface{}{
		"property_id": r.Prop, "tier": r.Tier, "seed": r.Seed, "level": r.Level,
		"coverage": cov, "assumptions": r.assumptions, "wall_s": round2(wall),
		"violations": len(r.violations),
	}
	if r.assumptions == nil {
		ev["assumptions"] = []string{}
	}
	b, _ := json.MarshalIndent(ev, "", " ")
	if r.OnlyCase == -1 {
		os.MkdirAll(evDir, 0o755)
		if err := os.WriteFile(filepath.Join(evDir, r.Prop+".json"), append(b, '\n'), 0o644); err != nil {
			fmt.Printf("CHECK-BROKEN property=%s cannot write evidence: %v\n", r.Prop, err)
			r.broken = append(r.broken, "evidence")
		}
	}
	fmt.Printf("%s %s seed=%d: %d cases, %d distinct classes, %d violations, %d known, %d inconclusive, %.1fs\n",
		r.Prop, r.Tier, r.Seed, r.evaluations, len(r.classes), len(r.violations), len(known), len(r.inconclusive), wall)

	if os.Getenv("VERIF_KEEP_WORK") == "" {
		os.RemoveAll(r.WorkDir)
	}
	switch {
	case len(r.violations) > 0:
		os.Exit(1)
	case len(r.broken) > 0:
		os.Exit(2)
	}
	os.Exit(0)
}

func round2(f float64) float64 { return float64(int(f*100)) / 100 }

func oneLine(s string, n int) string {
	s = strings.ReplaceAll(s, "\n", " | ")
	if len(s) > n {
		s = s[:n] + "…"
	}
	return s
}

// Trunc shortens s for inclusion in evidence.
func Trunc(s string, n int) string {
	if len(s) > n {
		return s[:n] + fmt.Sprintf("…(+%d)", len(s)-n)
	}
	return s
}
