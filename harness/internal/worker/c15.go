package worker

// c15.go — in-process part (E2) of C15: connection.Handler,
// connection.DialWebsocket and connection.WebsocketNetConn driven directly,
// with peers the two bridge binaries can never produce: empty writes, 1-byte
// reads across websocket message boundaries, a raw gorilla websocket peer
// that interleaves binary/ping/pong frames with the hex text frames, and
// very large single writes.

import (
	"bufio"
	"bytes"
	"context"
	"encoding/hex"
	"encoding/json"
	"fmt"
	"io"
	"math/rand"
	"net"
	"net/http"
	"net/url"
	"strings"
	"sync"
	"time"

	"github.com/google/inverting-proxy/utils/tcpbridge/connection"
	"github.com/gorilla/websocket"
)

func init() { Modes["c15"] = c15Main }

// C15Case is one in-process case.
type C15Case struct {
	ID    string `json:"id"`
	Kind  string `json:"kind"`  // empty-writes | small-reads | raw-client-frames | raw-server-frames | large-write | duplex
	Topo  string `json:"topo"`  // handler | pair | rawclient | rawserver
	Len   int    `json:"len"`   // bytes per active direction
	Write string `json:"write"` // write segmentation: "one" | "rand" | "rand+empty" | "<n>"
	Read  []int  `json:"read"`  // receiver buffer sizes, used cyclically
	Copy  string `json:"copy"`  // "": plain Reads; "copy": the Reads of `read` once each, then io.Copy for the rest; "bufio": a bufio.Reader consumes read[0] bytes, then its WriteTo takes the rest
	Seed  int64  `json:"seed"`
	Class string `json:"class"`
}

type C15Spec struct {
	BoundMs int       `json:"bound_ms"`
	Cases   []C15Case `json:"cases"`
}

type C15Result struct {
	ID         string   `json:"id"`
	Class      string   `json:"class"`
	Kind       string   `json:"kind"`
	Problems   []string `json:"problems,omitempty"` // "<sig-suffix>|<message>"
	Stalled    bool     `json:"stalled"`
	Retried    bool     `json:"retried"`
	BytesAB    int      `json:"bytes_a_to_b"`
	BytesBA    int      `json:"bytes_b_to_a"`
	Reads      int      `json:"reads"`
	Writes     int      `json:"writes"`
	EmptyWr    int      `json:"empty_writes"`
	Skipped    int      `json:"non_text_frames_sent"`
	Panic      string   `json:"panic,omitempty"`
	DurationMs int64    `json:"duration_ms"`
}

func c15Main(specBytes []byte) {
	var spec C15Spec
	if err := json.Unmarshal(specBytes, &spec); err != nil {
		panic(err)
	}
	if spec.BoundMs <= 0 {
		spec.BoundMs = 10000
	}
	bound := time.Duration(spec.BoundMs) * time.Millisecond
	confirmed := 0
	for _, c := range spec.Cases {
		Start(c.ID)
		res := c15Run(c, bound)
		if res.Stalled && confirmed >= 3 {
			// three stalls were already confirmed by solo re-runs: further ones are not re-run and decide nothing
			res.Problems = []string{"inconclusive|progress bound missed; not re-run (three stalls already confirmed in this batch): " + strings.Join(res.Problems, "; ")}
		} else if res.Stalled {
			// a missed progress bound is re-run once (cases run one at a time, so this is a solo re-run)
			Start(c.ID + "/retry")
			res2 := c15Run(c, bound)
			res2.Retried = true
			if !res2.Stalled && len(res2.Problems) == 0 {
				res2.Problems = []string{"inconclusive|progress bound missed once, not reproduced on the solo re-run: " + strings.Join(res.Problems, "; ")}
			} else if res2.Stalled {
				confirmed++
				if confirmed >= 3 {
					bound = 2 * time.Second // later stalls cannot accuse any more, so do not wait long for them
				}
			}
			res = res2
		}
		Emit(res)
	}
}

func c15Data(seed int64, label string, n int) []byte {
	h := int64(1469598103934665603)
	for _, b := range []byte(label) {
		h = (h ^ int64(b)) * 1099511628211
	}
	b := make([]byte, n)
	rand.New(rand.NewSource(seed ^ h)).Read(b)
	// make sure all 256 values occur in streams that are long enough
	if n >= 256 {
		for i := 0; i < 256; i++ {
			b[i*(n/256)] = byte(i)
		}
	}
	return b
}

// c15Sizes cuts n bytes into write sizes following the plan.
func c15Sizes(rng *rand.Rand, plan string, n int) []int {
	var out []int
	switch plan {
	case "one":
		return []int{n}
	case "rand", "rand+empty":
		rest := n
		for rest > 0 {
			var k int
			switch rng.Intn(6) {
			case 0:
				k = 1
			case 1:
				k = 1 + rng.Intn(16)
			case 2:
				k = 511 + rng.Intn(3) // around the 1 KiB hex buffer (512 raw bytes = 1024 hex digits)
			case 3:
				k = 1023 + rng.Intn(3)
			default:
				k = 1 + rng.Intn(70000)
			}
			if k > rest {
				k = rest
			}
			if plan == "rand+empty" && rng.Intn(3) == 0 {
				out = append(out, 0)
				if rng.Intn(3) == 0 {
					out = append(out, 0)
				}
			}
			out = append(out, k)
			rest -= k
		}
		if plan == "rand+empty" {
			out = append([]int{0}, out...)
			out = append(out, 0)
		}
		return out
	}
	var k int
	fmt.Sscanf(plan, "%d", &k)
	if k <= 0 {
		k = 1024
	}
	for rest := n; rest > 0; rest -= k {
		if k > rest {
			k = rest
		}
		out = append(out, k)
	}
	return out
}

type c15Stats struct {
	mu      sync.Mutex
	reads   int
	writes  int
	empty   int
	skipped int
}

func (s *c15Stats) add(reads, writes, empty, skipped int) {
	s.mu.Lock()
	s.reads += reads
	s.writes += writes
	s.empty += empty
	s.skipped += skipped
	s.mu.Unlock()
}

// c15Write writes data with the given segmentation through Write calls.
func c15Write(w io.Writer, data []byte, sizes []int, st *c15Stats) error {
	off, empty := 0, 0
	for _, k := range sizes {
		n, err := w.Write(data[off : off+k])
		if err != nil {
			return fmt.Errorf("write of %d bytes at offset %d: %v", k, off, err)
		}
		if n != k {
			return fmt.Errorf("short write at offset %d: %d of %d without error", off, n, k)
		}
		if k == 0 {
			empty++
		}
		off += k
	}
	st.add(0, len(sizes), empty, 0)
	return nil
}

// errC15Done ends an io.Copy once the whole expected stream has arrived.
var errC15Done = fmt.Errorf("expected stream complete")

// c15CheckWriter is the destination of io.Copy / WriteTo: every Write is a
// checkpoint of the prefix property.
type c15CheckWriter struct {
	want    []byte
	got     int
	writes  int
	problem string
}

func (w *c15CheckWriter) Write(p []byte) (int, error) {
	w.writes++
	if w.got+len(p) > len(w.want) {
		w.problem = fmt.Sprintf("bytes-beyond-end|the copy delivered %d bytes where only %d remained (offset %d)", len(p), len(w.want)-w.got, w.got)
		return 0, fmt.Errorf("mismatch")
	}
	if !bytes.Equal(p, w.want[w.got:w.got+len(p)]) {
		i := 0
		for p[i] == w.want[w.got+i] {
			i++
		}
		msg := fmt.Sprintf("first differing offset %d of %d: got %x want %x (write #%d of %d bytes by io.Copy/WriteTo after the small reads)",
			w.got+i, len(w.want), p[i:min(len(p), i+8)], w.want[w.got+i:min(len(w.want), w.got+i+8)], w.writes, len(p))
		if k := bytes.Index(w.want[w.got+i:], p[i:min(len(p), i+8)]); k > 0 && len(p)-i >= 8 {
			msg += fmt.Sprintf("; the delivered bytes match the sender's stream %d bytes further on (bytes were dropped)", k)
		}
		w.problem = "bytes-altered|" + msg
		return 0, fmt.Errorf("mismatch")
	}
	w.got += len(p)
	if w.got == len(w.want) {
		return len(p), errC15Done
	}
	return len(p), nil
}

// c15ReadPrefixCopy consumes the start of the stream with small Reads (or
// through a bufio.Reader) and hands the rest to io.Copy / WriteTo, the way a
// protocol parser reads a header and then streams the body.
func c15ReadPrefixCopy(rd io.Reader, want []byte, prefix []int, mode string, st *c15Stats) (problem string, stalled bool) {
	w := &c15CheckWriter{want: want}
	reads := 0
	defer func() { st.add(reads+w.writes, 0, 0, 0) }()
	fail := func(err error) (string, bool) {
		if ne, ok := err.(net.Error); ok && ne.Timeout() {
			return fmt.Sprintf("stream-incomplete|no progress: %d of %d bytes after the bound (%v)", w.got, len(want), err), true
		}
		return fmt.Sprintf("stream-incomplete|error after %d of %d bytes: %v", w.got, len(want), err), false
	}
	var err error
	if mode == "bufio" {
		n := 5
		if len(prefix) > 0 {
			n = prefix[0]
		}
		br := bufio.NewReaderSize(rd, 16)
		for i := 0; i < n && w.got < len(want); i++ {
			b, e := br.ReadByte()
			reads++
			if e != nil {
				return fail(e)
			}
			if _, e := w.Write([]byte{b}); e != nil && e != errC15Done {
				return w.problem, false
			}
		}
		if w.got < len(want) {
			_, err = br.WriteTo(w)
		}
	} else {
		for _, k := range prefix {
			if w.got >= len(want) {
				break
			}
			p := make([]byte, k)
			n, e := rd.Read(p)
			reads++
			if n > 0 {
				if _, we := w.Write(p[:n]); we != nil && we != errC15Done {
					return w.problem, false
				}
			}
			if e != nil {
				return fail(e)
			}
		}
		if w.got < len(want) {
			_, err = io.Copy(w, rd)
		}
	}
	switch {
	case w.problem != "":
		return w.problem, false
	case w.got == len(want):
		return "", false
	case err != nil:
		return fail(err)
	}
	return fmt.Sprintf("stream-incomplete|the copy returned without error after %d of %d bytes", w.got, len(want)), false
}

// c15ReadCheck reads exactly len(want) bytes with the given buffer sizes and
// checks after every Read that what has arrived is a prefix of want. The
// returned problem is "" or "<kind>|<message>".
func c15ReadCheck(rd io.Reader, want []byte, bufs []int, st *c15Stats) (problem string, stalled bool) {
	if len(bufs) == 0 {
		bufs = []int{32 << 10}
	}
	maxb := 0
	for _, b := range bufs {
		if b > maxb {
			maxb = b
		}
	}
	buf := make([]byte, maxb)
	got, reads := 0, 0
	defer func() { st.add(reads, 0, 0, 0) }()
	for got < len(want) {
		p := buf[:bufs[reads%len(bufs)]]
		n, err := rd.Read(p)
		reads++
		if n > 0 {
			if got+n > len(want) {
				return fmt.Sprintf("bytes-beyond-end|received %d bytes where only %d remained (offset %d)", n, len(want)-got, got), false
			}
			if !bytes.Equal(p[:n], want[got:got+n]) {
				i := 0
				for p[i] == want[got+i] {
					i++
				}
				msg := fmt.Sprintf("first differing offset %d of %d: got %x want %x (read #%d of size %d into a %d-byte buffer)",
					got+i, len(want), p[i:min(n, i+8)], want[got+i:min(len(want), got+i+8)], reads, n, len(p))
				if k := bytes.Index(want[got+i:], p[i:min(n, i+8)]); k > 0 && n-i >= 8 {
					msg += fmt.Sprintf("; the received bytes match the sender's stream %d bytes further on (bytes were dropped)", k)
				}
				return "bytes-altered|" + msg, false
			}
			got += n
		}
		if err != nil {
			if ne, ok := err.(net.Error); ok && ne.Timeout() {
				return fmt.Sprintf("stream-incomplete|no progress: %d of %d bytes after the bound (%v)", got, len(want), err), true
			}
			return fmt.Sprintf("stream-incomplete|read error after %d of %d bytes: %v", got, len(want), err), false
		}
	}
	return "", false
}

// c15Env is the in-process topology of one case.
type c15Env struct {
	closers []func()
	far     chan net.Conn // connections accepted by the far TCP end
	wsURL   *url.URL
}

func (e *c15Env) close() {
	for i := len(e.closers) - 1; i >= 0; i-- {
		e.closers[i]()
	}
}

// c15HandlerEnv starts a TCP far end and an HTTP server around connection.Handler.
func c15HandlerEnv() (*c15Env, error) {
	e := &c15Env{far: make(chan net.Conn, 4)}
	fl, err := net.Listen("tcp", "127.0.0.1:0")
	if err != nil {
		return nil, err
	}
	e.closers = append(e.closers, func() { fl.Close() })
	go func() {
		for {
			c, err := fl.Accept()
			if err != nil {
				return
			}
			e.far <- c
		}
	}()
	// the handler dials "localhost:<port>": also listen on ::1 when possible
	port := fl.Addr().(*net.TCPAddr).Port
	if l6, err := net.Listen("tcp", fmt.Sprintf("[::1]:%d", port)); err == nil {
		e.closers = append(e.closers, func() { l6.Close() })
		go func() {
			for {
				c, err := l6.Accept()
				if err != nil {
					return
				}
				e.far <- c
			}
		}()
	}
	h := connection.Handler(port, http.HandlerFunc(func(w http.ResponseWriter, r *http.Request) {
		http.Error(w, "passthrough not expected here", http.StatusTeapot)
	}))
	hl, err := net.Listen("tcp", "127.0.0.1:0")
	if err != nil {
		e.close()
		return nil, err
	}
	srv := &http.Server{Handler: h}
	go srv.Serve(hl)
	e.closers = append(e.closers, func() { srv.Close() })
	e.wsURL = &url.URL{Scheme: "ws", Host: hl.Addr().String(), Path: connection.StreamingPath}
	return e, nil
}

// c15UpgraderEnv starts an HTTP server whose handler upgrades and hands the
// raw gorilla connection to the case.
func c15UpgraderEnv() (*c15Env, chan *websocket.Conn, error) {
	e := &c15Env{}
	conns := make(chan *websocket.Conn, 2)
	hl, err := net.Listen("tcp", "127.0.0.1:0")
	if err != nil {
		return nil, nil, err
	}
	up := websocket.Upgrader{ReadBufferSize: 1024, WriteBufferSize: 1024}
	done := make(chan struct{})
	srv := &http.Server{Handler: http.HandlerFunc(func(w http.ResponseWriter, r *http.Request) {
		c, err := up.Upgrade(w, r, nil)
		if err != nil {
			return
		}
		conns <- c
		<-done // keep the handler (and so the hijacked connection's owner) alive until the case ends
	})}
	go srv.Serve(hl)
	e.closers = append(e.closers, func() { close(done); srv.Close() })
	e.wsURL = &url.URL{Scheme: "ws", Host: hl.Addr().String(), Path: connection.StreamingPath}
	return e, conns, nil
}

type c15Frame struct {
	Type    int
	Payload []byte
}

// c15Frames turns data into hex text frames interleaved with frames the
// bridge must skip. Returns the frames and the number of non-text frames.
func c15Frames(rng *rand.Rand, data []byte, sizes []int) ([]c15Frame, int) {
	var out []c15Frame
	skipped := 0
	noise := func() {
		switch rng.Intn(5) {
		case 0:
			out = append(out, c15Frame{websocket.BinaryMessage, []byte{0, 1, 2, 0xff, 0xfe}})
		case 1:
			// binary frame whose payload would decode as hex: must still be skipped
			out = append(out, c15Frame{websocket.BinaryMessage, []byte("deadbeef00ff")})
		case 2:
			out = append(out, c15Frame{websocket.PingMessage, []byte("ping-" + fmt.Sprint(rng.Intn(1000)))})
		case 3:
			out = append(out, c15Frame{websocket.PongMessage, []byte("unsolicited")})
		case 4:
			big := make([]byte, 1+rng.Intn(5000))
			rng.Read(big)
			out = append(out, c15Frame{websocket.BinaryMessage, big})
		}
		skipped++
	}
	noise()
	off := 0
	for _, k := range sizes {
		h := hex.EncodeToString(data[off : off+k])
		if rng.Intn(3) == 0 {
			h = strings.ToUpper(h)
		}
		out = append(out, c15Frame{websocket.TextMessage, []byte(h)})
		off += k
		for rng.Intn(2) == 0 {
			noise()
		}
	}
	noise()
	return out, skipped
}

func c15SendFrames(c *websocket.Conn, frames []c15Frame) error {
	for i, f := range frames {
		var err error
		switch f.Type {
		case websocket.PingMessage, websocket.PongMessage:
			err = c.WriteControl(f.Type, f.Payload, time.Now().Add(20*time.Second))
		default:
			err = c.WriteMessage(f.Type, f.Payload)
		}
		if err != nil {
			return fmt.Errorf("frame %d (type %d, %d bytes): %v", i, f.Type, len(f.Payload), err)
		}
	}
	return nil
}

// c15DrainRaw reads text frames from a raw gorilla peer and checks that the
// decoded payloads concatenate to want.
func c15DrainRaw(c *websocket.Conn, want []byte, st *c15Stats) (string, bool) {
	got, reads := 0, 0
	defer func() { st.add(reads, 0, 0, 0) }()
	for got < len(want) {
		mt, msg, err := c.ReadMessage()
		if err != nil {
			if ne, ok := err.(net.Error); ok && ne.Timeout() {
				return fmt.Sprintf("stream-incomplete|no progress: %d of %d bytes (%v)", got, len(want), err), true
			}
			return fmt.Sprintf("stream-incomplete|raw peer read error after %d of %d bytes: %v", got, len(want), err), false
		}
		reads++
		if mt != websocket.TextMessage {
			return fmt.Sprintf("bytes-altered|bridge sent a non-text frame (type %d, %d bytes)", mt, len(msg)), false
		}
		raw, err := hex.DecodeString(string(msg))
		if err != nil {
			return fmt.Sprintf("bytes-altered|bridge sent a text frame that is not hex: %v", err), false
		}
		if got+len(raw) > len(want) || !bytes.Equal(raw, want[got:got+len(raw)]) {
			return fmt.Sprintf("bytes-altered|frame #%d (%d bytes) differs from the sender's stream at offset %d", reads, len(raw), got), false
		}
		got += len(raw)
	}
	return "", false
}

func c15Run(c C15Case, bound time.Duration) (res C15Result) {
	start := time.Now()
	res = C15Result{ID: c.ID, Class: c.Class, Kind: c.Kind}
	defer func() { res.DurationMs = time.Since(start).Milliseconds() }()
	var st c15Stats
	var mu sync.Mutex
	var open []io.Closer
	aborted := false
	track := func(c io.Closer) {
		mu.Lock()
		open = append(open, c)
		mu.Unlock()
	}
	// the first problem decides the case; everything is then torn down so the
	// other pumps do not sit out their deadlines (their follow-up errors are ignored)
	problem := func(p string, stalled bool) {
		if p == "" {
			return
		}
		mu.Lock()
		if aborted {
			mu.Unlock()
			return
		}
		aborted = true
		res.Problems = append(res.Problems, p)
		res.Stalled = stalled
		cs := open
		mu.Unlock()
		for _, c := range cs {
			c.Close()
		}
	}
	// readWS is the reader used on the websocket-side connections (repo code)
	readWS := func(rd io.Reader, want []byte, bufs []int) (string, bool) {
		if c.Copy != "" {
			return c15ReadPrefixCopy(rd, want, bufs, c.Copy, &st)
		}
		return c15ReadCheck(rd, want, bufs, &st)
	}
	rng := rand.New(rand.NewSource(c.Seed))
	ab := c15Data(c.Seed, "a2b", c.Len) // A = websocket side, B = far side
	ba := c15Data(c.Seed, "b2a", c.Len)
	deadline := time.Now().Add(bound)
	ctx, cancel := context.WithDeadline(context.Background(), deadline)
	defer cancel()

	panicked := Recovered(func() {
		switch c.Topo {
		case "handler", "rawclient":
			env, err := c15HandlerEnv()
			if err != nil {
				problem("harness|"+err.Error(), false)
				return
			}
			defer env.close()
			var a net.Conn
			var raw *websocket.Conn
			if c.Topo == "handler" {
				a, err = connection.DialWebsocket(ctx, env.wsURL, nil)
				if err != nil {
					problem("dial-failed|DialWebsocket: "+err.Error(), false)
					return
				}
				defer a.Close()
				track(a)
				a.SetDeadline(deadline)
			} else {
				raw, _, err = websocket.DefaultDialer.DialContext(ctx, env.wsURL.String(), nil)
				if err != nil {
					problem("dial-failed|raw dial: "+err.Error(), false)
					return
				}
				defer raw.Close()
				track(raw)
				raw.SetReadDeadline(deadline)
				raw.SetWriteDeadline(deadline)
			}
			var b net.Conn
			select {
			case b = <-env.far:
			case <-time.After(time.Until(deadline)):
				problem("stream-incomplete|the handler never connected to the far TCP end", true)
				return
			}
			defer b.Close()
			track(b)
			b.SetDeadline(deadline)
			var wg sync.WaitGroup
			run := func(f func()) { wg.Add(1); go func() { defer wg.Done(); f() }() }
			// A -> B
			if c.Topo == "handler" {
				run(func() {
					if err := c15Write(a, ab, c15Sizes(rng, c.Write, len(ab)), &st); err != nil {
						problem("write-failed|A->B "+err.Error(), false)
					}
				})
			} else {
				frames, skipped := c15Frames(rng, ab, c15Sizes(rand.New(rand.NewSource(c.Seed+1)), c.Write, len(ab)))
				st.add(0, len(frames), 0, skipped)
				run(func() {
					if err := c15SendFrames(raw, frames); err != nil {
						problem("write-failed|raw A->B "+err.Error(), false)
					}
				})
			}
			run(func() { problem(c15ReadCheck(b, ab, []int{32 << 10, 1, 7}, &st)) })
			// B -> A
			bsizes := c15Sizes(rand.New(rand.NewSource(c.Seed+2)), strings.TrimSuffix(c.Write, "+empty"), len(ba))
			run(func() {
				if err := c15Write(b, ba, bsizes, &st); err != nil {
					problem("write-failed|B->A "+err.Error(), false)
				}
			})
			if c.Topo == "handler" {
				run(func() { problem(readWS(a, ba, c.Read)) })
			} else {
				run(func() { problem(c15DrainRaw(raw, ba, &st)) })
			}
			wg.Wait()
			res.BytesAB, res.BytesBA = len(ab), len(ba)

		case "pair", "rawserver":
			env, conns, err := c15UpgraderEnv()
			if err != nil {
				problem("harness|"+err.Error(), false)
				return
			}
			defer env.close()
			a, err := connection.DialWebsocket(ctx, env.wsURL, nil)
			if err != nil {
				problem("dial-failed|DialWebsocket: "+err.Error(), false)
				return
			}
			defer a.Close()
			track(a)
			a.SetDeadline(deadline)
			var raw *websocket.Conn
			select {
			case raw = <-conns:
			case <-time.After(time.Until(deadline)):
				problem("harness|upgrade did not happen", false)
				return
			}
			defer raw.Close()
			track(raw)
			raw.SetReadDeadline(deadline)
			raw.SetWriteDeadline(deadline)
			var wg sync.WaitGroup
			run := func(f func()) { wg.Add(1); go func() { defer wg.Done(); f() }() }
			if c.Topo == "pair" {
				b := &connection.WebsocketNetConn{Conn: raw}
				run(func() {
					if err := c15Write(a, ab, c15Sizes(rng, c.Write, len(ab)), &st); err != nil {
						problem("write-failed|A->B "+err.Error(), false)
					}
				})
				run(func() { problem(readWS(b, ab, c.Read)) })
				bsizes := c15Sizes(rand.New(rand.NewSource(c.Seed+2)), c.Write, len(ba))
				run(func() {
					if err := c15Write(b, ba, bsizes, &st); err != nil {
						problem("write-failed|B->A "+err.Error(), false)
					}
				})
				rd := append([]int(nil), c.Read...)
				for i, j := 0, len(rd)-1; i < j; i, j = i+1, j-1 {
					rd[i], rd[j] = rd[j], rd[i]
				}
				run(func() { problem(readWS(a, ba, rd)) })
			} else {
				frames, skipped := c15Frames(rng, ba, c15Sizes(rand.New(rand.NewSource(c.Seed+1)), c.Write, len(ba)))
				st.add(0, len(frames), 0, skipped)
				run(func() {
					if err := c15SendFrames(raw, frames); err != nil {
						problem("write-failed|raw B->A "+err.Error(), false)
					}
				})
				run(func() { problem(readWS(a, ba, c.Read)) })
				run(func() {
					if err := c15Write(a, ab, c15Sizes(rand.New(rand.NewSource(c.Seed+2)), "rand", len(ab)), &st); err != nil {
						problem("write-failed|A->B "+err.Error(), false)
					}
				})
				run(func() { problem(c15DrainRaw(raw, ab, &st)) })
			}
			wg.Wait()
			res.BytesAB, res.BytesBA = len(ab), len(ba)
		default:
			problem("harness|unknown topology "+c.Topo, false)
		}
	})
	if panicked != "" {
		res.Panic = panicked
	}
	res.Reads, res.Writes, res.EmptyWr, res.Skipped = st.reads, st.writes, st.empty, st.skipped
	return res
}
