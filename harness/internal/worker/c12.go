package worker

// C12 — the shim answers every call and survives any call order.
// Case kinds: "hist" (one sequential history over the call alphabet),
// "forced" (one concurrent pair under a hook schedule), "stress" (8-16
// unforced goroutines on one session), "idle" (the one 408 poll).

import (
	"encoding/base64"
	"encoding/json"
	"fmt"
	"math/rand"
	"net"
	"net/http"
	"strconv"
	"strings"
	"sync"
	"sync/atomic"
	"time"

	"github.com/gorilla/websocket"
)

func init() {
	Modes["c12"] = c12Main
	Modes["c12list"] = func([]byte) { // the forced schedules, for the orchestrator
		for _, s := range c12Scheds {
			Emit(map[string]string{"Pair": s.Pair, "Name": s.Name})
		}
	}
}

type c12Case struct {
	ID    string   `json:"id"`
	Kind  string   `json:"kind"`
	Ops   []string `json:"ops,omitempty"`   // hist
	Pair  string   `json:"pair,omitempty"`  // forced
	Sched string   `json:"sched,omitempty"` // forced
	Rep   int      `json:"rep,omitempty"`
	Seed  int64    `json:"seed,omitempty"` // stress
	G     int      `json:"g,omitempty"`    // stress: goroutines
	// hist: after a backend close, polls are only issued once the agent has
	// noticed the close (its connection is torn down), not right behind it
	Settle bool `json:"settle,omitempty"`
	// body: one call to Endpoint with the raw body B64 (Label names it), in State
	// none | one-open | open-and-closed
	Endpoint string `json:"endpoint,omitempty"`
	B64      string `json:"b64,omitempty"`
	Label    string `json:"label,omitempty"`
	State    string `json:"state,omitempty"`
}

type c12Spec struct {
	Parallel int       `json:"parallel"`
	Scale    int       `json:"scale"` // multiplies the progress bounds (solo confirmation runs use 2)
	Cases    []c12Case `json:"cases"`
}

type c12Step struct {
	Op     string `json:"op"`
	Target string `json:"target,omitempty"`
	Status int    `json:"status,omitempty"`
	Ms     int64  `json:"ms"`
	Note   string `json:"note,omitempty"`
}

type c12Result struct {
	ID         string    `json:"id"`
	Kind       string    `json:"kind"`
	Trace      []c12Step `json:"trace,omitempty"`
	Calls      int       `json:"calls"`
	Skipped    int       `json:"skipped"`
	Violations []string  `json:"violations,omitempty"`
	NoAnswer   []string  `json:"no_answer,omitempty"` // progress bounds missed (confirmed by a solo re-run before they count)
	Forced     bool      `json:"forced"`
	Order      string    `json:"order,omitempty"`
	Statuses   string    `json:"statuses,omitempty"`
	Delivered  int       `json:"delivered"` // messages delivered by polls after a backend-initiated close
	CloseSeen  int       `json:"close_seen"`
	Landed     bool      `json:"landed"`   // open‖poll: a poll found the session before the open returned
	Unjudged   int       `json:"unjudged"` // oracle evaluations skipped after repeated misses of the same bound
	Ms         int64     `json:"ms"`
}

var c12Scale = 1

// A progress bound that has been missed three times in this process is not
// waited for in full again: further cases only note that the oracle was not
// evaluated ("unjudged"), so a tree that never answers cannot stall the check.
var c12MissMu sync.Mutex
var c12Misses = map[string]int{}

func c12Missed(kind string) bool {
	c12MissMu.Lock()
	defer c12MissMu.Unlock()
	return c12Misses[kind] >= 3
}

func c12NoteMiss(kind string) {
	c12MissMu.Lock()
	c12Misses[kind]++
	c12MissMu.Unlock()
}

func c12Main(specBytes []byte) {
	var spec c12Spec
	if err := json.Unmarshal(specBytes, &spec); err != nil {
		panic(err)
	}
	if spec.Parallel <= 0 {
		spec.Parallel = 1
	}
	if spec.Scale > 1 {
		c12Scale = spec.Scale
	}
	shimInstallHooks()
	b := newShimBackend()
	sem := make(chan struct{}, spec.Parallel)
	var wg sync.WaitGroup
	for _, c := range spec.Cases {
		c := c
		sem <- struct{}{}
		wg.Add(1)
		go func() {
			defer wg.Done()
			defer func() { <-sem }()
			Start(c.ID)
			t0 := time.Now()
			x := &c12Exec{b: b, c: c, res: c12Result{ID: c.ID, Kind: c.Kind}}
			x.h = shimProxy(nil, b.addr, "shim", false, false)
			switch c.Kind {
			case "hist":
				x.history()
			case "forced":
				x.forced()
			case "stress":
				x.stress()
			case "idle":
				x.idle()
			case "batch":
				x.batch()
			case "noread":
				x.noread()
			case "body":
				x.body()
			case "stall":
				x.stalled()
			case "dead":
				x.dead()
			case "silent":
				x.silent()
			case "longidle":
				x.longIdle()
			case "copen":
				x.concurrentOpens()
			case "deadrun":
				x.deadRun()
			case "oddver":
				x.oddVersion()
			}
			x.res.Ms = time.Since(t0).Milliseconds()
			Emit(x.res)
		}()
	}
	wg.Wait()
	Emit(map[string]interface{}{"id": "_hits", "hits": shimHits()})
}

const (
	c12Live = iota
	c12BClosed
	c12Closed
)

type c12Sess struct {
	id, token string
	bc        *shimBConn
	state     int
	sent      []shimMsg // sent by the backend
	delivered int
	settle    bool // polls after the backend's close wait until the agent has noticed it
	tainted   bool // a client data/close call came between the backend's sends and the polls
}

type c12Exec struct {
	b    *shimBackend
	c    c12Case
	h    http.Handler
	res  c12Result
	mu   sync.Mutex
	sess []*c12Sess
	nTok int
}

func (x *c12Exec) violate(sig, msg string) {
	x.mu.Lock()
	if len(x.res.Violations) < 10 {
		x.res.Violations = append(x.res.Violations, sig+"|"+msg)
	}
	x.mu.Unlock()
}

func (x *c12Exec) step(s c12Step) {
	x.mu.Lock()
	if len(x.res.Trace) < 40 {
		x.res.Trace = append(x.res.Trace, s)
	}
	x.mu.Unlock()
}

func c12Bound(action string) time.Duration {
	if action == "open-silent" { // the websocket dialer's own handshake time-out is 45 s
		return 60 * time.Second * time.Duration(c12Scale)
	}
	if action == "poll" || action == "poll-overlapping" {
		return shimBoundPoll * time.Duration(c12Scale)
	}
	return shimBoundCall * time.Duration(c12Scale)
}

// judge applies the oracles every call is subject to. reject: "" | "unknown" | "closed".
func (x *c12Exec) judge(action, label, reject string, a shimAnswer) {
	x.mu.Lock()
	x.res.Calls++
	x.mu.Unlock()
	switch {
	case a.Panic != "":
		x.violate("C12:panic:"+shimSlug(a.Panic), fmt.Sprintf("%s panicked on the goroutine serving the request (in the agent this terminates the process): %s", label, a.Panic))
	case !a.Answered:
		x.mu.Lock()
		x.res.NoAnswer = append(x.res.NoAnswer, action)
		x.mu.Unlock()
		x.violate("C12:no-answer:"+action, fmt.Sprintf("%s got no HTTP answer within %s", label, c12Bound(action)))
	case !shimStatusOK(a.Status):
		x.violate("C12:status-out-of-range:"+action, fmt.Sprintf("%s answered %d (%s)", label, a.Status, shimTrunc(string(a.Body), 120)))
	case reject != "" && a.Status == 200:
		x.violate("C12:"+reject+"-session-accepted:"+action, fmt.Sprintf("%s names a session that is %s but was answered 200 (%s)", label, reject, shimTrunc(string(a.Body), 120)))
	case reject != "" && a.Status != 400:
		x.violate(fmt.Sprintf("C12:%s-session-answered-%d:%s", reject, a.Status, action), fmt.Sprintf("%s names a session that is %s and must be rejected with 400, got %d", label, reject, a.Status))
	}
}

func (x *c12Exec) call(action, label, reject string, hdr [][2]string, body []byte) shimAnswer {
	return x.callNamed(action, action, label, reject, hdr, body)
}

// callNamed posts to endpoint but is judged (signatures, bounds) under name.
func (x *c12Exec) callNamed(endpoint, action, label, reject string, hdr [][2]string, body []byte) shimAnswer {
	if c12Missed("no-answer:" + action) {
		a := shimStart(x.h, nil, "", shimReq(endpoint, hdr, body)).wait(2 * time.Second)
		if !a.Answered && a.Panic == "" {
			x.mu.Lock()
			x.res.Unjudged++
			x.mu.Unlock()
			return a
		}
		x.judge(action, label, reject, a)
		return a
	}
	a := shimStart(x.h, nil, "", shimReq(endpoint, hdr, body)).wait(c12Bound(action))
	if !a.Answered && a.Panic == "" {
		c12NoteMiss("no-answer:" + action)
	}
	x.judge(action, label, reject, a)
	return a
}

func (x *c12Exec) open(extra ...[2]string) (*c12Sess, shimAnswer) {
	x.nTok++
	s := &c12Sess{token: fmt.Sprintf("%s-%d", x.c.ID, x.nTok)}
	hdr := append([][2]string{{"X-Verif-Conn", s.token}, {"X-Websocket-Shim-Version", "1"}}, extra...)
	a := x.call("open", "open(valid URL)", "", hdr, []byte("ws://app.example/ws/"+s.token+"?x=1"))
	if a.Answered && a.Status == 200 {
		var r shimOpenResp
		if json.Unmarshal(a.Body, &r) == nil && r.ID != "" {
			s.id = r.ID
			s.bc = x.b.conn(s.token)
		}
	}
	if s.id == "" || s.bc == nil {
		return nil, a
	}
	return s, a
}

func c12DataBody(id string, msg interface{}) []byte {
	b, _ := json.Marshal([]map[string]interface{}{{"id": id, "msg": msg}})
	return b
}

func c12BackendMsg(i int) shimMsg {
	if i%3 == 2 {
		return shimMsg{websocket.BinaryMessage, []byte{byte(i), 0, 0xff, 0xfe, '"'}}
	}
	return shimMsg{websocket.TextMessage, []byte(fmt.Sprintf("server message %d  <&>", i))}
}

// checkBackendClosed: after a close answered 200 the backend must observe the websocket closing.
func (x *c12Exec) checkBackendClosed(s *c12Sess, after string) {
	if c12Missed("backend-not-closed") {
		if s.bc.waitClosed(30 * time.Millisecond) {
			x.mu.Lock()
			x.res.CloseSeen++
			x.mu.Unlock()
		} else {
			x.mu.Lock()
			x.res.Unjudged++
			x.mu.Unlock()
		}
		return
	}
	if s.bc.waitClosed(10 * time.Second * time.Duration(c12Scale)) {
		x.mu.Lock()
		x.res.CloseSeen++
		x.mu.Unlock()
		return
	}
	c12NoteMiss("backend-not-closed")
	x.mu.Lock()
	x.res.NoAnswer = append(x.res.NoAnswer, "backend-close-observation")
	x.mu.Unlock()
	x.violate("C12:backend-not-closed", fmt.Sprintf("close of session %s answered 200 (%s) but the backend did not see its websocket close within %ds", s.id, after, 10*c12Scale))
}

// drain polls a session whose backend has closed: the polls must deliver
// what the backend sent, in order, and then answer 400.
func (x *c12Exec) drain(s *c12Sess, first *shimAnswer) {
	a := first
	for n := 0; n < len(s.sent)+4; n++ {
		if a == nil {
			if s.settle {
				s.bc.settled(len(s.sent) - s.delivered)
			}
			r := x.call("poll", fmt.Sprintf("poll(session %s after backend close)", s.id), "", nil, shimIDBody(s.id))
			a = &r
		}
		x.step(c12Step{Op: "poll", Target: s.id, Status: a.Status, Ms: a.ms()})
		if !a.Answered {
			return
		}
		switch a.Status {
		case 200:
			ms, err := shimDecodePoll(a.Body, 1)
			if err != nil {
				x.violate("C12:poll-reply-undecodable", err.Error())
				return
			}
			for _, m := range ms {
				if s.delivered >= len(s.sent) || c11Same(s.sent[s.delivered], m) != "" {
					x.violate("C12:after-backend-close:wrong-message", fmt.Sprintf("session %s: poll after the backend closed delivered message #%d = %s %q, the backend had sent %d messages and #%d was %s", s.id, s.delivered, m.kind(), shimTrunc(string(m.D), 60), len(s.sent), s.delivered, c12Describe(s.sent, s.delivered)))
					return
				}
				s.delivered++
				x.mu.Lock()
				x.res.Delivered++
				x.mu.Unlock()
			}
		case 400:
			s.state = c12Closed
			if s.delivered < len(s.sent) && !s.tainted {
				x.violate("C12:after-backend-close:messages-lost", fmt.Sprintf("session %s: the backend sent %d messages and closed; polls delivered %d and then reported the session closed", s.id, len(s.sent), s.delivered))
			}
			return
		case 408:
			// the poll waited its full 20 s although the backend had closed: allowed as an answer, keep polling
		default:
			return
		}
		a = nil
	}
	if s.state != c12Closed {
		x.violate("C12:backend-close-not-reported", fmt.Sprintf("session %s: the backend closed but %d polls later no poll has answered 400", s.id, len(s.sent)+4))
	}
}

func c12Describe(ms []shimMsg, i int) string {
	if i >= len(ms) {
		return "(none)"
	}
	return fmt.Sprintf("%s %q", ms[i].kind(), shimTrunc(string(ms[i].D), 60))
}

// rejects checks that data, poll and close naming a closed session get 400.
func (x *c12Exec) rejects(s *c12Sess, why string) {
	x.call("data", fmt.Sprintf("data(session %s, closed: %s)", s.id, why), "closed", nil, c12DataBody(s.id, "late"))
	x.call("poll", fmt.Sprintf("poll(session %s, closed: %s)", s.id, why), "closed", nil, shimIDBody(s.id))
	x.call("close", fmt.Sprintf("close(session %s, closed: %s)", s.id, why), "closed", nil, shimIDBody(s.id))
}

// probe shows that the handler still works: a fresh session carries a
// message and closes.
func (x *c12Exec) probe(after string) {
	s, a := x.open()
	if s == nil {
		if a.Answered && a.Panic == "" {
			x.violate("C12:wedged:open", fmt.Sprintf("after %s a fresh open answered %d %s", after, a.Status, shimTrunc(string(a.Body), 120)))
		}
		return
	}
	defer x.b.forget(s.token)
	d := x.call("data", "data(probe session)", "", nil, c12DataBody(s.id, "probe"))
	if d.Answered && d.Status == 200 {
		if !s.bc.waitRecv(func(r []shimMsg) bool { return len(r) >= 1 }, 10*time.Second*time.Duration(c12Scale)) {
			x.violate("C12:wedged:data", fmt.Sprintf("after %s a message posted on a fresh session did not reach the backend within 10s", after))
		}
	} else if d.Answered && d.Panic == "" {
		x.violate("C12:wedged:data", fmt.Sprintf("after %s data on a fresh session answered %d", after, d.Status))
	}
	c := x.call("close", "close(probe session)", "", nil, shimIDBody(s.id))
	if c.Answered && c.Status == 200 {
		x.checkBackendClosed(s, "probe")
	}
}

// ------------------------------------------------------------ histories

var c12Unknown = []string{"999999", "", "nosuch", "-1", "1 ", "01", "0x1", "1.0"}
var c12BadJSON = []string{"{", "", "[{\"id\":1}]", "{\"id\":\"1\"", "\"1\"", "\x00\xff", "{\"id\":{}}", "[[]]"}
var c12WrongType = []interface{}{123, map[string]interface{}{"a": 1}, nil, []interface{}{1}, []interface{}{"%%%not-base64"}, []interface{}{"a", "b"}, []interface{}{}, true, 1.5}

func (x *c12Exec) current() *c12Sess {
	for i := len(x.sess) - 1; i >= 0; i-- {
		if x.sess[i].state != c12Closed {
			return x.sess[i]
		}
	}
	return nil
}

func (x *c12Exec) lastClosed() *c12Sess {
	for i := len(x.sess) - 1; i >= 0; i-- {
		if x.sess[i].state == c12Closed {
			return x.sess[i]
		}
	}
	return nil
}

func (x *c12Exec) history() {
	for pos, op := range x.c.Ops {
		k := pos + len(x.c.Ops)
		skip := func(why string) {
			x.res.Skipped++
			x.step(c12Step{Op: op, Note: "skipped: " + why})
		}
		action := map[byte]string{'o': "open", 'd': "data", 'p': "poll", 'c': "close", 'b': "backend"}[op[0]]
		switch op {
		case "ov":
			s, a := x.open()
			if s != nil {
				x.sess = append(x.sess, s)
				x.step(c12Step{Op: op, Target: s.id, Status: a.Status, Ms: a.ms()})
			} else {
				x.step(c12Step{Op: op, Status: a.Status, Ms: a.ms(), Note: "open did not yield a session"})
			}
		case "om":
			body := []string{"http://[::1", "%zz", "ws://a b/", ":", "http://h:port/x", "\x7f"}[k%6]
			a := x.call("open", fmt.Sprintf("open(malformed URL %q)", body), "", [][2]string{{"X-Verif-Conn", "malformed"}}, []byte(body))
			x.step(c12Step{Op: op, Target: body, Status: a.Status, Ms: a.ms()})
		case "or":
			a := x.call("open", "open(backend refuses the upgrade)", "", [][2]string{{"X-Verif-Refuse", "1"}}, []byte("/refused"))
			x.step(c12Step{Op: op, Status: a.Status, Ms: a.ms()})
		case "dv", "dt":
			s := x.current()
			if s == nil {
				skip("no open session")
				continue
			}
			var msg interface{} = fmt.Sprintf("client message %d", pos)
			label := fmt.Sprintf("data(session %s)", s.id)
			if op == "dt" {
				msg = c12WrongType[k%len(c12WrongType)]
				mj, _ := json.Marshal(msg)
				label = fmt.Sprintf("data(session %s, msg of wrong type %s)", s.id, mj)
			}
			a := x.call("data", label, "", nil, c12DataBody(s.id, msg))
			s.tainted = true
			x.step(c12Step{Op: op, Target: s.id, Status: a.Status, Ms: a.ms()})
		case "du", "pu", "cu":
			id := c12Unknown[k%len(c12Unknown)]
			body := shimIDBody(id)
			if op == "du" {
				body = c12DataBody(id, "x")
			}
			a := x.call(action, fmt.Sprintf("%s(unknown session %q)", action, id), "unknown", nil, body)
			x.step(c12Step{Op: op, Target: id, Status: a.Status, Ms: a.ms()})
		case "dc", "pc", "cc":
			s := x.lastClosed()
			if s == nil {
				skip("no closed session")
				continue
			}
			body := shimIDBody(s.id)
			if op == "dc" {
				body = c12DataBody(s.id, "x")
			}
			a := x.call(action, fmt.Sprintf("%s(closed session %s)", action, s.id), "closed", nil, body)
			x.step(c12Step{Op: op, Target: s.id, Status: a.Status, Ms: a.ms()})
		case "dm", "pm", "cm":
			body := c12BadJSON[k%len(c12BadJSON)]
			a := x.call(action, fmt.Sprintf("%s(malformed body %q)", action, body), "", nil, []byte(body))
			x.step(c12Step{Op: op, Target: body, Status: a.Status, Ms: a.ms()})
		case "pv":
			s := x.current()
			if s == nil || (s.state == c12Live && s.delivered >= len(s.sent)) {
				skip("nothing pending")
				continue
			}
			if s.state == c12BClosed {
				x.drain(s, nil)
				continue
			}
			for n := 0; s.delivered < len(s.sent) && n < len(s.sent)+2; n++ {
				a := x.call("poll", fmt.Sprintf("poll(session %s, %d pending)", s.id, len(s.sent)-s.delivered), "", nil, shimIDBody(s.id))
				x.step(c12Step{Op: op, Target: s.id, Status: a.Status, Ms: a.ms()})
				if !a.Answered || a.Status != 200 {
					break
				}
				ms, _ := shimDecodePoll(a.Body, 1)
				s.delivered += len(ms)
				if len(ms) == 0 {
					break
				}
			}
		case "cv":
			s := x.current()
			if s == nil {
				skip("no open session")
				continue
			}
			a := x.call("close", fmt.Sprintf("close(session %s)", s.id), "", nil, shimIDBody(s.id))
			x.step(c12Step{Op: op, Target: s.id, Status: a.Status, Ms: a.ms()})
			s.tainted = true
			if a.Answered && a.Status == 200 {
				s.state = c12Closed
				x.checkBackendClosed(s, "history step "+fmt.Sprint(pos))
			}
		case "bs":
			s := x.current()
			if s == nil || s.state != c12Live {
				skip("no session with a live backend")
				continue
			}
			n := []int{1, 3, 2, 12}[k%4]
			for i := 0; i < n; i++ {
				m := c12BackendMsg(len(s.sent))
				if err := s.bc.send(m); err != nil {
					break
				}
				s.sent = append(s.sent, m)
			}
			s.tainted = false
			x.step(c12Step{Op: op, Target: s.id, Note: fmt.Sprintf("%d messages", n)})
		case "bc":
			s := x.current()
			if s == nil || s.state != c12Live {
				skip("no session with a live backend")
				continue
			}
			s.bc.closeNow()
			s.state = c12BClosed
			note := ""
			if x.c.Settle {
				s.settle = true
				if s.bc.settled(len(s.sent) - s.delivered) {
					note = "agent side torn down before the next call"
				}
			}
			x.step(c12Step{Op: op, Target: s.id, Note: note})
		default:
			skip("unknown op")
		}
	}
	// wind down: whatever is still open is closed (judged like any close), then the handler must still work
	for _, s := range x.sess {
		if s.state != c12Closed {
			a := x.call("close", fmt.Sprintf("close(session %s, wind-down)", s.id), "", nil, shimIDBody(s.id))
			if a.Answered && a.Status == 200 {
				s.state = c12Closed
				x.checkBackendClosed(s, "wind-down")
			}
		}
		x.b.forget(s.token)
	}
	x.probe("history " + strings.Join(x.c.Ops, ","))
}

// ------------------------------------------------------------ forced pairs

type c12Sched struct {
	Pair, Name string
	Rules      []shimRule
	First      string // A | B | X (X = the backend acts)
	After      string // event the second actor waits for ("" = none)
	DelayUs    int
	Settle     bool // X waits until the agent has torn its side down before anything else happens
	Spin       bool // B is repeated back to back until it is no longer answered 400 (or A is done)
	Pending    int  // messages the backend sends before the pair starts
	K          int  // messages the backend sends immediately before closing (X)
}

// C12Scheds lists every forced schedule; the orchestrator mirrors the names.
var c12Scheds = []c12Sched{
	// A = data, B = close
	{Pair: "data-close", Name: "close-completes-while-data-at-loaded", First: "A", After: "A@shim.data.loaded",
		Rules: []shimRule{{Role: "A", Hook: "shim.data.loaded", Until: "B.done&int@conn.writer.recv"}, {Role: "int", Hook: "conn.writer.recv", Until: "A.done"}}},
	{Pair: "data-close", Name: "close-completes-while-data-at-send", First: "A", After: "A@conn.send.enter",
		Rules: []shimRule{{Role: "A", Hook: "conn.send.enter", Until: "B.done&int@conn.writer.recv"}, {Role: "int", Hook: "conn.writer.recv", Until: "A.done"}}},
	{Pair: "data-close", Name: "data-completes-while-close-at-loaded", First: "B", After: "B@shim.close.loaded",
		Rules: []shimRule{{Role: "B", Hook: "shim.close.loaded", Until: "A.done"}}},
	{Pair: "data-close", Name: "enter-together-data-waits", First: "A", After: "A@conn.send.enter",
		Rules: []shimRule{{Role: "A", Hook: "conn.send.enter", Until: "B@conn.close.enter"}}},
	{Pair: "data-close", Name: "enter-together-close-waits", First: "A", After: "A@shim.data.loaded",
		Rules: []shimRule{{Role: "A", Hook: "shim.data.loaded", Until: "B@conn.close.enter"}, {Role: "B", Hook: "conn.close.enter", Until: "A@conn.send.enter"}}},
	{Pair: "data-close", Name: "data-queued-writer-held-until-close-done", First: "A", After: "A.done&int@conn.writer.recv",
		Rules: []shimRule{{Role: "int", Hook: "conn.writer.recv", Until: "B.done"}}},
	// A = close, B = close
	{Pair: "close-close", Name: "second-completes-while-first-at-loaded", First: "A", After: "A@shim.close.loaded",
		Rules: []shimRule{{Role: "A", Hook: "shim.close.loaded", Until: "B.done"}}},
	{Pair: "close-close", Name: "second-completes-while-first-at-loaded-writer-held", First: "A", After: "A@shim.close.loaded",
		Rules: []shimRule{{Role: "A", Hook: "shim.close.loaded", Until: "B.done&int@conn.writer.recv"}, {Role: "int", Hook: "conn.writer.recv", Until: "A.done"}}},
	{Pair: "close-close", Name: "both-loaded-first-enters-with-second", First: "A", After: "A@shim.close.loaded",
		Rules: []shimRule{{Role: "A", Hook: "shim.close.loaded", Until: "B@shim.close.loaded"}, {Role: "A", Hook: "conn.close.enter", Until: "B@conn.close.enter"}}},
	{Pair: "close-close", Name: "both-loaded-second-enters-with-first", First: "A", After: "A@shim.close.loaded",
		Rules: []shimRule{{Role: "A", Hook: "shim.close.loaded", Until: "B@shim.close.loaded"}, {Role: "B", Hook: "conn.close.enter", Until: "A@conn.close.enter"}}},
	// A = poll, B = close
	{Pair: "poll-close", Name: "close-completes-while-poll-at-loaded", First: "A", After: "A@shim.poll.loaded",
		Rules: []shimRule{{Role: "A", Hook: "shim.poll.loaded", Until: "B.done"}}},
	{Pair: "poll-close", Name: "close-completes-while-poll-at-loaded-2-pending", First: "A", After: "A@shim.poll.loaded", Pending: 2,
		Rules: []shimRule{{Role: "A", Hook: "shim.poll.loaded", Until: "B.done"}}},
	{Pair: "poll-close", Name: "close-while-poll-blocked-in-read", First: "A", After: "A@shim.poll.loaded", DelayUs: 3000},
	{Pair: "poll-close", Name: "poll-completes-while-close-at-loaded-2-pending", First: "B", After: "B@shim.close.loaded", Pending: 2,
		Rules: []shimRule{{Role: "B", Hook: "shim.close.loaded", Until: "A.done"}}},
	{Pair: "poll-close", Name: "close-enters-while-poll-at-loaded-1-pending", First: "A", After: "A@shim.poll.loaded", Pending: 1,
		Rules: []shimRule{{Role: "A", Hook: "shim.poll.loaded", Until: "B@conn.close.enter"}}},
	// A = data, X = backend closes
	{Pair: "data-bclose", Name: "backend-closes-while-data-at-loaded", First: "A", After: "A@shim.data.loaded",
		Rules: []shimRule{{Role: "A", Hook: "shim.data.loaded", Until: "bclosed"}}},
	{Pair: "data-bclose", Name: "backend-closes-while-data-at-send", First: "A", After: "A@conn.send.enter",
		Rules: []shimRule{{Role: "A", Hook: "conn.send.enter", Until: "bclosed"}}},
	{Pair: "data-bclose", Name: "backend-closes-while-writer-holds-message", First: "A", After: "int@conn.writer.recv",
		Rules: []shimRule{{Role: "int", Hook: "conn.writer.recv", Until: "bclosed"}}},
	{Pair: "data-bclose", Name: "backend-closes-then-data", First: "X", After: "bclosed"},
	{Pair: "data-bclose", Name: "data-completes-then-backend-closes", First: "A", After: "A.done"},
	// A = poll, X = backend sends K messages and closes
	{Pair: "poll-bclose", Name: "backend-sends-3-and-closes-while-poll-at-loaded", First: "A", After: "A@shim.poll.loaded", K: 3,
		Rules: []shimRule{{Role: "A", Hook: "shim.poll.loaded", Until: "bclosed"}}},
	{Pair: "poll-bclose", Name: "backend-closes-while-poll-at-loaded", First: "A", After: "A@shim.poll.loaded",
		Rules: []shimRule{{Role: "A", Hook: "shim.poll.loaded", Until: "bclosed"}}},
	{Pair: "poll-bclose", Name: "backend-closes-while-poll-blocked-in-read", First: "A", After: "A@shim.poll.loaded", DelayUs: 3000},
	{Pair: "poll-bclose", Name: "backend-sends-3-and-closes-while-poll-blocked-in-read", First: "A", After: "A@shim.poll.loaded", DelayUs: 3000, K: 3},
	{Pair: "poll-bclose", Name: "backend-sends-12-and-closes-then-poll", First: "X", After: "bclosed", K: 12},
	{Pair: "poll-bclose", Name: "backend-sends-3-and-closes-agent-notices-then-poll", First: "X", After: "bclosed", K: 3, Settle: true},
	{Pair: "poll-bclose", Name: "backend-sends-10-and-closes-agent-notices-then-poll", First: "X", After: "bclosed", K: 10, Settle: true},
	{Pair: "poll-bclose", Name: "backend-sends-25-and-closes-polls-wait-for-agent-to-notice", First: "X", After: "bclosed", K: 25, Settle: true},
	// A = open (backend greets with 2 messages), B = poll naming the id the open will be given
	{Pair: "open-poll", Name: "poll-completes-then-open", First: "B", After: "B.done"},
	{Pair: "open-poll", Name: "polls-back-to-back-first-hit-held-at-loaded-until-open-returns", First: "A", Spin: true,
		Rules: []shimRule{{Role: "B", Hook: "shim.poll.loaded", Until: "A.done"}}},
	{Pair: "open-poll", Name: "polls-back-to-back-unforced", First: "A", Spin: true},
	{Pair: "open-poll", Name: "concurrent-unforced", First: "A"},
	{Pair: "open-poll", Name: "open-completes-then-poll", First: "A", After: "A.done"},
}

func (x *c12Exec) forced() {
	var sc *c12Sched
	for i := range c12Scheds {
		if c12Scheds[i].Pair == x.c.Pair && c12Scheds[i].Name == x.c.Sched {
			sc = &c12Scheds[i]
		}
	}
	if sc == nil {
		x.res.Skipped++
		return
	}
	if sc.Spin && len(sc.Rules) == 0 {
		// unforced and cheap: the race is run five times on fresh handlers
		for i := 0; i < 4; i++ {
			x.forcedOnce(sc)
			x.h = shimProxy(nil, x.b.addr, "shim", false, false)
		}
	}
	x.forcedOnce(sc)
}

func (x *c12Exec) forcedOnce(sc *c12Sched) {
	var s *c12Sess
	token := ""
	if sc.Pair != "open-poll" {
		s, _ = x.open()
		if s == nil {
			x.res.Skipped++
			return
		}
		for i := 0; i < sc.Pending; i++ {
			m := c12BackendMsg(i)
			s.bc.send(m)
			s.sent = append(s.sent, m)
		}
	} else {
		x.nTok++
		token = fmt.Sprintf("%s-%d", x.c.ID, x.nTok)
	}
	var reqA, reqB *http.Request
	actA, actB := "", ""
	switch sc.Pair {
	case "data-close":
		actA, actB = "data", "close"
	case "close-close":
		actA, actB = "close", "close"
	case "poll-close":
		actA, actB = "poll", "close"
	case "data-bclose":
		actA = "data"
	case "poll-bclose":
		actA = "poll"
	case "open-poll":
		actA, actB = "open", "poll"
	}
	mk := func(act string) *http.Request {
		switch act {
		case "data":
			return shimReq("data", nil, c12DataBody(s.id, "racing message"))
		case "poll", "close":
			id := "1" // a fresh Proxy numbers its first session 1
			if s != nil {
				id = s.id
			}
			return shimReq(act, nil, shimIDBody(id))
		case "open":
			return shimReq("open", [][2]string{{"X-Verif-Conn", token}, {"X-Websocket-Shim-Version", "1"}, {"X-Verif-Greet", "2"}}, []byte("/ws/greeting"))
		}
		return nil
	}
	reqA = mk(actA)
	if actB != "" {
		reqB = mk(actB)
	}
	rules := make([]shimRule, len(sc.Rules))
	copy(rules, sc.Rules)
	sched := newShimSched(rules...)
	if len(rules) > 0 || strings.Contains(sc.After, "@") {
		sched.activate() // otherwise the hooks stay inert: an unforced schedule must not be serialised by the scheduler's own lock
	}
	doX := func() {
		for i := 0; i < sc.K; i++ {
			m := c12BackendMsg(len(s.sent))
			s.bc.send(m)
			s.sent = append(s.sent, m)
		}
		s.bc.closeNow()
		s.state = c12BClosed
		if sc.Settle {
			s.settle = true
			s.bc.settled(len(s.sent) - s.delivered) // the agent has noticed the close and torn its side down
		} else {
			time.Sleep(3 * time.Millisecond) // let the agent's reader goroutine see the close
		}
		sched.signal("bclosed")
	}
	var pa, pb *shimPending
	start := func(role string) {
		switch role {
		case "A":
			pa = shimStart(x.h, sched, "A", reqA)
		case "B":
			if sc.Spin {
				pb = x.spin(sched, reqB)
			} else {
				pb = shimStart(x.h, sched, "B", reqB)
			}
		case "X":
			doX()
		}
	}
	second := "B"
	if actB == "" {
		second = "X"
	}
	if sc.First != "A" {
		second = "A"
	}
	start(sc.First)
	gate := true
	if sc.After != "" {
		for _, e := range strings.Split(sc.After, "&") {
			gate = sched.await(e, 2*time.Second) && gate
		}
	}
	if sc.DelayUs > 0 {
		time.Sleep(time.Duration(sc.DelayUs) * time.Microsecond)
	} else if sc.After == "" && x.c.Rep%4 != 0 {
		time.Sleep(time.Duration(x.c.Rep%4) * 100 * time.Microsecond)
	}
	start(second)
	var a, bAns shimAnswer
	a = pa.wait(c12Bound(actA))
	x.judge(actA, fmt.Sprintf("%s racing in schedule %s/%s", actA, sc.Pair, sc.Name), "", a)
	st := fmt.Sprintf("%s=%d", actA, a.Status)
	if pb != nil {
		bAns = pb.wait(c12Bound(actB))
		x.judge(actB, fmt.Sprintf("%s racing in schedule %s/%s", actB, sc.Pair, sc.Name), "", bAns)
		st += fmt.Sprintf(",%s=%d", actB, bAns.Status)
	}
	sched.deactivate()
	forced, order := sched.summary()
	x.res.Forced, x.res.Order, x.res.Statuses = forced && gate, order, st
	if a.Panic != "" || bAns.Panic != "" || !a.Answered || (pb != nil && !bAns.Answered) {
		x.probe("schedule " + sc.Pair + "/" + sc.Name)
		return
	}

	// ---- consequences
	if sc.Pair == "open-poll" {
		var r shimOpenResp
		if a.Status == 200 && json.Unmarshal(a.Body, &r) == nil {
			s = &c12Sess{id: r.ID, token: token, bc: x.b.conn(token)}
		}
		if bAns.Status == 200 {
			ms, err := shimDecodePoll(bAns.Body, 1)
			if err != nil {
				x.violate("C12:poll-reply-undecodable", err.Error())
			}
			for i, m := range ms {
				if want := fmt.Sprintf("greet-%d", i); string(m.D) != want {
					x.violate("C12:open-poll:wrong-message", fmt.Sprintf("poll racing with open delivered %q as message %d, the backend had sent %q", m.D, i, want))
				}
			}
		}
		if s != nil && s.bc != nil {
			c := x.call("close", "close(session opened in the race)", "", nil, shimIDBody(s.id))
			if c.Answered && c.Status == 200 {
				s.state = c12Closed
				x.checkBackendClosed(s, "after open‖poll")
				x.rejects(s, "close answered 200")
			}
			x.b.forget(token)
		}
		x.probe("schedule " + sc.Pair + "/" + sc.Name)
		return
	}
	closeOK := (actA == "close" && a.Status == 200) || (actB == "close" && bAns.Status == 200)
	pollSaidClosed := actA == "poll" && a.Status == 400
	if actA == "poll" && a.Status == 200 {
		ms, err := shimDecodePoll(a.Body, 1)
		if err != nil {
			x.violate("C12:poll-reply-undecodable", err.Error())
		}
		if s.state == c12BClosed {
			x.drain(s, &a) // judges the racing poll's reply and the follow-up polls
			pollSaidClosed = s.state == c12Closed
		} else {
			for i, m := range ms { // poll‖close: what a poll delivers is still what the backend sent, in order
				if i >= len(s.sent) || c11Same(s.sent[i], m) != "" {
					x.violate("C12:poll-close:wrong-message", fmt.Sprintf("poll racing with close delivered %s %q as message %d; backend sent %s", m.kind(), shimTrunc(string(m.D), 60), i, c12Describe(s.sent, i)))
					break
				}
			}
		}
	} else if s.state == c12BClosed && !closeOK {
		if pollSaidClosed {
			s.state = c12Closed
			if len(s.sent) > 0 {
				x.violate("C12:after-backend-close:messages-lost", fmt.Sprintf("session %s: the backend sent %d messages and closed; the first poll answered 400", s.id, len(s.sent)))
			}
		} else {
			if actA == "data" {
				s.tainted = true
			}
			x.drain(s, nil)
			pollSaidClosed = s.state == c12Closed
		}
	}
	if closeOK {
		s.state = c12Closed
		x.checkBackendClosed(s, "schedule "+sc.Pair+"/"+sc.Name)
	}
	if closeOK || pollSaidClosed {
		why := "close answered 200"
		if !closeOK {
			why = "a poll answered 400"
		}
		x.rejects(s, why)
	} else {
		c := x.call("close", fmt.Sprintf("close(session %s, wind-down)", s.id), "", nil, shimIDBody(s.id))
		if c.Answered && c.Status == 200 {
			x.checkBackendClosed(s, "wind-down")
			x.rejects(s, "close answered 200")
		}
	}
	x.b.forget(s.token)
	x.probe("schedule " + sc.Pair + "/" + sc.Name)
}

// spin repeats a poll back to back while it is answered 400 (session not
// yet known) and A has not returned; every answer is judged, the last one is
// handed on. This is how a poll is landed in the few microseconds between
// the open handler storing the session and returning.
func (x *c12Exec) spin(sched *shimSched, proto *http.Request) *shimPending {
	p := &shimPending{done: make(chan shimAnswer, 1), t0: time.Now()}
	body := shimIDBody("1")
	go func() {
		for n := 0; ; n++ {
			last := sched.happened("A.done")
			a := shimStart(x.h, sched, "B", shimReq("poll", nil, body)).wait(c12Bound("poll"))
			if !a.Answered || a.Status != 400 || last || n > 20000 {
				x.mu.Lock()
				x.res.Landed = x.res.Landed || (a.Answered && a.Status != 400 && !last) // found the session before the open had returned
				x.res.Calls += n
				x.mu.Unlock()
				p.done <- a
				return
			}
		}
	}()
	return p
}

// ------------------------------------------------------------ stress

type c12Obs struct {
	action, target string
	own            bool // names the session under stress
	a              shimAnswer
}

func (x *c12Exec) stress() {
	rng := rand.New(rand.NewSource(x.c.Seed))
	s, _ := x.open()
	if s == nil {
		x.res.Skipped++
		return
	}
	g := x.c.G
	if g < 2 {
		g = 8
	}
	stopPump := make(chan struct{})
	var pumpWG sync.WaitGroup
	pumpWG.Add(1)
	go func() { // the backend keeps talking so that polls find something
		defer pumpWG.Done()
		for i := 0; i < 400; i++ {
			select {
			case <-stopPump:
				return
			case <-s.bc.closed:
				return
			default:
			}
			if s.bc.send(c12BackendMsg(i)) != nil {
				return
			}
			time.Sleep(100 * time.Microsecond)
		}
	}()
	var omu sync.Mutex
	var obs []c12Obs
	var wg sync.WaitGroup
	for i := 0; i < g; i++ {
		prog := make([]int, 2+rng.Intn(4))
		for j := range prog {
			prog[j] = rng.Intn(100)
		}
		delay := time.Duration(rng.Intn(1500)) * time.Microsecond
		i := i
		wg.Add(1)
		go func() {
			defer wg.Done()
			time.Sleep(delay)
			for j, p := range prog {
				var action, target string
				var body []byte
				own := true
				switch {
				case p < 8: // mixed batch: the session under stress first, then an id that never existed
					mb, _ := json.Marshal([]map[string]interface{}{{"id": s.id, "msg": fmt.Sprintf("g%d-%d", i, j)}, {"id": c12Unknown[p%len(c12Unknown)], "msg": "stray"}})
					action, target, body, own = "data", "unknown", mb, false
				case p < 40:
					action, target, body = "data", s.id, c12DataBody(s.id, fmt.Sprintf("g%d-%d", i, j))
				case p < 70:
					action, target, body = "poll", s.id, shimIDBody(s.id)
				case p < 82:
					action, target, body = "close", s.id, shimIDBody(s.id)
				case p < 88:
					action, target, body, own = "data", "malformed", []byte(c12BadJSON[p%len(c12BadJSON)]), false
				case p < 94:
					action, target, body, own = "poll", "unknown", shimIDBody(c12Unknown[p%len(c12Unknown)]), false
				default:
					action, target, body, own = "close", "unknown", shimIDBody(c12Unknown[p%len(c12Unknown)]), false
				}
				reject := ""
				if target == "unknown" {
					reject = "unknown"
				}
				a := x.call(action, fmt.Sprintf("%s(%s) under stress with %d goroutines", action, target, g), reject, nil, body)
				omu.Lock()
				obs = append(obs, c12Obs{action, target, own, a})
				omu.Unlock()
			}
		}()
	}
	// end of the session: by the client or by the backend, while the others are busy
	time.Sleep(time.Duration(500+rng.Intn(6000)) * time.Microsecond)
	ender := "client-close"
	if k := rng.Intn(4); k < 2 {
		ender = "backend-close"
		if k == 0 {
			ender = "backend-abrupt-close" // socket closed at once, possibly with a TCP reset
			s.bc.closeAbruptly()
		} else {
			s.bc.closeNow()
		}
	} else {
		a := x.call("close", "close(session under stress, final)", "", nil, shimIDBody(s.id))
		omu.Lock()
		obs = append(obs, c12Obs{"close", s.id, true, a})
		omu.Unlock()
	}
	wg.Wait()
	close(stopPump)
	pumpWG.Wait()
	if ender != "client-close" { // polls must come to report the session closed
		s.state = c12BClosed
		s.tainted = true
		s.sent = nil
		closedSeen := false
		for _, o := range obs {
			if o.own && ((o.action == "poll" && o.a.Status == 400) || (o.action == "close" && o.a.Status == 200)) {
				closedSeen = true
			}
		}
		if !closedSeen {
			for n := 0; n < 80 && s.state != c12Closed; n++ {
				a := x.call("poll", "poll(session under stress after backend close)", "", nil, shimIDBody(s.id))
				obs = append(obs, c12Obs{"poll", s.id, true, a})
				if !a.Answered || a.Status == 400 {
					s.state = c12Closed
				}
			}
			if s.state != c12Closed {
				x.violate("C12:backend-close-not-reported", "stress: the backend closed but 80 polls later none has answered 400")
			}
		}
	}
	// closed-session rule over the observed real-time order
	var closedAt time.Time
	closedBy := ""
	closeOK := false
	for _, o := range obs {
		if !o.own || !o.a.Answered {
			continue
		}
		if (o.action == "close" && o.a.Status == 200) || (o.action == "poll" && o.a.Status == 400) {
			if o.action == "close" {
				closeOK = true
			}
			if closedAt.IsZero() || o.a.End.Before(closedAt) {
				closedAt, closedBy = o.a.End, fmt.Sprintf("%s answered %d", o.action, o.a.Status)
			}
		}
	}
	if !closedAt.IsZero() {
		for _, o := range obs {
			if o.own && o.a.Answered && o.a.Start.After(closedAt) && o.a.Status != 400 {
				sig := fmt.Sprintf("C12:closed-session-answered-%d:%s", o.a.Status, o.action)
				if o.a.Status == 200 {
					sig = "C12:closed-session-accepted:" + o.action
				}
				x.violate(sig, fmt.Sprintf("stress (%d goroutines, %s): %s naming session %s started %s after %s and was answered %d", g, ender, o.action, s.id, o.a.Start.Sub(closedAt), closedBy, o.a.Status))
			}
		}
		x.rejects(s, closedBy)
	}
	if closeOK {
		x.checkBackendClosed(s, "stress")
	}
	x.res.Statuses = ender
	x.b.forget(s.token)
	x.probe(fmt.Sprintf("stress with %d goroutines", g))
}

// idle: the one poll that finds nothing and has to time out by itself.
func (x *c12Exec) idle() {
	s, _ := x.open()
	s2, _ := x.open()
	if s == nil || s2 == nil {
		x.res.Skipped++
		return
	}
	// at the same time, on a second idle session: two polls that overlap. Each is a
	// call of its own and has to be answered (by its own time-out) like any other.
	pa := shimStart(x.h, nil, "", shimReq("poll", nil, shimIDBody(s2.id)))
	time.Sleep(50 * time.Millisecond)
	pb := shimStart(x.h, nil, "", shimReq("poll", nil, shimIDBody(s2.id)))
	a := x.call("poll", "poll(open session, nothing pending)", "", nil, shimIDBody(s.id))
	x.step(c12Step{Op: "poll-idle", Target: s.id, Status: a.Status, Ms: a.ms()})
	x.res.Statuses = fmt.Sprintf("poll=%d after %dms", a.Status, a.ms())
	for i, p := range []*shimPending{pa, pb} {
		o := p.wait(c12Bound("poll"))
		label := fmt.Sprintf("poll %d of two overlapping polls on one idle session (session %s, nothing pending)", i+1, s2.id)
		x.step(c12Step{Op: "poll-idle-overlapping", Target: s2.id, Status: o.Status, Ms: o.ms()})
		if !o.Answered && o.Panic == "" {
			c12NoteMiss("no-answer:poll-overlapping")
		}
		x.judge("poll-overlapping", label, "", o)
		x.res.Statuses += fmt.Sprintf("; overlapping poll %d=%d after %dms", i+1, o.Status, o.ms())
	}
	// the sessions are still usable afterwards
	for _, q := range []*c12Sess{s, s2} {
		m := c12BackendMsg(0)
		q.bc.send(m)
		p := x.call("poll", "poll(open session, 1 pending, after an idle poll)", "", nil, shimIDBody(q.id))
		x.step(c12Step{Op: "poll", Target: q.id, Status: p.Status, Ms: p.ms()})
		c := x.call("close", "close(session after idle poll)", "", nil, shimIDBody(q.id))
		if c.Answered && c.Status == 200 {
			x.checkBackendClosed(q, "idle")
			x.rejects(q, "close answered 200")
		}
	}
}

// ------------------------------------------------------------ mixed-ID data batches

// batch posts one data request whose entries name, in the given order:
// A, B = two open sessions; C = a session closed by the client; D = a
// session whose backend closed and whose poll already answered 400;
// U = an id that never existed. Oracles: a batch naming an unknown or closed
// session is answered 400 (what became of the entries before the bad one is
// not prescribed); no message ever arrives on a backend connection other than
// the one its entry names; a batch naming only open sessions that is
// answered 200 is delivered, per session, in entry order.
func (x *c12Exec) batch() {
	sess := map[string]*c12Sess{}
	need := map[string]bool{"A": true}
	for _, k := range x.c.Ops {
		need[k] = true
	}
	for _, k := range []string{"A", "B", "C", "D"} {
		if !need[k] {
			continue
		}
		s, _ := x.open()
		if s == nil {
			x.res.Skipped++
			return
		}
		sess[k] = s
		switch k {
		case "C":
			a := x.call("close", "close(session C of the batch case)", "", nil, shimIDBody(s.id))
			if !a.Answered || a.Status != 200 {
				x.res.Skipped++
				return
			}
			s.state = c12Closed
			x.checkBackendClosed(s, "batch set-up")
		case "D":
			s.bc.closeNow()
			s.state = c12BClosed
			x.drain(s, nil)
			if s.state != c12Closed {
				x.res.Skipped++
				return
			}
		}
	}
	type entry struct {
		kind, id, payload string
	}
	var entries []entry
	var body []map[string]interface{}
	reject, badAt := "", -1
	for i, k := range x.c.Ops {
		e := entry{kind: k, payload: fmt.Sprintf("batch %s entry %d for %s", x.c.ID, i, k)}
		switch k {
		case "U":
			e.id = c12Unknown[(i+x.c.Rep)%len(c12Unknown)]
			if reject == "" {
				reject, badAt = "unknown", i
			}
		case "C", "D":
			e.id = sess[k].id
			if reject == "" {
				reject, badAt = "closed", i
			}
		default:
			e.id = sess[k].id
		}
		entries = append(entries, e)
		body = append(body, map[string]interface{}{"id": e.id, "msg": e.payload})
	}
	if body == nil {
		body = []map[string]interface{}{}
	}
	bj, _ := json.Marshal(body)
	label := fmt.Sprintf("data batch naming [%s]", strings.Join(x.c.Ops, ","))
	if badAt >= 0 {
		label += fmt.Sprintf(" (entry %d names %s session %q)", badAt, map[string]string{"unknown": "an unknown", "closed": "a closed"}[reject], entries[badAt].id)
	}
	a := x.callNamed("data", "data-batch", label, reject, nil, bj)
	x.step(c12Step{Op: "batch", Target: strings.Join(x.c.Ops, ","), Status: a.Status, Ms: a.ms()})
	x.res.Statuses = fmt.Sprintf("batch=%d", a.Status)
	if !a.Answered {
		x.probe(label)
		return
	}
	// flush marker per open session, then look at what each backend got
	const marker = "batch end marker"
	for _, k := range []string{"A", "B"} {
		s := sess[k]
		if s == nil {
			continue
		}
		m := x.call("data", fmt.Sprintf("data(session %s, end marker)", s.id), "", nil, c12DataBody(s.id, marker))
		flushed := false
		if m.Answered && m.Status == 200 {
			flushed = s.bc.waitRecv(func(r []shimMsg) bool { return len(r) > 0 && string(r[len(r)-1].D) == marker }, 10*time.Second*time.Duration(c12Scale))
		}
		var want []string
		for _, e := range entries {
			if e.kind == k {
				want = append(want, e.payload)
			}
		}
		var got []string
		for _, r := range s.bc.received() {
			if string(r.D) == marker {
				continue
			}
			got = append(got, string(r.D))
			mine := false
			for _, w := range want {
				if w == string(r.D) {
					mine = true
				}
			}
			if !mine {
				x.violate("C12:data-batch:misrouted", fmt.Sprintf("%s answered %d: the backend connection of session %s (%s) received %q, which no entry addressed to it", label, a.Status, s.id, k, shimTrunc(string(r.D), 80)))
			}
		}
		if badAt < 0 && a.Status == 200 && flushed && strings.Join(got, "|") != strings.Join(want, "|") {
			x.violate("C12:data-batch:undelivered", fmt.Sprintf("%s answered 200 but the backend of session %s (%s) received %q instead of %q", label, s.id, k, got, want))
		}
	}
	for _, k := range []string{"A", "B"} {
		if s := sess[k]; s != nil {
			c := x.call("close", fmt.Sprintf("close(session %s, wind-down)", s.id), "", nil, shimIDBody(s.id))
			if c.Answered && c.Status == 200 {
				x.checkBackendClosed(s, "batch wind-down")
			}
		}
	}
	for _, s := range sess {
		x.b.forget(s.token)
	}
	x.probe(label)
}

// ------------------------------------------------------------ push-only backend

// noread runs a short script against a session whose backend never reads
// from the websocket and pushes a message every Rep milliseconds: "d" data,
// "p" poll (something is always about to be pending), "w" wait until the
// backend has pushed more than the shim can queue, "c" close. After the
// close answered 200 the agent has to tear the backend connection down by
// itself - nobody is going to answer its close frame.
func (x *c12Exec) noread() {
	period := x.c.Rep
	if period <= 0 {
		period = 5
	}
	s, _ := x.open([2]string{"X-Verif-Noread", fmt.Sprint(period)})
	if s == nil {
		x.res.Skipped++
		return
	}
	for i, op := range x.c.Ops {
		switch op {
		case "d":
			a := x.call("data", fmt.Sprintf("data(session %s, push-only backend)", s.id), "", nil, c12DataBody(s.id, fmt.Sprintf("unread message %d", i)))
			x.step(c12Step{Op: op, Target: s.id, Status: a.Status, Ms: a.ms()})
		case "p":
			a := x.call("poll", fmt.Sprintf("poll(session %s, push-only backend)", s.id), "", nil, shimIDBody(s.id))
			x.step(c12Step{Op: op, Target: s.id, Status: a.Status, Ms: a.ms()})
		case "w":
			from := atomic.LoadInt64(&s.bc.pushed)
			for t0 := time.Now(); atomic.LoadInt64(&s.bc.pushed) < from+14 && time.Since(t0) < 5*time.Second; {
				time.Sleep(time.Millisecond)
			}
			x.step(c12Step{Op: op, Target: s.id, Note: fmt.Sprintf("%d pushed", atomic.LoadInt64(&s.bc.pushed))})
		case "c":
			a := x.call("close", fmt.Sprintf("close(session %s, push-only backend that never reads)", s.id), "", nil, shimIDBody(s.id))
			x.step(c12Step{Op: op, Target: s.id, Status: a.Status, Ms: a.ms()})
			if a.Answered && a.Status == 200 {
				s.state = c12Closed
				x.checkBackendClosed(s, fmt.Sprintf("push-only backend, script %s", strings.Join(x.c.Ops, ",")))
				x.rejects(s, "close answered 200")
			}
		}
	}
	if s.state != c12Closed {
		c := x.call("close", fmt.Sprintf("close(session %s, wind-down, push-only backend)", s.id), "", nil, shimIDBody(s.id))
		if c.Answered && c.Status == 200 {
			x.checkBackendClosed(s, "push-only backend wind-down")
		}
	}
	x.b.forget(s.token)
	x.probe("push-only backend script " + strings.Join(x.c.Ops, ","))
}

// ------------------------------------------------------------ body alphabet

// body sends one request with an arbitrary body (bare JSON values, nulls,
// wrong-typed ids, deep nesting, huge strings, invalid UTF-8 ...) to one
// endpoint. It must be answered (200/400/408/500) without a panic; on data,
// poll and close a body that names no usable session id has to be rejected
// with 400 (the corpus holds no id of a live session; an empty data batch
// names nothing and is only held to the answer set). The sessions that were
// open before must still work afterwards.
func (x *c12Exec) body() {
	raw, err := base64.StdEncoding.DecodeString(x.c.B64)
	if err != nil {
		x.res.Skipped++
		return
	}
	var live *c12Sess
	if x.c.State != "none" {
		live, _ = x.open()
		if live == nil {
			x.res.Skipped++
			return
		}
		if x.c.State == "open-and-closed" {
			if s2, _ := x.open(); s2 != nil {
				c := x.call("close", "close(set-up)", "", nil, shimIDBody(s2.id))
				if c.Answered && c.Status == 200 {
					x.checkBackendClosed(s2, "body case set-up")
				}
				x.b.forget(s2.token)
			}
		}
	}
	ep := x.c.Endpoint
	reject := ""
	if ep == "poll" || ep == "close" {
		reject = "no-usable"
	} else if ep == "data" {
		if t := strings.TrimSpace(string(raw)); t != "null" && t != "[]" {
			reject = "no-usable"
		}
	}
	var hdr [][2]string
	token := ""
	if ep == "open" {
		x.nTok++
		token = fmt.Sprintf("%s-%d", x.c.ID, x.nTok)
		hdr = [][2]string{{"X-Verif-Conn", token}, {"X-Websocket-Shim-Version", "1"}}
	}
	label := fmt.Sprintf("%s with body %s (%s)", ep, x.c.Label, shimTrunc(strconv.Quote(string(raw)), 60))
	a := x.callNamed(ep, ep+"-body", label, "", hdr, raw)
	x.step(c12Step{Op: ep, Target: x.c.Label, Status: a.Status, Ms: a.ms()})
	x.res.Statuses = fmt.Sprintf("%d", a.Status)
	if a.Answered && reject != "" && a.Status != 400 {
		x.violate(fmt.Sprintf("C12:body-without-session-id-answered-%d:%s", a.Status, ep), fmt.Sprintf("%s names no usable session id and must be rejected with 400, got %d %s", label, a.Status, shimTrunc(string(a.Body), 100)))
	}
	if ep == "open" && a.Answered && a.Status == 200 {
		var r shimOpenResp
		if json.Unmarshal(a.Body, &r) == nil && r.ID != "" {
			c := x.call("close", "close(session opened by the body case)", "", nil, shimIDBody(r.ID))
			if bc := x.b.conn(token); bc != nil && c.Answered && c.Status == 200 {
				x.checkBackendClosed(&c12Sess{id: r.ID, bc: bc}, "body case")
			}
		}
		x.b.forget(token)
	}
	if live != nil { // the bystander session is unharmed
		d := x.call("data", fmt.Sprintf("data(session %s, open before the odd body)", live.id), "", nil, c12DataBody(live.id, "still here"))
		if d.Answered && d.Panic == "" {
			if d.Status != 200 {
				x.violate("C12:bystander-session-disturbed", fmt.Sprintf("after %s, data on the session that was open all along answered %d", label, d.Status))
			} else if !live.bc.waitRecv(func(r []shimMsg) bool { return len(r) >= 1 }, 10*time.Second*time.Duration(c12Scale)) {
				x.violate("C12:bystander-session-disturbed", fmt.Sprintf("after %s, a message posted on the session that was open all along did not reach its backend within 10s", label))
			}
		}
		c := x.call("close", fmt.Sprintf("close(session %s, wind-down)", live.id), "", nil, shimIDBody(live.id))
		if c.Answered && c.Status == 200 {
			x.checkBackendClosed(live, "body case wind-down")
		}
		x.b.forget(live.token)
	}
	x.probe(label)
}

// ------------------------------------------------------------ stalled backend

// stalled runs a script against a session whose backend hangs (reads
// nothing, writes nothing) and is finally dropped:
//
//	B   one 12 MiB data message: the writer goroutine parks in its TCP write
//	sN  N small data calls (10 fill the client queue exactly)
//	c   close, issued without waiting for the answer (with a full queue it
//	    legitimately waits for room)
//	d   one more data call, issued without waiting for the answer
//	X   the backend drops the TCP connection (reset)
//
// Calls issued before X may stay pending until X; every call has to be
// answered within the bound counted from X (or from its start, if later).
func (x *c12Exec) stalled() {
	s, _ := x.open([2]string{"X-Verif-Stall", "1"})
	if s == nil {
		x.res.Skipped++
		return
	}
	type pend struct {
		action, label string
		p             *shimPending
	}
	var pending []pend
	var dropAt time.Time
	parked := 0
	settle := func(pd pend, from time.Time) {
		bound := c12Bound(pd.action)
		if c12Missed("no-answer:" + pd.action + "-stalled") {
			bound = 2 * time.Second
		}
		wait := bound - time.Since(from)
		if wait < 0 {
			wait = 0
		}
		var a shimAnswer
		select {
		case a = <-pd.p.done:
		case <-time.After(wait):
			a = shimAnswer{Start: pd.p.t0, End: time.Now()}
		}
		if !a.Answered && a.Panic == "" {
			if bound < c12Bound(pd.action) {
				x.res.Unjudged++
				return
			}
			c12NoteMiss("no-answer:" + pd.action + "-stalled")
		}
		x.step(c12Step{Op: pd.action, Target: s.id, Status: a.Status, Ms: a.ms(), Note: pd.label})
		x.judge(pd.action+"-stalled", pd.label, "", a)
	}
	script := strings.Join(x.c.Ops, " ")
	for i, op := range x.c.Ops {
		switch {
		case op == "B":
			big := strings.Repeat("0123456789abcdef", 12<<16) // 12 MiB: more than socket buffers can take
			a := x.call("data", fmt.Sprintf("data(session %s, 12 MiB message to a stalled backend)", s.id), "", nil, c12DataBody(s.id, big))
			x.step(c12Step{Op: op, Target: s.id, Status: a.Status, Ms: a.ms()})
			if !a.Answered || a.Status != 200 {
				x.res.Skipped++
				s.bc.dropNow()
				return
			}
		case strings.HasPrefix(op, "s"):
			n, _ := strconv.Atoi(op[1:])
			for j := 0; j < n; j++ {
				a := x.call("data", fmt.Sprintf("data(session %s, small message %d behind the parked writer)", s.id, j+1), "", nil, c12DataBody(s.id, fmt.Sprintf("queued %d", j)))
				if !a.Answered || a.Status != 200 {
					x.step(c12Step{Op: op, Target: s.id, Status: a.Status, Ms: a.ms(), Note: fmt.Sprintf("call %d of %d", j+1, n)})
					break
				}
			}
			x.step(c12Step{Op: op, Target: s.id, Note: fmt.Sprintf("%d data calls answered 200", n)})
		case op == "c" || op == "d":
			action, body := "close", shimIDBody(s.id)
			if op == "d" {
				action, body = "data", c12DataBody(s.id, "one too many")
			}
			label := fmt.Sprintf("%s(session %s) in script [%s] against a stalled backend", action, s.id, script)
			pd := pend{action, label, shimStart(x.h, nil, "", shimReq(action, nil, body))}
			if dropAt.IsZero() {
				// before the drop the call may have to wait: give it a moment to either finish or park
				select {
				case a := <-pd.p.done:
					pd.p.done <- a
				case <-time.After(30 * time.Millisecond):
					parked++
				}
				pending = append(pending, pd)
			} else {
				settle(pd, pd.p.t0)
			}
		case op == "X":
			s.bc.dropNow()
			s.bc.waitClosed(5 * time.Second)
			dropAt = time.Now()
			for _, pd := range pending {
				settle(pd, dropAt)
			}
			pending = nil
		}
		_ = i
	}
	if dropAt.IsZero() {
		s.bc.dropNow()
		s.bc.waitClosed(5 * time.Second)
		dropAt = time.Now()
		for _, pd := range pending {
			settle(pd, dropAt)
		}
	}
	x.res.Statuses = fmt.Sprintf("parked=%d", parked)
	x.res.Forced = parked > 0
	// whatever state the session is in now, calls naming it are answered
	x.call("close", fmt.Sprintf("close(session %s, wind-down after the stalled backend dropped)", s.id), "", nil, shimIDBody(s.id))
	x.b.forget(s.token)
	x.probe("stalled-backend script " + script)
}

// ------------------------------------------------------------ backend dies with messages in the agent's hands

// dead: the backend sends Rep messages that nobody polls, waits long enough
// for the agent's reader to have taken what it can hold (10 in the queue and
// one in its hand), and dies abruptly. The client, unaware, posts data until
// that is refused with 400, and only then polls. The polls have to deliver,
// in order, the messages the agent had already read - the first
// min(Rep, 11) - before they report the session closed (anything beyond was
// still in the socket when the connection died and may be gone).
func (x *c12Exec) dead() {
	s, _ := x.open()
	if s == nil {
		x.res.Skipped++
		return
	}
	n := x.c.Rep
	for i := 0; i < n; i++ {
		m := c12BackendMsg(i)
		if s.bc.send(m) != nil {
			x.res.Skipped++
			return
		}
		s.sent = append(s.sent, m)
	}
	// progress assumption: an idle reader on loopback has taken a message 250 ms after it was sent
	// (observed: well under 1 ms); a miss is re-run alone with the wait doubled
	time.Sleep(250 * time.Millisecond * time.Duration(c12Scale))
	s.bc.closeAbruptly()
	s.state = c12BClosed
	refused := false
	for i := 0; i < 40 && !refused; i++ {
		a := x.call("data", fmt.Sprintf("data(session %s, backend died)", s.id), "", nil, c12DataBody(s.id, fmt.Sprintf("anyone there %d", i)))
		if i < 3 || a.Status != 200 {
			x.step(c12Step{Op: "data", Target: s.id, Status: a.Status, Ms: a.ms()})
		}
		if !a.Answered {
			return
		}
		refused = a.Status == 400
		if !refused {
			time.Sleep(2 * time.Millisecond)
		}
	}
	x.res.Statuses = fmt.Sprintf("sent=%d data-refused=%v", n, refused)
	must := n
	if must > 11 {
		must = 11
	}
	closed := false
	for k := 0; k < n+4 && !closed; k++ {
		a := x.call("poll", fmt.Sprintf("poll(session %s after the backend died and data was refused)", s.id), "", nil, shimIDBody(s.id))
		x.step(c12Step{Op: "poll", Target: s.id, Status: a.Status, Ms: a.ms()})
		if !a.Answered {
			return
		}
		switch a.Status {
		case 200:
			ms, err := shimDecodePoll(a.Body, 1)
			if err != nil {
				x.violate("C12:poll-reply-undecodable", err.Error())
				return
			}
			for _, m := range ms {
				if s.delivered >= len(s.sent) || c11Same(s.sent[s.delivered], m) != "" {
					x.violate("C12:after-backend-death:wrong-message", fmt.Sprintf("session %s: poll delivered %s %q as message #%d; the backend had sent %s", s.id, m.kind(), shimTrunc(string(m.D), 60), s.delivered, c12Describe(s.sent, s.delivered)))
					return
				}
				s.delivered++
				x.res.Delivered++
			}
		case 400:
			closed = true
		}
	}
	if s.delivered < must {
		x.mu.Lock()
		x.res.NoAnswer = append(x.res.NoAnswer, "reader-settle")
		x.mu.Unlock()
		x.violate("C12:after-backend-death:read-messages-lost", fmt.Sprintf("session %s: the backend sent %d messages nobody polled, %d ms later it died, data calls were refused (%v), then the client polled: %d messages delivered before the session was reported closed=%v; the agent had read %d of them (10 queued, 1 in the reader's hand)", s.id, n, 250*c12Scale, refused, s.delivered, closed, must))
	}
	if !closed {
		x.violate("C12:backend-close-not-reported", fmt.Sprintf("session %s: the backend died but %d polls later none has answered 400", s.id, n+4))
	} else {
		s.state = c12Closed
		x.rejects(s, "a poll answered 400")
	}
	x.b.forget(s.token)
	x.probe(fmt.Sprintf("backend death with %d unpolled messages", n))
}

// ------------------------------------------------------------ silent backend

// silent: the configured backend accepts the TCP connection and then says
// nothing - the websocket upgrade is never answered. The open call still has
// to be answered (the dialer gives up on the handshake after 45 s), and calls
// on other endpoints are not held up meanwhile.
func (x *c12Exec) silent() {
	l, err := net.Listen("tcp", "127.0.0.1:0")
	if err != nil {
		x.res.Skipped++
		return
	}
	defer l.Close()
	var held []net.Conn
	var hmu sync.Mutex
	go func() {
		for {
			c, err := l.Accept()
			if err != nil {
				return
			}
			hmu.Lock()
			held = append(held, c) // kept open, never read, never written
			hmu.Unlock()
		}
	}()
	defer func() {
		hmu.Lock()
		for _, c := range held {
			c.Close()
		}
		hmu.Unlock()
	}()
	h := shimProxy(nil, l.Addr().String(), "shim", false, false)
	p := shimStart(h, nil, "", shimReq("open", [][2]string{{"X-Websocket-Shim-Version", "1"}}, []byte("/ws/silent")))
	// meanwhile the other endpoints answer
	time.Sleep(200 * time.Millisecond)
	saved := x.h
	x.h = h
	x.call("poll", "poll(unknown session, while an open waits for a silent backend)", "unknown", nil, shimIDBody("1"))
	x.call("close", "close(unknown session, while an open waits for a silent backend)", "unknown", nil, shimIDBody("1"))
	x.h = saved
	a := p.wait(c12Bound("open-silent"))
	if !a.Answered && a.Panic == "" {
		c12NoteMiss("no-answer:open-silent")
	}
	x.step(c12Step{Op: "open-silent", Status: a.Status, Ms: a.ms()})
	x.res.Statuses = fmt.Sprintf("open=%d after %dms", a.Status, a.ms())
	x.judge("open-silent", "open against a backend that accepts the connection and never answers the websocket upgrade", "", a)
}

// ------------------------------------------------------------ long idle session

// longIdle: sessions whose backend says nothing for Rep seconds (longer
// than the poll time-out and than any read deadline one might put on an idle
// backend connection), one with a poll outstanding and one with no call at
// all; afterwards the sessions must work as before. A crash of the process
// during the idle period is picked up from the worker log.
func (x *c12Exec) longIdle() {
	quiet, _ := x.open()
	polled, _ := x.open()
	if quiet == nil || polled == nil {
		x.res.Skipped++
		return
	}
	secs := x.c.Rep
	if secs <= 0 {
		secs = 33
	}
	t0 := time.Now()
	for time.Since(t0) < time.Duration(secs)*time.Second {
		a := x.call("poll", fmt.Sprintf("poll(session %s, backend idle for %d s)", polled.id, secs), "", nil, shimIDBody(polled.id))
		x.step(c12Step{Op: "poll-idle", Target: polled.id, Status: a.Status, Ms: a.ms()})
		if !a.Answered || a.Status == 400 {
			break
		}
	}
	time.Sleep(time.Until(t0.Add(time.Duration(secs) * time.Second)))
	x.res.Statuses = fmt.Sprintf("idle %ds", secs)
	for _, s := range []*c12Sess{quiet, polled} {
		d := x.call("data", fmt.Sprintf("data(session %s after %d s of silence)", s.id, secs), "", nil, c12DataBody(s.id, "good morning"))
		if d.Answered && d.Status == 200 {
			if !s.bc.waitRecv(func(r []shimMsg) bool { return len(r) >= 1 }, 10*time.Second*time.Duration(c12Scale)) {
				x.violate("C12:idle-session-broken:data", fmt.Sprintf("after %d s of backend silence a message posted on session %s (answered 200) did not reach its backend within 10s", secs, s.id))
			}
		} else if d.Answered && d.Panic == "" {
			x.violate("C12:idle-session-broken:data", fmt.Sprintf("after %d s of backend silence, data on the still open session %s answered %d %s", secs, s.id, d.Status, shimTrunc(string(d.Body), 100)))
		}
		m := c12BackendMsg(0)
		s.bc.send(m)
		p := x.call("poll", fmt.Sprintf("poll(session %s after %d s of silence, 1 pending)", s.id, secs), "", nil, shimIDBody(s.id))
		if p.Answered && p.Panic == "" {
			ms, _ := shimDecodePoll(p.Body, 1)
			if p.Status != 200 || len(ms) != 1 || c11Same(m, ms[0]) != "" {
				x.violate("C12:idle-session-broken:poll", fmt.Sprintf("after %d s of backend silence the backend of session %s sent a message; the poll answered %d with %d messages", secs, s.id, p.Status, len(ms)))
			}
		}
		c := x.call("close", fmt.Sprintf("close(session %s after the idle period)", s.id), "", nil, shimIDBody(s.id))
		if c.Answered && c.Status == 200 {
			x.checkBackendClosed(s, "long idle")
			x.rejects(s, "close answered 200")
		}
		x.b.forget(s.token)
	}
	x.probe(fmt.Sprintf("%d s of backend silence", secs))
}

// ------------------------------------------------------------ overlapping opens

// concurrentOpens: Rep open calls are in flight at the same time - the
// backend answers none of the upgrades before all handshakes have arrived.
// Every open must be answered; the sessions they return must be pairwise
// distinct; each session carries a message to its own backend connection and
// one back; each close is answered 200 and closes its backend websocket, so
// that no backend connection is left open.
func (x *c12Exec) concurrentOpens() {
	n := x.c.Rep
	if n < 2 {
		n = 2
	}
	type oc struct {
		token string
		p     *shimPending
		s     *c12Sess
	}
	group := x.c.ID
	var ocs []*oc
	for i := 0; i < n; i++ {
		x.nTok++
		o := &oc{token: fmt.Sprintf("%s-%d", x.c.ID, x.nTok)}
		hdr := [][2]string{{"X-Verif-Conn", o.token}, {"X-Websocket-Shim-Version", "1"}, {"X-Verif-Hold", fmt.Sprintf("%s;%d", group, n)}}
		o.p = shimStart(x.h, nil, "", shimReq("open", hdr, []byte(fmt.Sprintf("/ws/%s?n=%d", o.token, i))))
		ocs = append(ocs, o)
	}
	ids := map[string]string{}
	var st []string
	for i, o := range ocs {
		a := o.p.wait(c12Bound("open"))
		x.judge("open", fmt.Sprintf("open %d of %d overlapping opens", i+1, n), "", a)
		st = append(st, fmt.Sprint(a.Status))
		if !a.Answered || a.Status != 200 {
			continue
		}
		var r shimOpenResp
		if json.Unmarshal(a.Body, &r) != nil || r.ID == "" {
			continue
		}
		bc := x.b.conn(o.token)
		if bc == nil {
			continue
		}
		o.s = &c12Sess{id: r.ID, token: o.token, bc: bc}
		if other, dup := ids[r.ID]; dup {
			x.violate("C12:duplicate-session-id", fmt.Sprintf("%d opens whose backend handshakes overlapped: the opens behind backend connections %s and %s were both answered 200 with session id %s", n, other, o.token, r.ID))
		}
		ids[r.ID] = o.token
	}
	x.res.Statuses = "open=" + strings.Join(st, ",")
	x.step(c12Step{Op: "overlapping-opens", Note: fmt.Sprintf("%d opens, ids %v", n, ids)})
	// each session talks to its own backend connection, both ways
	for i, o := range ocs {
		if o.s == nil {
			continue
		}
		payload := fmt.Sprintf("hello from the client of %s", o.token)
		d := x.call("data", fmt.Sprintf("data(session %s of overlapping open %d)", o.s.id, i+1), "", nil, c12DataBody(o.s.id, payload))
		if d.Answered && d.Status == 200 {
			if !o.s.bc.waitRecv(func(r []shimMsg) bool { return len(r) >= 1 }, 10*time.Second*time.Duration(c12Scale)) {
				x.violate("C12:overlapping-opens:cross-wired", fmt.Sprintf("the message posted on session %s (returned by the open behind backend connection %s) never reached that connection", o.s.id, o.token))
			}
		}
		for _, m := range o.s.bc.received() {
			if string(m.D) != payload {
				x.violate("C12:overlapping-opens:cross-wired", fmt.Sprintf("backend connection %s received %q, which was posted for another session", o.token, shimTrunc(string(m.D), 80)))
			}
		}
		back := shimMsg{websocket.TextMessage, []byte("hello from the backend of " + o.token)}
		o.s.bc.send(back)
		p := x.call("poll", fmt.Sprintf("poll(session %s of overlapping open %d, 1 pending)", o.s.id, i+1), "", nil, shimIDBody(o.s.id))
		if p.Answered && p.Status == 200 {
			ms, _ := shimDecodePoll(p.Body, 1)
			for _, m := range ms {
				if c11Same(back, m) != "" {
					x.violate("C12:overlapping-opens:cross-wired", fmt.Sprintf("the poll of session %s (backend connection %s) delivered %q, which another backend connection sent", o.s.id, o.token, shimTrunc(string(m.D), 80)))
				}
			}
		}
	}
	// each close closes its own backend websocket
	for i, o := range ocs {
		if o.s == nil {
			continue
		}
		c := x.call("close", fmt.Sprintf("close(session %s of overlapping open %d)", o.s.id, i+1), "", nil, shimIDBody(o.s.id))
		if c.Answered && c.Panic == "" && c.Status != 200 {
			x.violate(fmt.Sprintf("C12:overlapping-opens:close-answered-%d", c.Status), fmt.Sprintf("session %s was returned by an open answered 200 and never closed, yet its close answered %d %s", o.s.id, c.Status, shimTrunc(string(c.Body), 100)))
		}
	}
	left := 0
	for _, o := range ocs {
		if o.s == nil {
			continue
		}
		if len(ids) < n || c12Missed("backend-not-closed") { // sessions already known to be mixed up: no point in waiting out the bound
			if !o.s.bc.waitClosed(30 * time.Millisecond) {
				x.res.Unjudged++
			}
		} else if !o.s.bc.waitClosed(10 * time.Second * time.Duration(c12Scale)) {
			left++
			c12NoteMiss("backend-not-closed")
		} else {
			x.res.CloseSeen++
		}
		x.b.forget(o.token)
	}
	if left > 0 {
		x.res.NoAnswer = append(x.res.NoAnswer, "backend-close-observation")
		x.violate("C12:backend-not-closed", fmt.Sprintf("%d overlapping opens, every returned session closed: %d backend websocket(s) still open 10s later", n, left))
	}
	x.probe(fmt.Sprintf("%d overlapping opens", n))
}

// ------------------------------------------------------------ run of data calls on a dead session

// deadRun: the backend closes first (gracefully or abruptly); once the agent
// has noticed, and before any poll removes the session, the client makes a
// run of data calls on it. From the first 400 on, the session is known to be
// closed and every further data call has to be refused as well.
func (x *c12Exec) deadRun() {
	s, _ := x.open()
	if s == nil {
		x.res.Skipped++
		return
	}
	if x.c.Rep%2 == 0 {
		s.bc.closeNow()
		s.bc.settled(0)
	} else {
		s.bc.closeAbruptly()
		time.Sleep(20 * time.Millisecond)
	}
	s.state = c12BClosed
	refusedAt := -1
	var seq []string
	for i := 0; i < 50; i++ {
		a := x.call("data", fmt.Sprintf("data call %d of a run on session %s whose backend closed first", i+1, s.id), "", nil, c12DataBody(s.id, fmt.Sprintf("into the void %d", i)))
		if !a.Answered {
			return
		}
		seq = append(seq, fmt.Sprint(a.Status))
		if a.Status == 400 && refusedAt < 0 {
			refusedAt = i
		}
		if refusedAt >= 0 && a.Status == 200 {
			x.violate("C12:closed-session-accepted:data-after-refusal", fmt.Sprintf("session %s: the backend closed first; data call %d was refused with 400, data call %d on the same session was answered 200 (answers so far: %s)", s.id, refusedAt+1, i+1, strings.Join(seq, " ")))
			break
		}
	}
	x.res.Statuses = fmt.Sprintf("first-refusal-at=%d", refusedAt+1)
	x.step(c12Step{Op: "data-run", Target: s.id, Note: strings.Join(seq, " ")})
	s.tainted = true
	x.drain(s, nil)
	if s.state == c12Closed {
		x.rejects(s, "a poll answered 400")
	}
	x.b.forget(s.token)
	x.probe("run of data calls on a session whose backend closed first")
}

// ------------------------------------------------------------ odd protocol versions

// oddVersion: the open carries an unusual X-Websocket-Shim-Version (Label);
// then binary traffic flows both ways. Nothing may panic, every call is
// answered, and the binary message the backend sent comes out of the poll
// intact under one of the two encodings the protocol knows (which one such a
// session gets is not prescribed).
func (x *c12Exec) oddVersion() {
	x.nTok++
	token := fmt.Sprintf("%s-%d", x.c.ID, x.nTok)
	a := x.call("open", fmt.Sprintf("open(X-Websocket-Shim-Version: %q)", x.c.Label), "", [][2]string{{"X-Verif-Conn", token}, {"X-Websocket-Shim-Version", x.c.Label}}, []byte("/ws/odd-version"))
	var r shimOpenResp
	if !a.Answered || a.Status != 200 || json.Unmarshal(a.Body, &r) != nil || r.ID == "" {
		x.res.Statuses = fmt.Sprintf("open=%d", a.Status)
		x.probe("open with version " + x.c.Label)
		return
	}
	bc := x.b.conn(token)
	if bc == nil {
		x.res.Skipped++
		return
	}
	s := &c12Sess{id: r.ID, token: token, bc: bc}
	payload := []byte("binary but printable \"<&>\" 0123456789") // survives both encodings
	bc.send(shimMsg{websocket.BinaryMessage, payload})
	bc.send(shimMsg{websocket.TextMessage, []byte("text rides along")})
	got := 0
	for n := 0; n < 3 && got < 2; n++ {
		p := x.call("poll", fmt.Sprintf("poll(session opened with version %q, a binary message pending)", x.c.Label), "", nil, shimIDBody(s.id))
		if !p.Answered || p.Status != 200 {
			break
		}
		var raw []json.RawMessage
		if json.Unmarshal(p.Body, &raw) != nil {
			x.violate("C12:poll-reply-undecodable", fmt.Sprintf("version %q: %s", x.c.Label, shimTrunc(string(p.Body), 100)))
			break
		}
		for _, e := range raw {
			got++
			var arr []string
			if json.Unmarshal(e, &arr) == nil && len(arr) == 1 {
				dec, err := base64.StdEncoding.DecodeString(arr[0])
				if arr[0] != string(payload) && (err != nil || string(dec) != string(payload)) {
					x.violate("C12:odd-version:binary-garbled", fmt.Sprintf("session opened with version %q: the backend's binary message %q came out of the poll as %s, which is it under neither encoding", x.c.Label, payload, shimTrunc(string(e), 100)))
				}
			}
		}
	}
	d := x.call("data", fmt.Sprintf("data(session opened with version %q, binary payload)", x.c.Label), "", nil, c12DataBody(s.id, []string{base64.StdEncoding.EncodeToString(payload)}))
	if d.Answered && d.Status == 200 {
		bc.waitRecv(func(r []shimMsg) bool { return len(r) >= 1 }, 5*time.Second)
	}
	x.res.Statuses = fmt.Sprintf("open=200 v=%d polled=%d data=%d", r.V, got, d.Status)
	c := x.call("close", "close(session opened with an odd version)", "", nil, shimIDBody(s.id))
	if c.Answered && c.Status == 200 {
		x.checkBackendClosed(s, "odd version")
	}
	x.b.forget(token)
	x.probe("session with version " + x.c.Label)
}
