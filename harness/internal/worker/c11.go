package worker

// C11 — shimmed websockets deliver every message once, in order, unchanged.
// One case = one message history over one or two shim sessions of a fresh
// websockets.Proxy, generated from the case seed.

import (
	"bytes"
	"encoding/json"
	"fmt"
	"math/rand"
	"net/http"
	"reflect"
	"sort"
	"strconv"
	"strings"
	"sync"
	"sync/atomic"
	"time"
	"unicode/utf8"

	"github.com/gorilla/websocket"
)

func init() { Modes["c11"] = c11Main }

type c11Case struct {
	ID       string `json:"id"`
	Seed     int64  `json:"seed"`
	Inject   bool   `json:"inject"`
	Version  int    `json:"version"` // 1 | 0 | -1 (no version header: protocol 0)
	Sessions int    `json:"sessions"`
	Sizes    string `json:"sizes"` // small | edges | big | mixed
	Kinds    string `json:"kinds"` // text | binary | mixed | json
	C2S      int    `json:"c2s"`
	S2C      int    `json:"s2c"`
	Batch    string `json:"batch"` // ones | small | over10 | mixed
	Poll     string `json:"poll"`  // before | while | trickle | mixed
	// Tail > 0: at the end of the history the backend sends Tail more messages
	// while no poll is outstanding and closes gracefully; the client then
	// polls until it is told the session is closed.
	Tail int `json:"tail,omitempty"`
	// TailData: after the backend's final burst and close, and before the first poll, the
	// client (which does not know yet) posts data on the session; whatever that post is
	// answered, the polls that follow still have to deliver the burst.
	TailData bool `json:"tail_data,omitempty"`
	// CloseRace: instead of the two-way history, the client posts its messages
	// to a backend that takes SlowMs per message and posts close right behind
	// the last data post.
	CloseRace bool `json:"close_race,omitempty"`
	SlowMs    int  `json:"slow_ms,omitempty"`
	// Reopen: "client-close" | "backend-close". The history is: open A, open B,
	// traffic on A, A ends (closed by the client, or by its backend and reported
	// by a poll), open C, then the usual interleaved two-session traffic on B
	// and C. Each backend connection must see exactly its own session's
	// messages and each session's polls exactly its own backend's.
	Reopen string `json:"reopen,omitempty"`
	// Quiet > 0: that many idle sessions are polled the way the browser shim does (one
	// poll outstanding, re-poll as soon as the previous poll is answered) while the
	// backend stays silent for 16 s, then sends a message, and another at 20.6 s.
	Quiet int `json:"quiet,omitempty"`
	// PauseMs > 0: the backend does not read for that long after the upgrade and then
	// resumes; meanwhile the client posts more than socket buffers and queue absorb.
	PauseMs int `json:"pause_ms,omitempty"`
	// PingUs > 0: the backend sends a websocket ping every PingUs microseconds while the
	// client uploads C2S messages of 0.5-1 MiB (each one many frames on the wire).
	PingUs int `json:"ping_us,omitempty"`
	// Rewrite: the Proxy is built with rewriteWebsocketHost on (independent of Inject).
	Rewrite bool `json:"rewrite,omitempty"`
}

type c11Spec struct {
	Parallel int       `json:"parallel"`
	Cases    []c11Case `json:"cases"`
}

type c11Result struct {
	ID            string            `json:"id"`
	C2S           int               `json:"c2s"` // messages carried client -> server (as received by the backend)
	S2C           int               `json:"s2c"` // messages carried server -> client (as decoded from polls)
	Bytes         int64             `json:"bytes"`
	Posts         int               `json:"posts"`
	MaxPost       int               `json:"max_post"`
	PostsOver10   int               `json:"posts_over10"`
	SpanningPosts int               `json:"spanning_posts"`
	Polls         int               `json:"polls"`
	MaxPollBatch  int               `json:"max_poll_batch"`
	PollsOver10   int               `json:"polls_over10"`
	Bursts        int               `json:"bursts"`
	MaxBurst      int               `json:"max_burst"`
	PollShape     string            `json:"poll_shape"`
	SizeClasses   map[string]int    `json:"size_classes"`
	JSONClasses   map[string]int    `json:"json_classes,omitempty"`
	TailCarried   int               `json:"tail_carried"` // messages delivered by polls after the backend's final burst and close
	TailPolls     int               `json:"tail_polls"`
	TailDataPosts int               `json:"tail_data_posts"`
	CloseRaceMsgs int               `json:"close_race_msgs"` // messages that reached the slow backend ahead of the close
	Injected      int               `json:"injected"`        // messages legitimately changed by injection
	KeysAdded     int               `json:"keys_added"`      // header keys added by injection
	Unchanged     int               `json:"unchanged"`       // messages required to be byte-identical and found so
	Violations    []string          `json:"violations,omitempty"`
	Timeout       bool              `json:"timeout"` // a harness wait expired (to be confirmed by a solo re-run)
	Panic         string            `json:"panic,omitempty"`
	Ms            int64             `json:"ms"`
	Detail        map[string]string `json:"detail,omitempty"`
}

func c11Main(specBytes []byte) {
	var spec c11Spec
	if err := json.Unmarshal(specBytes, &spec); err != nil {
		panic(err)
	}
	if spec.Parallel <= 0 {
		spec.Parallel = 4
	}
	shimInstallHooks()
	b := newShimBackend()
	sem := make(chan struct{}, spec.Parallel)
	var wg sync.WaitGroup
	for _, c := range spec.Cases {
		c := c
		if c.Quiet > 0 || c.PauseMs > 0 || c.PingUs > 0 { // mostly waiting / run alongside: does not take one of the parallel slots
			wg.Add(1)
			go func() {
				defer wg.Done()
				Start(c.ID)
				Emit(c11Run(b, c))
			}()
			continue
		}
		sem <- struct{}{}
		wg.Add(1)
		go func() {
			defer wg.Done()
			defer func() { <-sem }()
			Start(c.ID)
			Emit(c11Run(b, c))
		}()
	}
	wg.Wait()
	Emit(map[string]interface{}{"id": "_hits", "hits": shimHits()})
}

// ------------------------------------------------------------ generators

var c11Runes = []rune{'a', 'Z', '0', ' ', '"', '\\', '/', '<', '>', '&', '\'', '{', '}', '[', ']', ':', ',',
	0, 1, '\n', '\r', '\t', 0x1f, 0x7f, 0x80, 0xe9, 0x3b1, 0x7ff, 0x800, 0x2028, 0x2029, 0x6c49, 0xfeff, 0xfffd, 0xffff,
	0x10000, 0x1f600, 0x10ffff}

// c11Text returns exactly size bytes of valid UTF-8 rich in awkward runes.
func c11Text(rng *rand.Rand, size int) []byte {
	gen := func(n int) []byte {
		out := make([]byte, 0, n)
		for len(out) < n {
			r := c11Runes[rng.Intn(len(c11Runes))]
			if rng.Intn(3) == 0 {
				r = rune('a' + rng.Intn(26))
			}
			if utf8.RuneLen(r) > n-len(out) {
				r = 'x'
			}
			out = utf8.AppendRune(out, r)
		}
		return out
	}
	if size <= 8192 {
		return gen(size)
	}
	block := gen(4096)
	out := make([]byte, 0, size)
	for len(out)+len(block) <= size {
		out = append(out, block...)
	}
	return append(out, gen(size-len(out))...)
}

func c11Binary(rng *rand.Rand, size int, all256 bool) []byte {
	out := make([]byte, size)
	if all256 {
		for i := range out {
			out[i] = byte(i)
		}
		return out
	}
	rng.Read(out)
	return out
}

func c11SizeClass(n int) string {
	switch {
	case n == 0:
		return "0"
	case n == 1:
		return "1"
	case n == 125, n == 126, n == 127:
		return strconv.Itoa(n)
	case n == 65535, n == 65536, n == 65537:
		return strconv.Itoa(n)
	case n == 1<<20:
		return "1MiB"
	case n < 125:
		return "<125"
	case n < 65535:
		return "<64K"
	}
	return ">64K"
}

// c11Sizes returns n message sizes for the profile.
func c11Sizes(rng *rand.Rand, profile string, n int) []int {
	out := make([]int, n)
	edges := []int{0, 1, 125, 126, 127, 65535, 65536, 65537}
	bigLeft, midLeft := 0, 0
	switch profile {
	case "big":
		bigLeft, midLeft = 2, 4
	case "mixed":
		bigLeft, midLeft = 1, 6
	case "edges":
		midLeft = 10
	}
	for i := range out {
		switch profile {
		case "small":
			out[i] = []int{0, 1, rng.Intn(200), rng.Intn(40)}[rng.Intn(4)]
		case "edges":
			e := edges[rng.Intn(len(edges))]
			if e >= 65535 {
				if midLeft == 0 {
					e = 125 + rng.Intn(3)
				} else {
					midLeft--
				}
			}
			out[i] = e
		default: // big, mixed
			switch k := rng.Intn(12); {
			case k == 0 && bigLeft > 0:
				bigLeft--
				out[i] = 1 << 20
			case k <= 2 && midLeft > 0:
				midLeft--
				out[i] = edges[5+rng.Intn(3)]
			case k <= 4:
				out[i] = edges[rng.Intn(5)]
			default:
				out[i] = rng.Intn(4096)
			}
		}
	}
	if (profile == "big") && n > 0 && bigLeft == 2 {
		out[rng.Intn(n)] = 1 << 20 // the profile promises at least one
	}
	return out
}

// c11Val generates a random JSON value whose numbers are float64-exact.
func c11Val(rng *rand.Rand, depth int) interface{} {
	k := rng.Intn(8)
	if depth <= 0 && k >= 6 {
		k = rng.Intn(6)
	}
	switch k {
	case 0, 1:
		return string(c11Text(rng, rng.Intn(12)))
	case 2:
		return float64(rng.Int63n(1<<53)) * float64(1-2*rng.Intn(2))
	case 3:
		return float64(rng.Intn(4000)-2000) / 8
	case 4:
		return rng.Intn(2) == 0
	case 5:
		return nil
	case 6:
		n := rng.Intn(4)
		a := make([]interface{}, n)
		for i := range a {
			a[i] = c11Val(rng, depth-1)
		}
		return a
	}
	n := rng.Intn(4)
	m := map[string]interface{}{}
	for i := 0; i < n; i++ {
		m[c11Key(rng)] = c11Val(rng, depth-1)
	}
	return m
}

func c11Key(rng *rand.Rand) string {
	keys := []string{"a", "id", "kind", "x-y", "Resource", "headers", "Headers", "ключ", "k\"q", "", "content-type", "n.m"}
	return keys[rng.Intn(len(keys))] + strconv.Itoa(rng.Intn(3))
}

// c11Quote emits a JSON string, optionally escaping every non-ASCII rune
// (surrogate pairs above the BMP) as a browser's JSON.stringify never would
// but any JSON producer may.
func c11Quote(b *bytes.Buffer, s string, asciiOnly bool) {
	if !asciiOnly {
		q, _ := json.Marshal(s)
		b.Write(q)
		return
	}
	b.WriteByte('"')
	for _, r := range s {
		switch {
		case r == '"' || r == '\\':
			b.WriteByte('\\')
			b.WriteRune(r)
		case r < 0x20 || r == 0x7f:
			fmt.Fprintf(b, `\u%04x`, r)
		case r < 0x80:
			b.WriteRune(r)
		case r >= 0x10000:
			r -= 0x10000
			fmt.Fprintf(b, `\u%04x\u%04x`, 0xd800+(r>>10), 0xdc00+(r&0x3ff))
		default:
			fmt.Fprintf(b, `\u%04X`, r)
		}
	}
	b.WriteByte('"')
}

// c11Emit serialises v with random key order, optional whitespace and
// assorted (value-preserving) number spellings.
func c11Emit(b *bytes.Buffer, rng *rand.Rand, v interface{}, ws bool) {
	sp := func() {
		if ws && rng.Intn(2) == 0 {
			b.WriteString([]string{" ", "\n", "\t", "  "}[rng.Intn(4)])
		}
	}
	switch x := v.(type) {
	case nil:
		b.WriteString("null")
	case bool:
		b.WriteString(strconv.FormatBool(x))
	case float64:
		s := strconv.FormatFloat(x, 'f', -1, 64)
		if ws && x == float64(int64(x)) && x != 0 && rng.Intn(4) == 0 && !strings.Contains(s, ".") {
			s += ".0"
		}
		b.WriteString(s)
	case string:
		c11Quote(b, x, rng.Intn(4) == 0)
	case []interface{}:
		b.WriteByte('[')
		for i, e := range x {
			if i > 0 {
				b.WriteByte(',')
			}
			sp()
			c11Emit(b, rng, e, ws)
		}
		sp()
		b.WriteByte(']')
	case map[string]interface{}:
		keys := make([]string, 0, len(x))
		for k := range x {
			keys = append(keys, k)
		}
		sort.Strings(keys)
		rng.Shuffle(len(keys), func(i, j int) { keys[i], keys[j] = keys[j], keys[i] })
		b.WriteByte('{')
		for i, k := range keys {
			if i > 0 {
				b.WriteByte(',')
			}
			sp()
			c11Quote(b, k, false)
			sp()
			b.WriteByte(':')
			sp()
			c11Emit(b, rng, x[k], ws)
		}
		sp()
		b.WriteByte('}')
	}
}

var c11JSONClasses = []string{"headers", "headers", "headers-collide", "headers-collide", "headers-empty", "no-resource", "resource-no-headers",
	"headers-not-object", "resource-not-object", "non-object", "truncated", "case-variant", "headers-all-present",
	// not one JSON document although it begins with an object that has resource.headers: must pass untouched
	"headers-then-second-object", "headers-then-trailing-text", "headers-then-garbage"}

// c11JSONMsg builds a message for the injection workload; hdrNames are the
// (canonical) names of the headers the data posts will carry.
func c11JSONMsg(rng *rand.Rand, hdrNames []string) (data []byte, class string) {
	class = c11JSONClasses[rng.Intn(len(c11JSONClasses))]
	top := map[string]interface{}{}
	for i := rng.Intn(3); i > 0; i-- {
		top[c11Key(rng)] = c11Val(rng, 2)
	}
	headers := map[string]interface{}{}
	for i := rng.Intn(3); i > 0; i-- {
		headers["X-App-"+strconv.Itoa(rng.Intn(5))] = c11Val(rng, 1)
	}
	resource := map[string]interface{}{"headers": headers}
	for i := rng.Intn(3); i > 0; i-- {
		resource[c11Key(rng)] = c11Val(rng, 1)
	}
	top["resource"] = resource
	var v interface{} = top
	switch class {
	case "headers":
	case "headers-empty":
		resource["headers"] = map[string]interface{}{}
	case "headers-collide":
		for _, n := range hdrNames {
			if rng.Intn(2) == 0 {
				headers[n] = c11Val(rng, 1) // any JSON type, must survive as is
			}
		}
		headers[strings.ToLower(hdrNames[rng.Intn(len(hdrNames))])] = "lower-case twin"
	case "headers-all-present":
		for _, n := range hdrNames {
			headers[n] = "app value of " + n
		}
		headers["Content-Length"] = float64(7)
	case "no-resource":
		delete(top, "resource")
		top["headers"] = headers
	case "resource-no-headers":
		delete(resource, "headers")
	case "headers-not-object":
		resource["headers"] = []interface{}{[]interface{}{"a", "b"}, "str", nil, float64(3), true}[rng.Intn(5)]
	case "resource-not-object":
		top["resource"] = []interface{}{"str", []interface{}{map[string]interface{}{"headers": map[string]interface{}{}}}, nil, float64(1)}[rng.Intn(4)]
	case "non-object":
		v = []interface{}{[]interface{}{top}, "just a string", float64(42), nil, true}[rng.Intn(5)]
	case "case-variant":
		delete(top, "resource")
		if rng.Intn(2) == 0 {
			top["Resource"] = resource
		} else {
			delete(resource, "headers")
			resource["Headers"] = headers
			top["resource"] = resource
		}
	}
	var b bytes.Buffer
	c11Emit(&b, rng, v, rng.Intn(2) == 0)
	data = b.Bytes()
	switch class {
	case "headers-then-second-object": // NDJSON: two objects in one frame
		var b2 bytes.Buffer
		c11Emit(&b2, rng, map[string]interface{}{"resource": map[string]interface{}{"headers": map[string]interface{}{}}, "n": float64(2)}, false)
		data = append(append(data, []string{"\n", " ", "", "\r\n"}[rng.Intn(4)]...), b2.Bytes()...)
	case "headers-then-trailing-text":
		data = append(data, []string{" trailer", "\nEOF", " null", " 1", " \"x\"", ",{}"}[rng.Intn(6)]...)
	case "headers-then-garbage":
		data = append(data, []string{" \t }{", "}", "]", " \x00", "\n\n<xml/>", " \u00e9"}[rng.Intn(6)]...)
	}
	if class == "truncated" {
		data = data[:len(data)-1-rng.Intn(len(data)/2+1)]
		for len(data) > 0 && !utf8.Valid(data) { // never cut a rune in half: text frames are valid UTF-8
			data = data[:len(data)-1]
		}
		if json.Valid(data) {
			data = append(data, '{')
		}
	}
	return data, class
}

var c11HeaderPool = [][2]string{
	{"Content-Type", "application/json"}, {"Cookie", "sid=abc; theme=\"dark\""}, {"Authorization", "Bearer t0k<en>&"},
	{"X-Verif-Multi", "first"}, {"x-lower-case", "lower"}, {"X-Empty", ""}, {"Accept-Language", "de, en;q=0.5"},
	{"X-App-1", "from the request"}, {"X-Inverting-Proxy-User-Id", "user@example.com"},
}

// ------------------------------------------------------------ the run

type c11Sess struct {
	id      string
	token   string
	bc      *shimBConn
	c2s     []shimMsg // what the client sends, in order
	c2sHdr  []map[string]string
	s2c     []shimMsg // what the backend sends, in order
	got     []shimMsg // decoded from polls
	polls   []int
	bursts  []int
	problem []string
}

var c11EndText = []byte("\x00verif-end-of-history")

func c11Run(b *shimBackend, c c11Case) (res c11Result) {
	t0 := time.Now()
	res = c11Result{ID: c.ID, SizeClasses: map[string]int{}, JSONClasses: map[string]int{}, Detail: map[string]string{}}
	defer func() { res.Ms = time.Since(t0).Milliseconds() }()
	var vmu sync.Mutex
	violate := func(sig, msg string) {
		vmu.Lock()
		if len(res.Violations) < 12 {
			res.Violations = append(res.Violations, sig+"|"+msg)
		}
		vmu.Unlock()
	}
	timedOut := func() { vmu.Lock(); res.Timeout = true; vmu.Unlock() }
	panicked := func(p string) { vmu.Lock(); res.Panic = p; vmu.Unlock() }
	rng := rand.New(rand.NewSource(c.Seed))
	h := shimProxy(nil, b.addr, "shim", c.Rewrite, c.Inject)
	if c.CloseRace {
		c11CloseRace(b, c, rng, h, &res, violate, timedOut)
		return
	}
	if c.Quiet > 0 {
		c11Quiet(b, c, h, &res, violate, timedOut)
		return
	}
	if c.PauseMs > 0 {
		c11Pause(b, c, rng, h, &res, violate, timedOut)
		return
	}
	if c.PingUs > 0 {
		c11Pings(b, c, rng, h, &res, violate, timedOut)
		return
	}
	version := c.Version
	if version < 0 {
		version = 0
	}
	kinds := c.Kinds
	if version == 0 && kinds != "json" {
		kinds = "text" // binary is only promised under protocol version 1
	}

	// request headers carried by this case's data posts
	var postHdr [][2]string
	if c.Version >= 0 {
		postHdr = append(postHdr, [2]string{"X-Websocket-Shim-Version", strconv.Itoa(c.Version)})
	}
	for _, kv := range c11HeaderPool {
		if rng.Intn(2) == 0 {
			postHdr = append(postHdr, kv)
			if kv[0] == "X-Verif-Multi" {
				postHdr = append(postHdr, [2]string{"X-Verif-Multi", "second"})
			}
		}
	}
	hdrNames := []string{"Content-Length"}
	for _, kv := range postHdr {
		hdrNames = append(hdrNames, http.CanonicalHeaderKey(kv[0]))
	}

	genMsgs := func(n int, dir string) []shimMsg {
		sizes := c11Sizes(rng, c.Sizes, n)
		out := make([]shimMsg, n)
		first := true
		for i, sz := range sizes {
			k := kinds
			if k == "mixed" {
				k = []string{"text", "binary"}[rng.Intn(2)]
			}
			switch k {
			case "json":
				d, class := c11JSONMsg(rng, hdrNames)
				t := websocket.TextMessage
				if version == 1 && rng.Intn(6) == 0 {
					t = websocket.BinaryMessage
				}
				if rng.Intn(8) == 0 { // plain non-JSON neighbours
					d, class = c11Text(rng, sz%300), "not-json"
				}
				out[i] = shimMsg{t, d}
				if dir == "c2s" {
					res.JSONClasses[class]++
				}
			case "binary":
				out[i] = shimMsg{websocket.BinaryMessage, c11Binary(rng, sz, first && sz >= 256)}
				if sz >= 256 {
					first = false
				}
			default:
				out[i] = shimMsg{websocket.TextMessage, c11Text(rng, sz)}
			}
			res.SizeClasses[c11SizeClass(len(out[i].D))]++
		}
		return out
	}

	// sessions
	nSess := c.Sessions
	if nSess < 1 {
		nSess = 1
	}
	crossed := func(sig string) string { return sig }
	var sessA *c11Sess
	if c.Reopen != "" {
		nSess = 2
		crossed = func(sig string) string {
			if strings.Contains(sig, ":injection-") {
				return sig // a message rewritten by injection is not a mix-up of sessions
			}
			return "C11:cross-wired-sessions"
		}
		sessA = &c11Sess{token: c.ID + "-A"}
		id, bc, a := shimOpen(h, b, sessA.token, "/socket/"+c.ID+"?n=A", c.Version)
		if id == "" || bc == nil {
			violate("C11:open-failed", fmt.Sprintf("open answered %d %s", a.Status, shimTrunc(string(a.Body), 200)))
			return
		}
		sessA.id, sessA.bc = id, bc
		defer b.forget(sessA.token)
	}
	sess := make([]*c11Sess, nSess)
	for i := range sess {
		if c.Reopen != "" && i == 1 {
			// B is open; A carries a message each way and ends; only then C is opened
			if problem := c11EndFirstSession(h, sessA, c, version); problem != "" {
				violate("C11:reopen:setup-failed", problem)
				return
			}
		}
		s := &c11Sess{token: fmt.Sprintf("%s-%d", c.ID, i)}
		id, bc, a := shimOpen(h, b, s.token, fmt.Sprintf("ws://ignored.example/socket/%s?n=%d", c.ID, i), c.Version)
		if a.Panic != "" {
			res.Panic = a.Panic
			violate("C11:panic:"+shimSlug(a.Panic), "open panicked: "+a.Panic)
			return
		}
		if id == "" || bc == nil {
			violate("C11:open-failed", fmt.Sprintf("open answered %d %s", a.Status, shimTrunc(string(a.Body), 200)))
			return
		}
		s.id, s.bc = id, bc
		for _, o := range sess[:i] {
			if o.id == id {
				violate("C11:cross-wired-sessions", fmt.Sprintf("after %s of session %s, a new open was given session ID %s, which still belongs to an open session: the two websockets now share one entry", c.Reopen, sessA.id, id))
				return
			}
		}
		s.c2s = genMsgs(c.C2S/nSess+i*(c.C2S%nSess), "c2s")
		s.s2c = genMsgs(c.S2C/nSess+i*(c.S2C%nSess), "s2c")
		sess[i] = s
		defer b.forget(s.token)
	}

	var wg sync.WaitGroup
	// ---- client -> server: one data post outstanding at a time
	wg.Add(1)
	go func() {
		defer wg.Done()
		type item struct {
			s *c11Sess
			m shimMsg
		}
		var stream []item
		idx := make([]int, nSess)
		for {
			var open []int
			for i, s := range sess {
				if idx[i] < len(s.c2s) {
					open = append(open, i)
				}
			}
			if len(open) == 0 {
				break
			}
			i := open[rng.Intn(len(open))]
			run := 1 + rng.Intn(6)
			for ; run > 0 && idx[i] < len(sess[i].c2s); run-- {
				stream = append(stream, item{sess[i], sess[i].c2s[idx[i]]})
				idx[i]++
			}
		}
		post := func(items []item) bool {
			var body bytes.Buffer
			body.WriteByte('[')
			ascii := rng.Intn(5) == 0
			seen := map[*c11Sess]bool{}
			for k, it := range items {
				if k > 0 {
					body.WriteByte(',')
				}
				seen[it.s] = true
				body.WriteString(`{"id":`)
				c11Quote(&body, it.s.id, false)
				body.WriteString(`,"msg":`)
				switch w := shimWire(it.m, version).(type) {
				case string:
					c11Quote(&body, w, ascii)
				case []string:
					body.WriteByte('[')
					c11Quote(&body, w[0], ascii)
					body.WriteByte(']')
				}
				body.WriteByte('}')
			}
			body.WriteByte(']')
			req := shimReq("data", postHdr, body.Bytes())
			allowed := map[string]string{}
			for k, v := range req.Header {
				if len(v) > 0 {
					allowed[k] = v[0]
				}
			}
			for _, it := range items {
				it.s.c2sHdr = append(it.s.c2sHdr, allowed)
			}
			a := shimStart(h, nil, "", req).wait(60 * time.Second)
			res.Posts++
			if len(items) > res.MaxPost {
				res.MaxPost = len(items)
			}
			if len(items) > 10 {
				res.PostsOver10++
			}
			if len(seen) > 1 {
				res.SpanningPosts++
			}
			if a.Panic != "" {
				panicked(a.Panic)
				violate("C11:panic:"+shimSlug(a.Panic), "data post panicked: "+a.Panic)
				return false
			}
			if !a.Answered {
				timedOut()
				violate("C11:data-post-unanswered", fmt.Sprintf("data post of %d messages (%d bytes) not answered within 60s", len(items), body.Len()))
				return false
			}
			if a.Status != 200 {
				violate(fmt.Sprintf("C11:data-post-rejected:%d", a.Status), fmt.Sprintf("well-formed data post of %d messages on open session(s) answered %d %s", len(items), a.Status, shimTrunc(string(a.Body), 160)))
				return false
			}
			return true
		}
		for at := 0; at < len(stream); {
			n := 1
			switch c.Batch {
			case "small":
				n = 1 + rng.Intn(5)
			case "over10":
				n = 11 + rng.Intn(30)
			case "mixed":
				n = 1 + rng.Intn(40)
			}
			if at+n > len(stream) {
				n = len(stream) - at
			}
			if !post(stream[at : at+n]) {
				return
			}
			at += n
		}
		for _, s := range sess { // end marker, its own post
			s.c2s = append(s.c2s, shimMsg{websocket.TextMessage, c11EndText})
			if !post([]item{{s, s.c2s[len(s.c2s)-1]}}) {
				return
			}
		}
	}()

	// ---- server -> client: one poll outstanding at a time per session
	var pmu sync.Mutex
	for _, s := range sess {
		s := s
		prng := rand.New(rand.NewSource(c.Seed*31 + int64(s.token[len(s.token)-1])))
		wg.Add(1)
		go func() {
			defer wg.Done()
			stop := false
			poll := func() {
				a := shimPost(h, "poll", postHdr, shimIDBody(s.id), shimBoundPoll)
				pmu.Lock()
				res.Polls++
				pmu.Unlock()
				switch {
				case a.Panic != "":
					violate("C11:panic:"+shimSlug(a.Panic), "poll panicked: "+a.Panic)
					stop = true
				case !a.Answered:
					timedOut()
					violate("C11:poll-unanswered", "poll with a message pending not answered within 30s")
					stop = true
				case a.Status != 200:
					pmu.Lock()
					s.problem = append(s.problem, fmt.Sprintf("poll answered %d while %d of the messages sent by the backend were still outstanding", a.Status, len(s.s2c)-len(s.got)))
					pmu.Unlock()
					stop = true
				default:
					ms, err := shimDecodePoll(a.Body, version)
					s.got = append(s.got, ms...)
					s.polls = append(s.polls, len(ms))
					if err != nil {
						violate("C11:server-to-client:undecodable", err.Error())
						stop = true
					}
				}
			}
			sent := 0
			// the backend always sends from its own goroutine: a burst larger than the
			// socket and queue buffers must be able to wait for the polls that drain it
			sendN := func(from, n int, gap bool) chan struct{} {
				done := make(chan struct{})
				gaps := make([]time.Duration, n)
				for i := range gaps {
					if gap && prng.Intn(3) == 0 {
						gaps[i] = time.Duration(prng.Intn(400)) * time.Microsecond
					}
				}
				go func() {
					defer close(done)
					for i := 0; i < n; i++ {
						if err := s.bc.send(s.s2c[from+i]); err != nil {
							pmu.Lock()
							s.problem = append(s.problem, "backend could not send: "+err.Error())
							pmu.Unlock()
							return
						}
						if gaps[i] > 0 {
							time.Sleep(gaps[i])
						}
					}
				}()
				return done
			}
			pollUntil := func(target int) {
				for !stop && len(s.got) < target {
					poll()
				}
			}
			all := len(s.s2c)
			for sent < all && !stop {
				n := 1 + prng.Intn(100)
				if prng.Intn(3) == 0 {
					n = 1 + prng.Intn(12)
				}
				if sent+n > all {
					n = all - sent
				}
				s.bursts = append(s.bursts, n)
				mode := c.Poll
				if mode == "mixed" {
					mode = []string{"before", "while", "trickle"}[prng.Intn(3)]
				}
				var sending chan struct{}
				switch mode {
				case "before": // burst sent (as far as the buffers take it) while nobody polls
					sending = sendN(sent, n, false)
					sent += n
					select {
					case <-sending:
						if prng.Intn(2) == 0 {
							time.Sleep(time.Duration(prng.Intn(3000)) * time.Microsecond)
						}
					case <-time.After(20 * time.Millisecond):
					}
				case "while": // a poll is already waiting when the burst arrives
					polled := make(chan struct{})
					go func() { poll(); close(polled) }()
					time.Sleep(time.Duration(200+prng.Intn(2500)) * time.Microsecond)
					sending = sendN(sent, n, false)
					sent += n
					<-polled
				default: // trickle: messages keep arriving while polls come and go
					sending = sendN(sent, n, true)
					sent += n
				}
				pollUntil(sent)
				if !stop {
					<-sending
				}
			}
			// end marker
			s.s2c = append(s.s2c, shimMsg{websocket.TextMessage, c11EndText})
			if !stop {
				s.bc.send(s.s2c[len(s.s2c)-1])
				pollUntil(len(s.s2c))
			}
		}()
	}
	wg.Wait()

	// ---- oracles
	for _, s := range sess {
		// client -> server
		want := s.c2s
		if !s.bc.waitRecv(func(r []shimMsg) bool {
			return len(r) >= len(want) || (len(r) > 0 && bytes.Equal(r[len(r)-1].D, c11EndText))
		}, 30*time.Second) && len(res.Violations) == 0 {
			res.Timeout = true
		}
		got := s.bc.received()
		res.C2S += len(got)
		for _, m := range got {
			res.Bytes += int64(len(m.D))
		}
		judge := func(i int, a, g shimMsg) string {
			if !c.Inject || i >= len(s.c2sHdr) {
				return c11Same(a, g)
			}
			changed, added, problem := c11JudgeInjected(a, g, s.c2sHdr[i])
			if problem == "" {
				if changed {
					res.Injected++
					res.KeysAdded += added
				} else {
					res.Unchanged++
				}
			}
			return problem
		}
		if sig, msg := c11Compare(want, got, judge); sig != "" {
			violate(crossed("C11:client-to-server:"+sig), fmt.Sprintf("session %s (inject=%v, v%d), backend connection %s: client-to-server %s: %s", s.id, c.Inject, version, s.token, sig, msg))
		}
		// server -> client
		res.S2C += len(s.got)
		for _, m := range s.got {
			res.Bytes += int64(len(m.D))
		}
		if sig, msg := c11Compare(s.s2c, s.got, func(_ int, a, g shimMsg) string { return c11Same(a, g) }); sig != "" {
			extra := ""
			if len(s.problem) > 0 {
				extra = "; " + strings.Join(s.problem, "; ")
			}
			violate(crossed("C11:server-to-client:"+sig), fmt.Sprintf("session %s (v%d), backend connection %s, bursts %v, poll batches %v: server-to-client %s: %s%s", s.id, version, s.token, s.bursts, s.polls, sig, msg, extra))
		}
		for _, n := range s.polls {
			if n > res.MaxPollBatch {
				res.MaxPollBatch = n
			}
			if n > 10 {
				res.PollsOver10++
			}
		}
		for _, n := range s.bursts {
			res.Bursts++
			if n > res.MaxBurst {
				res.MaxBurst = n
			}
		}
		res.PollShape += c11Shape(s.polls) + ";"
		if c.Tail > 0 && len(res.Violations) == 0 {
			c11Tail(h, s, c, version, rng, &res, violate, timedOut)
			continue
		}
		// tidy up (not judged here: C12)
		shimPost(h, "close", nil, shimIDBody(s.id), shimBoundCall)
	}
	return res
}

// c11Quiet: idle sessions polled the way the injected browser shim polls
// (one poll outstanding per session; as soon as a poll is answered with
// anything but "closed" the next one is issued). The backend says nothing
// for 16 s, then sends one message per session, and a second one at 20.6 s -
// around the shim's own 20 s poll time-out. Every message has to come out
// of the polls exactly once, in order.
func c11Quiet(b *shimBackend, c c11Case, h http.Handler, res *c11Result, violate func(sig, msg string), timedOut func()) {
	type q struct {
		id       string
		bc       *shimBConn
		got      []shimMsg
		statuses []string
		token    string
	}
	var qs []*q
	for i := 0; i < c.Quiet; i++ {
		s := &q{token: fmt.Sprintf("%s-q%d", c.ID, i)}
		id, bc, a := shimOpen(h, b, s.token, "/quiet/"+s.token, 1)
		if id == "" || bc == nil {
			violate("C11:open-failed", fmt.Sprintf("open answered %d %s", a.Status, shimTrunc(string(a.Body), 200)))
			return
		}
		s.id, s.bc = id, bc
		qs = append(qs, s)
		defer b.forget(s.token)
	}
	sendAt := []time.Duration{16 * time.Second, 20600 * time.Millisecond}
	want := func(i, k int) shimMsg {
		return shimMsg{websocket.TextMessage, []byte(fmt.Sprintf("after a long silence: session %d message %d", i, k))}
	}
	t0 := time.Now()
	var wg sync.WaitGroup
	var mu sync.Mutex
	for i, s := range qs {
		i, s := i, s
		wg.Add(2)
		go func() { // backend
			defer wg.Done()
			for k, at := range sendAt {
				time.Sleep(time.Until(t0.Add(at + time.Duration(i)*150*time.Millisecond)))
				s.bc.send(want(i, k))
			}
		}()
		go func() { // client
			defer wg.Done()
			for time.Since(t0) < 50*time.Second {
				a := shimPost(h, "poll", nil, shimIDBody(s.id), shimBoundPoll)
				mu.Lock()
				res.Polls++
				s.statuses = append(s.statuses, fmt.Sprintf("%d@%.1fs", a.Status, time.Since(t0).Seconds()))
				mu.Unlock()
				if a.Panic != "" {
					violate("C11:panic:"+shimSlug(a.Panic), "poll panicked: "+a.Panic)
					return
				}
				if !a.Answered {
					timedOut()
					violate("C11:poll-unanswered", "poll on a quiet session not answered within 30s")
					return
				}
				if a.Status == 400 {
					return
				}
				if a.Status == 200 {
					ms, err := shimDecodePoll(a.Body, 1)
					if err != nil {
						violate("C11:server-to-client:undecodable", err.Error())
						return
					}
					s.got = append(s.got, ms...)
					if len(s.got) >= len(sendAt) && time.Since(t0) > sendAt[len(sendAt)-1] {
						// everything expected is here; one more look for duplicates is taken below
						return
					}
				}
				// any other answer (the poll's own time-out, an error): the shim polls again at once
			}
		}()
	}
	wg.Wait()
	for i, s := range qs {
		// anything still queued (a duplicate) shows up when the session carries one more message
		end := shimMsg{websocket.TextMessage, c11EndText}
		s.bc.send(end)
		for n := 0; n < 3 && (len(s.got) == 0 || !bytes.Equal(s.got[len(s.got)-1].D, c11EndText)); n++ {
			a := shimPost(h, "poll", nil, shimIDBody(s.id), shimBoundPoll)
			res.Polls++
			if !a.Answered || a.Status != 200 {
				s.statuses = append(s.statuses, fmt.Sprintf("%d(final)", a.Status))
				if a.Status == 400 || !a.Answered {
					break
				}
				continue
			}
			ms, _ := shimDecodePoll(a.Body, 1)
			s.got = append(s.got, ms...)
		}
		sent := []shimMsg{want(i, 0), want(i, 1), end}
		res.S2C += len(s.got)
		if sig, msg := c11Compare(sent, s.got, func(_ int, a, g shimMsg) string { return c11Same(a, g) }); sig != "" {
			violate("C11:server-to-client-after-quiet-poll:"+sig, fmt.Sprintf("session %s was polled continuously (one poll outstanding) while its backend stayed silent, then sent one message %.1f s and one %.1f s after the first poll began; poll answers %v: %s", s.id, (sendAt[0]+time.Duration(i)*150*time.Millisecond).Seconds(), (sendAt[1]+time.Duration(i)*150*time.Millisecond).Seconds(), s.statuses, msg))
		}
		shimPost(h, "close", nil, shimIDBody(s.id), shimBoundCall)
	}
	res.PollShape = fmt.Sprintf("quiet:%v", qs[0].statuses)
}

// c11Pause: the backend is busy (reads nothing) for c.PauseMs and then carries
// on. Meanwhile the client posts a 12 MiB message (the writer parks in its TCP
// write), ten small ones (the queue is full) and further posts that have to
// wait for room. Posting goes on whatever the answers are, as a browser's
// would. What the backend finally receives must be a gap-free prefix of what
// was posted - no message may arrive after one that was lost - and every post
// that was answered 200 must be in it.
func c11Pause(b *shimBackend, c c11Case, rng *rand.Rand, h http.Handler, res *c11Result, violate func(sig, msg string), timedOut func()) {
	token := c.ID + "-p"
	id, bc, a := shimOpen(h, b, token, "/socket/"+c.ID, 1, [2]string{"X-Verif-Pause", "90000"})
	if id == "" || bc == nil {
		violate("C11:open-failed", fmt.Sprintf("open answered %d %s", a.Status, shimTrunc(string(a.Body), 200)))
		return
	}
	defer b.forget(token)
	type post struct {
		from, n, status int
		ms              int64
	}
	var sent []shimMsg
	var posts []post
	t0 := time.Now()
	doPost := func(ms []shimMsg) bool {
		var items []map[string]interface{}
		for _, m := range ms {
			items = append(items, map[string]interface{}{"id": id, "msg": shimWire(m, 1)})
		}
		body, _ := json.Marshal(items)
		p := post{from: len(sent), n: len(ms)}
		sent = append(sent, ms...)
		d := shimPost(h, "data", nil, body, 120*time.Second)
		p.status, p.ms = d.Status, time.Since(t0).Milliseconds()
		posts = append(posts, p)
		res.Posts++
		if d.Panic != "" {
			violate("C11:panic:"+shimSlug(d.Panic), "data post panicked: "+d.Panic)
			return false
		}
		if !d.Answered {
			timedOut()
			violate("C11:data-post-unanswered", fmt.Sprintf("data post of %d messages to a backend that pauses for %d ms not answered within 120s", len(ms), c.PauseMs))
			return false
		}
		return true
	}
	small := func(n int) []shimMsg {
		out := make([]shimMsg, n)
		for i := range out {
			out[i] = shimMsg{websocket.TextMessage, []byte(fmt.Sprintf("message %d behind a busy backend %s", len(sent)+i, c11Text(rng, rng.Intn(40))))}
		}
		return out
	}
	big := shimMsg{websocket.TextMessage, bytes.Repeat([]byte("0123456789abcdef"), 12<<16)} // 12 MiB: more than the socket buffers take
	ok := doPost([]shimMsg{big}) && doPost(small(10))
	// writer parked, queue full: from here the backend stays busy for another c.PauseMs
	tFull := time.Now()
	go func() {
		time.Sleep(time.Duration(c.PauseMs) * time.Millisecond)
		bc.resumeNow()
	}()
	defer bc.resumeNow()
	for i := 0; ok && i < 3+rng.Intn(3); i++ { // these wait for room, each in its own post
		ok = doPost(small(1 + rng.Intn(4)))
	}
	if !ok {
		return
	}
	for time.Since(tFull) < time.Duration(c.PauseMs+500)*time.Millisecond { // the backend is reading again
		time.Sleep(50 * time.Millisecond)
	}
	if !doPost(small(2)) || !doPost([]shimMsg{{websocket.TextMessage, c11EndText}}) {
		return
	}
	if posts[len(posts)-1].status == 200 {
		if !bc.waitRecv(func(r []shimMsg) bool { return len(r) > 0 && bytes.Equal(r[len(r)-1].D, c11EndText) }, 60*time.Second) {
			timedOut()
		}
	} else {
		time.Sleep(2 * time.Second)
	}
	got := bc.received()
	res.C2S += len(got)
	for _, m := range got {
		res.Bytes += int64(len(m.D))
	}
	var hist []string
	for _, p := range posts {
		hist = append(hist, fmt.Sprintf("#%d..%d->%d@%.1fs", p.from, p.from+p.n-1, p.status, float64(p.ms)/1000))
	}
	what := fmt.Sprintf("backend busy (not reading) until %d ms after the client queue was full, then reading again; posts (messages -> status @ time answered): %v; backend received %d of %d messages", c.PauseMs, hist, len(got), len(sent))
	// gap-free: got must be a prefix of sent
	for i, g := range got {
		if i >= len(sent) || c11Same(sent[i], g) != "" {
			at := -1
			for j := range sent {
				if c11Same(sent[j], g) == "" {
					at = j
					break
				}
			}
			if at > i {
				violate("C11:client-to-server:hole-in-stream", fmt.Sprintf("%s: message #%d arrived in position %d - messages #%d..#%d were lost and later ones delivered", what, at, i, i, at-1))
			} else {
				violate("C11:client-to-server:payload-altered:text", fmt.Sprintf("%s: position %d is not message #%d", what, i, i))
			}
			return
		}
	}
	for _, p := range posts {
		if p.status == 200 && p.from+p.n > len(got) {
			violate("C11:client-to-server:lost", fmt.Sprintf("%s: the post of messages #%d..#%d was answered 200 but only %d messages arrived", what, p.from, p.from+p.n-1, len(got)))
			return
		}
	}
	res.PollShape = "pause:" + strings.Join(hist, " ")
	shimPost(h, "close", nil, shimIDBody(id), shimBoundCall)
}

// c11Pings: the client uploads c.C2S messages of 0.5-1 MiB (hundreds of
// frames each) while the backend sends keep-alive pings every c.PingUs
// microseconds. The backend has to receive exactly what was posted, in order.
func c11Pings(b *shimBackend, c c11Case, rng *rand.Rand, h http.Handler, res *c11Result, violate func(sig, msg string), timedOut func()) {
	token := c.ID + "-pg"
	id, bc, a := shimOpen(h, b, token, "/socket/"+c.ID, 1, [2]string{"X-Verif-Ping", strconv.Itoa(c.PingUs)})
	if id == "" || bc == nil {
		violate("C11:open-failed", fmt.Sprintf("open answered %d %s", a.Status, shimTrunc(string(a.Body), 200)))
		return
	}
	defer b.forget(token)
	var sent []shimMsg
	block := c11Text(rng, 64<<10)
	for len(sent) < c.C2S {
		k := 1 + rng.Intn(3)
		var ms []shimMsg
		for j := 0; j < k && len(sent)+len(ms) < c.C2S; j++ {
			size := 512<<10 + rng.Intn(512<<10)
			d := bytes.Repeat(block, size/len(block)+1)[:size]
			for !utf8.Valid(d) {
				d = d[:len(d)-1]
			}
			d = append([]byte(fmt.Sprintf("#%d ", len(sent)+len(ms))), d...)
			ms = append(ms, shimMsg{websocket.TextMessage, d})
		}
		var items []map[string]interface{}
		for _, m := range ms {
			items = append(items, map[string]interface{}{"id": id, "msg": string(m.D)})
		}
		body, _ := json.Marshal(items)
		sent = append(sent, ms...)
		d := shimPost(h, "data", nil, body, 120*time.Second)
		res.Posts++
		if d.Panic != "" {
			violate("C11:panic:"+shimSlug(d.Panic), "data post panicked: "+d.Panic)
			return
		}
		if !d.Answered {
			timedOut()
			violate("C11:data-post-unanswered", "data post of large messages to a pinging backend not answered within 120s")
			return
		}
		if d.Status != 200 {
			break // the comparison below says what arrived
		}
	}
	sent = append(sent, shimMsg{websocket.TextMessage, c11EndText})
	e := shimPost(h, "data", nil, []byte(`[{"id":"`+id+`","msg":"\u0000verif-end-of-history"}]`), 60*time.Second)
	if e.Answered && e.Status == 200 {
		if !bc.waitRecv(func(r []shimMsg) bool { return len(r) > 0 && bytes.Equal(r[len(r)-1].D, c11EndText) }, 60*time.Second) {
			timedOut()
		}
	} else {
		time.Sleep(time.Second)
	}
	got := bc.received()
	res.C2S += len(got)
	for _, m := range got {
		res.Bytes += int64(len(m.D))
	}
	pings := atomic.LoadInt64(&bc.pushed)
	res.PollShape = fmt.Sprintf("pings:%d", pings)
	if sig, msg := c11Compare(sent, got, func(_ int, a, g shimMsg) string { return c11Same(a, g) }); sig != "" {
		bc.mu.Lock()
		cerr := bc.cerr
		bc.mu.Unlock()
		violate("C11:client-to-server:"+sig, fmt.Sprintf("%d messages of 0.5-1 MiB uploaded while the backend sent %d keep-alive pings (one per %d us): %s; end marker post answered %d; backend connection ended with %q", len(sent)-1, pings, c.PingUs, msg, e.Status, cerr))
	}
	shimPost(h, "close", nil, shimIDBody(id), shimBoundCall)
}

// c11EndFirstSession carries one message each way over session A and ends
// it the way c.Reopen says. "" = done.
func c11EndFirstSession(h http.Handler, a *c11Sess, c c11Case, version int) string {
	d := shimPost(h, "data", nil, []byte(`[{"id":"`+a.id+`","msg":"first session says hello"}]`), shimBoundCall)
	if !d.Answered || d.Status != 200 {
		return fmt.Sprintf("data on the first session answered %d", d.Status)
	}
	if !a.bc.waitRecv(func(r []shimMsg) bool { return len(r) >= 1 }, 10*time.Second) {
		return "the first session's message did not reach its backend within 10s"
	}
	a.bc.send(shimMsg{websocket.TextMessage, []byte("first backend says hello")})
	p := shimPost(h, "poll", nil, shimIDBody(a.id), shimBoundPoll)
	if !p.Answered || p.Status != 200 {
		return fmt.Sprintf("poll on the first session answered %d", p.Status)
	}
	if c.Reopen == "backend-close" {
		a.bc.closeNow()
		a.bc.settled(0)
		for n := 0; n < 3; n++ {
			p := shimPost(h, "poll", nil, shimIDBody(a.id), shimBoundPoll)
			if p.Answered && p.Status == 400 {
				return ""
			}
		}
		return "the first session's backend closed but three polls later none had answered 400"
	}
	cl := shimPost(h, "close", nil, shimIDBody(a.id), shimBoundCall)
	if !cl.Answered || cl.Status != 200 {
		return fmt.Sprintf("close of the first session answered %d", cl.Status)
	}
	return ""
}

// c11Tail: the backend sends a last burst while nobody polls and closes
// gracefully; whatever it sent before closing has to come out of the polls
// that follow, in order, before they report the session closed. Polls are
// issued only after the agent had the chance to notice the close (the worst
// moment for anything that short-cuts on "connection gone").
func c11Tail(h http.Handler, s *c11Sess, c c11Case, version int, rng *rand.Rand, res *c11Result, violate func(sig, msg string), timedOut func()) {
	var tail []shimMsg
	for i := 0; i < c.Tail; i++ {
		if version == 1 && rng.Intn(3) == 0 {
			tail = append(tail, shimMsg{websocket.BinaryMessage, c11Binary(rng, rng.Intn(300), false)})
		} else {
			tail = append(tail, shimMsg{websocket.TextMessage, c11Text(rng, rng.Intn(300))})
		}
	}
	sendDone := make(chan struct{})
	go func() {
		defer close(sendDone)
		for _, m := range tail {
			if s.bc.send(m) != nil {
				return
			}
		}
		s.bc.closeNow()
	}()
	select {
	case <-sendDone:
	case <-time.After(10 * time.Second):
		timedOut()
		violate("C11:tail:backend-could-not-send", "the backend could not write its final burst within 10s")
		return
	}
	dataNote := ""
	if c.TailData {
		s.bc.settled(len(tail))
		d := shimPost(h, "data", nil, []byte(`[{"id":"`+s.id+`","msg":"is anybody there"}]`), shimBoundCall)
		dataNote = fmt.Sprintf("; a data post made before the first poll was answered %d", d.Status)
		if d.Panic != "" {
			violate("C11:panic:"+shimSlug(d.Panic), "data post panicked: "+d.Panic)
			return
		}
		res.TailDataPosts++
	}
	var got []shimMsg
	var sizes []int
	closedSeen := false
	for n := 0; n < len(tail)+5 && !closedSeen; n++ {
		s.bc.settled(len(tail) - len(got))
		a := shimPost(h, "poll", nil, shimIDBody(s.id), shimBoundPoll)
		res.TailPolls++
		switch {
		case a.Panic != "":
			violate("C11:panic:"+shimSlug(a.Panic), "poll panicked: "+a.Panic)
			return
		case !a.Answered:
			timedOut()
			violate("C11:poll-unanswered", "poll after the backend closed not answered within 30s")
			return
		case a.Status == 200:
			ms, err := shimDecodePoll(a.Body, version)
			if err != nil {
				violate("C11:server-to-client:undecodable", err.Error())
				return
			}
			got = append(got, ms...)
			sizes = append(sizes, len(ms))
		case a.Status == 400:
			closedSeen = true
		default: // 408: keep polling
		}
	}
	res.TailCarried += len(got)
	if sig, msg := c11Compare(tail, got, func(_ int, a, g shimMsg) string { return c11Same(a, g) }); sig != "" {
		violate("C11:server-to-client-before-backend-close:"+sig, fmt.Sprintf("session %s (v%d): the backend sent a final burst of %d messages with no poll outstanding and closed; poll replies %v, then closed=%v%s: %s", s.id, version, len(tail), sizes, closedSeen, dataNote, msg))
	}
}

// c11CloseRace: data posts to a slowly reading backend, then close right
// behind them. Every message of a post that was answered 200 before the
// close was posted has to reach the backend, in order, followed by a normal
// websocket closure.
func c11CloseRace(b *shimBackend, c c11Case, rng *rand.Rand, h http.Handler, res *c11Result, violate func(sig, msg string), timedOut func()) {
	token := c.ID + "-cr"
	id, bc, a := shimOpen(h, b, token, "/socket/"+c.ID, 1, [2]string{"X-Verif-Slowread", strconv.Itoa(c.SlowMs)})
	if id == "" || bc == nil {
		violate("C11:open-failed", fmt.Sprintf("open answered %d %s", a.Status, shimTrunc(string(a.Body), 200)))
		return
	}
	defer b.forget(token)
	sizes := c11Sizes(rng, c.Sizes, c.C2S)
	var sent []shimMsg
	for i, sz := range sizes {
		m := shimMsg{websocket.TextMessage, c11Text(rng, sz)}
		if (c.Kinds == "mixed" && rng.Intn(2) == 0) || c.Kinds == "binary" {
			m = shimMsg{websocket.BinaryMessage, c11Binary(rng, sz, i == 0 && sz >= 256)}
		}
		sent = append(sent, m)
		res.SizeClasses[c11SizeClass(sz)]++
	}
	for at := 0; at < len(sent); {
		n := 1
		switch c.Batch {
		case "small":
			n = 1 + rng.Intn(5)
		case "over10":
			n = 11 + rng.Intn(20)
		case "mixed":
			n = 1 + rng.Intn(25)
		}
		if at+n > len(sent) {
			n = len(sent) - at
		}
		var items []map[string]interface{}
		for _, m := range sent[at : at+n] {
			items = append(items, map[string]interface{}{"id": id, "msg": shimWire(m, 1)})
		}
		body, _ := json.Marshal(items)
		d := shimPost(h, "data", nil, body, 120*time.Second)
		res.Posts++
		if n > res.MaxPost {
			res.MaxPost = n
		}
		if n > 10 {
			res.PostsOver10++
		}
		if d.Panic != "" {
			violate("C11:panic:"+shimSlug(d.Panic), "data post panicked: "+d.Panic)
			return
		}
		if !d.Answered {
			timedOut()
			violate("C11:data-post-unanswered", fmt.Sprintf("data post of %d messages to a backend reading one message per %d ms not answered within 120s", n, c.SlowMs))
			return
		}
		if d.Status != 200 {
			violate(fmt.Sprintf("C11:data-post-rejected:%d", d.Status), fmt.Sprintf("well-formed data post on an open session answered %d", d.Status))
			return
		}
		at += n
	}
	cl := shimPost(h, "close", nil, shimIDBody(id), 120*time.Second)
	if cl.Panic != "" || !cl.Answered || cl.Status != 200 {
		violate("C11:close-after-data:close-failed", fmt.Sprintf("close right behind the data posts answered %d (answered=%v panic=%q)", cl.Status, cl.Answered, cl.Panic))
		return
	}
	bound := 30*time.Second + time.Duration(len(sent)*c.SlowMs*3)*time.Millisecond
	if !bc.waitClosed(bound) {
		timedOut()
		violate("C11:close-after-data:backend-not-closed", fmt.Sprintf("%s after close answered 200 the backend still has not seen the websocket close", bound))
		return
	}
	got := bc.received()
	res.C2S += len(got)
	res.CloseRaceMsgs += len(got)
	for _, m := range got {
		res.Bytes += int64(len(m.D))
	}
	bc.mu.Lock()
	cerr := bc.cerr
	bc.mu.Unlock()
	what := fmt.Sprintf("%d messages in %d posts (all answered 200) to a backend reading one message per %d ms, then close (answered 200)", len(sent), res.Posts, c.SlowMs)
	if sig, msg := c11Compare(sent, got, func(_ int, a, g shimMsg) string { return c11Same(a, g) }); sig != "" {
		violate("C11:client-to-server-before-close:"+sig, fmt.Sprintf("%s: %s; the backend's connection ended with %q", what, msg, cerr))
	} else if !strings.Contains(cerr, "close 1000") {
		violate("C11:close-after-data:not-a-normal-closure", fmt.Sprintf("%s: all messages arrived but the connection ended with %q instead of a normal closure (1000)", what, cerr))
	}
}

// c11Shape summarises batch sizes as a multiset signature "1x3,7x1,…".
func c11Shape(ns []int) string {
	cnt := map[int]int{}
	for _, n := range ns {
		cnt[n]++
	}
	keys := make([]int, 0, len(cnt))
	for k := range cnt {
		keys = append(keys, k)
	}
	sort.Ints(keys)
	var p []string
	for _, k := range keys {
		p = append(p, fmt.Sprintf("%dx%d", k, cnt[k]))
	}
	return strings.Join(p, ",")
}

func c11Same(a, g shimMsg) string {
	if a.T != g.T {
		return fmt.Sprintf("type-altered|sent %s, received %s (payload %d bytes)", a.kind(), g.kind(), len(a.D))
	}
	if !bytes.Equal(a.D, g.D) {
		return fmt.Sprintf("payload-altered:%s|%s message of %d bytes received as %d bytes, first difference at offset %d: sent %s got %s", a.kind(), a.kind(), len(a.D), len(g.D), shimFirstDiff(a.D, g.D), shimAround(a.D, shimFirstDiff(a.D, g.D)), shimAround(g.D, shimFirstDiff(a.D, g.D)))
	}
	return ""
}

func shimFirstDiff(a, b []byte) int {
	n := len(a)
	if len(b) < n {
		n = len(b)
	}
	for i := 0; i < n; i++ {
		if a[i] != b[i] {
			return i
		}
	}
	return n
}

func shimAround(b []byte, at int) string {
	lo, hi := at-8, at+8
	if lo < 0 {
		lo = 0
	}
	if hi > len(b) {
		hi = len(b)
	}
	return strconv.Quote(string(b[lo:hi]))
}

func shimTrunc(s string, n int) string {
	if len(s) > n {
		return s[:n] + fmt.Sprintf("…(+%d)", len(s)-n)
	}
	return s
}

// c11Compare compares the sent and the received sequence. judge returns ""
// when message i was carried acceptably, else "kind|explanation".
func c11Compare(sent, got []shimMsg, judge func(i int, a, g shimMsg) string) (sig, msg string) {
	n := len(sent)
	if len(got) < n {
		n = len(got)
	}
	firstBad, why := -1, ""
	for i := 0; i < n; i++ {
		if p := judge(i, sent[i], got[i]); p != "" {
			firstBad, why = i, p
			break
		}
	}
	if firstBad < 0 && len(sent) == len(got) {
		return "", ""
	}
	key := func(m shimMsg) string { return strconv.Itoa(m.T) + ":" + string(m.D) }
	ms, sentKeys := map[string]int{}, map[string]bool{}
	for _, m := range sent {
		ms[key(m)]++
		sentKeys[key(m)] = true
	}
	sameMultiset := len(sent) == len(got)
	dup := ""
	for i, m := range got {
		k := key(m)
		ms[k]--
		if ms[k] < 0 {
			sameMultiset = false
			if dup == "" && sentKeys[k] { // a message that was sent, received more often than sent
				dup = fmt.Sprintf("received message #%d (%s, %d bytes) more often than it was sent", i, m.kind(), len(m.D))
			}
		}
	}
	at := firstBad
	if at < 0 {
		at = n
	}
	head := fmt.Sprintf("sent %d messages, received %d; first deviation at #%d", len(sent), len(got), at)
	parts := strings.SplitN(why, "|", 2)
	switch {
	case sameMultiset && firstBad >= 0:
		return "reordered", head + ": same messages in a different order"
	case len(got) < len(sent):
		m := sent[at]
		return "lost", fmt.Sprintf("%s: %d message(s) never arrived, the first missing one is #%d (%s, %d bytes)", head, len(sent)-len(got), at, m.kind(), len(m.D))
	case len(got) > len(sent) && dup != "":
		return "duplicated", fmt.Sprintf("%s: %s", head, dup)
	case len(got) > len(sent):
		return "extra", fmt.Sprintf("%s: %d message(s) beyond what was sent", head, len(got)-len(sent))
	}
	// same count, different content: name it by what the per-message judgement said
	return parts[0], fmt.Sprintf("%s: %s", head, parts[len(parts)-1])
}

// c11JudgeInjected decides whether got is an acceptable image of orig when
// header injection is enabled; allowed = first values of the data request's
// headers. Only safety is judged: unchanged is always acceptable.
func c11JudgeInjected(orig, got shimMsg, allowed map[string]string) (changed bool, added int, problem string) {
	if orig.T != got.T {
		return false, 0, fmt.Sprintf("type-altered|sent %s, received %s", orig.kind(), got.kind())
	}
	if bytes.Equal(orig.D, got.D) {
		return false, 0, ""
	}
	var o, g map[string]interface{}
	oh, ok := c11HeadersOf(orig.D, &o)
	if !ok {
		class := "non-json"
		if json.Valid(orig.D) {
			class = "json-without-resource-headers"
		}
		return true, 0, fmt.Sprintf("injection-changed:%s|a message that is not a JSON object with a resource.headers object was altered: sent %s received %s", class, shimTrunc(strconv.Quote(string(orig.D)), 300), shimTrunc(strconv.Quote(string(got.D)), 300))
	}
	gh, ok := c11HeadersOf(got.D, &g)
	if !ok {
		return true, 0, fmt.Sprintf("injection-broke-message|received message is no longer a JSON object with resource.headers: sent %s received %s", shimTrunc(string(orig.D), 300), shimTrunc(string(got.D), 300))
	}
	for k, v := range gh {
		if _, present := oh[k]; present {
			continue
		}
		want, isHdr := allowed[k]
		if !isHdr {
			return true, 0, fmt.Sprintf("injection-foreign-key|key %q added to resource.headers is not a header of the data request (headers: %v)", k, c11Keys(allowed))
		}
		if s, isStr := v.(string); !isStr || s != want {
			return true, 0, fmt.Sprintf("injection-wrong-value|key %q added with value %v, the request header's first value is %q", k, v, want)
		}
		delete(gh, k)
		added++
	}
	if !reflect.DeepEqual(o, g) {
		what := "outside resource.headers"
		if !reflect.DeepEqual(oh, gh) {
			what = "an existing key of resource.headers"
			for k, v := range oh {
				if gv, ok := gh[k]; !ok || !reflect.DeepEqual(v, gv) {
					what = fmt.Sprintf("existing key %q of resource.headers (was %v, now %v)", k, v, gh[k])
					break
				}
			}
		}
		return true, added, fmt.Sprintf("injection-overwrote-existing|message differs as a JSON value in %s: sent %s received %s", what, shimTrunc(string(orig.D), 300), shimTrunc(string(got.D), 300))
	}
	return true, added, ""
}

// c11HeadersOf parses data as a JSON object and returns its resource.headers object.
func c11HeadersOf(data []byte, into *map[string]interface{}) (map[string]interface{}, bool) {
	if err := json.Unmarshal(data, into); err != nil || *into == nil {
		return nil, false
	}
	r, ok := (*into)["resource"].(map[string]interface{})
	if !ok {
		return nil, false
	}
	h, ok := r["headers"].(map[string]interface{})
	return h, ok
}

func c11Keys(m map[string]string) []string {
	out := make([]string, 0, len(m))
	for k := range m {
		out = append(out, k)
	}
	sort.Strings(out)
	return out
}
