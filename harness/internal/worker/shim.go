package worker

// Shared in-process machinery of the websocket-shim checks (C11, C12, C13):
// a real gorilla websocket backend, a caller that drives the shim handler
// the way the agent does (http.ReadRequest-built request, bare goroutine,
// recovered panic = "would have terminated the agent"), and a hook
// scheduler that parks goroutines at verifhook points to force interleavings.

import (
	"bufio"
	"bytes"
	"context"
	"encoding/base64"
	"encoding/json"
	"fmt"
	"net"
	"net/http"
	"runtime"
	"strconv"
	"strings"
	"sync"
	"sync/atomic"
	"time"

	"github.com/google/inverting-proxy/agent/sessions"
	"github.com/google/inverting-proxy/agent/websockets"
	"github.com/google/inverting-proxy/verifhook"
	"github.com/gorilla/websocket"
)

// ---------------------------------------------------------------- backend

type shimMsg struct {
	T int    // websocket.TextMessage | websocket.BinaryMessage
	D []byte // payload
}

func (m shimMsg) kind() string {
	if m.T == websocket.TextMessage {
		return "text"
	}
	if m.T == websocket.BinaryMessage {
		return "binary"
	}
	return "type" + strconv.Itoa(m.T)
}

// shimBConn is the backend's end of one websocket.
type shimBConn struct {
	token  string
	uri    string      // request URI the backend server saw
	host   string      // Host of the handshake
	hdr    http.Header // handshake headers
	ready  chan struct{}
	ws     *websocket.Conn
	wmu    sync.Mutex // serialises writes
	mu     sync.Mutex
	recv   []shimMsg
	notify chan struct{} // replaced on every change
	closed chan struct{} // closed when the read loop ends (peer closed / error)
	pushed int64         // push-only mode: messages written so far
	drop   chan struct{} // stalled mode: closed by the harness to make the backend drop the TCP connection
	resume chan struct{} // paused mode: closed by the harness to let the backend read again
	cerr   string
}

type shimBackend struct {
	l         net.Listener
	addr      string
	mu        sync.Mutex
	conns     map[string]*shimBConn
	shakes    map[string][]shimShake // every handshake request received, per token
	holds     map[string]*shimHold   // rendezvous groups of held handshakes
	seen      int64                  // upgrades served
	redirects int64                  // handshakes answered with a redirect
}

var shimUpgrader = websocket.Upgrader{
	ReadBufferSize: 4096, WriteBufferSize: 4096,
	CheckOrigin: func(*http.Request) bool { return true },
}

func newShimBackend() *shimBackend {
	l, err := net.Listen("tcp", "127.0.0.1:0")
	if err != nil {
		panic(err)
	}
	b := &shimBackend{l: l, addr: l.Addr().String(), conns: map[string]*shimBConn{}, shakes: map[string][]shimShake{}, holds: map[string]*shimHold{}}
	srv := &http.Server{Handler: http.HandlerFunc(b.serve)}
	go srv.Serve(l)
	return b
}

func (b *shimBackend) serve(w http.ResponseWriter, r *http.Request) {
	if r.Header.Get("X-Verif-Refuse") != "" {
		http.Error(w, "upgrade refused by the scripted backend", http.StatusForbidden)
		return
	}
	if spec := r.Header.Get("X-Verif-Redirect"); spec != "" {
		if loc, status := shimRedirectFor(spec, r, b.addr); loc != "" {
			atomic.AddInt64(&b.redirects, 1)
			w.Header().Set("Location", loc)
			w.WriteHeader(status)
			return
		}
	}
	if spec := r.Header.Get("X-Verif-Hold"); spec != "" {
		b.hold(spec) // "<group>;<n>": no upgrade is answered before n handshakes of the group have arrived
	}
	token := r.Header.Get("X-Verif-Conn")
	b.mu.Lock()
	b.shakes[token] = append(b.shakes[token], shimShake{Host: r.Host, URI: r.RequestURI})
	nth := len(b.shakes[token])
	b.mu.Unlock()
	if st, _ := strconv.Atoi(r.Header.Get("X-Verif-Decline-First")); st > 0 && nth == 1 {
		// a server that turns the first handshake down (auth filter, virtual-host check, plain page)
		w.Header().Set("Content-Type", "text/html")
		w.WriteHeader(st)
		w.Write([]byte("<html><body>not here</body></html>"))
		return
	}
	c := &shimBConn{token: token, uri: r.RequestURI, host: r.Host, hdr: r.Header.Clone(),
		ready: make(chan struct{}), notify: make(chan struct{}), closed: make(chan struct{}), drop: make(chan struct{}), resume: make(chan struct{})}
	b.mu.Lock()
	b.conns[token] = c
	b.mu.Unlock()
	ws, err := shimUpgrader.Upgrade(w, r, nil)
	if err != nil {
		c.cerr = "upgrade: " + err.Error()
		close(c.closed)
		close(c.ready)
		return
	}
	atomic.AddInt64(&b.seen, 1)
	c.ws = ws
	if n, _ := strconv.Atoi(r.Header.Get("X-Verif-Greet")); n > 0 {
		for i := 0; i < n; i++ {
			ws.WriteMessage(websocket.TextMessage, []byte(fmt.Sprintf("greet-%d", i)))
		}
	}
	close(c.ready)
	if r.Header.Get("X-Verif-Stall") != "" {
		c.stall()
		return
	}
	if ms, _ := strconv.Atoi(r.Header.Get("X-Verif-Noread")); ms > 0 {
		c.pushOnly(time.Duration(ms) * time.Millisecond)
		return
	}
	if us, _ := strconv.Atoi(r.Header.Get("X-Verif-Ping")); us > 0 {
		// keep-alive pings (legal at any time) every us microseconds for as long as the connection lives
		go func() {
			for i := 0; ; i++ {
				select {
				case <-c.closed:
					return
				default:
				}
				if ws.WriteControl(websocket.PingMessage, []byte(fmt.Sprintf("ping %d", i)), time.Now().Add(5*time.Second)) != nil {
					return
				}
				atomic.AddInt64(&c.pushed, 1)
				time.Sleep(time.Duration(us) * time.Microsecond)
			}
		}()
	}
	if ms, _ := strconv.Atoi(r.Header.Get("X-Verif-Pause")); ms > 0 {
		// a backend that is busy for a while: it does not read (the agent's writer parks in its TCP
		// write once the socket buffers, a few MiB, are full) and then carries on as if nothing had
		// happened. The receive buffer is left alone: shrinking it clamps the window for good.
		select {
		case <-c.resume: // the harness says when the backend gets back to work ...
		case <-time.After(time.Duration(ms) * time.Millisecond): // ... at the latest after this long
		}
	}
	slow, _ := strconv.Atoi(r.Header.Get("X-Verif-Slowread")) // ms spent on every message before the next read
	for {
		t, d, err := ws.ReadMessage()
		if slow > 0 && err == nil {
			time.Sleep(time.Duration(slow) * time.Millisecond)
		}
		c.mu.Lock()
		if err != nil {
			c.cerr = err.Error()
			c.mu.Unlock()
			close(c.closed)
			ws.Close()
			return
		}
		c.recv = append(c.recv, shimMsg{t, d})
		old := c.notify
		c.notify = make(chan struct{})
		c.mu.Unlock()
		close(old)
	}
}

// shimRedirectFor implements the backend that answers a websocket handshake
// with an HTTP redirect (as servers do to add a trailing slash or a base
// path). spec = "<status>;<kind>"; only paths starting with /redir/ or
// containing "//" are redirected, and never one that already ends in "/" or
// is the redirect target, so a client that follows ends up upgraded.
func shimRedirectFor(spec string, r *http.Request, self string) (string, int) {
	p := strings.SplitN(spec, ";", 2)
	status, _ := strconv.Atoi(p[0])
	if len(p) != 2 || status == 0 {
		return "", 0
	}
	path := r.URL.Path
	if !(strings.HasPrefix(path, "/redir/") || strings.Contains(path, "//")) || strings.HasSuffix(path, "/") {
		return "", 0
	}
	q := ""
	if r.URL.RawQuery != "" {
		q = "?" + r.URL.RawQuery
	}
	switch p[1] {
	case "absolute-foreign":
		return "ws://evil.example:9/x", status
	case "http-foreign":
		return "http://evil.example:9/x", status
	case "scheme-relative":
		return "//evil.example:9/x/", status
	case "path-only":
		return "/elsewhere", status
	case "absolute-backend":
		return "ws://" + self + "/elsewhere", status
	case "trailing-slash":
		return r.URL.EscapedPath() + "/" + q, status
	}
	return "", 0
}

// settled waits until the agent has torn its side of the connection down
// after a backend-initiated close (the backend's read loop ends). Only
// meaningful when at most 10 messages are undelivered: with more, the
// agent's reader is parked on its full queue until a poll drains it.
func (c *shimBConn) settled(undelivered int) bool {
	if undelivered > 10 {
		time.Sleep(3 * time.Millisecond)
		return false
	}
	return c.waitClosed(2 * time.Second)
}

// stall is the hung backend: after the upgrade it neither reads nor writes
// (with a small receive buffer, so a large client message parks the agent's
// writer in its TCP write) until the harness tells it to drop the
// connection, which it does with a TCP reset.
func (c *shimBConn) stall() {
	tc, _ := c.ws.UnderlyingConn().(*net.TCPConn)
	if tc != nil {
		tc.SetReadBuffer(2048)
	}
	select {
	case <-c.drop:
	case <-time.After(120 * time.Second):
	}
	if tc != nil {
		tc.SetLinger(0)
	}
	c.mu.Lock()
	c.cerr = "harness: stalled backend dropped the connection"
	c.mu.Unlock()
	c.ws.Close()
	close(c.closed)
}

// resumeNow lets a paused backend start reading.
func (c *shimBConn) resumeNow() {
	select {
	case <-c.resume:
	default:
		close(c.resume)
	}
}

// dropNow makes a stalled backend drop its TCP connection.
func (c *shimBConn) dropNow() {
	select {
	case <-c.drop:
	default:
		close(c.drop)
	}
}

// pushOnly is the busy / push-only backend: it never reads from the
// websocket (a close frame from the client stays unread, no close handshake
// is ever answered) and writes a text message every period. It learns that
// the peer tore the connection down only from its writes failing, which is
// when closed is signalled.
func (c *shimBConn) pushOnly(period time.Duration) {
	start := time.Now()
	for i := 0; ; i++ {
		c.wmu.Lock()
		c.ws.SetWriteDeadline(time.Now().Add(5 * time.Second))
		err := c.ws.WriteMessage(websocket.TextMessage, []byte(fmt.Sprintf("push-%d", i)))
		c.wmu.Unlock()
		if err != nil {
			if ne, ok := err.(net.Error); ok && ne.Timeout() {
				// the peer is still there but not draining: not a close
				c.mu.Lock()
				c.cerr = "harness: push-only backend gave up on a stalled peer"
				c.mu.Unlock()
				c.ws.Close()
				return
			}
			c.mu.Lock()
			c.cerr = err.Error()
			c.mu.Unlock()
			close(c.closed)
			c.ws.Close()
			return
		}
		atomic.AddInt64(&c.pushed, 1)
		if time.Since(start) > 90*time.Second {
			c.mu.Lock()
			c.cerr = "harness: push-only backend retired after 90s"
			c.mu.Unlock()
			c.ws.Close() // without signalling closed: the peer never closed
			return
		}
		time.Sleep(period)
	}
}

type shimHold struct {
	n   int
	all chan struct{}
}

// hold parks a handshake until want handshakes of the same group have
// arrived (at most 5 s), so that the opens they belong to overlap for sure.
func (b *shimBackend) hold(spec string) {
	p := strings.SplitN(spec, ";", 2)
	want, _ := strconv.Atoi(p[len(p)-1])
	b.mu.Lock()
	h := b.holds[p[0]]
	if h == nil {
		h = &shimHold{all: make(chan struct{})}
		b.holds[p[0]] = h
	}
	h.n++
	if h.n == want {
		close(h.all)
		delete(b.holds, p[0])
	}
	b.mu.Unlock()
	select {
	case <-h.all:
	case <-time.After(5 * time.Second):
	}
}

// shimShake is one websocket handshake request as the backend saw it.
type shimShake struct{ Host, URI string }

// handshakes returns (and forgets) the handshake requests received for a token.
func (b *shimBackend) handshakes(token string) []shimShake {
	b.mu.Lock()
	defer b.mu.Unlock()
	out := b.shakes[token]
	delete(b.shakes, token)
	return out
}

// conn returns the backend connection registered under token (nil if none).
func (b *shimBackend) conn(token string) *shimBConn {
	b.mu.Lock()
	c := b.conns[token]
	b.mu.Unlock()
	if c == nil {
		return nil
	}
	select {
	case <-c.ready:
	case <-time.After(5 * time.Second):
		return nil
	}
	if c.ws == nil {
		return nil
	}
	return c
}

// forget drops the bookkeeping for a token (long runs).
func (b *shimBackend) forget(token string) {
	b.mu.Lock()
	delete(b.conns, token)
	delete(b.shakes, token)
	b.mu.Unlock()
}

func (c *shimBConn) send(m shimMsg) error {
	c.wmu.Lock()
	defer c.wmu.Unlock()
	c.ws.SetWriteDeadline(time.Now().Add(30 * time.Second))
	return c.ws.WriteMessage(m.T, m.D)
}

// closeNow is a backend-initiated close the way a well-behaved server does
// it: close frame, then FIN (write side only). The socket keeps reading until
// the peer closes, so a client message still in flight is consumed instead of
// being answered with a TCP reset - a reset makes the kernel discard data the
// agent has not read yet, which would be the harness losing messages, not the
// code under test.
func (c *shimBConn) closeNow() {
	c.wmu.Lock()
	c.ws.WriteControl(websocket.CloseMessage, websocket.FormatCloseMessage(websocket.CloseNormalClosure, "backend done"), time.Now().Add(time.Second))
	c.wmu.Unlock()
	if tc, ok := c.ws.UnderlyingConn().(*net.TCPConn); ok {
		tc.CloseWrite()
		go func() { // never linger forever
			select {
			case <-c.closed:
			case <-time.After(15 * time.Second):
				c.ws.Close()
			}
		}()
		return
	}
	c.ws.Close()
}

// closeAbruptly closes the socket at once (possibly with a TCP reset).
func (c *shimBConn) closeAbruptly() {
	c.wmu.Lock()
	c.ws.WriteControl(websocket.CloseMessage, websocket.FormatCloseMessage(websocket.CloseNormalClosure, "backend gone"), time.Now().Add(time.Second))
	c.wmu.Unlock()
	c.ws.Close()
}

func (c *shimBConn) received() []shimMsg {
	c.mu.Lock()
	defer c.mu.Unlock()
	return append([]shimMsg(nil), c.recv...)
}

// waitRecv waits until pred(received) holds, the peer closed, or the timeout expires.
func (c *shimBConn) waitRecv(pred func([]shimMsg) bool, d time.Duration) bool {
	deadline := time.After(d)
	for {
		c.mu.Lock()
		ok := pred(c.recv)
		ch := c.notify
		c.mu.Unlock()
		if ok {
			return true
		}
		select {
		case <-ch:
		case <-c.closed:
			c.mu.Lock()
			ok := pred(c.recv)
			c.mu.Unlock()
			return ok
		case <-deadline:
			return false
		}
	}
}

func (c *shimBConn) waitClosed(d time.Duration) bool {
	select {
	case <-c.closed:
		return true
	case <-time.After(d):
		return false
	}
}

func (c *shimBConn) isClosed() bool {
	select {
	case <-c.closed:
		return true
	default:
		return false
	}
}

// ---------------------------------------------------------------- proxy under test

// shimProxy builds the handler exactly as agent.go's hostProxy does with
// sessions and metrics disabled.
func shimProxy(wrapped http.Handler, host, shimPath string, rewriteHost, inject bool) http.Handler {
	if wrapped == nil {
		wrapped = http.NotFoundHandler()
	}
	h, err := websockets.Proxy(context.Background(), wrapped, host, shimPath, rewriteHost, inject, (*sessions.Cache)(nil).SessionHandler, nil)
	if err != nil {
		panic(err)
	}
	return h
}

// ---------------------------------------------------------------- caller

type shimRec struct {
	mu     sync.Mutex
	hdr    http.Header
	status int
	body   bytes.Buffer
}

func (r *shimRec) Header() http.Header { return r.hdr }
func (r *shimRec) WriteHeader(c int) {
	r.mu.Lock()
	if r.status == 0 {
		r.status = c
	}
	r.mu.Unlock()
}
func (r *shimRec) Write(b []byte) (int, error) {
	r.mu.Lock()
	if r.status == 0 {
		r.status = 200
	}
	r.body.Write(b)
	r.mu.Unlock()
	return len(b), nil
}

type shimAnswer struct {
	Status   int
	Body     []byte
	Header   http.Header
	Panic    string
	Answered bool
	Start    time.Time
	End      time.Time
}

func (a shimAnswer) ms() int64 { return a.End.Sub(a.Start).Milliseconds() }

// shimRaw serialises a request the way the proxy hands it to the agent.
func shimRaw(method, target, host string, hdr [][2]string, body []byte) []byte {
	var b bytes.Buffer
	fmt.Fprintf(&b, "%s %s HTTP/1.1\r\nHost: %s\r\n", method, target, host)
	for _, kv := range hdr {
		fmt.Fprintf(&b, "%s: %s\r\n", kv[0], kv[1])
	}
	fmt.Fprintf(&b, "Content-Length: %d\r\n\r\n", len(body))
	b.Write(body)
	return b.Bytes()
}

// shimParse turns raw bytes into the *http.Request the agent would build.
func shimParse(raw []byte) (*http.Request, error) {
	return http.ReadRequest(bufio.NewReader(bytes.NewReader(raw)))
}

type shimPending struct {
	done chan shimAnswer
	t0   time.Time
}

// shimStart invokes the handler on a bare goroutine. role (may be "") tags the
// goroutine for the hook scheduler.
func shimStart(h http.Handler, sched *shimSched, role string, req *http.Request) *shimPending {
	p := &shimPending{done: make(chan shimAnswer, 1), t0: time.Now()}
	go func() {
		rec := &shimRec{hdr: http.Header{}}
		if sched != nil && role != "" {
			sched.enter(role)
		}
		pan := Recovered(func() { h.ServeHTTP(rec, req) })
		if sched != nil && role != "" {
			sched.leave(role)
		}
		rec.mu.Lock()
		st := rec.status
		if st == 0 {
			st = 200 // net/http semantics: a handler that returns without writing answers 200
		}
		a := shimAnswer{Status: st, Body: append([]byte(nil), rec.body.Bytes()...), Header: rec.hdr, Panic: pan, Answered: pan == "", Start: p.t0, End: time.Now()}
		rec.mu.Unlock()
		p.done <- a
	}()
	return p
}

func (p *shimPending) wait(bound time.Duration) shimAnswer {
	select {
	case a := <-p.done:
		return a
	case <-time.After(bound - time.Since(p.t0)):
		return shimAnswer{Start: p.t0, End: time.Now()}
	}
}

// shimPost performs one POST to <shimPath>/<action> and waits for the answer.
func shimPost(h http.Handler, action string, hdr [][2]string, body []byte, bound time.Duration) shimAnswer {
	req, err := shimParse(shimRaw("POST", "/shim/"+action, "client.example", hdr, body))
	if err != nil {
		panic("harness: cannot build request: " + err.Error())
	}
	return shimStart(h, nil, "", req).wait(bound)
}

func shimReq(action string, hdr [][2]string, body []byte) *http.Request {
	req, err := shimParse(shimRaw("POST", "/shim/"+action, "client.example", hdr, body))
	if err != nil {
		panic("harness: cannot build request: " + err.Error())
	}
	return req
}

const (
	shimBoundCall = 10 * time.Second
	shimBoundPoll = 30 * time.Second
)

// shimOpenResp is the JSON answer of a successful open.
type shimOpenResp struct {
	ID  string `json:"id"`
	Msg string `json:"msg"`
	V   int    `json:"v"`
}

// shimOpen opens a session; token identifies the backend connection.
func shimOpen(h http.Handler, b *shimBackend, token, url string, version int, extra ...[2]string) (id string, bc *shimBConn, a shimAnswer) {
	hdr := [][2]string{{"X-Verif-Conn", token}}
	if version >= 0 {
		hdr = append(hdr, [2]string{"X-Websocket-Shim-Version", strconv.Itoa(version)})
	}
	hdr = append(hdr, extra...)
	a = shimPost(h, "open", hdr, []byte(url), shimBoundCall)
	if !a.Answered || a.Status != 200 {
		return "", nil, a
	}
	var r shimOpenResp
	if err := json.Unmarshal(a.Body, &r); err != nil {
		return "", nil, a
	}
	return r.ID, b.conn(token), a
}

func shimIDBody(id string) []byte {
	b, _ := json.Marshal(map[string]string{"id": id})
	return b
}

// shimWire is the JSON form of a client message in the shim protocol.
func shimWire(m shimMsg, version int) interface{} {
	if m.T == websocket.TextMessage {
		return string(m.D)
	}
	if version == 0 {
		return []string{string(m.D)}
	}
	return []string{base64.StdEncoding.EncodeToString(m.D)}
}

// shimDecodePoll decodes a poll reply into messages.
func shimDecodePoll(body []byte, version int) ([]shimMsg, error) {
	var raw []json.RawMessage
	if err := json.Unmarshal(body, &raw); err != nil {
		return nil, fmt.Errorf("poll reply is not a JSON array: %v", err)
	}
	var out []shimMsg
	for i, e := range raw {
		var s string
		if json.Unmarshal(e, &s) == nil && len(e) > 0 && e[0] == '"' {
			out = append(out, shimMsg{websocket.TextMessage, []byte(s)})
			continue
		}
		var arr []string
		if err := json.Unmarshal(e, &arr); err != nil || len(arr) != 1 {
			return out, fmt.Errorf("element %d of the poll reply is neither a string nor a one-element string array: %s", i, shimTrunc(string(e), 60))
		}
		if version == 0 {
			out = append(out, shimMsg{websocket.BinaryMessage, []byte(arr[0])})
			continue
		}
		d, err := base64.StdEncoding.DecodeString(arr[0])
		if err != nil {
			return out, fmt.Errorf("element %d of the poll reply is not standard base64: %v", i, err)
		}
		out = append(out, shimMsg{websocket.BinaryMessage, d})
	}
	return out, nil
}

func shimStatusOK(s int) bool { return s == 200 || s == 400 || s == 408 || s == 500 }

// shimSlug turns a panic text into a signature component.
func shimSlug(s string) string {
	s = strings.ToLower(s)
	var b strings.Builder
	dash, num := false, false
	for _, r := range s {
		if r >= '0' && r <= '9' { // numbers vary with the input (indices, lengths): one placeholder keeps the signature stable
			if !num {
				b.WriteByte('n')
			}
			num, dash = true, false
			continue
		}
		num = false
		if r >= 'a' && r <= 'z' {
			b.WriteRune(r)
			dash = false
		} else if !dash && b.Len() > 0 {
			b.WriteByte('-')
			dash = true
		}
		if b.Len() > 70 {
			break
		}
	}
	return strings.Trim(b.String(), "-")
}

// ---------------------------------------------------------------- hook scheduler

func shimGoid() int64 {
	var buf [64]byte
	n := runtime.Stack(buf[:], false)
	f := strings.Fields(string(buf[:n]))
	if len(f) < 2 {
		return -1
	}
	id, _ := strconv.ParseInt(f[1], 10, 64)
	return id
}

// shimRule parks the goroutine with the given role ("int" = any goroutine the
// harness did not start, i.e. the connection's relay goroutines) when it
// arrives at Hook, until event Until has happened (2 s safety timeout).
type shimRule struct {
	Role, Hook, Until string
	used              bool
}

type shimSched struct {
	mu       sync.Mutex
	roles    map[int64]string
	events   map[string]chan struct{}
	rules    []*shimRule
	order    []string // arrival order of role@hook
	released int
	timedOut int
}

var shimActive atomic.Value // *shimSched (nil pointer = none)
var shimHookOnce sync.Once

func shimInstallHooks() {
	shimHookOnce.Do(func() {
		shimActive.Store((*shimSched)(nil))
		verifhook.Set(func(name string) {
			if s, _ := shimActive.Load().(*shimSched); s != nil {
				s.at(name)
			}
		})
	})
}

func newShimSched(rules ...shimRule) *shimSched {
	s := &shimSched{roles: map[int64]string{}, events: map[string]chan struct{}{}}
	for i := range rules {
		r := rules[i]
		s.rules = append(s.rules, &r)
	}
	return s
}

func (s *shimSched) activate()   { shimInstallHooks(); shimActive.Store(s) }
func (s *shimSched) deactivate() { shimActive.Store((*shimSched)(nil)) }

func (s *shimSched) ev(name string) chan struct{} {
	c, ok := s.events[name]
	if !ok {
		c = make(chan struct{})
		s.events[name] = c
	}
	return c
}

// signal marks an event as having happened.
func (s *shimSched) signal(name string) {
	s.mu.Lock()
	c := s.ev(name)
	select {
	case <-c:
	default:
		close(c)
	}
	s.mu.Unlock()
}

// await waits for an event; false on timeout.
func (s *shimSched) await(name string, d time.Duration) bool {
	s.mu.Lock()
	c := s.ev(name)
	s.mu.Unlock()
	select {
	case <-c:
		return true
	case <-time.After(d):
		return false
	}
}

func (s *shimSched) happened(name string) bool {
	s.mu.Lock()
	c := s.ev(name)
	s.mu.Unlock()
	select {
	case <-c:
		return true
	default:
		return false
	}
}

func (s *shimSched) enter(role string) {
	s.mu.Lock()
	s.roles[shimGoid()] = role
	s.mu.Unlock()
}

func (s *shimSched) leave(role string) {
	s.mu.Lock()
	delete(s.roles, shimGoid())
	s.mu.Unlock()
	s.signal(role + ".done")
}

func (s *shimSched) at(hook string) {
	id := shimGoid()
	s.mu.Lock()
	role, ok := s.roles[id]
	if !ok {
		role = "int"
	}
	name := role + "@" + hook
	if len(s.order) < 64 {
		s.order = append(s.order, name)
	}
	c := s.ev(name)
	select {
	case <-c:
	default:
		close(c)
	}
	var rule *shimRule
	for _, r := range s.rules {
		if !r.used && r.Role == role && r.Hook == hook {
			r.used = true
			rule = r
			break
		}
	}
	var until []chan struct{}
	if rule != nil {
		for _, e := range strings.Split(rule.Until, "&") { // "x&y": both must have happened
			until = append(until, s.ev(e))
		}
	}
	s.mu.Unlock()
	if rule == nil {
		return
	}
	deadline := time.After(2 * time.Second)
	for _, c := range until {
		select {
		case <-c:
		case <-deadline:
			s.mu.Lock()
			s.timedOut++
			s.mu.Unlock()
			return
		}
	}
	s.mu.Lock()
	s.released++
	s.mu.Unlock()
}

// summary reports whether every rule was hit and released by its event.
func (s *shimSched) summary() (forced bool, order string) {
	s.mu.Lock()
	defer s.mu.Unlock()
	forced = s.timedOut == 0
	for _, r := range s.rules {
		if !r.used {
			forced = false
		}
	}
	return forced, strings.Join(s.order, ">")
}

func shimHits() map[string]int64 { return verifhook.Hits() }
