package worker

// C10 — session tracking hides backend cookies and never mixes sessions.
//
// In-process monitor (engine E2). sessions.Cache.SessionHandler wraps a
// scripted backend handler and is driven the way agent.go drives it:
// requests come out of http.ReadRequest (path-only URL, Host header), the
// handler runs on a bare goroutine and writes into a recorder that behaves
// like the agent's response writer (interim 1xx statuses are not final; the
// header map is snapshotted at the first final WriteHeader / Write).
//
// The orchestrator chooses the shape of every case (sessions, hosts, steps,
// cache limit, cookie name, lifetime, SSL override, goroutines, forced or
// free-running) and a sub-seed; this file expands the sub-seed into the
// concrete history, executes it and evaluates the oracles next to the
// observations (the model is one net/http/cookiejar per session ID).
//
// A third of the requests of a sequential history are followed up at the
// client-visible moment of their response: the recorder under the session
// handler calls back when the final WriteHeader reaches it (that is the
// point at which the agent hands the response head to the proxy), and the
// callback - the handler goroutine stays inside that WriteHeader, as it does
// in the agent's unbuffered hand-off - serves the same session's next
// request on another goroutine. A client holds the cookies of a response
// head it has seen, so that request must meet them at the backend.

import (
	"bufio"
	"bytes"
	"encoding/json"
	"fmt"
	"math/rand"
	"net/http"
	"net/http/cookiejar"
	"net/url"
	"regexp"
	"runtime"
	"sort"
	"strconv"
	"strings"
	"sync"
	"sync/atomic"
	"time"

	"github.com/anishathalye/porcupine"
	"github.com/google/inverting-proxy/agent/sessions"
	"github.com/google/inverting-proxy/verifhook"
	"golang.org/x/net/publicsuffix"
)

func init() { Modes["c10"] = c10Main }

// C10Case is one case as chosen by the orchestrator.
type C10Case struct {
	ID         string `json:"id"`
	Kind       string `json:"kind"` // seq | evict | conc
	Seed       int64  `json:"seed"`
	Sessions   int    `json:"sessions"`
	Hosts      int    `json:"hosts"`
	Steps      int    `json:"steps"` // seq/evict: requests; conc: requests per goroutine
	CacheLimit int    `json:"cache_limit"`
	CookieName string `json:"cookie_name"`
	LifetimeS  int    `json:"lifetime_s"`
	DisableSSL bool   `json:"disable_ssl"`
	Interim    bool   `json:"interim"`    // some responses are preceded by an interim 103 (relayed the way httputil.ReverseProxy does)
	Goroutines int    `json:"goroutines"` // conc
	Forced     bool   `json:"forced"`     // conc: barrier-forced overlapping first uses of one new session
	Evict      bool   `json:"evict"`      // conc: cache limit below the number of sessions, safety oracle only
	Sample     bool   `json:"sample"`     // include a trace prefix in the result
}

type C10Spec struct {
	Parallel int       `json:"parallel"`
	Cases    []C10Case `json:"cases"`
}

type C10Viol struct {
	Sig    string      `json:"sig"`
	Msg    string      `json:"msg"`
	Step   int         `json:"step"`
	Detail interface{} `json:"detail,omitempty"`
}

// C10Step is one executed request of a sequential history, as observed.
type C10Step struct {
	N             int      `json:"n"`
	Who           string   `json:"who"` // s<k> | anon | garbage<j>
	Host          string   `json:"host"`
	Target        string   `json:"target"`
	Method        string   `json:"method"`
	CookieLines   []string `json:"client_cookie_lines"` // Cookie header lines the client sent
	Presented     string   `json:"presented_session_id"`
	Layout        string   `json:"layout"`
	Interim       int      `json:"interim_status,omitempty"`
	Status        int      `json:"backend_status"`
	Implicit      bool     `json:"implicit_write_header,omitempty"`
	BackendSet    []string `json:"backend_set_cookie"`    // Set-Cookie values the scripted backend emitted
	BackendSaw    []string `json:"backend_saw_cookie"`    // Cookie header lines the backend received
	ClientSet     []string `json:"client_saw_set_cookie"` // Set-Cookie values in the response the client received
	ClientStatus  int      `json:"client_status"`
	ExpectOwn     []string `json:"expect_own,omitempty"`
	ExpectJar     []string `json:"expect_from_jar,omitempty"`
	BackendCalled bool     `json:"backend_called"`

	Follow *C10Follow `json:"followup_at_response_head,omitempty"`
}

// C10Follow is the same session's next request, sent at the moment the
// response head of the step's request reached the writer under the session
// handler (the handler goroutine had not returned from that WriteHeader).
type C10Follow struct {
	Host       string   `json:"host"`
	Target     string   `json:"target"`
	SessionID  string   `json:"session_id"`
	CookieLine string   `json:"client_cookie_line"`
	BackendSaw []string `json:"backend_saw_cookie"`
	ClientSet  []string `json:"client_saw_set_cookie,omitempty"`
	ExpectJar  []string `json:"expect_from_jar"`
	Settled    []string `json:"backend_saw_cookie_when_repeated_after_return,omitempty"`

	own      c10Pair
	called   bool
	sent     bool
	hung     bool
	panicked string
	problem  string
}

type C10Result struct {
	ID         string   `json:"id"`
	Kind       string   `json:"kind"`
	Class      string   `json:"class"`
	Requests   int      `json:"requests"`
	CookiesSet int      `json:"cookies_set"`     // Set-Cookie lines the backend emitted that parse as cookies
	Deletes    int      `json:"cookie_deletes"`  // of those, deletions
	JarCookies int      `json:"jar_cookies"`     // cookies restored from jars and compared
	Issued     int      `json:"session_cookies"` // session cookies issued and attribute-checked
	AttrKinds  []string `json:"attr_kinds,omitempty"`
	Follows    int      `json:"followups_at_head,omitempty"`      // same-session requests served at the moment a response head was published
	FollowsNew int      `json:"followups_fresh_cookie,omitempty"` // of those, expecting a cookie that very response head had set

	Violations []C10Viol   `json:"violations,omitempty"`
	Problems   []string    `json:"problems,omitempty"` // harness-level: decided nothing
	Trace      interface{} `json:"trace,omitempty"`

	// concurrent rounds
	PorcOps        int    `json:"porc_ops,omitempty"`
	PorcPartitions int    `json:"porc_partitions,omitempty"`
	PorcVerdict    string `json:"porc_verdict,omitempty"` // ok | illegal | unknown | skipped
	Overlaps       int    `json:"overlapping_rw,omitempty"`
	MaxInFlight    int    `json:"max_in_flight,omitempty"`
	BarrierMet     int    `json:"barrier_met,omitempty"`
	BarrierTimeout int    `json:"barrier_timeouts,omitempty"`
	ForcedTrials   int    `json:"forced_trials,omitempty"`
	BurstTrials    int    `json:"burst_trials,omitempty"`
	OrderSig       string `json:"order_sig,omitempty"`
	QuiescentRegs  int    `json:"quiescent_registers,omitempty"`
	DurationMs     int64  `json:"duration_ms"`
}

type c10Summary struct {
	ID       string           `json:"id"`
	HookHits map[string]int64 `json:"hook_hits"`
}

func c10Main(specBytes []byte) {
	var spec C10Spec
	if err := json.Unmarshal(specBytes, &spec); err != nil {
		panic(err)
	}
	if spec.Parallel <= 0 {
		spec.Parallel = 1
	}
	verifhook.Set(nil)
	sem := make(chan struct{}, spec.Parallel)
	var wg sync.WaitGroup
	for _, c := range spec.Cases {
		c := c
		sem <- struct{}{}
		wg.Add(1)
		go func() {
			defer wg.Done()
			defer func() { <-sem }()
			Start(c.ID)
			start := time.Now()
			var res C10Result
			if c.Kind == "conc" {
				res = c10RunConc(c)
			} else if c.Kind == "served" {
				res = c10RunServed(c)
			} else {
				res = c10RunSeq(c)
			}
			res.DurationMs = time.Since(start).Milliseconds()
			Emit(res)
		}()
	}
	wg.Wait()
	Emit(c10Summary{ID: "__summary__", HookHits: verifhook.Hits()})
}

// ---------------------------------------------------------------------------
// shared helpers

// c10Recorder is the response writer under the session handler. Like the
// agent's streaming writer it does not treat an informational status as the
// response, and the header block the client gets is the header map at the
// time of the first final WriteHeader (or first Write).
type c10Recorder struct {
	h        http.Header
	wrote    bool
	status   int
	final    http.Header
	interims []int
	body     bytes.Buffer
	onHead   func(final http.Header) // called once, when the response head becomes client-visible
}

func newC10Recorder() *c10Recorder { return &c10Recorder{h: http.Header{}} }

func (w *c10Recorder) Header() http.Header { return w.h }

func (w *c10Recorder) WriteHeader(status int) {
	if w.wrote {
		return
	}
	if status >= 100 && status < 200 && status != http.StatusSwitchingProtocols {
		w.interims = append(w.interims, status)
		return
	}
	w.wrote = true
	w.status = status
	w.final = w.h.Clone()
	if w.onHead != nil {
		w.onHead(w.final.Clone())
	}
}

func (w *c10Recorder) Write(b []byte) (int, error) {
	if !w.wrote {
		w.WriteHeader(http.StatusOK)
	}
	return w.body.Write(b)
}

func (w *c10Recorder) Flush() {}

type c10Pair struct{ Name, Value string }

func (p c10Pair) String() string { return p.Name + "=" + p.Value }

// c10ParseCookieLines is the harness' own reading of Cookie header lines:
// split at ';', trim blanks, cut at the first '='.
func c10ParseCookieLines(lines []string) []c10Pair {
	var out []c10Pair
	for _, ln := range lines {
		for _, part := range strings.Split(ln, ";") {
			part = strings.TrimSpace(part)
			if part == "" {
				continue
			}
			n, v, _ := strings.Cut(part, "=")
			out = append(out, c10Pair{n, v})
		}
	}
	return out
}

func c10PairStrings(ps []c10Pair) []string {
	out := make([]string, 0, len(ps))
	for _, p := range ps {
		out = append(out, p.String())
	}
	sort.Strings(out)
	return out
}

// c10Sub removes one occurrence of every pair of b from a; returns what is
// left of a and what of b was not found.
func c10Sub(a, b []c10Pair) (rest, missing []c10Pair) {
	cnt := map[c10Pair]int{}
	for _, p := range b {
		cnt[p]++
	}
	for _, p := range a {
		if cnt[p] > 0 {
			cnt[p]--
			continue
		}
		rest = append(rest, p)
	}
	for _, p := range b {
		if cnt[p] > 0 {
			cnt[p]--
			missing = append(missing, p)
		}
	}
	return rest, missing
}

// c10JarPairs is what a Go client holding this jar would put on the wire
// for URL u (same serialisation path: Request.AddCookie), read back with the
// harness' own parser.
func c10JarPairs(jar http.CookieJar, u *url.URL) []c10Pair {
	if jar == nil {
		return nil
	}
	tmp := &http.Request{Header: http.Header{}}
	for _, c := range jar.Cookies(u) {
		tmp.AddCookie(c)
	}
	return c10ParseCookieLines(tmp.Header["Cookie"])
}

func c10NewJar() http.CookieJar {
	j, err := cookiejar.New(&cookiejar.Options{PublicSuffixList: publicsuffix.List})
	if err != nil {
		panic(err)
	}
	return j
}

// c10ParseSetCookie splits a Set-Cookie value into name, value and a map of
// lower-cased attribute names.
func c10ParseSetCookie(line string) (name, value string, attrs map[string]string) {
	attrs = map[string]string{}
	parts := strings.Split(line, ";")
	name, value, _ = strings.Cut(strings.TrimSpace(parts[0]), "=")
	for _, p := range parts[1:] {
		k, v, _ := strings.Cut(strings.TrimSpace(p), "=")
		attrs[strings.ToLower(k)] = v
	}
	return
}

func c10Request(raw string) (*http.Request, error) {
	return http.ReadRequest(bufio.NewReader(strings.NewReader(raw)))
}

// c10HangBound is a progress bound only (observed latency is below 1 ms): a
// request that misses it decides nothing by itself (reported as a problem,
// i.e. inconclusive) and ends its history / round.
const c10HangBound = 20 * time.Second

// c10Serve calls the handler on a bare goroutine, as the agent does.
func c10Serve(h http.Handler, rec http.ResponseWriter, req *http.Request) (panicked string, hung bool) {
	done := make(chan string, 1)
	go func() {
		done <- Recovered(func() { h.ServeHTTP(rec, req) })
	}()
	select {
	case p := <-done:
		return p, false
	case <-time.After(c10HangBound):
		return "", true
	}
}

// ---------------------------------------------------------------------------
// sequential histories

var c10HostGroups = [][]string{
	{"app.example.com", "www.example.com", "example.com"},
	{"shop.example.co.uk", "example.co.uk", "app.example.com:8080"},
	{"a.b.example.org", "b.example.org", "x.b.example.org:444"},
	{"localhost:8080", "127.0.0.1:8443", "app.example.com"},
	{"app.example.com:8080", "app.example.com", "api.app.example.com"},
}

var c10Targets = []string{"/", "/a", "/a/", "/a/b", "/a/b/c", "/ab", "/b", "/a/b?x=1", "/a%2Fb", "/a/b/", "/index.html"}

var c10Statuses = []int{200, 200, 200, 200, 204, 302, 304, 401, 404, 500}

var c10TagRe = regexp.MustCompile(`^"?h\d+x(\d+)n\d+`)

type c10Memo struct{ name, path, domain string }

type c10Seq struct {
	c        C10Case
	rng      *rand.Rand
	hosts    []string
	cache    *sessions.Cache
	handler  http.Handler
	lifetime time.Duration

	// script for the request in flight (sequential: one at a time)
	cur struct {
		interim  int
		status   int
		implicit bool
		set      []string
		saw      []string
		called   bool
	}
	fol *C10Follow // follow-up in flight (its backend call runs while cur's is inside WriteHeader)

	// model
	ids       []string                  // logical sessions -> issued ID ("" = none yet)
	jars      map[string]http.CookieJar // session ID -> model jar
	tagOf     map[string]int            // session ID -> tag number used in cookie values
	issuedIDs map[string]bool
	garbage   []string
	recency   []string        // session keys by recency of use, most recent first ("" = cookie-less pseudo session)
	maybeGone map[string]bool // eviction histories: may have been evicted since last seen
	memo      []c10Memo
	counter   int
	nextAnon  int

	res   *C10Result
	trace []C10Step
	kinds map[string]bool
}

func c10RunSeq(c C10Case) C10Result {
	res := C10Result{ID: c.ID, Kind: c.Kind}
	if c.Sessions < 1 {
		c.Sessions = 1
	}
	s := &c10Seq{c: c, rng: rand.New(rand.NewSource(c.Seed)), res: &res,
		jars: map[string]http.CookieJar{}, tagOf: map[string]int{}, issuedIDs: map[string]bool{},
		maybeGone: map[string]bool{}, kinds: map[string]bool{}}
	s.ids = make([]string, c.Sessions)
	grp := c10HostGroups[s.rng.Intn(len(c10HostGroups))]
	nh := c.Hosts
	if nh < 1 {
		nh = 1
	}
	if nh > len(grp) {
		nh = len(grp)
	}
	s.hosts = grp[:nh]
	s.lifetime = time.Duration(c.LifetimeS) * time.Second
	limit := c.CacheLimit
	if limit <= 0 {
		limit = 1000
	}
	s.cache = sessions.NewCache(c.CookieName, s.lifetime, limit, c.DisableSSL)
	s.handler = s.cache.SessionHandler(http.HandlerFunc(s.backend), nil)
	long := strings.Repeat("Z9", 600)
	s.garbage = []string{
		[]string{"zzz", "0", "ffffffff-ffff-ffff-ffff-ffffffffffff", "../../etc/passwd", "%00%0d%0a", "a=b==", long}[s.rng.Intn(7)],
		fmt.Sprintf("unknown-%d", s.rng.Intn(1000)),
	}
	for j, g := range s.garbage {
		s.tagOf[g] = 100 + j
	}
	s.nextAnon = 200

	for n := 0; n < c.Steps; n++ {
		if !s.step(n) {
			break
		}
	}
	res.Requests = len(s.trace) + res.Follows
	for k := range s.kinds {
		res.AttrKinds = append(res.AttrKinds, k)
	}
	sort.Strings(res.AttrKinds)
	res.Class = fmt.Sprintf("%s|sessions=%d|hosts=%d|limit=%d|%s", c.Kind, c.Sessions, nh, limit, c10KindClass(s.kinds))
	if len(res.Violations) > 0 {
		res.Trace = s.trace
	} else if c.Sample {
		t := s.trace
		if len(t) > 6 {
			t = t[:6]
		}
		res.Trace = t
	}
	return res
}

// c10KindClass condenses what a history exercised into the class string:
// the Domain classes and deletion forms that occurred and the special input
// kinds (unknown session IDs, a backend cookie named like the session
// cookie, interim responses, eviction observed). The per-kind totals are
// reported separately.
func c10KindClass(kinds map[string]bool) string {
	var dom, del, oth []string
	for k := range kinds {
		switch {
		case strings.HasPrefix(k, "domain:") && k != "domain:reused":
			dom = append(dom, k[7:])
		case strings.HasPrefix(k, "delete:"):
			del = append(del, k[7:])
		case strings.HasPrefix(k, "id:") || k == "interim-1xx" || k == "session-name-cookie" || k == "evicted-and-forgotten":
			oth = append(oth, k)
		}
	}
	sort.Strings(dom)
	sort.Strings(del)
	sort.Strings(oth)
	return fmt.Sprintf("domain-classes=%d|delete-forms=%d|%s", len(dom), len(del), strings.Join(oth, "+"))
}

// backend is the scripted backend behind the session handler. It makes the
// calls httputil.ReverseProxy makes on its ResponseWriter.
func (s *c10Seq) backend(w http.ResponseWriter, r *http.Request) {
	if r.Header.Get("X-C10-Follow") != "" {
		if f := s.fol; f != nil {
			f.called = true
			f.BackendSaw = append([]string{}, r.Header["Cookie"]...)
		}
		w.Header().Set("Content-Type", "text/plain")
		w.WriteHeader(http.StatusOK)
		w.Write([]byte("ok"))
		return
	}
	s.cur.called = true
	s.cur.saw = append([]string(nil), r.Header["Cookie"]...)
	h := w.Header()
	if s.cur.interim != 0 {
		// ReverseProxy's Got1xxResponse: copy the interim header fields, WriteHeader(1xx), clear the map.
		h.Add("Link", "</style.css>; rel=preload; as=style")
		w.WriteHeader(s.cur.interim)
		clear(h)
	}
	h.Set("Content-Type", "text/plain")
	for _, sc := range s.cur.set {
		h.Add("Set-Cookie", sc)
	}
	if !s.cur.implicit {
		w.WriteHeader(s.cur.status)
	}
	if s.cur.status != 204 && s.cur.status != 304 {
		w.Write([]byte("ok"))
	}
}

func (s *c10Seq) violate(n int, sig, msg string) {
	if n >= 0 && n < len(s.trace) && s.trace[n].Interim != 0 {
		sig += ":after-1xx"
	}
	s.res.Violations = append(s.res.Violations, C10Viol{Sig: sig, Msg: msg, Step: n})
}

func (s *c10Seq) touch(key string) {
	for i, k := range s.recency {
		if k == key {
			s.recency = append(s.recency[:i], s.recency[i+1:]...)
			break
		}
	}
	s.recency = append([]string{key}, s.recency...)
}

// afterUse marks every real session that is no longer among the limit-1
// most recently used ones as possibly evicted.
func (s *c10Seq) afterUse() {
	if s.c.Kind != "evict" {
		return
	}
	rank := 0
	for _, k := range s.recency {
		if k == "" {
			continue
		}
		rank++
		if rank > s.c.CacheLimit-1 {
			s.maybeGone[k] = true
		}
	}
}

func (s *c10Seq) hostname(host string) string {
	if i := strings.LastIndex(host, ":"); i >= 0 {
		return host[:i]
	}
	return host
}

// genSetCookie generates one Set-Cookie value for a response to host.
func (s *c10Seq) genSetCookie(host string, tag int) string {
	rng := s.rng
	hn := s.hostname(host)
	names := []string{"a", "b", "c", "tok", "pref"}
	name := names[rng.Intn(len(names))]
	if rng.Intn(30) == 0 {
		name = s.c.CookieName
		s.kinds["session-name-cookie"] = true
	}
	// Path
	path := []string{"", "", "/", "/a", "/a/b"}[rng.Intn(5)]
	// Domain
	domain, dk := "", "absent"
	switch rng.Intn(9) {
	case 0, 1, 2, 3:
	case 4:
		domain, dk = hn, "host"
	case 5, 6:
		labels := strings.Split(hn, ".")
		if len(labels) >= 3 && labels[0] != "127" {
			domain, dk = strings.Join(labels[1:], "."), "parent"
			if rng.Intn(2) == 0 {
				domain = "." + domain
			}
		} else {
			domain, dk = "evil.org", "foreign"
		}
	case 7:
		domain, dk = []string{"evil.org", "example.net", "other.example.com.evil.org"}[rng.Intn(3)], "foreign"
	case 8:
		ps, _ := publicsuffix.PublicSuffix(hn)
		domain, dk = ps, "public-suffix"
	}
	overwrite := false
	if len(s.memo) > 0 && rng.Intn(10) < 6 {
		// aim at a cookie set earlier: overwrite or delete it
		m := s.memo[rng.Intn(len(s.memo))]
		name, path, domain = m.name, m.path, m.domain
		dk = "reused"
		overwrite = true
	}
	s.kinds["domain:"+dk] = true
	s.counter++
	value := fmt.Sprintf("h%sx%dn%d", s.c.ID[strings.LastIndex(s.c.ID, "-")+1:], tag, s.counter)
	if rng.Intn(12) == 0 {
		value = `"` + value + `"`
		s.kinds["quoted-value"] = true
	}
	var sb strings.Builder
	sb.WriteString(name + "=" + value)
	attr := func(k, v string) {
		if rng.Intn(8) == 0 {
			k = strings.ToLower(k)
		}
		sb.WriteString("; " + k)
		if v != "" {
			sb.WriteString("=" + v)
		}
	}
	if path != "" {
		attr("Path", path)
	}
	if domain != "" {
		attr("Domain", domain)
	}
	// lifetime
	del := ""
	p := rng.Intn(20)
	if overwrite {
		p = rng.Intn(12) // deletions are more frequent when aiming at an existing cookie
	}
	switch {
	case p == 0:
		attr("Max-Age", "0")
		del = "max-age=0"
	case p == 1:
		attr("Max-Age", "-1")
		del = "max-age=-1"
	case p == 2:
		attr("Expires", "Thu, 01 Jan 1970 00:00:10 GMT")
		del = "expires-past"
	case p == 3:
		attr("Expires", "Mon, 02 Jan 2006 15:04:05 GMT")
		attr("Max-Age", "7200")
		s.kinds["expiry:max-age-beats-past-expires"] = true
	case p == 4:
		attr("Max-Age", "0")
		attr("Expires", "Fri, 01 Jan 2100 00:00:00 GMT")
		del = "max-age=0-beats-future-expires"
	case p < 8:
		attr("Max-Age", []string{"3600", "86400", "31536000"}[rng.Intn(3)])
		s.kinds["expiry:max-age"] = true
	case p < 10:
		attr("Expires", "Fri, 01 Jan 2100 00:00:00 GMT")
		s.kinds["expiry:expires-future"] = true
	default:
		s.kinds["expiry:session"] = true
	}
	if del != "" {
		s.kinds["delete:"+del] = true
	}
	if rng.Intn(3) == 0 {
		attr("Secure", "")
		s.kinds["flag:secure"] = true
	}
	if rng.Intn(3) == 0 {
		attr("HttpOnly", "")
		s.kinds["flag:httponly"] = true
	}
	if rng.Intn(4) == 0 {
		attr("SameSite", []string{"Lax", "Strict", "None"}[rng.Intn(3)])
		s.kinds["flag:samesite"] = true
	}
	if !overwrite && len(s.memo) < 40 {
		s.memo = append(s.memo, c10Memo{name, path, domain})
	}
	return sb.String()
}

func (s *c10Seq) ownCookies(n int) []c10Pair {
	rng := s.rng
	k := rng.Intn(4)
	names := []string{"theme", "lang", "_ga", "x", s.c.CookieName + "2", "X" + s.c.CookieName}
	if l := strings.ToLower(s.c.CookieName); l != s.c.CookieName {
		names = append(names, l)
	} else {
		names = append(names, strings.ToUpper(s.c.CookieName))
	}
	var out []c10Pair
	for i := 0; i < k; i++ {
		name := names[rng.Intn(len(names))]
		val := fmt.Sprintf("own%d.%d", n, i)
		switch rng.Intn(12) {
		case 0:
			val = ""
			s.kinds["own:empty-value"] = true
		case 1:
			val = "k=" + val + "=="
			s.kinds["own:equals-in-value"] = true
		case 2:
			val = `"` + val + `"`
			s.kinds["own:quoted"] = true
		case 3:
			if len(out) > 0 {
				name = out[0].Name
				s.kinds["own:duplicate-name"] = true
			}
		}
		if name != "theme" && name != "lang" && name != "_ga" && name != "x" {
			s.kinds["own:session-like-name"] = true
		}
		out = append(out, c10Pair{name, val})
	}
	return out
}

// step runs request n; false stops the history (first violation decides).
func (s *c10Seq) step(n int) bool {
	rng := s.rng
	c := s.c
	st := C10Step{N: n}

	// who
	presented := ""
	logical := -1
	switch p := rng.Intn(100); {
	case p < 5:
		st.Who = "anon"
		s.kinds["id:anonymous-one-off"] = true
	case p < 13 && c.Kind != "evict":
		j := rng.Intn(len(s.garbage))
		st.Who = fmt.Sprintf("garbage%d", j)
		presented = s.garbage[j]
		s.kinds["id:unknown"] = true
	default:
		logical = rng.Intn(len(s.ids))
		if n < len(s.ids) && rng.Intn(3) > 0 {
			logical = n // bring all sessions to life early
		}
		st.Who = fmt.Sprintf("s%d", logical)
		presented = s.ids[logical]
	}
	st.Presented = presented
	host := s.hosts[rng.Intn(len(s.hosts))]
	target := c10Targets[rng.Intn(len(c10Targets))]
	if c.Kind == "evict" {
		host = s.hosts[0]
	}
	st.Host, st.Target = host, target
	st.Method = "GET"
	if rng.Intn(6) == 0 {
		st.Method = "POST"
	}

	// client Cookie header
	own := s.ownCookies(n)
	sess := c.CookieName + "=" + presented
	var ownS []string
	for _, p := range own {
		ownS = append(ownS, p.String())
	}
	layout := "without"
	var lines []string
	if presented == "" {
		if len(ownS) > 0 {
			lines = []string{strings.Join(ownS, "; ")}
			layout = "own-only"
		}
	} else {
		switch l := rng.Intn(6); {
		case len(ownS) == 0:
			lines, layout = []string{sess}, "session-only"
			if rng.Intn(8) == 0 {
				lines, layout = []string{sess + "; " + sess}, "session-twice"
			}
		case l == 0:
			lines, layout = []string{sess + "; " + strings.Join(ownS, "; ")}, "session-first"
		case l == 1:
			lines, layout = []string{strings.Join(ownS, "; ") + "; " + sess}, "session-last"
		case l == 2 && len(ownS) >= 2:
			lines, layout = []string{ownS[0] + "; " + sess + "; " + strings.Join(ownS[1:], "; ")}, "session-in-the-middle"
		case l == 3:
			lines, layout = []string{strings.Join(ownS, "; "), sess}, "two-cookie-lines"
		case l == 4:
			lines, layout = []string{sess + ";" + strings.Join(ownS, ";")}, "no-blank-after-semicolon"
		default:
			lines, layout = []string{strings.Join(ownS, "; ") + "; " + sess + "; " + sess}, "session-twice"
		}
	}
	s.kinds["layout:"+layout] = true
	st.Layout = layout
	st.CookieLines = lines

	// backend script
	tag := 0
	switch {
	case presented != "":
		if _, ok := s.tagOf[presented]; !ok {
			s.tagOf[presented] = len(s.tagOf) + 1000
		}
		tag = s.tagOf[presented]
	case logical >= 0:
		tag = logical
	default:
		tag = s.nextAnon
		s.nextAnon++
	}
	s.cur.called, s.cur.saw = false, nil
	s.cur.status = c10Statuses[rng.Intn(len(c10Statuses))]
	s.cur.implicit = s.cur.status == 200 && rng.Intn(6) == 0
	s.cur.interim = 0
	if c.Interim && rng.Intn(5) == 0 {
		s.cur.interim = 103
		s.kinds["interim-1xx"] = true
	}
	s.cur.set = nil
	nset := []int{0, 0, 1, 1, 1, 2, 2, 3, 4}[rng.Intn(9)]
	for i := 0; i < nset; i++ {
		s.cur.set = append(s.cur.set, s.genSetCookie(host, tag))
	}
	if rng.Intn(15) == 0 {
		bad := []string{"", "novalue", "=v", "bad name=v"}[rng.Intn(4)]
		s.cur.set = append(s.cur.set, bad)
		s.kinds["malformed-set-cookie"] = true
	}
	if c.Kind == "evict" {
		// every session always owns one plain cookie, so "restored" is observable
		s.counter++
		s.cur.set = append(s.cur.set, fmt.Sprintf("anchor=h%sx%dn%d; Path=/", c.ID[strings.LastIndex(c.ID, "-")+1:], tag, s.counter))
	}
	st.Interim, st.Status, st.Implicit, st.BackendSet = s.cur.interim, s.cur.status, s.cur.implicit, s.cur.set

	// the request as the agent would read it off the proxy
	var raw strings.Builder
	fmt.Fprintf(&raw, "%s %s HTTP/1.1\r\nHost: %s\r\nUser-Agent: c10\r\n", st.Method, target, host)
	// every other request carries a forwarding-style field such as a client (or a hop in front of the proxy) may send;
	// none of them has any bearing on the session cookie's attributes
	if k := (n*7 + len(target)) % 16; k < 8 {
		fwd := [][2]string{{"X-Forwarded-Proto", "http"}, {"X-Forwarded-Proto", "HTTP"}, {"X-Forwarded-Proto", "http, https"}, {"X-Forwarded-Proto", "ws"},
			{"X-Forwarded-Ssl", "off"}, {"Forwarded", "for=192.0.2.1;proto=http"}, {"X-Forwarded-Proto", "https"}, {"Front-End-Https", "off"}}[k]
		fmt.Fprintf(&raw, "%s: %s\r\n", fwd[0], fwd[1])
		s.kinds["forwarding-field"] = true
	}
	for _, ln := range lines {
		fmt.Fprintf(&raw, "Cookie: %s\r\n", ln)
	}
	if st.Method == "POST" {
		raw.WriteString("Content-Length: 3\r\n\r\nabc")
	} else {
		raw.WriteString("\r\n")
	}
	req, err := c10Request(raw.String())
	if err != nil {
		s.res.Problems = append(s.res.Problems, fmt.Sprintf("step %d: harness request unparsable: %v", n, err))
		return false
	}
	u, err := url.Parse("https://" + host + target)
	if err != nil {
		s.res.Problems = append(s.res.Problems, fmt.Sprintf("step %d: harness url unparsable: %v", n, err))
		return false
	}

	// expectation, computed before the call (the jar is time dependent only beyond the 60 s margins)
	var jarPairs []c10Pair
	if presented != "" {
		if s.jars[presented] == nil {
			s.jars[presented] = c10NewJar()
		}
		jarPairs = c10JarPairs(s.jars[presented], u)
	}
	st.ExpectOwn, st.ExpectJar = c10PairStrings(own), c10PairStrings(jarPairs)

	rec := newC10Recorder()
	var fol *C10Follow
	if rng.Intn(3) == 0 {
		fol = &C10Follow{Host: s.hosts[rng.Intn(len(s.hosts))], Target: c10Targets[rng.Intn(len(c10Targets))], own: c10Pair{"react", fmt.Sprintf("n%d", n)}}
		if c.Kind == "evict" {
			fol.Host = s.hosts[0]
		}
		rec.onHead = func(final http.Header) { s.followUp(fol, presented, final) }
		s.kinds["followup-at-response-head"] = true
	}
	t0 := time.Now()
	panicked, hung := c10Serve(s.handler, rec, req)
	if fol != nil && !hung && fol.sent && !fol.hung {
		st.Follow = fol
	}
	if hung {
		// the handler goroutine may still be running: do not touch what it writes
		s.trace = append(s.trace, st)
		s.res.Problems = append(s.res.Problems, fmt.Sprintf("step %d: handler did not return within 20s", n))
		return false
	}
	st.BackendCalled = s.cur.called
	st.BackendSaw = s.cur.saw
	if rec.final != nil {
		st.ClientSet = append([]string(nil), rec.final["Set-Cookie"]...)
	}
	st.ClientStatus = rec.status
	s.trace = append(s.trace, st)
	if panicked != "" {
		s.violate(n, "handler-panic", fmt.Sprintf("step %d: the session handler panicked (in the agent this goroutine is bare: process exit): %s", n, panicked))
		return false
	}
	if !s.cur.called {
		s.res.Problems = append(s.res.Problems, fmt.Sprintf("step %d: backend handler was not invoked (status %d)", n, rec.status))
		return false
	}

	// ---- oracle 1: what the client may see
	backendPairs := map[string]bool{}
	backendRaw := map[string]bool{}
	for _, sc := range s.cur.set {
		backendRaw[sc] = true
		nm, v, _ := c10ParseSetCookie(sc)
		backendPairs[nm+"="+v] = true
	}
	var sessionLines []string
	for _, line := range st.ClientSet {
		nm, v, _ := c10ParseSetCookie(line)
		if backendRaw[line] || backendPairs[nm+"="+v] {
			s.violate(n, "backend-cookie-leaked-to-client", fmt.Sprintf("step %d (%s %s%s, %s): the client received the backend's Set-Cookie %q", n, st.Method, host, target, st.Who, line))
			return false
		}
		if nm != c.CookieName {
			s.violate(n, "unexpected-set-cookie", fmt.Sprintf("step %d: the client received a Set-Cookie that is neither the session cookie nor from the backend: %q", n, line))
			return false
		}
		sessionLines = append(sessionLines, line)
	}
	issued := ""
	switch {
	case presented == "" && len(sessionLines) == 0:
		s.violate(n, "session-cookie-not-issued", fmt.Sprintf("step %d: the client presented no session cookie and received none (response Set-Cookie: %q)", n, st.ClientSet))
		return false
	case presented != "" && len(sessionLines) > 0:
		s.violate(n, "session-cookie-issued-to-bearer", fmt.Sprintf("step %d: the client presented %s=%s and was issued another session cookie %q", n, c.CookieName, c10Trunc(presented), sessionLines))
		return false
	case len(sessionLines) > 1:
		s.violate(n, "session-cookie-attrs", fmt.Sprintf("step %d: %d session cookies in one response: %q", n, len(sessionLines), sessionLines))
		return false
	case len(sessionLines) == 1:
		_, v, attrs := c10ParseSetCookie(sessionLines[0])
		if msg := c10CheckSessionAttrs(v, attrs, c.DisableSSL, t0, s.lifetime); msg != "" {
			s.violate(n, "session-cookie-attrs", fmt.Sprintf("step %d: session cookie %q: %s", n, sessionLines[0], msg))
			return false
		}
		if s.issuedIDs[v] || s.jars[v] != nil {
			s.violate(n, "session-id-reused", fmt.Sprintf("step %d: issued session ID %q was already in use", n, v))
			return false
		}
		issued = v
		s.issuedIDs[v] = true
		s.res.Issued++
	}

	// ---- oracle 2: what the backend may see
	saw := c10ParseCookieLines(st.BackendSaw)
	rest, lostOwn := c10Sub(saw, own)
	if len(lostOwn) > 0 {
		s.violate(n, "client-cookie-lost-or-altered", fmt.Sprintf("step %d: client cookies %q did not reach the backend unchanged; backend saw %q", n, c10PairStrings(lostOwn), st.BackendSaw))
		return false
	}
	for _, p := range rest {
		if presented != "" && p.Name == c.CookieName && p.Value == presented {
			s.violate(n, "session-cookie-reached-backend", fmt.Sprintf("step %d: the backend received the session cookie itself (%s=%s); Cookie header at the backend: %q", n, p.Name, c10Trunc(p.Value), st.BackendSaw))
			return false
		}
	}
	extra, missing := c10Sub(rest, jarPairs)
	s.res.JarCookies += len(jarPairs)
	ok := len(extra) == 0 && len(missing) == 0
	if !ok && len(extra) == 0 && strings.HasPrefix(st.Who, "garbage") {
		// a session ID the agent never issued: the statement promises no persistence, only isolation
		ok = true
		s.kinds["id:unknown-forgotten"] = true
	}
	if !ok && len(rest) == 0 && s.maybeGone[presented] {
		// fell out of the limit-1 most recently used sessions earlier: legitimately forgotten
		s.jars[presented] = c10NewJar()
		ok = true
		s.kinds["evicted-and-forgotten"] = true
	}
	if !ok {
		myTag := strconv.Itoa(tag)
		for _, p := range extra {
			if m := c10TagRe.FindStringSubmatch(p.Value); m != nil && m[1] != myTag {
				s.violate(n, "cross-session-cookie", fmt.Sprintf("step %d (%s, tag x%s): the backend received %q, a cookie set in another session (tag x%s); expected from this session's jar %q, backend saw %q", n, st.Who, myTag, p.String(), m[1], st.ExpectJar, st.BackendSaw))
				return false
			}
		}
		sig := "backend-cookies-differ-from-jar"
		if c.Kind == "evict" && len(extra) == 0 {
			sig = "evicted-too-early"
		}
		s.violate(n, sig, fmt.Sprintf("step %d (%s %s%s, %s): backend cookies differ from the model jar: unexpected %q, missing %q (own %q, jar %q, backend saw %q)", n, st.Method, host, target, st.Who, c10PairStrings(extra), c10PairStrings(missing), st.ExpectOwn, st.ExpectJar, st.BackendSaw))
		return false
	}
	delete(s.maybeGone, presented)

	// ---- model update
	key := presented
	if issued != "" {
		key = issued
		s.tagOf[issued] = tag
		if logical >= 0 {
			s.ids[logical] = issued
		}
	}
	s.touch(presented)
	if key != presented {
		s.touch(key)
	}
	s.afterUse()
	cookies := (&http.Response{Header: http.Header{"Set-Cookie": s.cur.set}}).Cookies()
	s.res.CookiesSet += len(cookies)
	for _, ck := range cookies {
		if ck.MaxAge < 0 || (!ck.Expires.IsZero() && ck.Expires.Before(time.Now()) && ck.MaxAge == 0) {
			s.res.Deletes++
		}
	}
	if key != "" && len(cookies) > 0 {
		if s.jars[key] == nil {
			s.jars[key] = c10NewJar()
		}
		s.jars[key].SetCookies(u, cookies)
	} else if key != "" && s.jars[key] == nil {
		s.jars[key] = c10NewJar()
	}
	return s.judgeFollow(n, &st, fol, key, tag, backendPairs)
}

// followUp runs on the handler goroutine of the request whose response head
// has just reached the recorder (inside the recorder's WriteHeader): the
// client has the head, so it may send the session's next request now. That
// request is served on its own bare goroutine and awaited here, i.e. the
// schedule is "the first handler goroutine does not run again until the
// client's reaction has reached the backend".
func (s *c10Seq) followUp(f *C10Follow, presented string, final http.Header) {
	id := presented
	if id == "" {
		for _, line := range final["Set-Cookie"] {
			if nm, v, _ := c10ParseSetCookie(line); nm == s.c.CookieName && v != "" {
				id = v
			}
		}
	}
	if id == "" {
		return // no session to continue; the step's own oracle reports the missing session cookie
	}
	f.SessionID = id
	f.CookieLine = f.own.String() + "; " + s.c.CookieName + "=" + id
	raw := fmt.Sprintf("GET %s HTTP/1.1\r\nHost: %s\r\nUser-Agent: c10\r\nX-C10-Follow: 1\r\nCookie: %s\r\n\r\n", f.Target, f.Host, f.CookieLine)
	req, err := c10Request(raw)
	if err != nil {
		f.problem = "harness follow-up request unparsable: " + err.Error()
		return
	}
	s.fol = f
	rec := newC10Recorder()
	f.panicked, f.hung = c10Serve(s.handler, rec, req)
	if f.hung {
		return // its goroutine may still write into f: f is not read again
	}
	s.fol = nil
	f.sent = true
	if rec.final != nil {
		f.ClientSet = append([]string(nil), rec.final["Set-Cookie"]...)
	}
}

// judgeFollow evaluates the follow-up of step n after the model jar has taken
// the step's Set-Cookie list: the follow-up was sent by a client that had
// seen that response head.
func (s *c10Seq) judgeFollow(n int, st *C10Step, f *C10Follow, key string, tag int, headPairs map[string]bool) bool {
	if f == nil {
		return true
	}
	c := s.c
	switch {
	case f.problem != "":
		s.res.Problems = append(s.res.Problems, fmt.Sprintf("step %d: %s", n, f.problem))
		return false
	case f.hung:
		s.res.Problems = append(s.res.Problems, fmt.Sprintf("step %d: the follow-up request sent at the response head did not return within 20s", n))
		return false
	case !f.sent:
		return true
	case f.panicked != "":
		s.violate(n, "handler-panic", fmt.Sprintf("step %d: the session handler panicked on the session's next request, sent when the response head arrived (in the agent this goroutine is bare: process exit): %s", n, f.panicked))
		return false
	case !f.called:
		s.res.Problems = append(s.res.Problems, fmt.Sprintf("step %d: backend handler was not invoked for the follow-up request", n))
		return false
	case f.SessionID != key:
		s.res.Problems = append(s.res.Problems, fmt.Sprintf("step %d: follow-up bore session %q, the model continued %q", n, c10Trunc(f.SessionID), c10Trunc(key)))
		return false
	}
	for _, line := range f.ClientSet {
		nm, _, _ := c10ParseSetCookie(line)
		sig := "unexpected-set-cookie"
		if nm == c.CookieName {
			sig = "session-cookie-issued-to-bearer"
		}
		s.violate(n, sig, fmt.Sprintf("step %d: the follow-up request presented %s=%s, its backend response set no cookie, and the client received Set-Cookie %q", n, c.CookieName, c10Trunc(f.SessionID), line))
		return false
	}
	fu, err := url.Parse("https://" + f.Host + f.Target)
	if err != nil {
		s.res.Problems = append(s.res.Problems, fmt.Sprintf("step %d: harness url unparsable: %v", n, err))
		return false
	}
	want := c10JarPairs(s.jars[key], fu)
	f.ExpectJar = c10PairStrings(want)
	s.res.Follows++
	s.res.JarCookies += len(want)
	for _, p := range want {
		if headPairs[p.String()] {
			s.res.FollowsNew++
			break
		}
	}
	judge := func(lines []string) (extra, missing []c10Pair, msg, sig string) {
		rest, lostOwn := c10Sub(c10ParseCookieLines(lines), []c10Pair{f.own})
		if len(lostOwn) > 0 {
			return nil, nil, fmt.Sprintf("client cookie %q did not reach the backend unchanged; backend saw %q", f.own.String(), lines), "client-cookie-lost-or-altered"
		}
		for _, p := range rest {
			if p.Name == c.CookieName && p.Value == f.SessionID {
				return nil, nil, fmt.Sprintf("the backend received the session cookie itself (%s=%s); Cookie header at the backend: %q", p.Name, c10Trunc(p.Value), lines), "session-cookie-reached-backend"
			}
		}
		extra, missing = c10Sub(rest, want)
		return extra, missing, "", ""
	}
	extra, missing, msg, sig := judge(f.BackendSaw)
	if sig != "" {
		s.violate(n, sig, fmt.Sprintf("step %d, follow-up sent at the response head: %s", n, msg))
		return false
	}
	if len(extra) == 0 && len(missing) == 0 {
		return true
	}
	if len(extra) == 0 && strings.HasPrefix(st.Who, "garbage") {
		s.kinds["id:unknown-forgotten"] = true
		return true // a session ID the agent never issued: isolation only
	}
	myTag := strconv.Itoa(tag)
	for _, p := range extra {
		if m := c10TagRe.FindStringSubmatch(p.Value); m != nil && m[1] != myTag {
			s.violate(n, "cross-session-cookie", fmt.Sprintf("step %d (%s, tag x%s), follow-up sent at the response head: the backend received %q, a cookie set in another session (tag x%s); expected from this session's jar %q, backend saw %q", n, st.Who, myTag, p.String(), m[1], f.ExpectJar, f.BackendSaw))
			return false
		}
	}
	// Diagnosis only (chooses the signature): the same request once more, now that the first
	// handler has returned. If the backend then sees what the jar holds, the cookies were there
	// too late; if not, the jar is wrong independently of the schedule.
	again := &C10Follow{Host: f.Host, Target: f.Target, own: f.own}
	s.followUp(again, f.SessionID, nil)
	sig = "backend-cookies-differ-from-jar"
	when := ""
	if again.sent && again.called && again.panicked == "" {
		f.Settled = again.BackendSaw
		if e2, m2, _, sig2 := judge(again.BackendSaw); sig2 == "" && len(e2) == 0 && len(m2) == 0 {
			sig = "jar-updated-after-response-head-published"
			when = "; the same request repeated after the first handler had returned reached the backend with the jar's cookies " + fmt.Sprintf("%q", again.BackendSaw)
		}
	}
	s.violate(n, sig, fmt.Sprintf("step %d (%s %s%s, %s): the client sent the session's next request (GET %s%s) when it had received the response head (backend Set-Cookie %q; the handler had not yet returned from WriteHeader): backend cookies differ from the model jar: unexpected %q, missing %q (jar %q, backend saw %q)%s",
		n, st.Method, st.Host, st.Target, st.Who, f.Host, f.Target, st.BackendSet, c10PairStrings(extra), c10PairStrings(missing), f.ExpectJar, f.BackendSaw, when))
	return false
}

func c10Trunc(s string) string {
	if len(s) > 60 {
		return s[:60] + fmt.Sprintf("…(%d bytes)", len(s))
	}
	return s
}

// c10CheckSessionAttrs checks the attributes the statement promises.
func c10CheckSessionAttrs(value string, attrs map[string]string, disableSSL bool, t0 time.Time, lifetime time.Duration) string {
	if value == "" {
		return "empty value"
	}
	if _, ok := attrs["httponly"]; !ok {
		return "not HttpOnly"
	}
	if attrs["path"] != "/" {
		return fmt.Sprintf("Path=%q, want /", attrs["path"])
	}
	_, secure := attrs["secure"]
	if secure == disableSSL {
		return fmt.Sprintf("Secure=%v with the test override=%v", secure, disableSSL)
	}
	exp, hasExp := attrs["expires"]
	ma, hasMA := attrs["max-age"]
	if !hasExp && !hasMA {
		return "neither Expires nor Max-Age: does not expire after the configured lifetime"
	}
	if hasExp {
		t, err := http.ParseTime(exp)
		if err != nil {
			return "unparsable Expires " + exp
		}
		if d := t.Sub(t0.Add(lifetime)); d > 2*time.Minute || d < -2*time.Minute {
			return fmt.Sprintf("Expires=%s is %s away from now+lifetime (%s)", exp, d.Round(time.Second), lifetime)
		}
	}
	if hasMA {
		secs, err := strconv.Atoi(ma)
		if err != nil {
			return "unparsable Max-Age " + ma
		}
		if d := time.Duration(secs)*time.Second - lifetime; d > 2*time.Minute || d < -2*time.Minute {
			return fmt.Sprintf("Max-Age=%s is %s away from the lifetime (%s)", ma, d, lifetime)
		}
	}
	return ""
}

// ---------------------------------------------------------------------------
// concurrent rounds

type c10Write struct {
	Name string `json:"name"`
	Val  string `json:"val"` // "" = delete
}

type c10CReq struct {
	id     int
	g      int // goroutine / client id
	sess   int // index into round sessions; -1 = cookie-less
	path   string
	writes []c10Write

	// observations (written only by the goroutine that runs the request)
	tCall, tEnter, tWrite, tRet int64
	entered                     bool
	returned                    bool
	saw                         []string
	clientSet                   []string
	panicked                    string
	hung                        bool
	skipped                     bool
}

type c10RegIn struct {
	Write bool
	Val   string
}

type c10Round struct {
	c        C10Case
	host     string
	handler  http.Handler
	base     time.Time
	sessIDs  []string
	reqs     []*c10CReq
	inFlight int32
	maxIn    int32
	aborted  int32 // a request hung: the rest of the round is skipped
	res      *C10Result
	mu       sync.Mutex
}

func (rd *c10Round) now() int64 { return int64(time.Since(rd.base)) }

func (rd *c10Round) violate(sig, msg string, detail interface{}) {
	rd.mu.Lock()
	if len(rd.res.Violations) < 20 {
		rd.res.Violations = append(rd.res.Violations, C10Viol{Sig: sig, Msg: msg, Step: -1, Detail: detail})
	}
	rd.mu.Unlock()
}

func (rd *c10Round) backend(w http.ResponseWriter, r *http.Request) {
	id, err := strconv.Atoi(r.Header.Get("X-C10-Req"))
	if err != nil || id < 0 || id >= len(rd.reqs) {
		return
	}
	q := rd.reqs[id]
	q.tEnter = rd.now()
	q.entered = true
	n := atomic.AddInt32(&rd.inFlight, 1)
	for {
		m := atomic.LoadInt32(&rd.maxIn)
		if n <= m || atomic.CompareAndSwapInt32(&rd.maxIn, m, n) {
			break
		}
	}
	q.saw = append([]string(nil), r.Header["Cookie"]...)
	h := w.Header()
	for _, wr := range q.writes {
		if wr.Val == "" {
			h.Add("Set-Cookie", wr.Name+"=gone; Path=/; Max-Age=0")
		} else {
			h.Add("Set-Cookie", wr.Name+"="+wr.Val+"; Path=/; Max-Age=3600")
		}
	}
	q.tWrite = rd.now()
	w.WriteHeader(200)
	w.Write([]byte("ok"))
	atomic.AddInt32(&rd.inFlight, -1)
}

// do runs one request on the calling goroutine's behalf (on its own bare goroutine).
func (rd *c10Round) do(q *c10CReq) {
	if atomic.LoadInt32(&rd.aborted) != 0 {
		q.skipped = true
		return
	}
	var raw strings.Builder
	fmt.Fprintf(&raw, "GET %s HTTP/1.1\r\nHost: %s\r\nX-C10-Req: %d\r\n", q.path, rd.host, q.id)
	own := fmt.Sprintf("own=g%dr%d", q.g, q.id)
	if q.sess >= 0 {
		if q.id%2 == 0 {
			fmt.Fprintf(&raw, "Cookie: %s; %s=%s\r\n", own, rd.c.CookieName, rd.sessIDs[q.sess])
		} else {
			fmt.Fprintf(&raw, "Cookie: %s=%s; %s\r\n", rd.c.CookieName, rd.sessIDs[q.sess], own)
		}
	} else {
		fmt.Fprintf(&raw, "Cookie: %s\r\n", own)
	}
	raw.WriteString("\r\n")
	req, err := c10Request(raw.String())
	if err != nil {
		q.panicked = "harness: " + err.Error()
		return
	}
	rec := newC10Recorder()
	q.tCall = rd.now()
	q.panicked, q.hung = c10Serve(rd.handler, rec, req)
	q.tRet = rd.now()
	if q.hung {
		atomic.StoreInt32(&rd.aborted, 1)
	}
	q.returned = !q.hung && q.panicked == ""
	if rec.final != nil && !q.hung {
		q.clientSet = append([]string(nil), rec.final["Set-Cookie"]...)
	}
}

// c10PairBarrier makes consecutive arrivals at one hook point meet in pairs.
type c10PairBarrier struct {
	mu       sync.Mutex
	waiting  map[string]chan struct{}
	met      int
	timeouts int
}

func (b *c10PairBarrier) at(name string) {
	b.mu.Lock()
	if ch, ok := b.waiting[name]; ok {
		delete(b.waiting, name)
		close(ch)
		b.met++
		b.mu.Unlock()
		return
	}
	ch := make(chan struct{})
	b.waiting[name] = ch
	b.mu.Unlock()
	select {
	case <-ch:
	case <-time.After(2 * time.Second):
		b.mu.Lock()
		if b.waiting[name] == ch {
			delete(b.waiting, name)
			b.timeouts++
		}
		b.mu.Unlock()
	}
}

var c10Yield uint32

func c10RunConc(c C10Case) C10Result {
	res := C10Result{ID: c.ID, Kind: "conc"}
	rng := rand.New(rand.NewSource(c.Seed))
	G := c.Goroutines
	if G < 2 {
		G = 2
	}
	nSess := c.Sessions
	if nSess < 2 {
		nSess = 2
	}
	limit := c.CacheLimit
	if limit <= 0 {
		limit = 1000
	}
	lifetime := time.Duration(c.LifetimeS) * time.Second
	rd := &c10Round{c: c, res: &res, base: time.Now()}
	rd.host = c10HostGroups[rng.Intn(len(c10HostGroups))][rng.Intn(3)]
	cache := sessions.NewCache(c.CookieName, lifetime, limit, c.DisableSSL)
	rd.handler = cache.SessionHandler(http.HandlerFunc(rd.backend), nil)
	mode := "free"
	if c.Forced {
		mode = "forced+free"
	}
	if c.Evict {
		mode += "+evicting"
	}
	res.Class = fmt.Sprintf("conc|goroutines=%d|sessions=%d|limit=%d|%s", G, nSess, limit, mode)

	newReq := func(g, sess int, path string, writes []c10Write) *c10CReq {
		q := &c10CReq{id: len(rd.reqs), g: g, sess: sess, path: path, writes: writes}
		rd.reqs = append(rd.reqs, q)
		return q
	}
	paths := []string{"/", "/a", "/a/b", "/x/y?z=1", "/index.html"}
	short := c.ID[strings.LastIndex(c.ID, "-")+1:]

	// --- sessions: the first half is issued by the agent up front, the rest are IDs the cache has
	// never seen (what a browser keeps sending after an agent restart) and are first used concurrently.
	nIssued := (nSess + 1) / 2
	rd.sessIDs = make([]string, nSess)
	type plan struct {
		pre    []*c10CReq // sequential session creation
		forced [][3]*c10CReq
		bursts [][]*c10CReq // K first uses of one new session ID, last element = verification request
		perG   [][]*c10CReq
		final  []*c10CReq
	}
	var pl plan
	for k := 0; k < nSess; k++ {
		if k < nIssued {
			pl.pre = append(pl.pre, newReq(G, -1, "/", nil))
		} else {
			rd.sessIDs[k] = fmt.Sprintf("restart-%s-%d", short, k)
		}
	}
	// forced trials use their own fresh sessions, appended to the session list
	nForced := 0
	if c.Forced {
		nForced = 3
	}
	seqNo := map[[2]int]int{} // (sess, writer) -> counter
	val := func(sess, writer int) string {
		seqNo[[2]int{sess, writer}]++
		return fmt.Sprintf("s%d.w%d.n%d", sess, writer, seqNo[[2]int{sess, writer}])
	}
	for t := 0; t < nForced; t++ {
		k := len(rd.sessIDs)
		rd.sessIDs = append(rd.sessIDs, fmt.Sprintf("restart-%s-f%d", short, t))
		a := newReq(G+1, k, paths[rng.Intn(len(paths))], []c10Write{{"fa", val(k, 90)}})
		b := newReq(G+2, k, paths[rng.Intn(len(paths))], []c10Write{{"fb", val(k, 91)}})
		v := newReq(G, k, "/", nil)
		pl.forced = append(pl.forced, [3]*c10CReq{a, b, v})
	}
	// burst trials: K requests bearing one never-seen session ID, aligned at the lookup hook point
	nBurst, K := 0, 3*G
	if K > 40 {
		K = 40
	}
	if c.Forced && !c.Evict {
		nBurst = 12
	}
	for t := 0; t < nBurst; t++ {
		k := len(rd.sessIDs)
		rd.sessIDs = append(rd.sessIDs, fmt.Sprintf("restart-%s-b%d", short, t))
		var b []*c10CReq
		for i := 0; i < K; i++ {
			b = append(b, newReq(G+3+i, k, paths[rng.Intn(len(paths))], []c10Write{{fmt.Sprintf("b%d", i), val(k, 100+i)}}))
		}
		b = append(b, newReq(G, k, "/", nil))
		pl.bursts = append(pl.bursts, b)
	}
	// free-running phase
	ops := c.Steps
	if ops < 4 {
		ops = 4
	}
	// every never-seen session ID is first used by all goroutines at once (a burst at a fixed op index)
	waves := map[int]int{}   // op index -> session every goroutine uses at that index
	firstAt := map[int]int{} // session -> op index of its burst
	nFresh := nSess - nIssued
	for j := 0; j < nFresh; j++ {
		at := j * ops / nFresh
		waves[at] = nIssued + j
		firstAt[nIssued+j] = at
	}
	pl.perG = make([][]*c10CReq, G)
	for g := 0; g < G; g++ {
		for i := 0; i < ops; i++ {
			sess, isWave := waves[i]
			if !isWave {
				for {
					sess = rng.Intn(nSess)
					if at, fresh := firstAt[sess]; !fresh || at < i {
						break
					}
				}
				if rng.Intn(12) == 0 {
					pl.perG[g] = append(pl.perG[g], newReq(g, -1, paths[rng.Intn(len(paths))], nil))
					continue
				}
			}
			var ws []c10Write
			switch p := rng.Intn(10); {
			case p < 5:
				ws = append(ws, c10Write{fmt.Sprintf("g%d", g), val(sess, g)})
			case p == 5:
				ws = append(ws, c10Write{fmt.Sprintf("g%d", g), val(sess, g)}, c10Write{fmt.Sprintf("g%db", g), val(sess, g)})
			case p == 6:
				ws = append(ws, c10Write{fmt.Sprintf("g%d", g), ""})
			case p == 7:
				ws = append(ws, c10Write{"shared", val(sess, g)})
			}
			if isWave && len(ws) == 0 {
				ws = append(ws, c10Write{fmt.Sprintf("g%d", g), val(sess, g)})
			}
			pl.perG[g] = append(pl.perG[g], newReq(g, sess, paths[rng.Intn(len(paths))], ws))
		}
	}
	for k := range rd.sessIDs {
		pl.final = append(pl.final, newReq(G, k, "/", nil))
	}

	// --- run
	verifhook.Set(nil)
	for k, q := range pl.pre {
		rd.do(q)
		id := ""
		for _, line := range q.clientSet {
			nm, v, attrs := c10ParseSetCookie(line)
			if nm == c.CookieName {
				id = v
				if msg := c10CheckSessionAttrs(v, attrs, c.DisableSSL, rd.base, lifetime); msg != "" {
					rd.violate("session-cookie-attrs", fmt.Sprintf("session cookie %q: %s", line, msg), nil)
				}
				res.Issued++
			}
		}
		if id == "" {
			if q.panicked != "" {
				rd.violate("handler-panic", "session handler panicked: "+q.panicked, nil)
			} else {
				rd.violate("session-cookie-not-issued", fmt.Sprintf("a client without session cookie received Set-Cookie %q", q.clientSet), nil)
			}
			res.PorcVerdict = "skipped"
			return res
		}
		rd.sessIDs[k] = id
	}
	if c.Forced {
		bar := &c10PairBarrier{waiting: map[string]chan struct{}{}}
		verifhook.Set(bar.at)
		for _, tr := range pl.forced {
			var wg sync.WaitGroup
			for _, q := range tr[:2] {
				q := q
				wg.Add(1)
				go func() { defer wg.Done(); rd.do(q) }()
			}
			wg.Wait()
			res.ForcedTrials++
		}
		verifhook.Set(nil)
		for _, tr := range pl.forced {
			rd.do(tr[2])
		}
		bar.mu.Lock()
		res.BarrierMet, res.BarrierTimeout = bar.met, bar.timeouts
		bar.mu.Unlock()
		for _, b := range pl.bursts {
			// the first K arrivals at the lookup point are the K requests' first lookups: hold them
			// until all are there (2 s bound), so that they look the new ID up at the same time
			var arrived int32
			release := make(chan struct{})
			var timeouts int32
			n := len(b) - 1
			verifhook.Set(func(name string) {
				if name != "sessions.jar.lookup" {
					return
				}
				a := int(atomic.AddInt32(&arrived, 1))
				if a > n {
					return
				}
				if a == n {
					close(release)
					return
				}
				select {
				case <-release:
				case <-time.After(2 * time.Second):
					atomic.AddInt32(&timeouts, 1)
				}
			})
			var wg sync.WaitGroup
			for _, q := range b[:n] {
				q := q
				wg.Add(1)
				go func() { defer wg.Done(); rd.do(q) }()
			}
			wg.Wait()
			verifhook.Set(nil)
			rd.do(b[n])
			res.BurstTrials++
			if atomic.LoadInt32(&timeouts) == 0 && int(atomic.LoadInt32(&arrived)) >= n {
				res.BarrierMet++
			} else {
				res.BarrierTimeout++
			}
		}
	}
	// free-running: hook points yield now and then to diversify schedules
	verifhook.Set(func(string) {
		if atomic.AddUint32(&c10Yield, 1)%3 == 0 {
			runtime.Gosched()
		}
	})
	{
		var wg sync.WaitGroup
		// cyclic barrier for the waves
		type wave struct {
			n  int32
			ch chan struct{}
		}
		wv := map[int]*wave{}
		for i := range waves {
			wv[i] = &wave{ch: make(chan struct{})}
		}
		for g := 0; g < G; g++ {
			g := g
			wg.Add(1)
			go func() {
				defer wg.Done()
				for i, q := range pl.perG[g] {
					if w, ok := wv[i]; ok {
						if int(atomic.AddInt32(&w.n, 1)) == G {
							close(w.ch)
						}
						select {
						case <-w.ch:
						case <-time.After(2 * time.Second):
						}
					}
					rd.do(q)
				}
			}()
		}
		wg.Wait()
	}
	verifhook.Set(nil)
	for _, q := range pl.final {
		rd.do(q)
	}
	res.MaxInFlight = int(atomic.LoadInt32(&rd.maxIn))
	res.Requests = len(rd.reqs)

	// --- oracles
	rd.judge(pl.forced, pl.bursts, pl.final)
	return res
}

var c10ConcTagRe = regexp.MustCompile(`^s(\d+)\.w\d+\.n\d+$`)

func (rd *c10Round) judge(forced [][3]*c10CReq, bursts [][]*c10CReq, final []*c10CReq) {
	c, res := rd.c, rd.res
	// per request: crash, leak, own cookie, safety (i); collect per-register observations
	type regKey struct {
		sess int
		name string
	}
	written := map[regKey]bool{}
	for _, q := range rd.reqs {
		for _, w := range q.writes {
			written[regKey{q.sess, w.Name}] = true
			res.CookiesSet++
			if w.Val == "" {
				res.Deletes++
			}
		}
	}
	sawMap := make([]map[string]string, len(rd.reqs))
	for _, q := range rd.reqs {
		if q.skipped {
			continue
		}
		if q.hung {
			res.Problems = append(res.Problems, fmt.Sprintf("request %d did not return within 20s", q.id))
			continue
		}
		if q.panicked != "" {
			rd.violate("handler-panic", fmt.Sprintf("request %d (session %d): the session handler panicked (in the agent this goroutine is bare: process exit): %s", q.id, q.sess, q.panicked), nil)
			continue
		}
		if !q.entered {
			res.Problems = append(res.Problems, fmt.Sprintf("request %d: backend handler was not invoked", q.id))
			continue
		}
		for _, line := range q.clientSet {
			nm, _, _ := c10ParseSetCookie(line)
			if nm != c.CookieName || q.sess >= 0 {
				sig := "backend-cookie-leaked-to-client"
				if nm == c.CookieName {
					sig = "session-cookie-issued-to-bearer"
				}
				rd.violate(sig, fmt.Sprintf("request %d (session %d) received Set-Cookie %q", q.id, q.sess, line), nil)
			}
		}
		if q.sess < 0 && len(q.clientSet) == 0 {
			rd.violate("session-cookie-not-issued", fmt.Sprintf("request %d presented no session cookie and received none", q.id), nil)
		}
		m := map[string]string{}
		ownWant := fmt.Sprintf("g%dr%d", q.g, q.id)
		ownSeen := 0
		for _, p := range c10ParseCookieLines(q.saw) {
			switch {
			case p.Name == "own":
				ownSeen++
				if p.Value != ownWant {
					rd.violate("client-cookie-lost-or-altered", fmt.Sprintf("request %d: backend saw own=%s, the client sent own=%s", q.id, p.Value, ownWant), q.saw)
				}
			case p.Name == c.CookieName:
				rd.violate("session-cookie-reached-backend", fmt.Sprintf("request %d (session %d): backend received the session cookie %s", q.id, q.sess, p.String()), q.saw)
			default:
				res.JarCookies++
				tm := c10ConcTagRe.FindStringSubmatch(p.Value)
				if tm == nil {
					rd.violate("backend-cookies-differ-from-jar", fmt.Sprintf("request %d (session %d): backend saw a cookie nobody set: %s", q.id, q.sess, p.String()), q.saw)
					continue
				}
				if tm[1] != strconv.Itoa(q.sess) {
					rd.violate("cross-session-cookie", fmt.Sprintf("request %d bearing session %d: the backend received %s, set in session %s; Cookie header at the backend %q", q.id, q.sess, p.String(), tm[1], q.saw), nil)
					continue
				}
				if old, dup := m[p.Name]; dup && old != p.Value {
					rd.violate("backend-cookies-differ-from-jar", fmt.Sprintf("request %d (session %d): cookie %s restored twice with different values %q and %q", q.id, q.sess, p.Name, old, p.Value), q.saw)
				}
				if !written[regKey{q.sess, p.Name}] {
					rd.violate("backend-cookies-differ-from-jar", fmt.Sprintf("request %d (session %d): backend saw %s, a name never set in this session", q.id, q.sess, p.String()), q.saw)
				}
				m[p.Name] = p.Value
			}
		}
		if ownSeen != 1 {
			rd.violate("client-cookie-lost-or-altered", fmt.Sprintf("request %d: backend saw the client's own cookie %d times: %q", q.id, ownSeen, q.saw), nil)
		}
		sawMap[q.id] = m
	}
	// interleaving signature: order in which the free-running requests entered the backend
	{
		type ent struct {
			id int
			t  int64
		}
		var es []ent
		for _, q := range rd.reqs {
			if !q.hung && !q.skipped && q.entered && q.g < c.Goroutines {
				es = append(es, ent{q.id, q.tEnter})
			}
		}
		sort.Slice(es, func(i, j int) bool { return es[i].t < es[j].t })
		h := uint64(1469598103934665603)
		for _, e := range es {
			h ^= uint64(e.id)
			h *= 1099511628211
		}
		res.OrderSig = strconv.FormatUint(h, 16)
	}
	if c.Evict || atomic.LoadInt32(&rd.aborted) != 0 {
		// eviction rounds assert safety only; after a hung request the history is incomplete
		res.PorcVerdict = "skipped"
		return
	}

	// (iii)' forced first uses: both responses' cookies must be in the one jar of that session
	for _, tr := range forced {
		a, b, v := tr[0], tr[1], tr[2]
		if !a.returned || !b.returned || sawMap[v.id] == nil {
			continue
		}
		got := sawMap[v.id]
		if got["fa"] != a.writes[0].Val || got["fb"] != b.writes[0].Val {
			rd.violate("first-use-jar-lost", fmt.Sprintf("two overlapping first requests bearing the new session ID %s set fa=%s and fb=%s; a later request of that session reached the backend with %q", rd.sessIDs[a.sess], a.writes[0].Val, b.writes[0].Val, v.saw), nil)
		}
	}

	lostSess := map[int]bool{} // sessions already refuted by the direct first-use oracle
	for _, b := range bursts {
		n := len(b) - 1
		v := b[n]
		got := sawMap[v.id]
		if got == nil {
			continue
		}
		var lost []string
		complete := true
		for _, q := range b[:n] {
			if !q.returned {
				complete = false
				break
			}
			if got[q.writes[0].Name] != q.writes[0].Val {
				lost = append(lost, q.writes[0].Name+"="+q.writes[0].Val)
			}
		}
		if complete && len(lost) > 0 {
			lostSess[v.sess] = true
			rd.violate("first-use-jar-lost", fmt.Sprintf("%d overlapping first requests bearing the new session ID %s each set one cookie; a later request of that session reached the backend without %d of them (%s ...): Cookie header %q", n, rd.sessIDs[v.sess], len(lost), lost[0], v.saw), nil)
		}
	}

	// (ii) linearizability per (session, cookie name)
	parts := map[regKey][]porcupine.Operation{}
	for _, q := range rd.reqs {
		if q.sess < 0 || sawMap[q.id] == nil {
			continue
		}
		for k := range written {
			if k.sess != q.sess {
				continue
			}
			parts[k] = append(parts[k], porcupine.Operation{ClientId: q.g, Input: c10RegIn{}, Call: q.tCall, Output: sawMap[q.id][k.name], Return: q.tEnter})
		}
		if !q.returned {
			continue
		}
		for _, w := range q.writes {
			k := regKey{q.sess, w.Name}
			parts[k] = append(parts[k], porcupine.Operation{ClientId: q.g, Input: c10RegIn{Write: true, Val: w.Val}, Call: q.tWrite, Output: "", Return: q.tRet})
		}
	}
	model := porcupine.Model{
		Init: func() interface{} { return "" },
		Step: func(state, input, output interface{}) (bool, interface{}) {
			in := input.(c10RegIn)
			if in.Write {
				return true, in.Val
			}
			return output.(string) == state.(string), state
		},
		DescribeOperation: func(input, output interface{}) string {
			in := input.(c10RegIn)
			if in.Write {
				return "set(" + in.Val + ")"
			}
			return "saw(" + output.(string) + ")"
		},
	}
	keys := make([]regKey, 0, len(parts))
	for k := range parts {
		keys = append(keys, k)
	}
	sort.Slice(keys, func(i, j int) bool {
		if keys[i].sess != keys[j].sess {
			return keys[i].sess < keys[j].sess
		}
		return keys[i].name < keys[j].name
	})
	deadline := time.Now().Add(60 * time.Second)
	res.PorcVerdict = "ok"
	for _, k := range keys {
		if lostSess[k.sess] {
			// already refuted above; a refuted history with 40 overlapping reads per register is
			// also the exponential case for the checker
			continue
		}
		hist := parts[k]
		res.PorcOps += len(hist)
		res.PorcPartitions++
		// evidence: how many reads overlap a write of the same register
		for _, r := range hist {
			if r.Input.(c10RegIn).Write {
				continue
			}
			for _, w := range hist {
				if w.Input.(c10RegIn).Write && w.Call <= r.Return && r.Call <= w.Return {
					res.Overlaps++
					break
				}
			}
		}
		left := time.Until(deadline)
		if left <= 0 {
			res.PorcVerdict = "unknown"
			break
		}
		switch porcupine.CheckOperationsTimeout(model, hist, left) {
		case porcupine.Ok:
		case porcupine.Unknown:
			res.PorcVerdict = "unknown"
		case porcupine.Illegal:
			if res.PorcVerdict != "unknown" {
				res.PorcVerdict = "illegal"
			}
			type op struct {
				Client int    `json:"client"`
				Op     string `json:"op"`
				Call   int64  `json:"call_ns"`
				Return int64  `json:"return_ns"`
			}
			var w []op
			sort.Slice(hist, func(i, j int) bool { return hist[i].Call < hist[j].Call })
			for _, o := range hist {
				w = append(w, op{o.ClientId, model.DescribeOperation(o.Input, o.Output), o.Call, o.Return})
			}
			rd.violate("not-linearizable", fmt.Sprintf("the history of cookie %q in session %d (%s) is not linearizable as a register: %d operations", k.name, k.sess, c10Trunc(rd.sessIDs[k.sess]), len(hist)), w)
		}
	}

	// (iii) quiescent comparison: single-writer cookies must hold their writer's last value
	last := map[regKey]string{}
	multi := map[regKey]bool{}
	for _, q := range rd.reqs { // program order per goroutine = creation order
		if !q.returned {
			for _, w := range q.writes {
				multi[regKey{q.sess, w.Name}] = true // outcome unknown: do not judge
			}
			continue
		}
		for _, w := range q.writes {
			k := regKey{q.sess, w.Name}
			if w.Name == "shared" {
				multi[k] = true
			}
			last[k] = w.Val
		}
	}
	for _, q := range final {
		got := sawMap[q.id]
		if got == nil {
			continue
		}
		for k, want := range last {
			if k.sess != q.sess || multi[k] {
				continue
			}
			res.QuiescentRegs++
			if got[k.name] != want {
				rd.violate("quiescent-differs-from-model", fmt.Sprintf("after all requests returned, session %d (%s) cookie %s: backend saw %q, the model jar holds %q (Cookie header %q)", k.sess, c10Trunc(rd.sessIDs[k.sess]), k.name, got[k.name], want, q.saw), nil)
			}
		}
	}
}
