package worker

// C10 "served" histories: the session handler runs under a real net/http
// server (whose response writers can be hijacked, flushed and unwrapped) and
// wraps a real httputil.ReverseProxy to a real backend server, so that what
// the reverse proxy does with the writer it is given (flush on an interval,
// relay interim responses, take the connection over for a 101) is the real
// thing rather than the recorder's imitation of it.
//
// Backend cookies all carry the name prefix "bk"; the client's own cookies
// the prefix "own". A response the client reads must never contain a
// Set-Cookie whose name starts with "bk"; the backend must see, for a known
// session, exactly the client's own cookies plus what the session's earlier
// responses set.

import (
	"bufio"
	"fmt"
	"io"
	"math/rand"
	"net"
	"net/http"
	"net/http/httputil"
	"net/url"
	"sort"
	"strings"
	"sync"
	"time"

	"github.com/google/inverting-proxy/agent/sessions"
)

type c10ServedStep struct {
	N          int      `json:"n"`
	Who        string   `json:"who"`
	Kind       string   `json:"kind"` // plain | stream | upgrade | upgrade-declined
	Sent       []string `json:"client_cookie"`
	BackendSet []string `json:"backend_set_cookie"`
	BackendSaw string   `json:"backend_saw_cookie"`
	Status     int      `json:"client_status"`
	ClientSet  []string `json:"client_saw_set_cookie"`
}

type c10ServedBackend struct {
	mu  sync.Mutex
	set map[string][]string // X-Tok -> Set-Cookie values to emit
	saw map[string]string   // X-Tok -> Cookie header received
}

func (b *c10ServedBackend) ServeHTTP(w http.ResponseWriter, r *http.Request) {
	tok := r.Header.Get("X-Tok")
	b.mu.Lock()
	b.saw[tok] = strings.Join(r.Header["Cookie"], "; ")
	set := b.set[tok]
	b.mu.Unlock()
	for _, v := range set {
		w.Header().Add("Set-Cookie", v)
	}
	switch r.Header.Get("X-Kind") {
	case "upgrade":
		hj, ok := w.(http.Hijacker)
		if !ok {
			w.WriteHeader(500)
			return
		}
		conn, brw, err := hj.Hijack()
		if err != nil {
			return
		}
		defer conn.Close()
		fmt.Fprintf(brw, "HTTP/1.1 101 Switching Protocols\r\nUpgrade: websocket\r\nConnection: Upgrade\r\nSec-WebSocket-Accept: s3pPLMBiTxaQ9kYGzzhZRbK+xOo=\r\n")
		for _, v := range set {
			fmt.Fprintf(brw, "Set-Cookie: %s\r\n", v)
		}
		fmt.Fprintf(brw, "\r\n")
		brw.Flush()
		conn.SetDeadline(time.Now().Add(5 * time.Second))
		io.Copy(io.Discard, brw)
	case "upgrade-declined":
		w.Header().Set("Content-Type", "text/plain")
		w.WriteHeader(426)
		io.WriteString(w, "upgrade required elsewhere "+tok)
	case "stream":
		w.Header().Set("Content-Type", "text/event-stream")
		w.WriteHeader(200)
		for i := 0; i < 3; i++ {
			fmt.Fprintf(w, "data: %s %d\n\n", tok, i)
			if f, ok := w.(http.Flusher); ok {
				f.Flush()
			}
			time.Sleep(2 * time.Millisecond)
		}
	default:
		w.Header().Set("Content-Type", "text/plain")
		io.WriteString(w, "body "+tok)
	}
}

func c10RunServed(c C10Case) C10Result {
	res := C10Result{ID: c.ID, Kind: c.Kind}
	rng := rand.New(rand.NewSource(c.Seed))
	var trace []c10ServedStep
	violate := func(n int, sig, msg string) {
		res.Violations = append(res.Violations, C10Viol{Sig: sig, Msg: msg, Step: n})
	}
	problem := func(msg string) C10Result {
		res.Problems = append(res.Problems, msg)
		return res
	}

	be := &c10ServedBackend{set: map[string][]string{}, saw: map[string]string{}}
	bl, err := net.Listen("tcp", "127.0.0.1:0")
	if err != nil {
		return problem("listen: " + err.Error())
	}
	bsrv := &http.Server{Handler: be}
	go bsrv.Serve(bl)
	defer bsrv.Close()
	burl, _ := url.Parse("http://" + bl.Addr().String())
	rp := httputil.NewSingleHostReverseProxy(burl)
	rp.FlushInterval = 100 * time.Millisecond // as the agent configures it
	rp.ErrorLog = nil
	lifetime := time.Duration(c.LifetimeS) * time.Second
	cache := sessions.NewCache(c.CookieName, lifetime, 1000, c.DisableSSL)
	fl, err := net.Listen("tcp", "127.0.0.1:0")
	if err != nil {
		return problem("listen: " + err.Error())
	}
	fsrv := &http.Server{Handler: cache.SessionHandler(rp, nil)}
	go fsrv.Serve(fl)
	defer fsrv.Close()
	host := fl.Addr().String()

	nSess := c.Sessions
	if nSess < 1 {
		nSess = 1
	}
	ids := make([]string, nSess)              // session IDs as issued
	model := make([]map[string]string, nSess) // cookies the session's backend responses set
	for i := range model {
		model[i] = map[string]string{}
	}
	kinds := map[string]int{}
	for n := 0; n < c.Steps; n++ {
		si := rng.Intn(nSess)
		tok := fmt.Sprintf("%s-%d", c.ID, n)
		kind := []string{"plain", "plain", "stream", "upgrade", "upgrade", "upgrade-declined"}[rng.Intn(6)]
		if n < nSess {
			si = n // every session starts with one request that may be of any kind
		}
		kinds[kind]++
		var set []string
		setPairs := map[string]string{}
		for k := rng.Intn(3); k > 0; k-- {
			name := fmt.Sprintf("bk%d", rng.Intn(4))
			if kind == "upgrade" {
				name = fmt.Sprintf("bkws%d", rng.Intn(2))
			}
			val := fmt.Sprintf("v%dx%dx%d", si, n, k)
			attrs := []string{"; Path=/", "; Path=/; Max-Age=3600", "; Path=/; HttpOnly", "; Path=/; SameSite=Lax"}[rng.Intn(4)]
			set = append(set, name+"="+val+attrs)
			setPairs[name] = val
		}
		be.mu.Lock()
		be.set[tok] = set
		be.mu.Unlock()
		own := ""
		if rng.Intn(2) == 0 {
			own = fmt.Sprintf("own%d=o%d", rng.Intn(3), n)
		}
		var sent []string
		if own != "" {
			sent = append(sent, own)
		}
		if ids[si] != "" {
			sent = append(sent, c.CookieName+"="+ids[si])
		}
		if len(sent) == 2 && rng.Intn(2) == 0 {
			sent[0], sent[1] = sent[1], sent[0]
		}

		conn, err := net.DialTimeout("tcp", host, 5*time.Second)
		if err != nil {
			return problem("dial: " + err.Error())
		}
		var b strings.Builder
		fmt.Fprintf(&b, "GET /p/%d?q=%d HTTP/1.1\r\nHost: %s\r\nX-Tok: %s\r\nX-Kind: %s\r\n", n, si, host, tok, kind)
		if kind == "upgrade" || kind == "upgrade-declined" {
			b.WriteString("Connection: Upgrade\r\nUpgrade: websocket\r\nSec-WebSocket-Version: 13\r\nSec-WebSocket-Key: dGhlIHNhbXBsZSBub25jZQ==\r\n")
		} else {
			b.WriteString("Connection: close\r\n")
		}
		if len(sent) > 0 {
			b.WriteString("Cookie: " + strings.Join(sent, "; ") + "\r\n")
		}
		b.WriteString("\r\n")
		conn.SetDeadline(time.Now().Add(20 * time.Second))
		if _, err := io.WriteString(conn, b.String()); err != nil {
			conn.Close()
			return problem("write: " + err.Error())
		}
		resp, err := http.ReadResponse(bufio.NewReader(conn), nil)
		if err != nil {
			conn.Close()
			if ne, ok := err.(net.Error); ok && ne.Timeout() {
				// 20 s without an answer says something about this machine, not about cookies
				return problem(fmt.Sprintf("step %d (%s): no response within 20 s: %v", n, kind, err))
			}
			// net/http recovers a panicking handler and drops the connection
			violate(n, "served:connection-dropped-without-response", fmt.Sprintf("step %d (%s): the server dropped the connection without a response (a handler that panics does that): %v", n, kind, err))
			break
		}
		if resp.StatusCode != 101 {
			io.Copy(io.Discard, resp.Body)
		}
		conn.Close()

		be.mu.Lock()
		saw, called := be.saw[tok]
		be.mu.Unlock()
		st := c10ServedStep{N: n, Who: fmt.Sprintf("s%d", si), Kind: kind, Sent: sent, BackendSet: set, BackendSaw: saw,
			Status: resp.StatusCode, ClientSet: resp.Header["Set-Cookie"]}
		trace = append(trace, st)
		res.CookiesSet += len(set)

		// -- the client's view
		var sessionLines []string
		for _, line := range resp.Header["Set-Cookie"] {
			name := line
			if i := strings.IndexAny(name, "=;"); i >= 0 {
				name = name[:i]
			}
			name = strings.TrimSpace(name)
			switch {
			case name == c.CookieName:
				sessionLines = append(sessionLines, line)
			case strings.HasPrefix(name, "bk"):
				violate(n, "backend-cookie-leaked-to-client", fmt.Sprintf("step %d (%s request through the session handler under a real server and a real reverse proxy; response status %d): the client received the backend's Set-Cookie %q", n, kind, resp.StatusCode, line))
			default:
				violate(n, "unexpected-set-cookie", fmt.Sprintf("step %d (%s): the client received a Set-Cookie that is neither the session cookie nor from the backend: %q", n, kind, line))
			}
		}
		if ids[si] == "" {
			if len(sessionLines) != 1 {
				violate(n, "session-cookie-not-issued", fmt.Sprintf("step %d (%s, status %d): the client presented no session cookie and received %d (response Set-Cookie: %q)", n, kind, resp.StatusCode, len(sessionLines), resp.Header["Set-Cookie"]))
			} else {
				v := sessionLines[0]
				v = v[strings.Index(v, "=")+1:]
				if i := strings.Index(v, ";"); i >= 0 {
					v = v[:i]
				}
				for j, other := range ids {
					if other == v {
						violate(n, "session-id-reused", fmt.Sprintf("step %d: issued session ID %q is session %d's", n, v, j))
					}
				}
				ids[si] = v
				res.Issued++
			}
		} else {
			if len(sessionLines) != 0 {
				violate(n, "session-cookie-issued-to-bearer", fmt.Sprintf("step %d: the client presented %s=%s and was issued another session cookie %q", n, c.CookieName, ids[si], sessionLines))
			}
		}

		// -- the backend's view
		if !called {
			violate(n, "served:backend-not-called", fmt.Sprintf("step %d (%s): the request never reached the backend (client status %d)", n, kind, resp.StatusCode))
			continue
		}
		got := map[string]string{}
		dup := false
		for _, part := range strings.Split(saw, ";") {
			part = strings.TrimSpace(part)
			if part == "" {
				continue
			}
			k, v, _ := strings.Cut(part, "=")
			if _, ok := got[k]; ok {
				dup = true
			}
			got[k] = v
		}
		if _, ok := got[c.CookieName]; ok {
			violate(n, "session-cookie-reached-backend", fmt.Sprintf("step %d: the backend received the session cookie itself; Cookie header at the backend: %q", n, saw))
		}
		want := map[string]string{}
		if own != "" {
			k, v, _ := strings.Cut(own, "=")
			want[k] = v
		}
		bearer := len(sent) > 0 && strings.Contains(strings.Join(sent, "; "), c.CookieName+"=")
		if bearer {
			for k, v := range model[si] {
				want[k] = v
				res.JarCookies++
			}
		}
		delete(got, c.CookieName)
		for k, v := range got {
			if strings.HasPrefix(k, "bkws") {
				if !strings.HasPrefix(v, fmt.Sprintf("v%dx", si)) {
					violate(n, "cross-session-cookie", fmt.Sprintf("step %d (session %d): the backend received %s=%s, which another session's handshake response set", n, si, k, v))
				}
				delete(got, k)
			}
		}
		if dup || !c10SameMap(got, want) {
			sig := "backend-cookies-differ-from-jar"
			for k, v := range got {
				if strings.HasPrefix(k, "bk") && want[k] != v && strings.HasPrefix(v, "v") && !strings.HasPrefix(v, fmt.Sprintf("v%dx", si)) {
					sig = "cross-session-cookie"
				}
			}
			violate(n, sig, fmt.Sprintf("step %d (%s, session %d): the backend received Cookie %q; expected the client's own %q plus the session's %s", n, kind, si, saw, own, c10MapString(model[si])))
		}
		// -- model update: the cookies of this response are stored for the session the request bore,
		// or for the session that this response started. (The cookies of a 101 have names of their
		// own, "bkws...", which the comparison above leaves out: whether the handler remembers the
		// cookies of a handshake response it could not deliver is not what the property is about.)
		if kind != "upgrade" && ids[si] != "" {
			for k, v := range setPairs {
				model[si][k] = v
			}
		}
		if len(res.Violations) > 0 {
			break
		}
	}
	res.Requests = len(trace)
	ks := []string{}
	for k, n := range kinds {
		ks = append(ks, fmt.Sprintf("%s=%d", k, n))
		res.AttrKinds = append(res.AttrKinds, "served-"+k)
	}
	sort.Strings(ks)
	sort.Strings(res.AttrKinds)
	res.Class = fmt.Sprintf("served|sessions=%d|%s", nSess, strings.Join(ks, ","))
	if len(res.Violations) > 0 || c.Sample {
		res.Trace = trace
	}
	return res
}

func c10SameMap(a, b map[string]string) bool {
	if len(a) != len(b) {
		return false
	}
	for k, v := range a {
		if w, ok := b[k]; !ok || w != v {
			return false
		}
	}
	return true
}

func c10MapString(m map[string]string) string {
	var ks []string
	for k, v := range m {
		ks = append(ks, k+"="+v)
	}
	sort.Strings(ks)
	return "{" + strings.Join(ks, "; ") + "}"
}
