package worker

import (
	"encoding/json"

	"github.com/google/inverting-proxy/agent/utils"
)

func init() { Modes["c08"] = c08Main }

// c08Main calls utils.ExponentialBackoffDuration(n) `draws` times for every
// n in the spec and reports min/max per n (nanoseconds).
func c08Main(spec []byte) {
	var s struct {
		Ns    []uint64 `json:"ns"`
		Draws int      `json:"draws"`
	}
	if err := json.Unmarshal(spec, &s); err != nil {
		panic(err)
	}
	Start("c08-pure")
	for _, n := range s.Ns {
		var mn, mx int64
		panicked := Recovered(func() {
			for i := 0; i < s.Draws; i++ {
				d := int64(utils.ExponentialBackoffDuration(uint(n)))
				if i == 0 || d < mn {
					mn = d
				}
				if i == 0 || d > mx {
					mx = d
				}
			}
		})
		Emit(map[string]interface{}{"n": n, "min_ns": mn, "max_ns": mx, "panic": panicked})
	}
}
